/-
  Helper lemmas for C48: builder combinators (Sql/Builder.lean) against the L2 operators.
  Core Lean only.
-/
import DfModel.Sql.Builder
namespace DfModel.Proofs.C48
open DfModel DfModel.Builder

/-- every row has exactly `n` cells -/
def WfRows (n : Nat) (rows : List Row) : Prop := ∀ r ∈ rows, r.length = n

theorem mapM_ok_map {α β : Type} (f : α → Except RtErr β) (g : α → β) :
    ∀ (l : List α), (∀ a ∈ l, f a = .ok (g a)) → l.mapM f = .ok (l.map g)
  | [], _ => rfl
  | a :: l, h => by
    have h1 := h a (by simp)
    have h2 := mapM_ok_map f g l (fun b hb => h b (by simp [hb]))
    simp only [List.mapM_cons, h1, h2, List.map_cons]
    rfl

theorem mapM_ok_id {α : Type} (f : α → Except RtErr α) (l : List α) (h : ∀ a ∈ l, f a = .ok a) : l.mapM f = .ok l := by
  have := mapM_ok_map f id l (by simpa using h)
  simpa using this

theorem eval_col_append (pre : Row) (x : Val) (post : Row) (env : Env) :
    eval (.col pre.length) (pre ++ x :: post) env = .ok x := by
  rw [eval]
  simp

theorem evalExprs_idColsFrom : ∀ (mid pre : Row) (env : Env),
    evalExprs (idColsFrom pre.length mid.length) (pre ++ mid) env = .ok mid
  | [], pre, env => by simp [idColsFrom, evalExprs]; rfl
  | x :: mid, pre, env => by
    have ih := evalExprs_idColsFrom mid (pre ++ [x]) env
    simp only [List.length_append, List.length_singleton, List.append_assoc, List.singleton_append] at ih
    unfold evalExprs at ih ⊢
    simp only [List.length_cons, idColsFrom, List.mapM_cons, eval_col_append, ih]
    rfl

theorem evalExprs_idCols (r : Row) (env : Env) : evalExprs (idCols r.length) r env = .ok r := by
  have := evalExprs_idColsFrom r [] env
  simpa [idCols] using this

/-- the identity projection returns its input (on rows of the declared width) -/
theorem evalProject_idCols (n : Nat) (env : Env) (rows : List Row) (h : WfRows n rows) :
    evalProject (idCols n) env rows = .ok rows := by
  unfold evalProject
  apply mapM_ok_id
  intro r hr
  rw [← h r hr]
  exact evalExprs_idCols r env

/-- a projection of column references picks those cells -/
theorem evalExprs_cols (r : Row) (env : Env) : ∀ (is : List Nat), (∀ i ∈ is, i < r.length) →
    evalExprs (is.map .col) r env = .ok (is.map (fun i => r[i]?.getD .null))
  | [], _ => rfl
  | i :: is, h => by
    have hi : i < r.length := h i (by simp)
    have ih := evalExprs_cols r env is (fun j hj => h j (by simp [hj]))
    unfold evalExprs at ih ⊢
    have he : eval (.col i) r env = .ok (r[i]?.getD .null) := by
      rw [eval]
      simp [List.getElem?_eq_getElem hi]
    simp only [List.map_cons, List.mapM_cons, he, ih]
    rfl

theorem evalProject_cols (is : List Nat) (n : Nat) (env : Env) (rows : List Row) (h : WfRows n rows)
    (hi : ∀ i ∈ is, i < n) :
    evalProject (is.map .col) env rows = .ok (rows.map (fun r => is.map (fun i => r[i]?.getD .null))) := by
  unfold evalProject
  apply mapM_ok_map
  intro r hr
  exact evalExprs_cols r env is (fun i hx => by rw [h r hr]; exact hi i hx)

theorem keptFrom_lt (drop : List String) : ∀ (names : List String) (k : Nat), ∀ i ∈ keptFrom k drop names, i < k + names.length
  | [], _, i, h => by simp [keptFrom] at h
  | n :: ns, k, i, h => by
    have ih := keptFrom_lt drop ns (k + 1)
    simp only [keptFrom] at h
    split at h
    · have := ih i h
      simp only [List.length_cons]; omega
    · simp only [List.mem_cons] at h
      rcases h with rfl | h
      · simp only [List.length_cons]; omega
      · have := ih i h
        simp only [List.length_cons]; omega

/-! ### DISTINCT ON -/

theorem firstByKey_keys : ∀ (keyed : List (Row × Row)), (firstByKey keyed).map (·.1) = dedup (keyed.map (·.1))
  | [] => rfl
  | (k, r) :: rest => by
    simp only [firstByKey, List.map_cons, dedup, firstByKey_keys rest |>.symm]
    congr 1
    induction firstByKey rest with
    | nil => rfl
    | cons a l ih =>
      simp only [List.filter_cons, List.map_cons]
      split <;> simp_all

theorem firstByKey_first : ∀ (keyed : List (Row × Row)) (k r : Row), (k, r) ∈ firstByKey keyed →
    ∃ pre post, keyed = pre ++ (k, r) :: post ∧ ∀ kr ∈ pre, (kr.1 == k) = false
  | [], k, r, h => by simp [firstByKey] at h
  | (k0, r0) :: rest, k, r, h => by
    simp only [firstByKey, List.mem_cons, List.mem_filter] at h
    rcases h with h | ⟨hmem, hne⟩
    · refine ⟨[], rest, ?_, by simp⟩
      simp [h]
    · obtain ⟨pre, post, hrest, hpre⟩ := firstByKey_first rest k r hmem
      refine ⟨(k0, r0) :: pre, post, by simp [hrest], ?_⟩
      intro kr hkr
      simp only [List.mem_cons] at hkr
      rcases hkr with rfl | hkr
      · simp only [Bool.not_eq_true'] at hne
        -- `k == k0 = false` gives `k0 == k = false`
        cases hk : (k0 == k) with
        | false => rfl
        | true =>
          have : k0 = k := by simpa using hk
          subst this
          simp at hne
      · exact hpre kr hkr

/-! ### by-name picking -/

theorem mapM_congr' {α β : Type} (f g : α → Except RtErr β) : ∀ (l : List α), (∀ a ∈ l, f a = g a) → l.mapM f = l.mapM g
  | [], _ => rfl
  | a :: l, h => by
    have h1 := h a (by simp)
    have h2 := mapM_congr' f g l (fun b hb => h b (by simp [hb]))
    simp only [List.mapM_cons, h1, h2]

theorem indexOf?_append (x : String) : ∀ (pre l : List String), x ∉ pre →
    indexOf? x (pre ++ l) = (indexOf? x l).map (· + pre.length)
  | [], l, _ => by simp
  | p :: pre, l, h => by
    have hp : ¬ p = x := by intro e; exact h (by simp [e])
    have hx : x ∉ pre := by intro e; exact h (by simp [e])
    simp only [List.cons_append, indexOf?, hp, if_false, indexOf?_append x pre l hx, List.length_cons, Option.map_map]
    cases indexOf? x l <;> simp [Function.comp_def]; omega

theorem pickByName_suffix : ∀ (xs pre : List String), (pre ++ xs).Nodup →
    pickByName (pre ++ xs) xs = idColsFrom pre.length xs.length
  | [], pre, _ => rfl
  | x :: xs, pre, h => by
    have hx : x ∉ pre := by
      intro e
      have := List.nodup_append.mp h
      exact this.2.2 x e x (by simp) rfl
    have h' : ((pre ++ [x]) ++ xs).Nodup := by simpa using h
    have ih := pickByName_suffix xs (pre ++ [x]) h'
    simp only [List.append_assoc, List.singleton_append, List.length_append, List.length_singleton] at ih
    unfold pickByName at ih ⊢
    simp only [List.map_cons, List.length_cons, idColsFrom, ih]
    rw [indexOf?_append x pre (x :: xs) hx]
    simp [indexOf?]

theorem pickByName_self (names : List String) (h : names.Nodup) : pickByName names names = idCols names.length := by
  have := pickByName_suffix names [] (by simpa using h)
  simpa [idCols] using this

end DfModel.Proofs.C48
