/-
  C07 — retraction (sliding windows), sliding min/max, per-group accumulation. Core Lean only.
-/
import DfModel.Proofs.C07b
namespace DfModel.Proofs.C07
open DfModel.Mech.AggAcc

/-- the non-null values of a batch, in order -/
def vals (xs : List NV) : List V := xs.filterMap id
def cntV (xs : List NV) : Nat := (vals xs).length
def sumV (xs : List NV) : V := (vals xs).foldl (· + ·) 0
def sumI (xs : List NV) : Int := ((vals xs).map BitVec.toInt).sum

@[simp] theorem vals_nil : vals [] = [] := rfl
@[simp] theorem vals_none (xs : List NV) : vals (none :: xs) = vals xs := rfl
@[simp] theorem vals_some (x : V) (xs : List NV) : vals (some x :: xs) = x :: vals xs := rfl
theorem vals_append (xs ys : List NV) : vals (xs ++ ys) = vals xs ++ vals ys := by
  simp [vals, List.filterMap_append]

@[simp] theorem cntV_nil : cntV [] = 0 := rfl
@[simp] theorem cntV_none (xs : List NV) : cntV (none :: xs) = cntV xs := rfl
@[simp] theorem cntV_some (x : V) (xs : List NV) : cntV (some x :: xs) = cntV xs + 1 := rfl
@[simp] theorem sumI_nil : sumI [] = 0 := rfl
@[simp] theorem sumI_none (xs : List NV) : sumI (none :: xs) = sumI xs := rfl
@[simp] theorem sumI_some (x : V) (xs : List NV) : sumI (some x :: xs) = x.toInt + sumI xs := by
  simp [sumI]
theorem sumI_of_cnt0 (xs : List NV) (h : cntV xs = 0) : sumI xs = 0 := by
  have : vals xs = [] := List.eq_nil_of_length_eq_zero h
  simp [sumI, this]

theorem foldl_add_start (a : V) (l : List V) : l.foldl (· + ·) a = a + l.foldl (· + ·) 0 := by
  induction l generalizing a with
  | nil => simp
  | cons x l ih => simp only [List.foldl_cons]; rw [ih (a + x), ih (0 + x)]; simp [BitVec.add_assoc]

/-! ### count -/
theorem count_update (s : Int) (xs : List NV) : count.update s xs = s + cntV xs := by
  induction xs generalizing s with
  | nil => simp [Acc.update, cntV]
  | cons x xs ih =>
    simp only [Acc.update, List.foldl_cons] at ih ⊢
    rw [ih]
    cases x <;> simp [count, cntV] <;> omega
theorem count_retract (s : Int) (xs : List NV) : xs.foldl countRetract s = s - cntV xs := by
  induction xs generalizing s with
  | nil => simp [cntV]
  | cons x xs ih =>
    simp only [List.foldl_cons]; rw [ih]
    cases x <;> simp [countRetract, cntV] <;> omega

theorem count_retract_prefix (xs ys : List NV) :
    xs.foldl countRetract (count.update count.init (xs ++ ys)) = count.update count.init ys := by
  rw [count_retract, count_update, count_update]
  simp only [cntV, vals_append, List.length_append]
  show (0 : Int) + _ - _ = 0 + _
  omega

/-! ### sliding sum -/
theorem sumSliding_update (s : V × Nat) (xs : List NV) :
    sumSliding.update s xs = (s.1 + sumV xs, s.2 + cntV xs) := by
  induction xs generalizing s with
  | nil => simp [Acc.update, cntV, sumV]
  | cons x xs ih =>
    simp only [Acc.update, List.foldl_cons] at ih ⊢
    rw [ih]
    cases x with
    | none => simp [sumSliding, cntV, sumV]
    | some x =>
      simp only [sumSliding, cntV, sumV, vals_some, List.foldl_cons, List.length_cons]
      rw [foldl_add_start (0 + x)]
      simp [BitVec.add_assoc]; omega
theorem sumSliding_retract (s : V × Nat) (xs : List NV) :
    xs.foldl sumSlidingRetract s = (s.1 - sumV xs, s.2 - cntV xs) := by
  induction xs generalizing s with
  | nil => simp [cntV, sumV]
  | cons x xs ih =>
    simp only [List.foldl_cons]; rw [ih]
    cases x with
    | none => simp [sumSlidingRetract, cntV, sumV]
    | some x =>
      simp only [sumSlidingRetract, cntV, sumV, vals_some, List.foldl_cons, List.length_cons]
      rw [foldl_add_start (0 + x)]
      refine Prod.ext ?_ (by simp; omega)
      simp [BitVec.sub_sub]

theorem sumV_append (xs ys : List NV) : sumV (xs ++ ys) = sumV xs + sumV ys := by
  simp only [sumV, vals_append, List.foldl_append]
  rw [foldl_add_start]

theorem sumSliding_retract_prefix (xs ys : List NV) :
    xs.foldl sumSlidingRetract (sumSliding.update sumSliding.init (xs ++ ys))
      = sumSliding.update sumSliding.init ys := by
  rw [sumSliding_retract, sumSliding_update, sumSliding_update]
  refine Prod.ext ?_ ?_
  · show (0 : V) + sumV (xs ++ ys) - sumV xs = 0 + sumV ys
    rw [sumV_append]
    simp [BitVec.add_comm (sumV xs) (sumV ys), BitVec.add_sub_cancel]
  · show 0 + cntV (xs ++ ys) - cntV xs = 0 + cntV ys
    simp only [cntV, vals_append, List.length_append]; omega

/-- the sliding accumulator computes the same value as the plain one -/
theorem sumSliding_eq_sum (xs : List NV) :
    sumSliding.eval (sumSliding.update sumSliding.init xs) = sum.eval (sum.update sum.init xs) := by
  rw [sumSliding_update]
  suffices ∀ (s : Option V), sum.update s xs =
      (if cntV xs = 0 then s else some (s.getD 0 + sumV xs)) by
    rw [this]
    show (if 0 + cntV xs = 0 then none else some ((0 : V) + sumV xs)) = _
    by_cases h : cntV xs = 0 <;> simp [h, sum]
  induction xs with
  | nil => intro s; simp [Acc.update, cntV]
  | cons x xs ih =>
    intro s
    simp only [Acc.update, List.foldl_cons] at ih ⊢
    rw [ih]
    cases x with
    | none => simp [sum, liftOpt, cntV, sumV]
    | some x =>
      have hs : sumV (some x :: xs) = x + sumV xs := by
        simp only [sumV, vals_some, List.foldl_cons]; rw [foldl_add_start]; simp
      cases s <;> by_cases h : cntV xs = 0 <;>
        simp [sum, liftOpt, cntV, hs, h, BitVec.add_assoc] <;> simp_all [cntV, sumV]

/-! ### avg -/
theorem sumI_append (xs ys : List NV) : sumI (xs ++ ys) = sumI xs + sumI ys := by
  simp [sumI, vals_append]

theorem avg_update (s : Option Int × Nat) (xs : List NV) :
    avg.update s xs = (if cntV xs = 0 then s.1 else some (s.1.getD 0 + sumI xs), s.2 + cntV xs) := by
  induction xs generalizing s with
  | nil => simp [Acc.update]
  | cons x xs ih =>
    simp only [Acc.update, List.foldl_cons] at ih ⊢
    rw [ih]
    cases x with
    | none => rfl
    | some x =>
      show (if cntV xs = 0 then some (s.1.getD 0 + x.toInt) else some ((some (s.1.getD 0 + x.toInt)).getD 0 + sumI xs), s.2 + 1 + cntV xs) = _
      refine Prod.ext ?_ (by simp; omega)
      by_cases h : cntV xs = 0
      · simp [h, sumI_of_cnt0 xs h]
      · simp [h]; omega

theorem avg_retract (s : Option Int × Nat) (xs : List NV) :
    xs.foldl avgRetract s = (if cntV xs = 0 then s.1 else some (s.1.getD 0 - sumI xs), s.2 - cntV xs) := by
  induction xs generalizing s with
  | nil => simp
  | cons x xs ih =>
    simp only [List.foldl_cons]
    rw [ih]
    cases x with
    | none => rfl
    | some x =>
      show (if cntV xs = 0 then some (s.1.getD 0 - x.toInt) else some ((some (s.1.getD 0 - x.toInt)).getD 0 - sumI xs), s.2 - 1 - cntV xs) = _
      refine Prod.ext ?_ (by simp; omega)
      by_cases h : cntV xs = 0
      · simp [h, sumI_of_cnt0 xs h]
      · simp [h]; omega

/-- avg: retracting a prefix gives the same VALUE as recomputing (the state may differ: `Some(0)` vs `None`) -/
theorem avg_retract_prefix (xs ys : List NV) :
    avg.eval (xs.foldl avgRetract (avg.update avg.init (xs ++ ys))) = avg.eval (avg.update avg.init ys) := by
  rw [avg_retract, avg_update, avg_update]
  have hc : cntV (xs ++ ys) = cntV xs + cntV ys := by simp [cntV, vals_append]
  show avg.eval (_, 0 + cntV (xs ++ ys) - cntV xs) = avg.eval (_, 0 + cntV ys)
  simp only [avg, hc, sumI_append]
  by_cases hy : cntV ys = 0
  · simp [hy]
  · have h1 : 0 + (cntV xs + cntV ys) - cntV xs = cntV ys := by omega
    have h2 : ¬ (cntV xs + cntV ys = 0) := by omega
    simp only [h1, hy, h2, if_false, Nat.zero_add]
    by_cases hx : cntV xs = 0
    · simp [hx, sumI_of_cnt0 xs hx, hy]
    · simp [hx]; omega

end DfModel.Proofs.C07
