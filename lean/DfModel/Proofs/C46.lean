/-
  C46 helper lemmas: `compare_results` accepts exactly the tables that agree in shape and, on the
  first `column_count` columns, up to the cell equivalences.   Core Lean only.
-/
import DfModel.Text.Bench
import DfModel.Proofs.C51Csv
namespace DfModel.Proofs.C46
open DfModel.Text DfModel.Text.Bench

set_option linter.unusedSimpArgs false

/-- what `compare_results` requires of one row -/
def RowSpec (cc : Nat) (a e : List Str) : Prop :=
  a.length = e.length ∧
    ∀ j, j < cc → ∀ (h1 : j < e.length) (h2 : j < a.length), cellOk e[j] a[j] = true

/-- what `compare_results` requires of the two tables -/
def Spec (cc : Nat) (A E : List (List Str)) : Prop :=
  A.length = E.length ∧ ∀ i (h1 : i < A.length) (h2 : i < E.length), RowSpec cc A[i] E[i]

theorem firstBadCell_none (cc : Nat) : ∀ (j : Nat) (e a : List Str), a.length = e.length →
    (firstBadCell cc j e a = none ↔
      ∀ k, k < cc → ∀ (h1 : k < e.length) (h2 : k < a.length), cellOk e[k] a[k] = true) := by
  induction cc with
  | zero => intro j e a _; simp [firstBadCell]
  | succ cc ih =>
    intro j e a hl
    cases e with
    | nil => simp [firstBadCell]
    | cons ev es =>
      cases a with
      | nil => simp at hl
      | cons av as_ =>
        have hl' : as_.length = es.length := by simpa using hl
        simp only [firstBadCell]
        by_cases hc : cellOk ev av = true
        · simp only [hc, if_true, ih (j + 1) es as_ hl']
          constructor
          · intro h k hk h1 h2
            cases k with
            | zero => simpa using hc
            | succ k =>
              simp only [List.getElem_cons_succ]
              exact h k (by omega) (by simpa using h1) (by simpa using h2)
          · intro h k hk h1 h2
            have := h (k + 1) (by omega) (by simpa using h1) (by simpa using h2)
            simpa using this
        · simp only [hc, Bool.false_eq_true, if_false]
          constructor
          · intro h; cases h
          · intro h
            have := h 0 (by omega) (by simp) (by simp)
            simp only [List.getElem_cons_zero] at this
            exact absurd this hc

theorem compareRows_ok (cc : Nat) : ∀ (i : Nat) (A E : List (List Str)), A.length = E.length →
    (compareRows cc i A E = .ok () ↔
      ∀ k (h1 : k < A.length) (h2 : k < E.length), RowSpec cc A[k] E[k]) := by
  intro i A
  induction A generalizing i with
  | nil => intro E _; simp [compareRows]
  | cons a as_ ih =>
    intro E hl
    cases E with
    | nil => simp at hl
    | cons e es =>
      have hl' : as_.length = es.length := by simpa using hl
      simp only [compareRows]
      by_cases hw : a.length = e.length
      · have hw' : (a.length != e.length) = false := by simp [hw]
        simp only [hw', Bool.false_eq_true, if_false]
        cases hb : firstBadCell cc 0 e a with
        | some j =>
          simp only
          constructor
          · intro h; cases h
          · intro h
            have := (h 0 (by simp) (by simp))
            simp only [List.getElem_cons_zero] at this
            have := (firstBadCell_none cc 0 e a hw).mpr this.2
            rw [hb] at this; cases this
        | none =>
          simp only [ih (i + 1) es hl']
          have hrow : RowSpec cc a e := ⟨hw, (firstBadCell_none cc 0 e a hw).mp hb⟩
          constructor
          · intro h k h1 h2
            cases k with
            | zero => simpa using hrow
            | succ k =>
              simp only [List.getElem_cons_succ]
              exact h k (by simpa using h1) (by simpa using h2)
          · intro h k h1 h2
            have := h (k + 1) (by simpa using h1) (by simpa using h2)
            simpa using this
      · have hw' : (a.length != e.length) = true := by simp [hw]
        simp only [hw', if_true]
        constructor
        · intro h; cases h
        · intro h
          have := (h 0 (by simp) (by simp)).1
          simp only [List.getElem_cons_zero] at this
          exact absurd this hw

theorem compare_iff (cc : Nat) (A E : List (List Str)) :
    compareResults cc A E = .ok () ↔ Spec cc A E := by
  unfold compareResults Spec
  by_cases h0 : (A.isEmpty && E.isEmpty) = true
  · simp only [h0, if_true, true_iff]
    simp only [Bool.and_eq_true, List.isEmpty_iff] at h0
    obtain ⟨rfl, rfl⟩ := h0
    simp
  · simp only [h0, Bool.false_eq_true, if_false]
    by_cases hl : A.length = E.length
    · have : (A.length != E.length) = false := by simp [hl]
      rw [this]
      simp only [Bool.false_eq_true, if_false, compareRows_ok cc 0 A E hl]
      constructor
      · intro h; exact ⟨hl, h⟩
      · intro h; exact h.2
    · have : (A.length != E.length) = true := by simp [hl]
      simp only [this, if_true]
      constructor
      · intro h; cases h
      · intro h; exact absurd h.1 hl

/-! ### persist → read back -/

theorem delimOk_pipe : Proofs.C51Csv.DelimOk '|' := ⟨by decide, by decide⟩

theorem readBack_persist (header : List Str) (rows : List (List Cell)) (hh : header ≠ [])
    (hne : ∀ r ∈ rows, r ≠ []) :
    readBack (persist header rows) = rows.map (·.map fun c => readCell (Csv.cellText c)) := by
  unfold readBack persist Csv.encodeCells
  rw [Proofs.C51Csv.records_roundtrip '|' delimOk_pipe]
  · simp [List.map_map, Function.comp_def]
  · intro r hr
    simp only [List.map_cons, List.mem_cons, List.mem_map] at hr
    rcases hr with rfl | ⟨r0, h0, rfl⟩
    · simpa using hh
    · have := hne r0 h0
      simpa using this

/-- the expected cell computed by `verify` from the persisted file accepts the actual cell -/
theorem cell_accepts (c : Cell) : cellOk (formatCell (readCell (Csv.cellText c))) (formatCell c) = true := by
  cases c with
  | none => decide
  | some s =>
    cases s with
    | nil => decide
    | cons a s => simp [Csv.cellText, readCell, formatCell, cellOk]

theorem rowSpec_persisted (cc : Nat) (r : List Cell) :
    RowSpec cc (r.map formatCell) (r.map fun c => formatCell (readCell (Csv.cellText c))) := by
  refine ⟨by simp, ?_⟩
  intro j _ h1 h2
  simp only [List.getElem_map]
  exact cell_accepts _

end DfModel.Proofs.C46
