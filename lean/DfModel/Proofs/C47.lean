/- C47 helper lemmas: scaling both sides of a comparison by a positive factor. -/
import DfModel.Sql.Coerce
namespace DfModel.Proofs.C47
open DfModel.Gen.CoercionTbl DfModel.Gen.OperatorTbl DfModel.Sql.Coerce

theorem evalOp_scale (op : Operator) (a b k : Int) (hk : 0 < k) : evalOp op (a * k) (b * k) = evalOp op a b := by
  have hne : k ≠ 0 := by omega
  have e : (a * k = b * k) ↔ a = b := Int.mul_eq_mul_right_iff hne
  have l : (a * k < b * k) ↔ a < b := Int.mul_lt_mul_right hk
  have l' : (b * k < a * k) ↔ b < a := Int.mul_lt_mul_right hk
  have le : (a * k ≤ b * k) ↔ a ≤ b := Int.mul_le_mul_right hk
  have le' : (b * k ≤ a * k) ↔ b ≤ a := Int.mul_le_mul_right hk
  cases op <;> simp only [evalOp, Option.some.injEq, GT.gt, GE.ge, decide_eq_decide] <;>
    first | exact e | exact not_congr e | exact l | exact l' | exact le | exact le' | rfl

theorem pow10_pos (n : Nat) : (0 : Int) < 10 ^ n := Int.pow_pos (by decide)

/-- two values brought to a common scale `s ≥ both scales` compare like the cross-multiplied originals -/
theorem evalOp_rescale (op : Operator) (xu yu : Int) (xs ys s : Nat) (hx : xs ≤ s) (hy : ys ≤ s) :
    evalOp op (xu * 10 ^ (s - xs)) (yu * 10 ^ (s - ys)) = evalOp op (xu * 10 ^ ys) (yu * 10 ^ xs) := by
  have h1 : xu * 10 ^ (s - xs) * 10 ^ (xs + ys) = xu * 10 ^ ys * 10 ^ s := by
    rw [Int.mul_assoc, Int.mul_assoc, ← Int.pow_add, ← Int.pow_add]
    congr 2; omega
  have h2 : yu * 10 ^ (s - ys) * 10 ^ (xs + ys) = yu * 10 ^ xs * 10 ^ s := by
    rw [Int.mul_assoc, Int.mul_assoc, ← Int.pow_add, ← Int.pow_add]
    congr 2; omega
  rw [← evalOp_scale op _ _ _ (pow10_pos (xs + ys)), h1, h2, evalOp_scale op _ _ _ (pow10_pos s)]

end DfModel.Proofs.C47
