/-
  C05 — probe batches, the visited bitmap, final emission, and the assembled refinement.
  Core Lean only.
-/
import DfModel.Proofs.C05c
namespace DfModel.Proofs.C05
open DfModel.Mech.Join DfModel.Mech.HashJoin
open List

theorem no_match_of_map_empty (mk : MapKind) (c : Cfg) (L : List Row) (he : Eligible mk c L)
    (hme : L.any (inMap mk c) = false) : ∀ l ∈ L, ∀ r, c.matches l r = false := by
  intro l hl r
  rw [Bool.eq_false_iff]
  intro hm
  simp only [Cfg.matches, Bool.and_eq_true] at hm
  have := inMap_of_keysEq mk c L he l hl r hm.1
  have h2 : L.any (inMap mk c) = true := any_eq_true.mpr ⟨l, hl, this⟩
  rw [hme] at h2
  cases h2

theorem filter_nomatch (c : Cfg) (L : List Row) (hnm : ∀ l ∈ L, ∀ r, c.matches l r = false) (r : Row) :
    (L.filter fun l => c.matches l r) = [] := by
  rw [filter_eq_nil_iff]
  intro l hl
  simp [hnm l hl r]

theorem any_nomatch (c : Cfg) (L : List Row) (hnm : ∀ l ∈ L, ∀ r, c.matches l r = false) (r : Row) :
    L.any (c.matches · r) = false := by
  rw [Bool.eq_false_iff]
  intro h
  obtain ⟨l, hl, hm⟩ := any_eq_true.mp h
  rw [hnm l hl r] at hm
  cases hm

/-- `build_batch_empty_build_side` is the batch's share of the spec when nothing can match -/
theorem emptyBuildBatch_eq (c : Cfg) (L B : List Row)
    (hnm : ∀ l ∈ L, ∀ r, c.matches l r = false) :
    emptyBuildBatch c B = B.flatMap (rowSpec c L) := by
  have hf := filter_nomatch c L hnm
  have ha := any_nomatch c L hnm
  unfold emptyBuildBatch
  cases hjt : c.jt <;>
    simp [rowSpec, hjt, JoinType.emptyBuildEmpty, hf, ha, flatMap_nil', map_eq_flatMap]

theorem probeBatch_out (mk : MapKind) (c : Cfg) (L : List Row) (he : Eligible mk c L) (b : Batch) :
    (probeBatch mk c L b).1 ~ b.rows.flatMap (rowSpec c L) := by
  unfold probeBatch
  cases hme : L.any (inMap mk c)
  · simp only [Bool.not_false, ite_true]
    exact Perm.of_eq (emptyBuildBatch_eq c L b.rows (no_match_of_map_empty mk c L he hme))
  · simp only [Bool.not_true, Bool.false_eq_true, ite_false]
    have hB := indexed_zipIdx b.rows
    have hL := indexed_zipIdx L
    have hsplit := splitBy_flatten b.cuts (allCands mk c L.zipIdx b.rows.zipIdx)
    have hsorted := allCands_sorted mk c L.zipIdx b.rows
    have h1 := runChunks_perm mk c b.rows.zipIdx b.rows.length hB.lt
      (DfModel.Mech.HashJoin.splitBy b.cuts (allCands mk c L.zipIdx b.rows.zipIdx)).1 none
      (DfModel.Mech.HashJoin.splitBy b.cuts (allCands mk c L.zipIdx b.rows.zipIdx)).2
      (by rw [hsplit]; exact hsorted) (by intro v hv; cases hv)
    rw [hsplit] at h1
    exact h1.trans (chunkOut_single mk c L b.rows he _ _ hL hB)

theorem probeBatch_visited (mk : MapKind) (c : Cfg) (L : List Row) (he : Eligible mk c L) (b : Batch)
    (l : IRow) (hl : l ∈ L.zipIdx) :
    l.2 ∈ (probeBatch mk c L b).2 ↔ (c.jt.needFinal = true ∧ b.rows.any (c.matches l.1) = true) := by
  have hL := indexed_zipIdx L
  have hB := indexed_zipIdx b.rows
  unfold probeBatch
  cases hme : L.any (inMap mk c)
  · simp only [Bool.not_false, ite_true, not_mem_nil, false_iff, not_and]
    intro _ h
    obtain ⟨r, _, hm⟩ := any_eq_true.mp h
    rw [no_match_of_map_empty mk c L he hme l.1 (idx_mem hL l hl) r] at hm
    cases hm
  · simp only [Bool.not_true, Bool.false_eq_true, ite_false]
    cases hnf : c.jt.needFinal
    · simp
    · simp only [ite_true, true_and]
      rw [matchedOf_allCands mk c L he _ _ (idx_mem hL), ← idx_any hB (fun r => c.matches l.1 r)]
      simp only [buildIdxs, mem_map, mem_flatMap, mem_filter, any_eq_true]
      constructor
      · rintro ⟨p, ⟨r, hr, l', ⟨hl', hm⟩, rfl⟩, h2⟩
        have : l' = l := hL.inj l' hl' l hl h2
        subst this
        exact ⟨r, hr, hm⟩
      · rintro ⟨r, hr, hm⟩
        exact ⟨(l, r), ⟨r, hr, l, ⟨hl, hm⟩, rfl⟩, rfl⟩

theorem visitedAll_iff (mk : MapKind) (c : Cfg) (L : List Row) (he : Eligible mk c L)
    (batches : List Batch) (l : IRow) (hl : l ∈ L.zipIdx) :
    l.2 ∈ visitedAll mk c L batches ↔
      (c.jt.needFinal = true ∧ (batches.flatMap (·.rows)).any (c.matches l.1) = true) := by
  unfold visitedAll
  simp only [mem_flatMap, any_eq_true]
  constructor
  · rintro ⟨b, hb, h⟩
    obtain ⟨hn, ha⟩ := (probeBatch_visited mk c L he b l hl).mp h
    obtain ⟨r, hr, hm⟩ := any_eq_true.mp ha
    exact ⟨hn, r, ⟨b, hb, hr⟩, hm⟩
  · rintro ⟨hn, r, ⟨b, hb, hr⟩, hm⟩
    exact ⟨b, hb, (probeBatch_visited mk c L he b l hl).mpr ⟨hn, any_eq_true.mpr ⟨r, hr, hm⟩⟩⟩

/-- final emission from a correct bitmap is the build side's share of the spec -/
theorem finalEmit_eq (c : Cfg) (L R : List Row) (visited : List Nat)
    (hv : c.jt.needFinal = true → ∀ l ∈ L.zipIdx, visited.contains l.2 = R.any (c.matches l.1)) :
    finalEmit c L.zipIdx visited = leftFinal c L R := by
  have hL := indexed_zipIdx L
  unfold finalEmit
  cases hnf : c.jt.needFinal
  · cases hjt : c.jt <;> simp_all [leftFinal, JoinType.needFinal]
  · have hv' := hv hnf
    simp only [Bool.not_true, Bool.false_eq_true, ite_false]
    have e1 : (L.zipIdx.filter fun l => visited.contains l.2) =
        L.zipIdx.filter fun l => R.any (c.matches l.1) := filter_congr (fun l hl => hv' l hl)
    have e2 : (L.zipIdx.filter fun l => !visited.contains l.2) =
        L.zipIdx.filter fun l => !R.any (c.matches l.1) :=
      filter_congr (fun l hl => by rw [hv' l hl])
    have e3 : (L.zipIdx.map fun l => l.1 ++ [markVal (visited.contains l.2)]) =
        L.zipIdx.map fun l => l.1 ++ [markVal (R.any (c.matches l.1))] :=
      map_congr_left (fun l hl => by rw [hv' l hl])
    cases hjt : c.jt <;> simp only [leftFinal, hjt] <;> simp only [hjt, JoinType.needFinal] at hnf
    case left =>
      rw [e2]; exact idx_filter_map hL (fun l => !R.any (c.matches l)) (fun l => l ++ nulls c.wr)
    case full =>
      rw [e2]; exact idx_filter_map hL (fun l => !R.any (c.matches l)) (fun l => l ++ nulls c.wr)
    case leftSemi =>
      rw [e1]
      have := idx_filter_map hL (fun l => R.any (c.matches l)) (fun l => l)
      simpa using this
    case leftAnti =>
      rw [e2]
      have := idx_filter_map hL (fun l => !R.any (c.matches l)) (fun l => l)
      simpa using this
    case leftMark =>
      rw [e3]
      have := idx_filter_map hL (fun _ => true) (fun l => l ++ [markVal (R.any (c.matches l))])
      rw [filter_eq_self.mpr (fun _ _ => rfl), filter_eq_self.mpr (fun _ _ => rfl)] at this
      exact this
    all_goals cases hnf

/-- the two short-circuits of `state_after_build_ready` are justified by the spec -/
theorem spec_nil_of_short_circuit (mk : MapKind) (c : Cfg) (L R : List Row) (he : Eligible mk c L)
    (h : (L.isEmpty && c.jt.emptyBuildEmpty || !(L.any (inMap mk c)) && c.jt.emptyMapEmpty) = true) :
    c.spec L R = [] := by
  simp only [Bool.or_eq_true, Bool.and_eq_true, Bool.not_eq_true'] at h
  rcases h with ⟨h1, h2⟩ | ⟨h1, h2⟩
  · have : L = [] := by simpa using h1
    subst this
    cases hjt : c.jt <;> simp_all [Cfg.spec, join, JoinType.emptyBuildEmpty, innerPart, leftPart]
  · have hnm := no_match_of_map_empty mk c L he h1
    have hf : ∀ l ∈ L, R.filter (c.matches l) = [] := by
      intro l hl
      rw [filter_eq_nil_iff]
      intro r _
      simp [hnm l hl r]
    have ha := any_nomatch c L hnm
    have hb : ∀ l ∈ L, R.any (c.matches l) = false := by
      intro l hl
      rw [Bool.eq_false_iff]
      intro h
      obtain ⟨r, _, hm⟩ := any_eq_true.mp h
      rw [hnm l hl r] at hm
      cases hm
    cases hjt : c.jt <;> simp only [hjt, JoinType.emptyMapEmpty] at h2 <;> try cases h2
    · simp only [Cfg.spec, join, hjt, innerPart]
      rw [flatMap_eq_nil_iff]
      intro l hl
      rw [hf l hl]; rfl
    · simp only [Cfg.spec, join, hjt]
      rw [filter_eq_nil_iff]
      intro l hl
      simp [hb l hl]
    · simp only [Cfg.spec, join, hjt]
      rw [filter_eq_nil_iff]
      intro r _
      simp [ha r]

/-- **hash join refines the nested-loop spec**, for every join type, NULL-equality, residual
    filter, hash function (or the dense array map), probe batching and chunking. -/
theorem hashJoin_perm (mk : MapKind) (c : Cfg) (L : List Row) (he : Eligible mk c L)
    (batches : List Batch) :
    hashJoin mk c L batches ~ c.spec L (batches.flatMap (·.rows)) := by
  unfold hashJoin
  split
  · rename_i h
    rw [spec_nil_of_short_circuit mk c L _ he h]
  · refine Perm.trans ?_ (spec_decomp c L _).symm
    have hfin := finalEmit_eq c L (batches.flatMap (·.rows)) (visitedAll mk c L batches) (by
      intro hnf l hl
      rw [Bool.eq_iff_iff, contains_eq_mem, decide_eq_true_eq, visitedAll_iff mk c L he batches l hl]
      simp [hnf])
    rw [hfin]
    clear hfin
    refine Perm.append_right _ ?_
    rw [flatMap_assoc]
    induction batches with
    | nil => simp
    | cons b bs ih =>
      simp only [flatMap_cons]
      exact (probeBatch_out mk c L he b).append ih

end DfModel.Proofs.C05
