/-
  Helper lemmas for C26 (aligned byte-range scans). Core Lean only.
-/
import DfModel.Sm.Boundary
import DfModel.Sm.FileSplit
namespace DfModel.Proofs.C26
open DfModel.Sm.Boundary DfModel.Sm.FileSplit

set_option linter.unusedSectionVars false
variable {α : Type} [DecidableEq α]

/-! ### splitTerm -/

theorem splitTerm_some {t : α} : ∀ {c p r : List α}, splitTerm t c = some (p, r) →
    c = p ++ r ∧ p.getLast? = some t ∧ 0 < p.length := by
  intro c
  induction c with
  | nil => intro p r h; simp [splitTerm] at h
  | cons x xs ih =>
    intro p r h
    simp only [splitTerm] at h
    split at h
    · rename_i hx
      simp only [Option.some.injEq, Prod.mk.injEq] at h
      obtain ⟨rfl, rfl⟩ := h
      simp [hx]
    · split at h
      · rename_i p' r' h'
        simp only [Option.some.injEq, Prod.mk.injEq] at h
        obtain ⟨rfl, rfl⟩ := h
        obtain ⟨h1, h2, h3⟩ := ih h'
        refine ⟨by simp [h1], ?_, by simp⟩
        cases p' with
        | nil => simp at h3
        | cons y ys => simpa [List.getLast?_cons_cons] using h2
      · simp at h

theorem splitTerm_append (t : α) (a b : List α) :
    splitTerm t (a ++ b) =
      match splitTerm t a with
      | some (p, r) => some (p, r ++ b)
      | none => match splitTerm t b with
        | some (p, r) => some (a ++ p, r)
        | none => none := by
  induction a with
  | nil => simp [splitTerm]; cases splitTerm t b <;> simp
  | cons x xs ih =>
    simp only [List.cons_append, splitTerm]
    split
    · rfl
    · rw [ih]
      cases h1 : splitTerm t xs with
      | some pr => simp
      | none =>
        cases h2 : splitTerm t b with
        | some pr => simp
        | none => simp

theorem splitTerm_none_drop {t : α} : ∀ {c : List α} (k : Nat), splitTerm t c = none →
    splitTerm t (c.drop k) = none := by
  intro c
  induction c with
  | nil => intro k _; simp [splitTerm]
  | cons x xs ih =>
    intro k h
    cases k with
    | zero => simpa using h
    | succ k =>
      simp only [List.drop_succ_cons]
      apply ih
      simp only [splitTerm] at h
      split at h
      · simp at h
      · split at h
        · simp at h
        · assumption

theorem splitTerm_some_drop {t : α} : ∀ {c p r : List α} (k : Nat), splitTerm t c = some (p, r) →
    k < p.length → splitTerm t (c.drop k) = some (p.drop k, r) := by
  intro c
  induction c with
  | nil => intro p r k h; simp [splitTerm] at h
  | cons x xs ih =>
    intro p r k h hk
    cases k with
    | zero => simpa using h
    | succ k =>
      simp only [splitTerm] at h
      split at h
      · simp only [Option.some.injEq, Prod.mk.injEq] at h
        obtain ⟨rfl, rfl⟩ := h
        simp at hk
      · split at h
        · rename_i p' r' h'
          simp only [Option.some.injEq, Prod.mk.injEq] at h
          obtain ⟨rfl, rfl⟩ := h
          simp only [List.drop_succ_cons]
          apply ih k h'
          simpa using hk
        · simp at h

/-! ### slice -/

theorem slice_length (f : List α) (lo hi : Nat) : (slice f lo hi).length = min hi f.length - lo := by
  simp only [slice, List.length_take, List.length_drop]; omega

theorem slice_append (f : List α) {a b c : Nat} (hab : a ≤ b) (hbc : b ≤ c) :
    slice f a b ++ slice f b c = slice f a c := by
  simp only [slice]
  have h1 : c - a = (b - a) + (c - b) := by omega
  rw [h1, List.take_add, List.drop_drop]
  congr 3
  omega

theorem slice_self (f : List α) (a : Nat) : slice f a a = [] := by simp [slice]

theorem slice_to_end (f : List α) (a : Nat) {n : Nat} (h : f.length ≤ n) : slice f a n = f.drop a := by
  simp only [slice]
  apply List.take_of_length_le
  simp only [List.length_drop]; omega

theorem slice_zero_length (f : List α) : slice f 0 f.length = f := by simp [slice]

theorem drop_eq_slice_append (f : List α) {a b : Nat} (hab : a ≤ b) :
    f.drop a = slice f a b ++ f.drop b := by
  rw [← slice_to_end f a (Nat.le_refl _), ← slice_to_end f b (Nat.le_refl _)]
  by_cases hb : b ≤ f.length
  · exact (slice_append f hab hb).symm
  · have : slice f b f.length = [] := by simp [slice]; omega
    rw [this, List.append_nil]
    simp only [slice]
    rw [List.take_of_length_le, List.take_of_length_le] <;> simp only [List.length_drop] <;> omega

theorem slice_take (f : List α) (a b k : Nat) : (slice f a b).take k = slice f a (min (a + k) b) := by
  simp only [slice, List.take_take]
  congr 1; omega

theorem slice_drop (f : List α) (a b k : Nat) : (slice f a b).drop k = slice f (a + k) b := by
  simp only [slice, List.drop_take, List.drop_drop]
  congr 1; omega

/-! ### nextStart -/

theorem nextStart_le (t : α) (f : List α) (i : Nat) : nextStart t f i ≤ f.length := by
  unfold nextStart
  split
  · rename_i p r h
    have := (splitTerm_some h).1
    have hl := congrArg List.length this
    simp only [List.length_drop, List.length_append] at hl
    have := (splitTerm_some h).2.2
    omega
  · exact Nat.le_refl _

theorem le_nextStart (t : α) (f : List α) {i : Nat} (h : i ≤ f.length) : i ≤ nextStart t f i := by
  unfold nextStart
  split <;> omega

theorem nextStart_of_length_le (t : α) (f : List α) {i : Nat} (h : f.length ≤ i) :
    nextStart t f i = f.length := by
  unfold nextStart
  rw [List.drop_eq_nil_of_le h]
  simp [splitTerm]

theorem nextStart_window_none {t : α} {f : List α} {i j : Nat} (hij : i ≤ j)
    (h : splitTerm t (slice f i j) = none) : nextStart t f i = nextStart t f j := by
  unfold nextStart
  rw [drop_eq_slice_append f hij, splitTerm_append, h]
  simp only
  cases h2 : splitTerm t (f.drop j) with
  | none => rfl
  | some pr =>
    obtain ⟨p, r⟩ := pr
    simp only [List.length_append, slice_length]
    have := (splitTerm_some h2).1
    have hl := congrArg List.length this
    simp only [List.length_drop, List.length_append] at hl
    have := (splitTerm_some h2).2.2
    omega

theorem nextStart_window_some {t : α} {f : List α} {i j : Nat} {p r : List α} (hij : i ≤ j)
    (h : splitTerm t (slice f i j) = some (p, r)) :
    nextStart t f i = i + p.length ∧ slice f i (i + p.length) = p := by
  constructor
  · unfold nextStart
    rw [drop_eq_slice_append f hij, splitTerm_append, h]
  · have h1 := (splitTerm_some h).1
    have hl := congrArg List.length h1
    simp only [slice_length, List.length_append] at hl
    have h2 : (slice f i j).take p.length = p := by rw [h1]; simp
    rw [slice_take] at h2
    have : min (i + p.length) j = i + p.length := by omega
    rw [this] at h2
    exact h2

theorem nextStart_eq_of_lt {t : α} {f : List α} {i j : Nat} (hij : i ≤ j)
    (hj : j < nextStart t f i) : nextStart t f j = nextStart t f i := by
  have hd : f.drop j = (f.drop i).drop (j - i) := by rw [List.drop_drop]; congr 1; omega
  unfold nextStart at hj ⊢
  rw [hd]
  cases h : splitTerm t (f.drop i) with
  | none => rw [splitTerm_none_drop _ h]
  | some pr =>
    obtain ⟨p, r⟩ := pr
    rw [h] at hj
    simp only at hj
    rw [splitTerm_some_drop (j - i) h (by omega)]
    simp only [List.length_drop]
    omega

theorem nextStart_mono (t : α) (f : List α) {i j : Nat} (hij : i ≤ j) :
    nextStart t f i ≤ nextStart t f j := by
  by_cases hj : j < nextStart t f i
  · rw [nextStart_eq_of_lt hij hj]; exact Nat.le_refl _
  · by_cases hN : j ≤ f.length
    · have := le_nextStart t f hN; omega
    · rw [nextStart_of_length_le t f (i := j) (by omega)]; exact nextStart_le t f i

/-- a terminator right before `e`: the next record starts at `e` -/
theorem nextStart_pred_of_term {t : α} {f : List α} {e : Nat} (he : 0 < e)
    (h : (slice f (e - 1) e).getLast? = some t) (hN : e ≤ f.length) : nextStart t f (e - 1) = e := by
  have hl : (slice f (e - 1) e).length = 1 := by rw [slice_length]; omega
  match hs : slice f (e - 1) e, hl with
  | [x], _ =>
    rw [hs] at h
    simp at h
    subst h
    have := (nextStart_window_some (t := x) (f := f) (i := e - 1) (j := e) (p := [x]) (r := [])
      (by omega) (by rw [hs]; simp [splitTerm])).1
    simp at this; omega

/-! ### events -/

@[simp] theorem bytes_nil : bytes ([] : List (Ev α)) = [] := rfl
@[simp] theorem bytes_chunk (c : List α) (es : List (Ev α)) : bytes (.chunk c :: es) = c ++ bytes es := by
  simp [bytes, chunks]
@[simp] theorem bytes_get (lo hi : Nat) (es : List (Ev α)) : bytes (.get lo hi :: es) = bytes es := by
  simp [bytes, chunks]
@[simp] theorem bytes_append (a b : List (Ev α)) : bytes (a ++ b) = bytes a ++ bytes b := by
  induction a with
  | nil => simp
  | cons e es ih => cases e <;> simp_all [bytes, chunks]
@[simp] theorem bad_nil : bad ([] : List (Ev α)) = false := rfl
@[simp] theorem bad_chunk (c : List α) (es : List (Ev α)) : bad (.chunk c :: es) = bad es := rfl
@[simp] theorem bad_get (lo hi : Nat) (es : List (Ev α)) : bad (.get lo hi :: es) = bad es := rfl
theorem bad_append (a b : List (Ev α)) : bad (a ++ b) = (bad a || bad b) := by
  induction a with
  | nil => simp
  | cons e es ih => cases e <;> simp_all [bad]

/-! ### ScanningLastTerminator -/

theorem scanChunks_found {t : α} : ∀ (cs : List (List α)) (pos : Nat) {p r : List α},
    splitTerm t cs.flatten = some (p, r) →
    (scanChunks t pos cs).2 = none ∧ bytes (scanChunks t pos cs).1 = p ∧ bad (scanChunks t pos cs).1 = false := by
  intro cs
  induction cs with
  | nil => intro pos p r h; simp [splitTerm] at h
  | cons c cs ih =>
    intro pos p r h
    rw [List.flatten_cons, splitTerm_append] at h
    simp only [scanChunks]
    cases hc : splitTerm t c with
    | some pr =>
      obtain ⟨p', r'⟩ := pr
      rw [hc] at h
      simp only [Option.some.injEq, Prod.mk.injEq] at h
      obtain ⟨rfl, _⟩ := h
      simp
    | none =>
      rw [hc] at h
      simp only at h
      cases h2 : splitTerm t cs.flatten with
      | none => rw [h2] at h; simp at h
      | some pr =>
        obtain ⟨p', r'⟩ := pr
        rw [h2] at h
        simp only [Option.some.injEq, Prod.mk.injEq] at h
        obtain ⟨rfl, _⟩ := h
        obtain ⟨i1, i2, i3⟩ := ih (pos + c.length) h2
        simp [i1, i2, i3]

theorem scanChunks_none {t : α} : ∀ (cs : List (List α)) (pos : Nat),
    splitTerm t cs.flatten = none →
    (scanChunks t pos cs).2 = some (pos + cs.flatten.length) ∧
      bytes (scanChunks t pos cs).1 = cs.flatten ∧ bad (scanChunks t pos cs).1 = false := by
  intro cs
  induction cs with
  | nil => intro pos _; simp [scanChunks]
  | cons c cs ih =>
    intro pos h
    rw [List.flatten_cons, splitTerm_append] at h
    simp only [scanChunks]
    cases hc : splitTerm t c with
    | some pr => obtain ⟨p', r'⟩ := pr; rw [hc] at h; simp at h
    | none =>
      rw [hc] at h
      simp only at h
      cases h2 : splitTerm t cs.flatten with
      | some pr => obtain ⟨p', r'⟩ := pr; rw [h2] at h; simp at h
      | none =>
        obtain ⟨i1, i2, i3⟩ := ih (pos + c.length) h2
        simp [i1, i2, i3]
        omega

/-- the object store contract: a bounded GET inside the file returns exactly the requested bytes, in
    ANY chunking (the chunk list is otherwise arbitrary: empty chunks, 1-byte chunks, one big chunk …) -/
structure StoreOk (cfg : Cfg α) (f : List α) : Prop where
  size_eq : cfg.size = f.length
  look_pos : 0 < cfg.lookahead
  serve : ∀ lo hi, lo ≤ hi → hi ≤ f.length → (cfg.store lo hi).flatten = slice f lo hi

theorem scanLast_spec {cfg : Cfg α} {f : List α} (ok : StoreOk cfg f) :
    ∀ (fuel pos hi : Nat) (cs : List (List α)),
      pos ≤ hi → hi ≤ f.length → cs.flatten = slice f pos hi → f.length - hi ≤ fuel →
      bytes (scanLast cfg fuel pos cs) = slice f pos (nextStart cfg.term f pos) ∧
        bad (scanLast cfg fuel pos cs) = false := by
  intro fuel
  induction fuel with
  | zero =>
    intro pos hi cs h1 h2 h3 h4
    have hhi : hi = f.length := by omega
    subst hhi
    cases hD : splitTerm cfg.term (slice f pos f.length) with
    | some pr =>
      obtain ⟨p, r⟩ := pr
      obtain ⟨e1, e2, e3⟩ := scanChunks_found cs pos (h3 ▸ hD)
      obtain ⟨n1, n2⟩ := nextStart_window_some h1 hD
      unfold scanLast
      simp only [e1, e2, e3, n1, n2, and_self]
    | none =>
      obtain ⟨e1, e2, e3⟩ := scanChunks_none cs pos (h3 ▸ hD)
      have n1 := nextStart_window_none h1 hD
      rw [nextStart_of_length_le _ _ (Nat.le_refl _)] at n1
      rw [h3] at e1 e2
      have hl : pos + (slice f pos f.length).length = f.length := by rw [slice_length]; omega
      unfold scanLast
      simp only [e1, hl, ok.size_eq, Nat.lt_irrefl, if_false, e2, e3, n1, and_self]
  | succ fuel ih =>
    intro pos hi cs h1 h2 h3 h4
    cases hD : splitTerm cfg.term (slice f pos hi) with
    | some pr =>
      obtain ⟨p, r⟩ := pr
      obtain ⟨e1, e2, e3⟩ := scanChunks_found cs pos (h3 ▸ hD)
      obtain ⟨n1, n2⟩ := nextStart_window_some h1 hD
      unfold scanLast
      simp only [e1, e2, e3, n1, n2, and_self]
    | none =>
      obtain ⟨e1, e2, e3⟩ := scanChunks_none cs pos (h3 ▸ hD)
      have n1 := nextStart_window_none h1 hD
      rw [h3] at e1 e2
      have hl : pos + (slice f pos hi).length = hi := by rw [slice_length]; omega
      by_cases hlt : hi < f.length
      · have hhi' : hi ≤ min (hi + cfg.lookahead) cfg.size := by rw [ok.size_eq]; omega
        have hle' : min (hi + cfg.lookahead) cfg.size ≤ f.length := by rw [ok.size_eq]; omega
        have hfuel : f.length - min (hi + cfg.lookahead) cfg.size ≤ fuel := by
          have := ok.look_pos; rw [ok.size_eq]; omega
        obtain ⟨i1, i2⟩ := ih hi (min (hi + cfg.lookahead) cfg.size) (cfg.store hi _) hhi' hle'
          (ok.serve _ _ hhi' hle') hfuel
        have hlt' : hi < cfg.size := by rw [ok.size_eq]; exact hlt
        unfold scanLast
        simp only [e1, hl, hlt', if_true, bytes_append, bytes_get, e2, i1, bad_append, e3,
          bad_get, i2, Bool.or_self, and_true, n1]
        exact slice_append f h1 (le_nextStart _ _ h2)
      · have hhi : hi = f.length := by omega
        subst hhi
        rw [nextStart_of_length_le _ _ (Nat.le_refl _)] at n1
        unfold scanLast
        simp only [e1, hl, ok.size_eq, Nat.lt_irrefl, if_false, e2, e3, n1, and_self]

theorem slice_one {f : List α} {e : Nat} (he : 0 < e) (hN : e ≤ f.length) :
    ∃ x, slice f (e - 1) e = [x] := by
  have hl : (slice f (e - 1) e).length = 1 := by rw [slice_length]; omega
  match hs : slice f (e - 1) e, hl with
  | [x], _ => exact ⟨x, rfl⟩

/-- `FetchingChunks` on one chunk `c = f[pb, pa)` with `pb < end`: given that continuing from `pa`
    yields `f[pa, T)`, the whole yields `f[pb, T)` where `T = nextStart (end-1)`. -/
theorem onChunk_spec {cfg : Cfg α} {f : List α} (ok : StoreOk cfg f) {e fuel pb pa hi : Nat}
    {c : List α} {cs : List (List α)} {cont : Unit → List (Ev α)}
    (heN : e < f.length) (hpb : pb < e) (hc : c = slice f pb pa) (hpa : pb ≤ pa) (hpahi : pa ≤ hi)
    (hhi : hi ≤ f.length) (hcs : cs.flatten = slice f pa hi) (hfuel : f.length - hi ≤ fuel)
    (hcont : pa < e → bytes (cont ()) = slice f pa (nextStart cfg.term f (e - 1)) ∧ bad (cont ()) = false) :
    bytes (onChunk cfg (some e) fuel pa c cs cont) = slice f pb (nextStart cfg.term f (e - 1)) ∧
      bad (onChunk cfg (some e) fuel pa c cs cont) = false := by
  have hclen : c.length = pa - pb := by rw [hc, slice_length]; omega
  have hT : e - 1 ≤ nextStart cfg.term f (e - 1) := le_nextStart _ _ (by omega)
  unfold onChunk fetchStep
  simp only
  by_cases h1 : pa < e
  · obtain ⟨c1, c2⟩ := hcont h1
    simp only [h1, if_true, bytes_chunk, c1, bad_chunk, c2, and_true]
    rw [hc]; exact slice_append f hpa (by omega)
  · simp only [h1, if_false]
    by_cases h2 : pa = e
    · subst h2
      simp only [if_true]
      obtain ⟨x, hx⟩ := slice_one (f := f) (e := pa) (by omega) (by omega)
      have hcx : c = slice f pb (pa - 1) ++ [x] := by
        rw [hc, ← hx]; exact (slice_append f (by omega) (by omega)).symm
      have hlast : c.getLast? = some x := by rw [hcx]; simp
      rw [hlast]
      by_cases hxt : x = cfg.term
      · subst hxt
        simp only [if_true, bytes_chunk, bytes_nil, List.append_nil, bad_chunk, bad_nil, and_true]
        have : nextStart cfg.term f (pa - 1) = pa :=
          nextStart_pred_of_term (by omega) (by rw [hx]; simp) (by omega)
        rw [this, hc]
      · have hne : ¬ (some x = some cfg.term) := by simpa using hxt
        simp only [hne, if_false, bytes_chunk, bad_chunk]
        obtain ⟨s1, s2⟩ := scanLast_spec ok fuel pa hi cs hpahi hhi hcs hfuel
        have hw : nextStart cfg.term f (pa - 1) = nextStart cfg.term f pa := by
          have := nextStart_window_none (t := cfg.term) (f := f) (i := pa - 1) (j := pa) (by omega)
            (by rw [hx]; simp [splitTerm, hxt])
          have h' : pa - 1 + 1 = pa := by omega
          rw [this]
        rw [s1, s2, hw, hc]
        exact ⟨slice_append f hpa (le_nextStart _ _ (by omega)), rfl⟩
    · simp only [h2, if_false]
      have h3 : ¬ pa < c.length := by omega
      have h4 : pa - c.length = pb := by omega
      have h5 : ¬ e ≤ pb := by omega
      simp only [h3, if_false, h4, h5]
      have hdrop : c.drop (e - pb - 1) = slice f (e - 1) pa := by
        rw [hc, slice_drop]; congr 1; omega
      have htake : c.take (e - pb - 1) = slice f pb (e - 1) := by
        rw [hc, slice_take]; congr 1; omega
      rw [hdrop, htake]
      cases hD : splitTerm cfg.term (slice f (e - 1) pa) with
      | some pr =>
        obtain ⟨p, r⟩ := pr
        obtain ⟨n1, n2⟩ := nextStart_window_some (by omega) hD
        simp only [bytes_chunk, bytes_nil, List.append_nil, bad_chunk, bad_nil, and_true]
        rw [n1]
        conv => lhs; rw [← n2]
        exact slice_append f (by omega) (by omega)
      | none =>
        have n1 := nextStart_window_none (by omega) hD
        obtain ⟨s1, s2⟩ := scanLast_spec ok fuel pa hi cs hpahi hhi hcs hfuel
        simp only [bytes_chunk, bad_chunk, s1, s2, n1, and_true]
        rw [hc]
        exact slice_append f hpa (le_nextStart _ _ (by omega))

theorem cons_flatten_slice {f : List α} {c : List α} {cs : List (List α)} {pos hi : Nat}
    (hhi : hi ≤ f.length) (h : (c :: cs).flatten = slice f pos hi) :
    c = slice f pos (pos + c.length) ∧ cs.flatten = slice f (pos + c.length) hi ∧
      (pos ≤ hi → pos + c.length ≤ hi) := by
  rw [List.flatten_cons] at h
  have hl := congrArg List.length h
  simp only [List.length_append, slice_length] at hl
  have h1 : c = (slice f pos hi).take c.length := by rw [← h]; simp
  have h2 : cs.flatten = (slice f pos hi).drop c.length := by rw [← h]; simp
  rw [slice_take] at h1
  rw [slice_drop] at h2
  refine ⟨?_, h2, by omega⟩
  by_cases hp : pos ≤ hi
  · have : min (pos + c.length) hi = pos + c.length := by omega
    rw [this] at h1; exact h1
  · have : c.length = 0 := by omega
    have hc : c = [] := List.eq_nil_of_length_eq_zero this
    rw [hc]; simp [slice]

theorem fetching_spec {cfg : Cfg α} {f : List α} (ok : StoreOk cfg f) {e fuel hi : Nat}
    (heN : e < f.length) (hehi : e < hi) (hhi : hi ≤ f.length) (hfuel : f.length - hi ≤ fuel) :
    ∀ (cs : List (List α)) (pos : Nat), pos < e → cs.flatten = slice f pos hi →
      bytes (fetching cfg (some e) fuel pos cs) = slice f pos (nextStart cfg.term f (e - 1)) ∧
        bad (fetching cfg (some e) fuel pos cs) = false := by
  intro cs
  induction cs with
  | nil =>
    intro pos hp h
    have hl := congrArg List.length h
    simp only [List.flatten_nil, List.length_nil, slice_length] at hl
    omega
  | cons c cs ih =>
    intro pos hp h
    obtain ⟨hc, hcs, hle⟩ := cons_flatten_slice hhi h
    simp only [fetching]
    exact onChunk_spec ok heN hp hc (by omega) (hle (by omega)) hhi hcs hfuel
      (fun hlt => ih (pos + c.length) hlt hcs)

theorem fetching_none_spec (cfg : Cfg α) (fuel : Nat) :
    ∀ (cs : List (List α)) (pos : Nat),
      bytes (fetching cfg none fuel pos cs) = cs.flatten ∧ bad (fetching cfg none fuel pos cs) = false := by
  intro cs
  induction cs with
  | nil => intro pos; simp [fetching]
  | cons c cs ih =>
    intro pos
    obtain ⟨i1, i2⟩ := ih (pos + c.length)
    simp [fetching, onChunk, fetchStep, i1, i2]

theorem fetchingP_spec {cfg : Cfg α} {f : List α} (ok : StoreOk cfg f) {e fuel hi a pa : Nat}
    {rem : List α} {cs : List (List α)}
    (heN : e < f.length) (hehi : e < hi) (hhi : hi ≤ f.length) (hfuel : f.length - hi ≤ fuel)
    (ha : a < e) (hapa : a ≤ pa) (hpahi : pa ≤ hi) (hrem : rem = slice f a pa)
    (hcs : cs.flatten = slice f pa hi) :
    bytes (fetchingP cfg (some e) fuel pa (if rem.isEmpty then none else some rem) cs)
        = slice f a (nextStart cfg.term f (e - 1)) ∧
      bad (fetchingP cfg (some e) fuel pa (if rem.isEmpty then none else some rem) cs) = false := by
  have hl : rem.length = pa - a := by rw [hrem, slice_length]; omega
  by_cases hemp : rem.isEmpty
  · simp only [hemp, if_true, fetchingP]
    have : rem.length = 0 := by simpa using hemp
    have hpa : pa = a := by omega
    subst hpa
    exact fetching_spec ok heN hehi hhi hfuel cs pa ha hcs
  · simp only [hemp, fetchingP]
    exact onChunk_spec ok heN ha hrem hapa hpahi hhi hcs hfuel
      (fun hlt => fetching_spec ok heN hehi hhi hfuel cs pa hlt hcs)

theorem fetchingP_none_spec (cfg : Cfg α) (fuel pa : Nat) (rem : List α) (cs : List (List α)) :
    bytes (fetchingP cfg none fuel pa (if rem.isEmpty then none else some rem) cs) = rem ++ cs.flatten ∧
      bad (fetchingP cfg none fuel pa (if rem.isEmpty then none else some rem) cs) = false := by
  obtain ⟨i1, i2⟩ := fetching_none_spec cfg fuel cs pa
  by_cases hemp : rem.isEmpty
  · have : rem = [] := by simpa using hemp
    subst this
    simp [fetchingP, i1, i2]
  · simp [hemp, fetchingP, onChunk, fetchStep, i1, i2]

/-- `ScanningFirstTerminator`, bounded end. `s'` is `fetch_start = raw_start - 1`. -/
theorem scanFirst_spec {cfg : Cfg α} {f : List α} (ok : StoreOk cfg f) {e fuel hi s' : Nat}
    (heN : e < f.length) (hehi : e < hi) (hhi : hi ≤ f.length) (hfuel : f.length - hi ≤ fuel) :
    ∀ (cs : List (List α)) (pos : Nat), s' ≤ pos → pos ≤ hi → cs.flatten = slice f pos hi →
      nextStart cfg.term f s' = nextStart cfg.term f pos →
      bytes (scanFirst cfg (some e) fuel pos cs) =
          (if e ≤ nextStart cfg.term f s' then []
           else slice f (nextStart cfg.term f s') (nextStart cfg.term f (e - 1))) ∧
        bad (scanFirst cfg (some e) fuel pos cs) = false := by
  intro cs
  induction cs with
  | nil =>
    intro pos hsp hp h hns
    have hl := congrArg List.length h
    simp only [List.flatten_nil, List.length_nil, slice_length] at hl
    have hpe : pos = hi := by omega
    subst hpe
    have := le_nextStart cfg.term f hhi
    have hle : e ≤ nextStart cfg.term f s' := by omega
    simp [scanFirst, hle]
  | cons c cs ih =>
    intro pos hsp hp h hns
    obtain ⟨hc, hcs, hle⟩ := cons_flatten_slice hhi h
    have hle := hle hp
    simp only [scanFirst]
    cases hD : splitTerm cfg.term c with
    | none =>
      simp only
      apply ih (pos + c.length) (by omega) hle hcs
      rw [hns]
      exact nextStart_window_none (by omega) (hc ▸ hD)
    | some pr =>
      obtain ⟨p, rem⟩ := pr
      simp only
      obtain ⟨n1, n2⟩ := nextStart_window_some (j := pos + c.length) (by omega) (hc ▸ hD)
      have hcp := (splitTerm_some hD).1
      have hcl := congrArg List.length hcp
      simp only [List.length_append] at hcl
      have ha : pos + c.length - rem.length = nextStart cfg.term f s' := by rw [hns, n1]; omega
      rw [ha]
      by_cases hea : e ≤ nextStart cfg.term f s'
      · simp [endLe, hea]
      · simp only [endLe, hea, decide_false, Bool.false_eq_true, if_false]
        have hrem : rem = slice f (nextStart cfg.term f s') (pos + c.length) := by
          have : rem = c.drop p.length := by rw [hcp]; simp
          rw [this, hc, slice_drop, hns, n1]
          congr 1
          simp only [slice_length] at *
          omega
        exact fetchingP_spec ok heN hehi hhi hfuel (by omega) (by rw [hns, n1]; omega) hle hrem hcs

/-- `ScanningFirstTerminator`, last partition (`end = u64::MAX`, the initial GET reaches EOF). -/
theorem scanFirst_none_spec {cfg : Cfg α} {f : List α} {fuel s' : Nat} :
    ∀ (cs : List (List α)) (pos : Nat), s' ≤ pos → pos ≤ f.length → cs.flatten = slice f pos f.length →
      nextStart cfg.term f s' = nextStart cfg.term f pos →
      bytes (scanFirst cfg none fuel pos cs) = slice f (nextStart cfg.term f s') f.length ∧
        bad (scanFirst cfg none fuel pos cs) = false := by
  intro cs
  induction cs with
  | nil =>
    intro pos hsp hp h hns
    have hl := congrArg List.length h
    simp only [List.flatten_nil, List.length_nil, slice_length] at hl
    have hpe : pos = f.length := by omega
    subst hpe
    rw [hns, nextStart_of_length_le _ _ (Nat.le_refl _)]
    simp [scanFirst, slice_self]
  | cons c cs ih =>
    intro pos hsp hp h hns
    obtain ⟨hc, hcs, hle⟩ := cons_flatten_slice (Nat.le_refl _) h
    have hle := hle hp
    simp only [scanFirst]
    cases hD : splitTerm cfg.term c with
    | none =>
      simp only
      apply ih (pos + c.length) (by omega) hle hcs
      rw [hns]
      exact nextStart_window_none (by omega) (hc ▸ hD)
    | some pr =>
      obtain ⟨p, rem⟩ := pr
      simp only [endLe, Bool.false_eq_true, if_false]
      obtain ⟨n1, n2⟩ := nextStart_window_some (j := pos + c.length) (by omega) (hc ▸ hD)
      have hcp := (splitTerm_some hD).1
      have hcl := congrArg List.length hcp
      simp only [List.length_append] at hcl
      have hrem : rem = slice f (nextStart cfg.term f s') (pos + c.length) := by
        have : rem = c.drop p.length := by rw [hcp]; simp
        rw [this, hc, slice_drop, hns, n1]
        congr 1
        simp only [slice_length] at *
        omega
      obtain ⟨i1, i2⟩ := fetchingP_none_spec cfg fuel (pos + c.length) rem cs
      rw [i1, i2, hrem, hcs]
      exact ⟨slice_append f (by rw [hns, n1]; omega) hle, rfl⟩

theorem run_spec {cfg : Cfg α} {f : List α} (ok : StoreOk cfg f) (fuel s e : Nat)
    (hfuel : f.length ≤ fuel) :
    bytes (run cfg fuel s e) = aligned cfg.term f s e ∧ bad (run cfg fuel s e) = false := by
  unfold run aligned
  rw [ok.size_eq]
  by_cases hg : s ≥ e ∨ s ≥ f.length
  · simp [hg]
  · simp only [hg, if_false, bytes_get, bad_get]
    have hse : s < e := by omega
    have hsN : s < f.length := by omega
    have hL := ok.look_pos
    by_cases heN : e ≥ f.length
    · -- last partition
      have hife : min (e + cfg.lookahead) f.length = f.length := by omega
      simp only [heN, if_true, hife, alignEnd]
      by_cases hs0 : s = 0
      · subst hs0
        simp only [if_true, alignStart]
        obtain ⟨i1, i2⟩ := fetching_none_spec cfg fuel (cfg.store 0 f.length) 0
        rw [i1, i2, ok.serve 0 f.length (by omega) (Nat.le_refl _)]
        exact ⟨rfl, rfl⟩
      · simp only [hs0, if_false, alignStart]
        exact scanFirst_none_spec (cfg.store (s - 1) f.length) (s - 1) (Nat.le_refl _) (by omega)
          (ok.serve _ _ (by omega) (Nat.le_refl _)) rfl
    · have heN' : e < f.length := by omega
      have hhi1 : e < min (e + cfg.lookahead) f.length := by omega
      have hhi2 : min (e + cfg.lookahead) f.length ≤ f.length := by omega
      simp only [heN, if_false, alignEnd]
      by_cases hs0 : s = 0
      · subst hs0
        simp only [if_true, alignStart]
        exact fetching_spec ok heN' hhi1 hhi2 (by omega) _ 0 hse (ok.serve _ _ (by omega) hhi2)
      · simp only [hs0, if_false, alignStart]
        obtain ⟨i1, i2⟩ := scanFirst_spec (s' := s - 1) ok heN' hhi1 hhi2 (fuel := fuel) (by omega)
          (cfg.store (s - 1) _) (s - 1) (Nat.le_refl _) (by omega) (ok.serve _ _ (by omega) hhi2) rfl
        rw [i1, i2]
        refine ⟨?_, rfl⟩
        split
        · rename_i hea
          have : nextStart cfg.term f (e - 1) = nextStart cfg.term f (s - 1) :=
            nextStart_eq_of_lt (by omega) (by omega)
          rw [this, slice_self]
        · rfl

/-! ### alignPos: aligned = f[alignPos s, alignPos e) ; monotone ⇒ tiling -/

theorem alignPos_zero (t : α) (f : List α) : alignPos t f 0 = 0 := by simp [alignPos]

theorem alignPos_length (t : α) (f : List α) : alignPos t f f.length = f.length := by
  unfold alignPos; split <;> simp_all

theorem alignPos_le (t : α) (f : List α) (x : Nat) : alignPos t f x ≤ f.length := by
  unfold alignPos
  split
  · omega
  · split
    · omega
    · exact nextStart_le _ _ _

theorem alignPos_mono (t : α) (f : List α) {x y : Nat} (h : x ≤ y) : alignPos t f x ≤ alignPos t f y := by
  by_cases hx : x = 0
  · subst hx; simp [alignPos]
  · by_cases hy : y ≥ f.length
    · have : alignPos t f y = f.length := by unfold alignPos; split <;> simp_all
      rw [this]; exact alignPos_le t f x
    · have h1 : alignPos t f x = nextStart t f (x - 1) := by
        unfold alignPos; rw [if_neg hx, if_neg (by omega)]
      have h2 : alignPos t f y = nextStart t f (y - 1) := by
        unfold alignPos; rw [if_neg (by omega), if_neg (by omega)]
      rw [h1, h2]; exact nextStart_mono t f (by omega)

theorem aligned_eq_slice_alignPos (t : α) (f : List α) {s e : Nat} (hse : s ≤ e) (he : e ≤ f.length) :
    aligned t f s e = slice f (alignPos t f s) (alignPos t f e) := by
  unfold aligned
  by_cases hg : s ≥ e ∨ s ≥ f.length
  · simp only [hg, if_true]
    have : s = e := by omega
    subst this
    rw [slice_self]
  · simp only [hg, if_false]
    congr 1
    · unfold alignStart alignPos
      by_cases hs : s = 0
      · simp [hs]
      · rw [if_neg hs, if_neg hs, if_neg (by omega)]
    · unfold alignEnd alignPos
      by_cases heN : e ≥ f.length
      · rw [if_pos heN, if_neg (by omega)]
      · rw [if_neg heN, if_neg (by omega)]

theorem splitTerm_some_snoc {t : α} : ∀ {c p r : List α}, splitTerm t c = some (p, r) →
    ∃ q, p = q ++ [t] := by
  intro c
  induction c with
  | nil => intro p r h; simp [splitTerm] at h
  | cons x xs ih =>
    intro p r h
    simp only [splitTerm] at h
    split at h
    · rename_i hx
      simp only [Option.some.injEq, Prod.mk.injEq] at h
      obtain ⟨rfl, rfl⟩ := h
      exact ⟨[], by simp [hx]⟩
    · split at h
      · rename_i p' r' h'
        simp only [Option.some.injEq, Prod.mk.injEq] at h
        obtain ⟨rfl, rfl⟩ := h
        obtain ⟨q, hq⟩ := ih h'
        exact ⟨x :: q, by simp [hq]⟩
      · simp at h

/-- a record start: position 0, or just after a terminator, or the end of the file -/
def IsRecStart (t : α) (f : List α) (x : Nat) : Prop :=
  x = 0 ∨ x = f.length ∨ (0 < x ∧ x ≤ f.length ∧ (slice f (x - 1) x) = [t])

theorem nextStart_isRecStart (t : α) (f : List α) (i : Nat) : IsRecStart t f (nextStart t f i) := by
  unfold nextStart
  cases h : splitTerm t (f.drop i) with
  | none => exact Or.inr (Or.inl rfl)
  | some pr =>
    obtain ⟨p, r⟩ := pr
    obtain ⟨h1, h2, h3⟩ := splitTerm_some h
    have hl := congrArg List.length h1
    simp only [List.length_drop, List.length_append] at hl
    refine Or.inr (Or.inr ⟨by simp only; omega, by simp only; omega, ?_⟩)
    simp only
    -- f[i+|p|-1, i+|p|) = last element of p
    have hs : slice f i (i + p.length) = p := by
      simp only [slice]; rw [h1]; simp
    have : slice f (i + p.length - 1) (i + p.length) = (slice f i (i + p.length)).drop (p.length - 1) := by
      rw [slice_drop]; congr 1; omega
    rw [this, hs]
    obtain ⟨q, hq⟩ := splitTerm_some_snoc h
    rw [hq]; simp

theorem alignPos_isRecStart (t : α) (f : List α) (x : Nat) : IsRecStart t f (alignPos t f x) := by
  unfold alignPos
  split
  · exact Or.inl rfl
  · split
    · exact Or.inr (Or.inl rfl)
    · exact nextStart_isRecStart _ _ _

theorem le_alignPos (t : α) (f : List α) {x : Nat} (h : x ≤ f.length) : x ≤ alignPos t f x := by
  unfold alignPos
  split
  · omega
  · split
    · omega
    · have := le_nextStart t f (i := x - 1) (by omega)
      -- nextStart (x-1) ≥ x because it is (x-1)+|p| with |p| ≥ 1, or the length
      unfold nextStart at *
      split
      · rename_i p r hp; have := (splitTerm_some hp).2.2; omega
      · omega

theorem alignPos_least (t : α) (f : List α) {x y : Nat} (hy : IsRecStart t f y) (hxy : x ≤ y) :
    alignPos t f x ≤ y := by
  by_cases hx : x = 0
  · subst hx; simp [alignPos]
  · rcases hy with h0 | hN | ⟨hpos, hle, hterm⟩
    · omega
    · subst hN; exact alignPos_le t f x
    · by_cases hxN : x ≥ f.length
      · have : alignPos t f x = f.length := by unfold alignPos; rw [if_neg hx, if_pos hxN]
        omega
      · have h1 : alignPos t f x = nextStart t f (x - 1) := by
          unfold alignPos; rw [if_neg hx, if_neg hxN]
        rw [h1]
        by_cases hlt : y - 1 < nextStart t f (x - 1)
        · have e1 := nextStart_eq_of_lt (t := t) (f := f) (i := x - 1) (j := y - 1) (by omega) hlt
          have e2 : nextStart t f (y - 1) = y :=
            nextStart_pred_of_term hpos (by rw [hterm]; simp) hle
          omega
        · omega

theorem mono_le_last : ∀ (bs : List Nat) (b : Nat), Mono b bs → b ≤ lastB b bs := by
  intro bs
  induction bs with
  | nil => intro b _; exact Nat.le_refl _
  | cons b' bs ih => intro b h; exact Nat.le_trans h.1 (ih b' h.2)

theorem incr_mono : ∀ (bs : List Nat) (b : Nat), Incr b bs → Mono b bs := by
  intro bs
  induction bs with
  | nil => intro b _; trivial
  | cons b' bs ih => intro b h; exact ⟨Nat.le_of_lt h.1, ih b' h.2⟩

theorem rangesOut_flatten (t : α) (f : List α) : ∀ (bs : List Nat) (b : Nat), Mono b bs →
    lastB b bs ≤ f.length →
    (rangesOut t f b bs).flatten = slice f (alignPos t f b) (alignPos t f (lastB b bs)) := by
  intro bs
  induction bs with
  | nil => intro b _ _; simp [rangesOut, lastB, slice_self]
  | cons b' bs ih =>
    intro b hm hl
    have hb' : b' ≤ lastB b' bs := mono_le_last bs b' hm.2
    simp only [rangesOut, List.flatten_cons, lastB] at *
    rw [ih b' hm.2 hl, aligned_eq_slice_alignPos t f hm.1 (by omega)]
    exact slice_append f (alignPos_mono t f hm.1) (alignPos_mono t f hb')

/-! ### records -/

theorem recordsAux_append_term (t : α) : ∀ (q cur y : List α),
    recordsAux t cur ((q ++ [t]) ++ y) = recordsAux t cur (q ++ [t]) ++ records t y := by
  intro q
  induction q with
  | nil => intro cur y; simp [recordsAux, records]
  | cons a q ih =>
    intro cur y
    simp only [List.cons_append, recordsAux]
    split
    · rw [ih]; simp
    · rw [ih]

theorem records_append_of_term (t : α) (q y : List α) :
    records t ((q ++ [t]) ++ y) = records t (q ++ [t]) ++ records t y :=
  recordsAux_append_term t q [] y

@[simp] theorem records_nil (t : α) : records t ([] : List α) = [] := by simp [records, recordsAux]

/-- a piece `f[a, b)` ending at a record start `b` is empty, ends with the terminator, or reaches EOF -/
theorem records_split_at_recStart (t : α) (f : List α) {a b : Nat} (hab : a ≤ b) (hb : IsRecStart t f b) :
    records t (slice f a f.length) = records t (slice f a b) ++ records t (slice f b f.length) := by
  have hbN : b ≤ f.length := by
    rcases hb with h | h | h <;> omega
  rw [← slice_append f hab hbN]
  rcases hb with h0 | hN | ⟨hpos, hle, hterm⟩
  · have : a = 0 := by omega
    subst this; subst h0; simp [slice_self]
  · subst hN; simp [slice_self]
  · by_cases hab' : a = b
    · subst hab'; simp [slice_self]
    · have : slice f a b = slice f a (b - 1) ++ [t] := by
        rw [← hterm]; exact (slice_append f (by omega) (by omega)).symm
      rw [this, records_append_of_term]

theorem records_tile_aux (t : α) (f : List α) : ∀ (bs : List Nat) (b : Nat), Mono b bs →
    lastB b bs = f.length →
    ((rangesOut t f b bs).map (records t)).flatten = records t (slice f (alignPos t f b) f.length) := by
  intro bs
  induction bs with
  | nil =>
    intro b _ hl
    simp only [lastB] at hl
    subst hl
    simp [rangesOut, alignPos_length, slice_self]
  | cons b' bs ih =>
    intro b hm hl
    have hb' : b' ≤ lastB b' bs := mono_le_last bs b' hm.2
    simp only [lastB] at hl
    simp only [rangesOut, List.map_cons, List.flatten_cons]
    rw [ih b' hm.2 hl, aligned_eq_slice_alignPos t f hm.1 (by omega)]
    exact (records_split_at_recStart t f (alignPos_mono t f hm.1) (alignPos_isRecStart t f b')).symm

/-- the pieces of one file are consecutive ranges `[rs,b₁) [b₁,b₂) … [·,fe)` with strictly increasing ends -/
def pairsOf : Nat → List Nat → List (Nat × Nat)
  | _, [] => []
  | b, b' :: bs => (b, b') :: pairsOf b' bs

theorem rangesOut_eq_pairs {α : Type} [DecidableEq α] (t : α) (f : List α) : ∀ (bs : List Nat) (b : Nat),
    rangesOut t f b bs = (pairsOf b bs).map (fun se => aligned t f se.1 se.2) := by
  intro bs
  induction bs with
  | nil => intro b; rfl
  | cons b' bs ih => intro b; simp [rangesOut, pairsOf, ih b']

theorem splitFile_chain (target file : Nat) (ht : 0 < target) :
    ∀ (fuel idx cur rs fe : Nat), cur < target → rs ≤ fe → fe - rs ≤ fuel →
      ∃ ps i c, splitFile target file fuel idx cur rs fe = some (ps, i, c) ∧ c < target ∧
        ps.map (fun p => (p.start, p.stop)) = pairsOf rs (ps.map (·.stop)) ∧
        Incr rs (ps.map (·.stop)) ∧ lastB rs (ps.map (·.stop)) = fe ∧ ∀ p ∈ ps, p.file = file := by
  intro fuel
  induction fuel with
  | zero =>
    intro idx cur rs fe hc hle hf
    have : ¬ rs < fe := by omega
    have hrs : rs = fe := by omega
    exact ⟨[], idx, cur, by simp [splitFile, this], hc, rfl, trivial, by simp [lastB, hrs], by simp⟩
  | succ fuel ih =>
    intro idx cur rs fe hc hle hf
    by_cases hlt : rs < fe
    · have hnt : ¬ target < cur := by omega
      have hre1 : rs < min (rs + (target - cur)) fe := by omega
      have hre2 : min (rs + (target - cur)) fe ≤ fe := by omega
      generalize hre : min (rs + (target - cur)) fe = re at hre1 hre2
      let st : Nat × Nat := if cur + (re - rs) ≥ target then (idx + 1, 0) else (idx, cur + (re - rs))
      have hst : st.2 < target := by
        simp only [st]; split <;> simp <;> omega
      obtain ⟨ps, i, c, h1, h2, h3, h4, h5, h6⟩ := ih st.1 st.2 re fe hst hre2 (by omega)
      refine ⟨{ part := idx, file := file, start := rs, stop := re } :: ps, i, c, ?_, h2, ?_, ?_, ?_, ?_⟩
      · simp only [splitFile, hlt, if_true, hnt, if_false, hre]
        simp only [st] at h1
        rw [h1]
      · simp [pairsOf, h3]
      · exact ⟨hre1, h4⟩
      · simpa [lastB] using h5
      · intro p hp
        simp only [List.mem_cons] at hp
        rcases hp with rfl | hp
        · rfl
        · exact h6 p hp
    · have hrs : rs = fe := by omega
      exact ⟨[], idx, cur, by simp [splitFile, hlt], hc, rfl, trivial, by simp [lastB, hrs], by simp⟩

end DfModel.Proofs.C26
