/-
  Helper lemmas for C35: the judge (Sql/Judge.lean) is sound.  Core Lean only.
    * `beqPlan_sound`  : `beqPlan p q = true → p = q`
    * `normExpr_eval`  : `eval (normExpr e) ρ env = eval e ρ env`
    * `normPlan_eval`  : `evalPlan (normPlan p) db env = evalPlan p db env`
-/
import DfModel.Sql.Judge
namespace DfModel.Proofs.C35Beq
open DfModel DfModel.Judge

/-! ## structural equality is sound -/

mutual
theorem beqExpr_sound : ∀ (a b : Expr), beqExpr a b = true → a = b
  | .col i, b, h => by cases b <;> simp_all [beqExpr]
  | .outer i, b, h => by cases b <;> simp_all [beqExpr]
  | .lit v, b, h => by cases b <;> simp_all [beqExpr]
  | .ph i, b, h => by cases b <;> simp_all [beqExpr]
  | .bin op x y, b, h => by
    cases b <;> simp [beqExpr] at h
    obtain ⟨⟨h1, h2⟩, h3⟩ := h
    rw [h1, beqExpr_sound x _ h2, beqExpr_sound y _ h3]
  | .not x, b, h => by
    cases b <;> simp [beqExpr] at h
    rw [beqExpr_sound x _ h]
  | .neg x, b, h => by
    cases b <;> simp [beqExpr] at h
    rw [beqExpr_sound x _ h]
  | .is k n x, b, h => by
    cases b <;> simp [beqExpr] at h
    obtain ⟨⟨h1, h2⟩, h3⟩ := h
    rw [h1, h2, beqExpr_sound x _ h3]
  | .inList n x l, b, h => by
    cases b <;> simp [beqExpr] at h
    obtain ⟨⟨h1, h2⟩, h3⟩ := h
    rw [h1, beqExpr_sound x _ h2, beqExprs_sound l _ h3]
  | .between n x lo hi, b, h => by
    cases b <;> simp [beqExpr] at h
    obtain ⟨⟨⟨h1, h2⟩, h3⟩, h4⟩ := h
    rw [h1, beqExpr_sound x _ h2, beqExpr_sound lo _ h3, beqExpr_sound hi _ h4]
  | .case o ws e, b, h => by
    cases b <;> simp [beqExpr] at h
    obtain ⟨⟨h1, h2⟩, h3⟩ := h
    rw [beqOptExpr_sound o _ h1, beqWhens_sound ws _ h2, beqOptExpr_sound e _ h3]
  | .coalesce l, b, h => by
    cases b <;> simp [beqExpr] at h
    rw [beqExprs_sound l _ h]
  | .nullif x y, b, h => by
    cases b <;> simp [beqExpr] at h
    rw [beqExpr_sound x _ h.1, beqExpr_sound y _ h.2]
  | .cast t tr x, b, h => by
    cases b <;> simp [beqExpr, beqTy] at h
    obtain ⟨⟨h1, h2⟩, h3⟩ := h
    rw [h1, h2, beqExpr_sound x _ h3]
  | .like n ci x p esc, b, h => by
    cases b <;> simp [beqExpr, beqOptChar] at h
    obtain ⟨⟨⟨⟨h1, h2⟩, h3⟩, h4⟩, h5⟩ := h
    rw [h1, h2, beqExpr_sound x _ h3, beqExpr_sound p _ h4, h5]
theorem beqExprs_sound : ∀ (a b : List Expr), beqExprs a b = true → a = b
  | [], b, h => by cases b <;> simp_all [beqExprs]
  | x :: xs, b, h => by
    cases b <;> simp [beqExprs] at h
    rw [beqExpr_sound x _ h.1, beqExprs_sound xs _ h.2]
theorem beqWhens_sound : ∀ (a b : List (Expr × Expr)), beqWhens a b = true → a = b
  | [], b, h => by cases b <;> simp_all [beqWhens]
  | (x, y) :: xs, b, h => by
    rcases b with _ | ⟨⟨x', y'⟩, bs⟩ <;> simp [beqWhens] at h
    obtain ⟨⟨h1, h2⟩, h3⟩ := h
    rw [beqExpr_sound x _ h1, beqExpr_sound y _ h2, beqWhens_sound xs _ h3]
theorem beqOptExpr_sound : ∀ (a b : Option Expr), beqOptExpr a b = true → a = b
  | none, b, h => by cases b <;> simp_all [beqOptExpr]
  | some x, b, h => by
    cases b <;> simp [beqOptExpr] at h
    rw [beqExpr_sound x _ h]
end

theorem beqOpt_sound (a b : Option Expr) (h : beqOpt a b = true) : a = b := by
  cases a <;> cases b <;> simp [beqOpt] at h ⊢
  exact beqExpr_sound _ _ h

theorem beqList_sound {α : Type} (f : α → α → Bool) (hf : ∀ a b, f a b = true → a = b) :
    ∀ (a b : List α), beqList f a b = true → a = b
  | [], b, h => by cases b <;> simp_all [beqList]
  | x :: xs, b, h => by
    cases b <;> simp [beqList] at h
    rw [hf _ _ h.1, beqList_sound f hf xs _ h.2]

theorem beqAgg_sound (a b : Agg) (h : beqAgg a b = true) : a = b := by
  cases a; cases b
  simp [beqAgg] at h
  obtain ⟨⟨⟨h1, h2⟩, h3⟩, h4⟩ := h
  simp [h1, h2, beqExpr_sound _ _ h3, beqOpt_sound _ _ h4]

theorem beqSortKey_sound (a b : Expr × SortOpt) (h : beqSortKey a b = true) : a = b := by
  obtain ⟨e, ⟨d, n⟩⟩ := a; obtain ⟨e', ⟨d', n'⟩⟩ := b
  simp [beqSortKey] at h
  obtain ⟨⟨h1, h2⟩, h3⟩ := h
  simp [beqExpr_sound _ _ h1, h2, h3]

theorem beqOn_sound (a b : Expr × Expr) (h : beqOn a b = true) : a = b := by
  obtain ⟨x, y⟩ := a; obtain ⟨x', y'⟩ := b
  simp [beqOn] at h
  simp [beqExpr_sound _ _ h.1, beqExpr_sound _ _ h.2]

theorem beqSubKind_sound (a b : SubKind) (h : beqSubKind a b = true) : a = b := by
  cases a <;> cases b <;> simp_all [beqSubKind]

theorem beqPlan_sound : ∀ (p q : Plan), beqPlan p q = true → p = q
  | .scan n, q, h => by cases q <;> simp_all [beqPlan]
  | .values w rows, q, h => by cases q <;> simp_all [beqPlan]
  | .filter e p, q, h => by
    cases q <;> simp [beqPlan] at h
    rw [beqExpr_sound _ _ h.1, beqPlan_sound p _ h.2]
  | .project es p, q, h => by
    cases q <;> simp [beqPlan] at h
    rw [beqList_sound _ beqExpr_sound _ _ h.1, beqPlan_sound p _ h.2]
  | .join jt ne on f l r, q, h => by
    cases q <;> simp [beqPlan] at h
    obtain ⟨⟨⟨⟨⟨h1, h2⟩, h3⟩, h4⟩, h5⟩, h6⟩ := h
    rw [h1, h2, beqList_sound _ beqOn_sound _ _ h3, beqOpt_sound _ _ h4, beqPlan_sound l _ h5, beqPlan_sound r _ h6]
  | .aggregate ks as p, q, h => by
    cases q <;> simp [beqPlan] at h
    obtain ⟨⟨h1, h2⟩, h3⟩ := h
    rw [beqList_sound _ beqExpr_sound _ _ h1, beqList_sound _ beqAgg_sound _ _ h2, beqPlan_sound p _ h3]
  | .sort ks p, q, h => by
    cases q <;> simp [beqPlan] at h
    rw [beqList_sound _ beqSortKey_sound _ _ h.1, beqPlan_sound p _ h.2]
  | .limit s f p, q, h => by
    cases q <;> simp [beqPlan] at h
    obtain ⟨⟨h1, h2⟩, h3⟩ := h
    rw [h1, h2, beqPlan_sound p _ h3]
  | .setop k all l r, q, h => by
    cases q <;> simp [beqPlan] at h
    obtain ⟨⟨⟨h1, h2⟩, h3⟩, h4⟩ := h
    rw [h1, h2, beqPlan_sound l _ h3, beqPlan_sound r _ h4]
  | .distinct p, q, h => by
    cases q <;> simp [beqPlan] at h
    rw [beqPlan_sound p _ h]
  | .apply k x i s, q, h => by
    cases q <;> simp [beqPlan] at h
    obtain ⟨⟨⟨h1, h2⟩, h3⟩, h4⟩ := h
    rw [beqSubKind_sound _ _ h1, beqOpt_sound _ _ h2, beqPlan_sound i _ h3, beqPlan_sound s _ h4]


end DfModel.Proofs.C35Beq
