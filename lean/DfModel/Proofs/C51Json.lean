/-
  C51 helper lemmas (c): the reference JSON string decoder inverts serde_json's escaping.
  Core Lean only.
-/
import DfModel.Text.Json
namespace DfModel.Proofs.C51Json
open DfModel DfModel.Text.Json

set_option linter.unusedSimpArgs false

theorem hexDigit_hexNibble : ∀ k, k < 16 → hexDigit? (hexNibble k) = some k := by decide

theorem decodeBody_cons (c : Char) (rest : List Char) : decodeBody (c :: rest) =
    if c == '"' then some ([], rest)
    else if c == '\\' then
      match rest with
      | [] => none
      | e :: rest' =>
        if e == 'u' then
          match rest' with
          | a :: b :: x :: y :: rest'' =>
            match hexDigit? a, hexDigit? b, hexDigit? x, hexDigit? y, decodeBody rest'' with
            | some a, some b, some x, some y, some (v, r) =>
              some (Char.ofNat (((a * 16 + b) * 16 + x) * 16 + y) :: v, r)
            | _, _, _, _, _ => none
          | _ => none
        else
          match unescape1 e, decodeBody rest' with
          | some ch, some (v, r) => some (ch :: v, r)
          | _, _ => none
    else if c.toNat < 32 then none
    else (decodeBody rest).map fun p => (c :: p.1, p.2) := by
  rw [decodeBody.eq_def]
  rfl

theorem char_eq_of_toNat {c : Char} {n : Nat} (h : c.toNat = n) : c = Char.ofNat n := by
  rw [← h, Char.ofNat_toNat]

/-- decoding one escaped character followed by anything -/
theorem decodeBody_escapeChar (c : Char) (tail : List Char) :
    decodeBody (escapeChar c ++ tail) = (decodeBody tail).map fun p => (c :: p.1, p.2) := by
  have two : ∀ (e ch : Char), (e == 'u') = false → unescape1 e = some ch →
      decodeBody (['\\', e] ++ tail) = (decodeBody tail).map fun p => (ch :: p.1, p.2) := by
    intro e ch he hu
    have hbs : ('\\' == '"') = false := by decide
    rw [List.cons_append, List.cons_append, List.nil_append, decodeBody_cons]
    simp only [hbs, Bool.false_eq_true, if_false, beq_self_eq_true, if_true, he, hu]
    cases decodeBody tail <;> simp
  by_cases h1 : c = '"'
  · subst h1
    rw [show escapeChar '"' = ['\\', '"'] from by decide]
    exact two '"' '"' (by decide) (by decide)
  by_cases h2 : c = '\\'
  · subst h2
    rw [show escapeChar '\\' = ['\\', '\\'] from by decide]
    exact two '\\' '\\' (by decide) (by decide)
  by_cases h3 : c.toNat = 8
  · have := char_eq_of_toNat h3; subst this
    rw [show escapeChar (Char.ofNat 8) = ['\\', 'b'] from by decide]
    exact two 'b' _ (by decide) (by decide)
  by_cases h4 : c.toNat = 9
  · have := char_eq_of_toNat h4; subst this
    rw [show escapeChar (Char.ofNat 9) = ['\\', 't'] from by decide]
    exact two 't' _ (by decide) (by decide)
  by_cases h5 : c.toNat = 10
  · have := char_eq_of_toNat h5; subst this
    rw [show escapeChar (Char.ofNat 10) = ['\\', 'n'] from by decide]
    exact two 'n' _ (by decide) (by decide)
  by_cases h6 : c.toNat = 12
  · have := char_eq_of_toNat h6; subst this
    rw [show escapeChar (Char.ofNat 12) = ['\\', 'f'] from by decide]
    exact two 'f' _ (by decide) (by decide)
  by_cases h7 : c.toNat = 13
  · have := char_eq_of_toNat h7; subst this
    rw [show escapeChar (Char.ofNat 13) = ['\\', 'r'] from by decide]
    exact two 'r' _ (by decide) (by decide)
  have h1' : (c == '"') = false := by simpa using h1
  have h2' : (c == '\\') = false := by simpa using h2
  unfold escapeChar
  simp only [h1', h2', Bool.false_eq_true, if_false, beq_iff_eq, h3, h4, h5, h6, h7]
  by_cases h8 : c.toNat < 32
  · simp only [h8, if_true, List.cons_append, List.nil_append]
    have ha : hexDigit? (hexNibble (c.toNat / 16)) = some (c.toNat / 16) :=
      hexDigit_hexNibble _ (by omega)
    have hb : hexDigit? (hexNibble (c.toNat % 16)) = some (c.toNat % 16) :=
      hexDigit_hexNibble _ (by omega)
    have h0 : hexDigit? '0' = some 0 := by decide
    have hu : ('u' == 'u') = true := by decide
    have hbs : ('\\' == '"') = false := by decide
    have hval : ((0 * 16 + 0) * 16 + c.toNat / 16) * 16 + c.toNat % 16 = c.toNat := by omega
    rw [decodeBody_cons]
    simp only [hbs, Bool.false_eq_true, if_false, beq_self_eq_true, if_true, hu, h0, ha, hb]
    cases decodeBody tail with
    | none => simp
    | some p => simp only [hval, Char.ofNat_toNat, Option.map_some]
  · simp only [h8, if_false, List.cons_append, List.nil_append]
    rw [decodeBody_cons]
    simp [h1', h2', h8]

theorem decodeBody_escapeBody (s rest : List Char) :
    decodeBody (escapeBody s ++ '"' :: rest) = some (s, rest) := by
  induction s with
  | nil => simp [escapeBody, decodeBody_cons]
  | cons c s ih =>
    have : escapeBody (c :: s) = escapeChar c ++ escapeBody s := by simp [escapeBody]
    rw [this, List.append_assoc, decodeBody_escapeChar, ih]
    rfl

theorem decodeString_encodeString (s rest : List Char) :
    decodeString (encodeString s ++ rest) = some (s, rest) := by
  simp [encodeString, decodeString, decodeBody_escapeBody]

/-- the escaped body contains no raw quote that is not preceded by a backslash escape, no raw
    control character: every character of the output is ≥ 0x20 -/
theorem escapeChar_printable (c : Char) : ∀ x ∈ escapeChar c, 32 ≤ x.toNat := by
  intro x hx
  unfold escapeChar at hx
  split at hx
  · simp at hx; rcases hx with rfl | rfl <;> decide
  split at hx
  · simp at hx; rcases hx with rfl | rfl <;> decide
  split at hx
  · simp at hx; rcases hx with rfl | rfl <;> decide
  split at hx
  · simp at hx; rcases hx with rfl | rfl <;> decide
  split at hx
  · simp at hx; rcases hx with rfl | rfl <;> decide
  split at hx
  · simp at hx; rcases hx with rfl | rfl <;> decide
  split at hx
  · simp at hx; rcases hx with rfl | rfl <;> decide
  split at hx
  · rename_i h
    have hn : ∀ k, k < 16 → 32 ≤ (hexNibble k).toNat := by decide
    simp at hx
    rcases hx with rfl | rfl | rfl | rfl | rfl
    all_goals first | decide | exact hn _ (by omega)
  · rename_i h
    simp at hx; subst hx; omega

end DfModel.Proofs.C51Json
