/-
  C18 — helper lemmas: data lemmas for sorting/merging/chunking and the ledger pass
  (every primitive and every composite procedure preserves the ledger invariant on its success
  path AND on every failure path).  Core Lean only.
-/
import DfModel.Mech.ReserveOrSpill
namespace DfModel.Proofs.C18
open DfModel.Mech.ReserveOrSpill

/-! ## data lemmas -/

theorem le_trans' (a b c : Int) : le a b = true → le b c = true → le a c = true := by
  intro h1 h2
  simp only [le, decide_eq_true_eq] at *
  exact Int.le_trans h1 h2

theorem le_total' (a b : Int) : (le a b || le b a) = true := by
  simp only [le, Bool.or_eq_true, decide_eq_true_eq]
  exact Int.le_total a b

abbrev Sorted (l : List Row) : Prop := l.Pairwise (fun a b => le a b = true)

theorem sorted_unique {l₁ l₂ : List Row} (h₁ : Sorted l₁) (h₂ : Sorted l₂) (hp : l₁.Perm l₂) : l₁ = l₂ := by
  refine List.Perm.eq_of_pairwise (le := fun a b => le a b = true) ?_ h₁ h₂ hp
  intro a b _ _ hab hba
  have hab' : (a : Int) ≤ b := by simpa [le] using hab
  have hba' : (b : Int) ≤ a := by simpa [le] using hba
  exact Int.le_antisymm hab' hba'

theorem sorted_sortRows (l : List Row) : Sorted (sortRows l) :=
  List.pairwise_mergeSort le_trans' le_total' l

theorem sortRows_perm (l : List Row) : (sortRows l).Perm l := List.mergeSort_perm l le

/-- a sorted permutation of `x` is `sortRows x` -/
theorem eq_sortRows {l x : List Row} (hs : Sorted l) (hp : l.Perm x) : l = sortRows x :=
  sorted_unique hs (sorted_sortRows x) (hp.trans (sortRows_perm x).symm)

theorem sortRows_congr {x y : List Row} (hp : x.Perm y) : sortRows x = sortRows y :=
  eq_sortRows (sorted_sortRows x) ((sortRows_perm x).trans hp)

theorem kmerge_perm (rs : List (List Row)) : (kmerge rs).Perm rs.flatten := by
  induction rs with
  | nil => simp [kmerge]
  | cons r rs ih =>
    simp only [kmerge, List.flatten_cons]
    exact (List.merge_perm_append le).trans (List.Perm.append_left r ih)

theorem kmerge_sorted (rs : List (List Row)) (h : ∀ r ∈ rs, Sorted r) : Sorted (kmerge rs) := by
  induction rs with
  | nil => simp [kmerge, Sorted]
  | cons r rs ih =>
    simp only [kmerge]
    exact List.pairwise_merge le_trans' le_total' _ _ (h r (by simp)) (ih (fun x hx => h x (by simp [hx])))

/-- merging sorted runs gives the sorted union -/
theorem kmerge_eq_sort (rs : List (List Row)) (h : ∀ r ∈ rs, Sorted r) : kmerge rs = sortRows rs.flatten :=
  eq_sortRows (kmerge_sorted rs h) (kmerge_perm rs)

theorem chunksAux_flatten (n : Nat) (l : List Row) (k : Nat) (cur : Batch) :
    (chunksAux n l k cur).flatten = cur.reverse ++ l := by
  induction l generalizing k cur with
  | nil => simp only [chunksAux]; split <;> simp_all
  | cons x xs ih =>
    simp only [chunksAux]
    split
    · simp [ih]
    · simp [ih]

theorem chunks_flatten (n : Nat) (l : List Row) : (chunks n l).flatten = l := by
  simp [chunks, chunksAux_flatten]

theorem coalesceGo_flatten (cfg : Cfg) (t : Nat) (bs group : List Batch) (bytes : Nat) :
    (coalesceGo cfg t bs group bytes).flatten = group.flatten ++ bs.flatten := by
  induction bs generalizing group bytes with
  | nil => simp only [coalesceGo]; split <;> simp_all
  | cons b bs ih =>
    simp only [coalesceGo]
    split
    · simp [ih]
    · simp [ih]

theorem coalesceRuns_flatten (cfg : Cfg) (bs : List Batch) : (coalesceRuns cfg bs).flatten = bs.flatten := by
  simp [coalesceRuns, coalesceGo_flatten]

theorem splitBatchInHalf_flatten (b : Batch) : (splitBatchInHalf b).flatten = b := by
  simp only [splitBatchInHalf]; split <;> simp

theorem halveRun_flatten (r : Run) : (halveRun r).flatten = r.flatten := by
  induction r with
  | nil => simp [halveRun]
  | cons b r ih =>
    simp only [halveRun, List.flatMap_cons, List.flatten_append, List.flatten_cons] at *
    rw [ih, splitBatchInHalf_flatten]

theorem halveRun_ne_nil (r : Run) (h : r ≠ []) : halveRun r ≠ [] := by
  cases r with
  | nil => exact absurd rfl h
  | cons b r =>
    simp only [halveRun, List.flatMap_cons, splitBatchInHalf]
    split <;> simp

/-- sorting the concatenation of individually sorted runs = merging them -/
theorem kmerge_map_sortRows (runs : List Batch) : kmerge (runs.map sortRows) = sortRows runs.flatten := by
  rw [kmerge_eq_sort _ (by intro r hr; simp only [List.mem_map] at hr; obtain ⟨x, _, rfl⟩ := hr; exact sorted_sortRows x)]
  apply sortRows_congr
  induction runs with
  | nil => simp
  | cons r rs ih => simp only [List.map_cons, List.flatten_cons]; exact (sortRows_perm r).append ih

/-! ## ledger pass -/

def held (s : St) : Nat := s.main + s.merge + s.stream + s.mlocal + s.pass

def filesHeld (s : St) : Nat := s.spills.length + cnt s.inProg + s.reading

/-- the ledger invariant: no counter underflow ever happened, the pool's counter is the sum of the
    live reservations, the disk manager's file count is the number of spill files held -/
def LInv (s : St) : Prop := s.bad = false ∧ s.pool = held s ∧ s.disk = filesHeld s

@[simp] theorem st_ok (a : α) (s : St) : (Res.ok a s).st = s := rfl
@[simp] theorem st_fail (e : Err) (s : St) : (Res.fail e s : Res α).st = s := rfl

/-- `m` keeps the ledger invariant on success and on every failure exit -/
structure Led (m : M α) : Prop where
  h : ∀ s, LInv s → LInv (m s).st

theorem led_pure (a : α) : Led (pure a : M α) := ⟨fun _ h => h⟩

theorem led_mpure (a : α) : Led (M.pure a : M α) := ⟨fun _ h => h⟩

theorem led_mbind {m : M α} {f : α → M β} (hm : Led m) (hf : ∀ a, Led (f a)) : Led (M.bind m f) := by
  constructor
  intro s hs
  have h1 := hm.h s hs
  simp only [M.bind]
  cases hms : m s with
  | ok a s' => simp only [hms, st_ok] at h1 ⊢; exact (hf a).h s' h1
  | fail e s' => simp only [hms, st_fail] at h1 ⊢; exact h1

theorem led_bind {m : M α} {f : α → M β} (hm : Led m) (hf : ∀ a, Led (f a)) : Led (m >>= f) :=
  led_mbind hm hf

theorem led_fail (e : Err) : Led (failWith e : M α) := ⟨fun _ h => h⟩

theorem led_getSt : Led getSt := ⟨fun _ h => h⟩

theorem led_forEach (l : List α) (f : α → M Unit) (hf : ∀ a, Led (f a)) : Led (forEach l f) := by
  induction l with
  | nil => exact ⟨fun _ h => h⟩
  | cons x xs ih => exact led_mbind (hf x) (fun _ => ih)

theorem led_ite {c : Prop} [Decidable c] {a b : M α} (ha : Led a) (hb : Led b) : Led (if c then a else b) := by
  split <;> assumption

theorem led_await (env : Env) : Led (await env) := by
  constructor; intro s hs; unfold await; split <;> exact hs

theorem led_tryGrowSoft (env : Env) (k : Slot) (n : Nat) : Led (tryGrowSoft env k n) := by
  constructor
  intro s hs
  obtain ⟨h1, h2, h3⟩ := hs
  unfold tryGrowSoft
  split
  · cases k <;> simp_all [LInv, held, filesHeld, St.set, St.get] <;> omega
  · exact ⟨h1, h2, h3⟩

theorem led_tryGrow (env : Env) (k : Slot) (n : Nat) : Led (tryGrow env k n) := by
  constructor
  intro s hs
  have := (led_tryGrowSoft env k n).h s hs
  unfold tryGrow
  cases h : tryGrowSoft env k n s with
  | ok b s' => cases b <;> simp_all
  | fail e s' => simp_all

theorem led_free (k : Slot) : Led (free k) := by
  constructor
  intro s hs
  obtain ⟨h1, h2, h3⟩ := hs
  have : s.get k ≤ s.pool := by cases k <;> simp only [St.get, h2, held] <;> omega
  simp only [free, poolShrink, if_pos this, st_ok]
  cases k <;> simp_all [LInv, held, filesHeld, St.set, St.get] <;> omega

theorem led_tryShrink (k : Slot) (n : Nat) : Led (tryShrink k n) := by
  constructor
  intro s hs
  obtain ⟨h1, h2, h3⟩ := hs
  unfold tryShrink
  split
  · rename_i hle
    have : n ≤ s.pool := by cases k <;> simp only [St.get, h2, held] at * <;> omega
    simp only [poolShrink, if_pos this, st_ok]
    cases k <;> simp_all [LInv, held, filesHeld, St.set, St.get] <;> omega
  · exact ⟨h1, h2, h3⟩

theorem led_tryResize (env : Env) (k : Slot) (cap : Nat) : Led (tryResize env k cap) := by
  constructor
  intro s hs
  unfold tryResize
  split
  · exact (led_tryGrow env k _).h s hs
  · split
    · exact (led_tryShrink k _).h s hs
    · exact hs

theorem led_move (a b : Slot) (n : Nat) : Led (move a b n) := by
  constructor
  intro s hs
  obtain ⟨h1, h2, h3⟩ := hs
  unfold move
  split
  · cases a <;> cases b <;> simp_all [LInv, held, filesHeld, St.set, St.get] <;> omega
  · exact ⟨h1, h2, h3⟩

theorem led_createFile (cfg : Cfg) : Led (createFile cfg) := by
  constructor
  intro s hs
  obtain ⟨h1, h2, h3⟩ := hs
  unfold createFile
  split
  · cases hi : s.inProg with
    | none =>
      simp only [st_ok, LInv, held, filesHeld, cnt, hi] at *
      refine ⟨h1, h2, ?_⟩; omega
    | some r =>
      have : 1 ≤ s.disk := by simp only [h3, filesHeld, hi, cnt]; omega
      simp only [st_ok, diskDelete, if_pos this, LInv, held, filesHeld, cnt, hi] at *
      refine ⟨h1, h2, ?_⟩; omega
  · exact ⟨h1, h2, h3⟩

theorem led_appendBatch (env : Env) (b : Batch) : Led (appendBatch env b) := by
  constructor
  intro s hs
  obtain ⟨h1, h2, h3⟩ := hs
  unfold appendBatch
  cases hi : s.inProg with
  | none => exact ⟨h1, h2, h3⟩
  | some r =>
    simp only
    split <;> simp_all [LInv, held, filesHeld, cnt]

theorem led_finishFile : Led finishFile := by
  constructor
  intro s hs
  obtain ⟨h1, h2, h3⟩ := hs
  unfold finishFile
  cases hi : s.inProg with
  | none => exact ⟨h1, h2, h3⟩
  | some r =>
    cases r with
    | nil =>
      have : 1 ≤ s.disk := by simp only [h3, filesHeld, hi, cnt]; omega
      simp only [diskDelete, if_pos this, st_ok, LInv, held, filesHeld, cnt, hi] at *
      refine ⟨h1, h2, ?_⟩; omega
    | cons b r =>
      simp only [st_ok, LInv, held, filesHeld, cnt, hi, List.length_append, List.length_cons, List.length_nil] at *
      refine ⟨h1, h2, ?_⟩; omega

theorem led_startReading (n : Nat) : Led (startReading n) := by
  constructor
  intro s hs
  obtain ⟨h1, h2, h3⟩ := hs
  refine ⟨h1, h2, ?_⟩
  simp only [startReading, st_ok, filesHeld, List.length_drop] at *
  omega

theorem led_startReadingIdx (n : Nat) : Led (startReadingIdx n) := by
  constructor
  intro s hs
  obtain ⟨h1, h2, h3⟩ := hs
  have : (s.spills.eraseIdx n).length ≤ s.spills.length := by
    rw [List.length_eraseIdx]; split <;> omega
  refine ⟨h1, h2, ?_⟩
  simp only [startReadingIdx, st_ok, filesHeld] at *
  omega

theorem led_reorderSpills (l : List Run) : Led (reorderSpills l) := by
  constructor
  intro s hs
  obtain ⟨h1, h2, h3⟩ := hs
  unfold reorderSpills
  split
  · rename_i h; simp only [st_ok, LInv, held, filesHeld, h] at *; exact ⟨h1, h2, h3⟩
  · exact ⟨h1, h2, h3⟩

theorem led_setInMem (l : List Batch) : Led (setInMem l) := by
  constructor
  intro s hs; exact hs

theorem led_dropPassStream : Led dropPassStream := by
  constructor
  intro s hs
  obtain ⟨h1, h2, h3⟩ := hs
  have hd : s.reading ≤ s.disk := by simp only [h3, filesHeld]; omega
  have hp : s.pass ≤ s.pool := by simp only [h2, held]; omega
  simp only [dropPassStream, st_ok, diskDelete, if_pos hd, poolShrink, if_pos hp, St.set, LInv, held, filesHeld] at *
  refine ⟨h1, ?_, ?_⟩ <;> omega


syntax "led_auto" : tactic
macro_rules
  | `(tactic| led_auto) => `(tactic| repeat' (first
      | exact led_pure _ | exact led_mpure _ | exact led_fail _ | exact led_getSt | exact led_await _
      | exact led_tryGrowSoft _ _ _ | exact led_tryGrow _ _ _ | exact led_free _
      | exact led_tryShrink _ _ | exact led_tryResize _ _ _ | exact led_move _ _ _
      | exact led_createFile _ | exact led_appendBatch _ _ | exact led_finishFile
      | exact led_startReading _ | exact led_startReadingIdx _ | exact led_reorderSpills _
      | exact led_setInMem _ | exact led_dropPassStream
      | assumption
      | apply led_forEach
      | apply led_bind | apply led_mbind
      | intro _
      | split
      | dsimp only))

theorem led_reserveMemoryForMerge (cfg : Cfg) (env : Env) : Led (reserveMemoryForMerge cfg env) := by
  unfold reserveMemoryForMerge; led_auto

theorem led_sortBatchStream (cfg : Cfg) (env : Env) (b : Batch) : Led (sortBatchStream cfg env b) := by
  unfold sortBatchStream; led_auto

theorem led_startRun (cfg : Cfg) (env : Env) (b : Batch) : Led (startRun cfg env b) := by
  unfold startRun
  have := led_sortBatchStream cfg env b
  led_auto

theorem led_inMemSortStream (cfg : Cfg) (env : Env) (c : Bool) : Led (inMemSortStream cfg env c) := by
  unfold inMemSortStream
  have h1 := led_sortBatchStream cfg env
  have h2 := led_startRun cfg env
  led_auto
  all_goals first | exact h1 _ | exact h2 _

theorem led_consumeAndSpillAppend (cfg : Cfg) (env : Env) (buf : List Batch) :
    Led (consumeAndSpillAppend cfg env buf) := by
  unfold consumeAndSpillAppend; led_auto

theorem led_spillFinish : Led spillFinish := by
  unfold spillFinish; led_auto

theorem led_spillLoop (cfg : Cfg) (env : Env) (cs buf : List Batch) : Led (spillLoop cfg env cs buf) := by
  induction cs generalizing buf with
  | nil => exact led_mpure _
  | cons c cs ih =>
    unfold spillLoop
    have := led_consumeAndSpillAppend cfg env
    led_auto
    all_goals first | exact ih _ | exact this _

theorem led_sortAndSpill (cfg : Cfg) (env : Env) : Led (sortAndSpill cfg env) := by
  unfold sortAndSpill dropSortedStream
  have h1 := led_inMemSortStream cfg env false
  have h2 := led_spillLoop cfg env
  have h3 := led_consumeAndSpillAppend cfg env
  have h4 := led_spillFinish
  have h5 := led_reserveMemoryForMerge cfg env
  led_auto
  all_goals first | exact h2 _ _ | exact h3 _

theorem led_reserveAndPush (cfg : Cfg) (env : Env) (b : Batch) : Led (reserveAndPush cfg env b) := by
  unfold reserveAndPush
  have h1 := led_sortAndSpill cfg env
  led_auto

theorem led_insertBatch (cfg : Cfg) (env : Env) (b : Batch) : Led (insertBatch cfg env b) := by
  unfold insertBatch
  have h1 := led_reserveAndPush cfg env b
  have h2 := led_reserveMemoryForMerge cfg env
  led_auto

theorem led_spillStream (cfg : Cfg) (env : Env) (out : List Batch) : Led (spillStream cfg env out) := by
  unfold spillStream; led_auto

theorem led_selectGo (cfg : Cfg) (env : Env) (mx bl : Nat) (fs : List Run) (n t : Nat) :
    Led (selectGo cfg env mx bl fs n t) := by
  induction fs generalizing n t with
  | nil => exact led_mpure _
  | cons f fs ih =>
    unfold selectGo
    led_auto
    all_goals exact ih _ _

theorem led_selectFiles (cfg : Cfg) (env : Env) (files : List Run) : Led (selectFiles cfg env files) := by
  unfold selectFiles
  have := led_selectGo cfg env
  led_auto
  all_goals exact this _ _ _ _ _

theorem led_mergePass (cfg : Cfg) (env : Env) (sel : List Run) : Led (mergePass cfg env sel) := by
  unfold mergePass
  have := led_spillStream cfg env
  led_auto
  all_goals exact this _

theorem led_resplit (cfg : Cfg) (env : Env) (files : List Run) (idx : Nat) (t : Run) :
    Led (resplit cfg env files idx t) := by
  unfold resplit
  have := led_spillStream cfg env
  led_auto
  all_goals exact this _

theorem led_ok {m : M α} (hm : Led m) {s : St} {a : α} {s' : St} (hs : LInv s) (h : m s = .ok a s') : LInv s' := by
  have := hm.h s hs; rw [h] at this; exact this

theorem led_err {m : M α} (hm : Led m) {s : St} {e : Err} {s' : St} (hs : LInv s) (h : m s = .fail e s') : LInv s' := by
  have := hm.h s hs; rw [h] at this; exact this

theorem led_selectStep (cfg : Cfg) (env : Env) (files : List Run) : Led (selectStep cfg env files) := by
  unfold selectStep
  have := led_selectFiles cfg env files
  led_auto

theorem led_mergeLoop (cfg : Cfg) (env : Env) (files : List Run) (s : St) (hs : LInv s) :
    LInv (mergeLoop cfg env files s).st := by
  fun_induction mergeLoop cfg env files s
  case case1 => exact hs
  case case2 s r =>
    have := (led_startReading 1).h s hs
    cases h : startReading 1 s <;> simp_all
  all_goals simp only [*, and_self, dite_true, if_true, if_false, dite_false, st_ok, st_fail, Bool.false_eq_true]
  case case3 h => exact led_err (led_selectStep ..) hs h
  case case4 h1 h2 _ => exact led_err (led_startReading _) (led_ok (led_selectStep ..) hs h2) h1
  case case5 h1 h2 _ _ => exact led_ok (led_startReading _) (led_ok (led_selectStep ..) hs h2) h1
  case case6 h1 _ _ h2 _ _ h3 =>
    exact led_err (led_mergePass ..) (led_ok (led_startReading _) (led_ok (led_selectStep ..) hs h2) h1) h3
  case case7 h1 _ h2 _ _ h3 ih =>
    exact ih (led_ok (led_mergePass ..) (led_ok (led_startReading _) (led_ok (led_selectStep ..) hs h2) h1) h3)
  case case8 h1 _ _ h2 _ _ h3 ih =>
    exact ih (led_ok (led_mergePass ..) (led_ok (led_startReading _) (led_ok (led_selectStep ..) hs h2) h1) h3)
  case case9 h _ => exact led_ok (led_selectStep ..) hs h
  case case10 h ht =>
    split
    · exact led_ok (led_selectStep ..) hs h
    · rename_i t h'; rw [ht] at h'; cases h'
  case case11 idx s2 target e s' h2 ht h3 =>
    have hs2 := led_ok (led_selectStep ..) hs h2
    split
    · rename_i h'; rw [ht] at h'; cases h'
    · rename_i t h'; rw [ht] at h'; cases h'
      simp only [h3, st_fail]; exact led_err (led_resplit ..) hs2 h3
  case case12 idx s2 target run s5 hge h2 ht h3 =>
    have hs2 := led_ok (led_selectStep ..) hs h2
    split
    · rename_i h'; rw [ht] at h'; cases h'
    · rename_i t h'; rw [ht] at h'; cases h'
      simp only [h3, hge, if_true, st_fail]; exact led_ok (led_resplit ..) hs2 h3
  case case13 idx s2 target run s5 hge h2 ht h3 ih =>
    have hs2 := led_ok (led_selectStep ..) hs h2
    split
    · rename_i h'; rw [ht] at h'; cases h'
    · rename_i t h'; rw [ht] at h'; cases h'
      simp only [h3, hge, if_false]; exact ih (led_ok (led_resplit ..) hs2 h3)

theorem led_mergeLoop' (cfg : Cfg) (env : Env) (files : List Run) : Led (mergeLoop cfg env files) :=
  ⟨fun s hs => led_mergeLoop cfg env files s hs⟩

theorem led_sortPhase (cfg : Cfg) (env : Env) : Led (sortPhase cfg env) := by
  unfold sortPhase
  have h1 := led_sortAndSpill cfg env
  have h2 := led_mergeLoop' cfg env
  have h3 := led_inMemSortStream cfg env true
  led_auto
  all_goals exact h2 _

theorem led_extSort (cfg : Cfg) (env : Env) (input : List Batch) : Led (extSort cfg env input) := by
  unfold extSort
  have h1 := led_insertBatch cfg env
  have h2 := led_sortPhase cfg env
  led_auto
  all_goals exact h1 _

theorem linv_init : LInv {} := by simp [LInv, held, filesHeld, cnt]

/-- whatever the environment does, the state the run ends in satisfies the ledger invariant -/
theorem linv_run (cfg : Cfg) (env : Env) (input : List Batch) : LInv (run cfg env input).2 := by
  have := (led_extSort cfg env input).h {} linv_init
  unfold run
  cases h : extSort cfg env input {} <;> simp_all

theorem shrinkAll_exact (c : Nat) (l : List Nat) (h : l.sum ≤ c) : shrinkAll c l = (c - l.sum, false) := by
  induction l generalizing c with
  | nil => simp [shrinkAll]
  | cons n ns ih =>
    simp only [List.sum_cons] at h
    simp only [shrinkAll, if_pos (show n ≤ c by omega), List.sum_cons]
    rw [ih (c - n) (by omega)]
    congr 1; omega

/-- dropping everything a ledger-consistent state owns brings both counters to zero without
    any underflow -/
theorem dropAll_zero (s : St) (h : LInv s) :
    (dropAll s).pool = 0 ∧ (dropAll s).disk = 0 ∧ (dropAll s).bad = false := by
  obtain ⟨h1, h2, h3⟩ := h
  simp only [held, filesHeld] at h2 h3
  simp only [dropAll]
  rw [shrinkAll_exact _ _ (by simp only [List.sum_cons, List.sum_nil]; omega),
      shrinkAll_exact _ _ (by simp only [List.sum_cons, List.sum_nil]; omega)]
  simp only [List.sum_cons, List.sum_nil, h1, Bool.or_false]
  refine ⟨by omega, by omega, trivial⟩

end DfModel.Proofs.C18
