/-
  Helper lemmas for C25 (percent codec, hive paths, demux). Core Lean only.
-/
import DfModel.Text.Percent
import DfModel.Text.Hive
import DfModel.Mech.Demux
namespace DfModel.Proofs.C25
open DfModel.Text.Percent DfModel.Text.Hive DfModel.Mech.Demux

theorem hexVal_hexUp : ∀ n, n < 16 → hexVal? (hexUp n) = some n := by decide

theorem decode_cons_ne {b : Nat} (hne : b ≠ pct) (rest : Bytes) : decode (b :: rest) = b :: decode rest := by
  cases rest with
  | nil => simp [decode]
  | cons c r =>
    cases r with
    | nil => simp [decode]
    | cons d r' => simp [decode, hne]

theorem decode_encodeByte (set : Nat → Bool) (hp : set pct = true) (b : Nat) (hb : b < 256)
    (rest : Bytes) : decode (encodeByte set b ++ rest) = b :: decode rest := by
  unfold encodeByte
  split
  · have h1 := hexVal_hexUp (b / 16) (by omega)
    have h2 := hexVal_hexUp (b % 16) (by omega)
    simp only [List.cons_append, List.nil_append, decode, if_true, h1, h2]
    congr 1
    omega
  · rename_i h
    have hne : b ≠ pct := by
      intro hbp; subst hbp; exact h (Or.inr hp)
    simp only [List.cons_append, List.nil_append]
    exact decode_cons_ne hne rest

/-- **percent round trip (bytes)**: for every encode set that contains `%`. -/
theorem decode_encode (set : Nat → Bool) (hp : set pct = true) :
    ∀ (bs : Bytes), (∀ b ∈ bs, b < 256) → decode (encode set bs) = bs := by
  intro bs
  induction bs with
  | nil => intro _; simp [encode, decode]
  | cons b bs ih =>
    intro h
    have : encode set (b :: bs) = encodeByte set b ++ encode set bs := by simp [encode]
    rw [this, decode_encodeByte set hp b (h b (by simp))]
    congr 1
    exact ih (fun x hx => h x (by simp [hx]))

theorem bytesOf_lt (s : String) : ∀ b ∈ bytesOf s, b < 256 := by
  intro b hb
  simp only [bytesOf, List.mem_map] at hb
  obtain ⟨x, _, rfl⟩ := hb
  exact x.toNat_lt

theorem toByteArray_bytesOf (s : String) : toByteArray (bytesOf s) = s.toByteArray := by
  simp only [toByteArray, bytesOf, List.map_map]
  have : (UInt8.ofNat ∘ UInt8.toNat) = id := by funext x; simp
  rw [this, List.map_id]


/-- **percent round trip (strings)**: what `parse_partitions_for_path` recovers from an encoded value -/
theorem decodeStr_encode (set : Nat → Bool) (hp : set pct = true) (s : String) :
    decodeStr (encode set (bytesOf s)) = bytesOf s := by
  unfold decodeStr
  simp only [decode_encode set hp _ (bytesOf_lt s), toByteArray_bytesOf]
  unfold String.fromUTF8?
  rw [dif_pos s.isValidUTF8]

theorem encode_append (set : Nat → Bool) (a b : Bytes) : encode set (a ++ b) = encode set a ++ encode set b := by
  simp [encode]

theorem encode_plain (set : Nat → Bool) : ∀ (n : Bytes), (∀ b ∈ n, b < 128 ∧ set b = false) → encode set n = n := by
  intro n
  induction n with
  | nil => intro _; simp [encode]
  | cons b n ih =>
    intro h
    have hb := h b (by simp)
    have : encode set (b :: n) = encodeByte set b ++ encode set n := by simp [encode]
    rw [this, ih (fun x hx => h x (by simp [hx]))]
    unfold encodeByte
    rw [if_neg (by intro hc; rcases hc with hc | hc; omega; rw [hb.2] at hc; cases hc)]
    rfl

theorem splitOnceEq_append : ∀ (name x : Bytes), eqB ∉ name → splitOnceEq (name ++ eqB :: x) = some (name, x) := by
  intro name
  induction name with
  | nil => intro x _; simp [splitOnceEq]
  | cons b n ih =>
    intro x h
    have hb : b ≠ eqB := by intro hc; apply h; simp [hc]
    have hn : eqB ∉ n := by intro hc; apply h; simp [hc]
    simp only [List.cons_append, splitOnceEq, hb, if_false, ih x hn]

theorem buildSeg_plain {name : Bytes} (hn : PlainName name) (val : Bytes) :
    buildSeg name val = name ++ eqB :: encode pathPartSet val := by
  unfold buildSeg pathPart
  have hmem : eqB ∈ name ++ eqB :: val := by simp
  have h1 : name ++ eqB :: val ≠ [dotB] := by
    intro hc; rw [hc] at hmem; simp [eqB, dotB] at hmem
  have h2 : name ++ eqB :: val ≠ [dotB, dotB] := by
    intro hc; rw [hc] at hmem; simp [eqB, dotB] at hmem
  rw [if_neg h1, if_neg h2]
  have : name ++ eqB :: val = name ++ ([eqB] ++ val) := by simp
  rw [this, encode_append, encode_append, encode_plain pathPartSet name (fun b hb => ⟨(hn b hb).1, (hn b hb).2.1⟩)]
  have : encode pathPartSet [eqB] = [eqB] := by decide
  rw [this]; simp

theorem pathPartSet_pct : pathPartSet pct = true := by decide

theorem parseSeg_buildSeg {name : Bytes} (hn : PlainName name) (s : String) :
    parseSeg name (buildSeg name (bytesOf s)) = some (bytesOf s) := by
  rw [buildSeg_plain hn]
  unfold parseSeg
  rw [splitOnceEq_append name _ (fun hc => (hn _ hc).2.2 rfl)]
  simp only [if_true]
  rw [decodeStr_encode pathPartSet pathPartSet_pct s]

theorem parsePartitions_buildPath (file : Bytes) :
    ∀ (kvs : List (Bytes × String)), (∀ kv ∈ kvs, PlainName kv.1) →
      parsePartitions (buildPath (kvs.map (fun kv => (kv.1, bytesOf kv.2))) file) (kvs.map (·.1))
        = some (kvs.map (fun kv => bytesOf kv.2)) := by
  intro kvs
  induction kvs with
  | nil => intro _; simp [buildPath, parsePartitions]
  | cons kv kvs ih =>
    intro h
    have h1 := parseSeg_buildSeg (h kv (by simp)) kv.2
    have h2 := ih (fun x hx => h x (by simp [hx]))
    simp only [buildPath, List.map_cons, List.cons_append, parsePartitions, h1] at *
    rw [h2]

/-! ### demux -/

variable {K D : Type} [DecidableEq K]

def flat (acc : List (K × List D)) : List (K × D) := acc.flatMap (fun f => f.2.map (fun d => (f.1, d)))

theorem flat_insertRow (k : K) (d : D) : ∀ (acc : List (K × List D)),
    (flat (insertRow k d acc)).Perm (flat acc ++ [(k, d)]) := by
  intro acc
  induction acc with
  | nil => simp [insertRow, flat]
  | cons f rest ih =>
    obtain ⟨k', ds⟩ := f
    simp only [insertRow]
    split
    · rename_i hk
      subst hk
      simp only [flat, List.flatMap_cons, List.map_append, List.map_cons, List.map_nil, List.append_assoc]
      apply List.Perm.append_left
      exact List.perm_append_comm
    · simp only [flat, List.flatMap_cons, List.append_assoc] at *
      exact List.Perm.append_left _ ih

theorem flat_foldl (key : R → K) (dat : R → D) : ∀ (rows : List R) (acc : List (K × List D)),
    (flat (rows.foldl (fun a r => insertRow (key r) (dat r) a) acc)).Perm
      (flat acc ++ rows.map (fun r => (key r, dat r))) := by
  intro rows
  induction rows with
  | nil => intro acc; simp
  | cons r rows ih =>
    intro acc
    simp only [List.foldl_cons, List.map_cons]
    refine (ih _).trans ?_
    have := flat_insertRow (key r) (dat r) acc
    refine (List.Perm.append_right _ this).trans ?_
    simp

theorem keys_insertRow (k : K) (d : D) : ∀ (acc : List (K × List D)),
    (acc.map (·.1)).Nodup → ((insertRow k d acc).map (·.1)).Nodup ∧
      ∀ x, x ∈ (insertRow k d acc).map (·.1) ↔ x = k ∨ x ∈ acc.map (·.1) := by
  intro acc
  induction acc with
  | nil => intro _; simp [insertRow]
  | cons f rest ih =>
    obtain ⟨k', ds⟩ := f
    intro hnd
    simp only [List.map_cons, List.nodup_cons] at hnd
    simp only [insertRow]
    split
    · rename_i hk
      subst hk
      simp only [List.map_cons, List.nodup_cons]
      exact ⟨hnd, by intro x; simp⟩
    · rename_i hk
      obtain ⟨i1, i2⟩ := ih hnd.2
      simp only [List.map_cons, List.nodup_cons, List.mem_cons]
      refine ⟨⟨?_, i1⟩, ?_⟩
      · intro hc
        rcases (i2 k').1 hc with h | h
        · exact hk h
        · exact hnd.1 h
      · intro x
        rw [i2 x]
        constructor
        · rintro (h | h | h) <;> simp [h]
        · rintro (h | h | h) <;> simp [h]

theorem keys_foldl (key : R → K) (dat : R → D) : ∀ (rows : List R) (acc : List (K × List D)),
    (acc.map (·.1)).Nodup →
    ((rows.foldl (fun a r => insertRow (key r) (dat r) a) acc).map (·.1)).Nodup := by
  intro rows
  induction rows with
  | nil => intro acc h; exact h
  | cons r rows ih =>
    intro acc h
    exact ih _ (keys_insertRow (key r) (dat r) acc h).1

theorem keyOf_noNull : ∀ (tys : List Ty) (part : List (Option Cell)), tys.length = part.length →
    (∀ c ∈ part, c ≠ none) → (keyOf tys part).map some = part := by
  intro tys
  induction tys with
  | nil => intro part hl _; cases part <;> simp_all [keyOf]
  | cons t tys ih =>
    intro part hl hn
    cases part with
    | nil => simp at hl
    | cons c part =>
      have hc := hn c (by simp)
      cases c with
      | none => exact absurd rfl hc
      | some v =>
        have := ih part (by simpa using hl) (fun x hx => hn x (by simp [hx]))
        simp only [keyOf, List.zipWith_cons_cons, List.map_cons, slot] at *
        rw [this]

end DfModel.Proofs.C25
