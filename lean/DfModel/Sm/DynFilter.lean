/-
  C31 (a) — `DynamicFilterPhysicalExpr` generation / cache state machine
  (datafusion/physical-expr/src/expressions/dynamic_filters/mod.rs).  Core Lean only.

  Shared state: `inner = (generation, expr, is_complete)` behind one RwLock, and — per derived
  filter (`with_new_children`) — `current_cache : Option (generation, remapped expr)` behind
  another RwLock.  `update` is one critical section on `inner` (generation + 1, new expr).
  `current()` is NOT atomic; its micro-steps are

     R1  read `inner` under the read lock            → local (expr, generation)
     R2  read the cache; hit iff cached generation == local generation → return cached expr
     R3  compute `remap expr` without any lock
     R4  take the cache write lock; write `(generation, remapped)` iff the cache is empty or
         `generation > cached generation`; return `remapped`

  Readers and the writer interleave arbitrarily at micro-step granularity (`Op.read i` advances
  reader `i` by one micro-step).  `hist` is a ghost variable: the expressions published so far,
  generation `g` ↦ `hist[g-1]` (generations start at 1).
-/
namespace DfModel.Sm.DynFilter

/-- program counter of one `current()` call; `g0` = generation visible when the call started -/
inductive Pc (E : Type) where
  | idle
  | gotInner (g0 : Nat) (e : E) (g : Nat)
  | computed (g0 : Nat) (g : Nat) (r : E)
  | done (g0 : Nat) (r : E)
  deriving Repr, DecidableEq

structure St (E : Type) where
  gen : Nat
  expr : E
  complete : Bool
  cache : Option (Nat × E)
  readers : List (Pc E)
  hist : List E

inductive Op (E : Type) where
  | update (e : E)
  | markComplete
  /-- reader `i` executes its next micro-step (a finished call starts a new one) -/
  | read (i : Nat)
  deriving Repr

def init {E : Type} (e0 : E) (nReaders : Nat) : St E :=
  { gen := 1, expr := e0, complete := false, cache := none,
    readers := List.replicate nReaders .idle, hist := [e0] }

/-- one micro-step of a reader -/
def readerStep {E : Type} (remap : E → E) (s : St E) : Pc E → Pc E × Option (Nat × E)
  | .idle => (.gotInner s.gen s.expr s.gen, s.cache)                     -- R1
  | .gotInner g0 e g =>
    match s.cache with                                                    -- R2
    | some (cg, ce) => if cg = g then (.done g0 ce, s.cache) else (.computed g0 g (remap e), s.cache)
    | none => (.computed g0 g (remap e), s.cache)                         -- R3
  | .computed g0 g r =>                                                   -- R4
    match s.cache with
    | some (cg, _) => if g > cg then (.done g0 r, some (g, r)) else (.done g0 r, s.cache)
    | none => (.done g0 r, some (g, r))
  | .done _ _ => (.gotInner s.gen s.expr s.gen, s.cache)                  -- next call: R1

def step {E : Type} (remap : E → E) (s : St E) : Op E → St E
  | .update e => { s with gen := s.gen + 1, expr := e, hist := s.hist ++ [e] }
  | .markComplete => { s with complete := true }
  | .read i =>
    match s.readers[i]? with
    | none => s
    | some pc =>
      let (pc', cache') := readerStep remap s pc
      { s with readers := s.readers.set i pc', cache := cache' }

def run {E : Type} (remap : E → E) (s : St E) : List (Op E) → St E
  | [] => s
  | op :: ops => run remap (step remap s op) ops

/-- the expression of generation `g` -/
def exprAt {E : Type} (hist : List E) (g : Nat) : Option E := if g = 0 then none else hist[g - 1]?

end DfModel.Sm.DynFilter
