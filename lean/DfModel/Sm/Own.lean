/-
  C19 — ownership and cooperative budget.

  (1) Ownership: every runtime object a query creates (stream state, `SpawnedTask` / `JoinSet` member,
  `MemoryReservation`, spill file, source handle) is a node; `owners i` lists the nodes holding it:
  `[]` = a root held by the caller (the result stream), one owner = a plain field / a value moved into
  a task's future, several owners = an `Arc` shared by them (e.g. `RepartitionExec`'s `abort_helper`
  shared by all output streams).  Nodes are numbered in creation order, so owners have smaller numbers.
  Dropping a root releases a node iff ALL its owners are released (`Drop` glue; `SpawnedTask::drop`
  and `JoinSet::drop` abort the task, whose future — and everything moved into it — is then dropped;
  an `Arc` payload is dropped with its last owner).

  (2) Cooperative budget (`physical-plan/src/coop.rs`): `CooperativeStream::poll_next`.
  Core Lean only.
-/
namespace DfModel.Sm.Own

/-- `owners[i]` = the owners of node `i` -/
abbrev Forest := List (List Nat)

/-- one pass in creation order: node `i` is released by dropping root `r` iff it is `r`, or it has
    owners and all of them are released -/
def releasedGo (r : Nat) : List (List Nat) → Nat → List Bool → List Bool
  | [], _, acc => acc
  | os :: rest, i, acc =>
    let d := (i == r) || (!os.isEmpty && os.all (fun p => acc.getD p false))
    releasedGo r rest (i + 1) (acc ++ [d])

def released (f : Forest) (r : Nat) : List Bool := releasedGo r f 0 []

/-- creation order: every owner was created before the node it owns -/
def wellFormed (f : Forest) : Bool :=
  (List.range f.length).all (fun i => (f.getD i []).all (fun p => p < i))

/-! ### cooperative budget -/

inductive Variant where
  | tokio       -- `poll_proceed`: the task budget; an inner `Pending` restores the unit
  | perStream   -- `datafusion_coop = "per_stream"`: own counter, reset on inner `Pending`
  deriving DecidableEq, Repr

inductive Out where
  | ready | pending
  deriving DecidableEq, Repr

/-- one `poll_next` of the cooperative wrapper: budget before, inner result (`true` = Ready) →
    budget after, what the wrapper returns.  `y` = full budget (YIELD_FREQUENCY / tokio's 128). -/
def poll (v : Variant) (y : Nat) (budget : Nat) (innerReady : Bool) : Nat × Out :=
  if budget = 0 then
    -- exhausted: `Pending` + self-wake; per-stream resets its counter, tokio's is reset by the runtime
    (match v with | .perStream => y | .tokio => 0, .pending)
  else if innerReady then (budget - 1, .ready)
  else (match v with | .perStream => y | .tokio => budget, .pending)

/-- consecutive polls inside one task poll (no return to the runtime in between) -/
def polls (v : Variant) (y : Nat) : Nat → List Bool → List Out
  | _, [] => []
  | b, i :: is => (poll v y b i).2 :: polls v y (poll v y b i).1 is

/-- a script with yields to the runtime: `none` = the task returned to the runtime and was polled
    again (tokio resets the task budget) -/
def run (v : Variant) (y : Nat) : Nat → List (Option Bool) → List Out
  | _, [] => []
  | b, none :: is => run v y (match v with | .tokio => y | .perStream => b) is
  | b, some i :: is => (poll v y b i).2 :: run v y (poll v y b i).1 is

/-! ### the `EnsureCooperative` rule on plan shapes -/

inductive Node where
  | leaf (coop : Bool)
  | unary (coop eager : Bool) (child : Node)
  | binary (coop eager : Bool) (l r : Node)
  deriving Repr

/-- `CooperativeExec::new(plan)` -/
def wrap (n : Node) : Node := .unary true false n

/-- the cooperative context a node passes to its children: a cooperative node establishes it, an
    eager (exchange) node resets it, anything else inherits -/
def ctx (coop eager under : Bool) : Bool := if coop then true else if eager then false else under

/-- `EnsureCooperative::optimize` (`under` = "nearest relevant ancestor is cooperative") -/
def ensure (under : Bool) : Node → Node
  | .leaf c => if !c && !under then wrap (.leaf c) else .leaf c
  | .unary c e ch =>
    let n := Node.unary c e (ensure (ctx c e under) ch)
    if e && !c && !under then wrap n else n
  | .binary c e l r =>
    let n := Node.binary c e (ensure (ctx c e under) l) (ensure (ctx c e under) r)
    if e && !c && !under then wrap n else n

/-- every leaf and every exchange of the plan is cooperative itself or runs under a cooperative context -/
def covered (under : Bool) : Node → Bool
  | .leaf c => c || under
  | .unary c e ch => (!e || c || under) && covered (ctx c e under) ch
  | .binary c e l r => (!e || c || under) && covered (ctx c e under) l && covered (ctx c e under) r

end DfModel.Sm.Own
