/-
  C16 — spill-pool channels (model of `datafusion/physical-plan/src/spill/spill_pool.rs`).

  The code keeps two kinds of locks (pool lock `SpillPoolShared`, one lock per file
  `ActiveSpillFileShared`) and never holds both; every lock region therefore touches one lock and is
  one atomic micro-step of this model.  I/O done outside the locks (creating a temp file, reading a
  batch that is already counted in `batches_written`) touches no shared coordination state and is
  merged into the adjacent region.

  Files are numbered in creation order; the queue `SpillPoolShared::files` is the id interval
  `popped .. nfiles-1` (push_back = `nfiles+1`, pop_front = `popped+1`).  Per-file state is kept as
  one function per field (struct of functions), so that an update of one field leaves the others
  syntactically untouched.

  `fixed` selects the error paths of `SpillPoolSink::push_batch`:
    `true`  = /repo now (commit afaa1b3: the file is finished and its reader woken when
              `append_batch`/`flush`/the rotation `finish` fails),
    `false` = the pinned upstream code (`?` returns early; kept only for the witness theorem).
  Core Lean only (linked into `dfdrv`).
-/
namespace DfModel.Sm.SpillPool

/-- point update of a function -/
def upd {α : Type} (g : Nat → α) (i : Nat) (v : α) : Nat → α := fun j => if j = i then v else g j

/-- program counter of a writer thread (one thread per `SpillPoolSink`) -/
inductive WPc where
  | idle                                  -- sink alive, no call in progress
  | creating (b sz : Nat)                 -- push_batch: `open_write_files` was empty, pool lock released
  | holding (f b sz : Nat)                -- push_batch: owns `write_file = f`, about to lock it
  | returning (f : Nat)                   -- push_batch: batch appended, about to push `f` back to the open queue
  | finalizing (fs : List Nat)            -- Drop of the last sink: files taken from the open queue
  | gone                                  -- sink dropped
  deriving DecidableEq, Repr

/-- files a writer is responsible for -/
def own : WPc → List Nat
  | .holding f _ _ => [f]
  | .returning f => [f]
  | .finalizing fs => fs
  | _ => []

/-- the sink still counts in `remaining_writer_count` -/
def alive : WPc → Bool
  | .finalizing _ => false
  | .gone => false
  | _ => true

/-- program counter of the reader inside `SpillPoolReader::poll_next` -/
inductive RPc where
  | idle          -- not inside poll_next
  | atFile        -- about to run `SpillPoolFile::poll_next` step 1 (file lock)
  | chkFin        -- file returned Ready(None): re-lock the file to read `writer_finished`
  | popping       -- about to `files.pop_front()` (pool lock)
  | pendPool      -- file returned Pending: about to register the pool waker (pool lock)
  | noFile        -- no current file: about to look at `files.front()` (pool lock)
  deriving DecidableEq, Repr

/-- result of a completed `poll_next` -/
inductive Poll where
  | batch (b : Nat)
  | pending
  | eos
  deriving DecidableEq, Repr

structure St where
  /-- `max_file_size_bytes` -/
  max : Nat
  -- SpillPoolShared
  nfiles : Nat
  popped : Nat
  open_ : List Nat              -- `open_write_files`
  count : Nat                   -- `remaining_writer_count`
  poolWaker : Bool              -- `waker.is_some()`
  -- ActiveSpillFileShared, per file id
  written : Nat → List Nat      -- batches counted in `batches_written`, in order
  size : Nat → Nat              -- `estimated_size`
  finished : Nat → Bool         -- `writer_finished`
  hasWriter : Nat → Bool        -- `writer.is_some()`
  handle : Nat → Bool           -- `file.is_some()` (taken by the reader when it opens its stream)
  fwaker : Nat → Bool           -- `waker.is_some()`
  -- writers
  nw : Nat
  wpc : Nat → WPc
  wres : Nat → Option Bool      -- result of the writer's last finished push (`some true` = Ok)
  -- SpillPoolReader (+ the task's wake flag)
  cur : Option Nat              -- `current_file`
  stream : Bool                 -- `current_file.reader.is_some()`
  rread : Nat                   -- `batches_read` of the current file
  rpc : RPc
  delivered : List Nat
  last : Option Poll            -- result of the last completed poll
  woken : Bool                  -- the task's waker was woken since the current/last poll began
  parked : Bool                 -- the last completed poll returned Pending
  done : Bool                   -- a poll returned Ready(None)
  -- ghosts
  log : List (Nat × Bool)       -- batches whose push was accepted (append+flush Ok), with the push result
  bad : Bool                    -- `remaining_writer_count -= 1` underflowed

def init (max : Nat) : St :=
  { max := max, nfiles := 0, popped := 0, open_ := [], count := 1, poolWaker := false,
    written := fun _ => [], size := fun _ => 0, finished := fun _ => false,
    hasWriter := fun _ => false, handle := fun _ => false, fwaker := fun _ => false,
    nw := 1, wpc := fun _ => .idle, wres := fun _ => none,
    cur := none, stream := false, rread := 0, rpc := .idle, delivered := [], last := none,
    woken := false, parked := false, done := false, log := [], bad := false }

/-- `ActiveSpillFileShared::wake` -/
def wakeFile (s : St) (f : Nat) : St :=
  if s.fwaker f then { s with fwaker := upd s.fwaker f false, woken := true } else s

/-- `SpillPoolShared::wake` -/
def wakePool (s : St) : St :=
  if s.poolWaker then { s with poolWaker := false, woken := true } else s

/-- `writer.take()` (finish result ignored by the caller); `writer_finished = true`; `wake()` -/
def finishFile (s : St) (f : Nat) : St :=
  wakeFile { s with hasWriter := upd s.hasWriter f false, finished := upd s.finished f true } f

/-! ### writer micro-steps -/

/-- P1 (pool lock): take an open file, else leave to create one -/
def stepPush (s : St) (w b sz : Nat) : St :=
  match s.open_ with
  | f :: rest => { s with open_ := rest, wpc := upd s.wpc w (.holding f b sz) }
  | [] => { s with wpc := upd s.wpc w (.creating b sz) }

/-- P1b: `create_in_progress_file` (may fail: `?`), then (pool lock) `files.push_back`, `wake` -/
def stepCreate (s : St) (w b sz : Nat) (ok : Bool) : St :=
  if ok then
    wakePool { s with
      nfiles := s.nfiles + 1,
      written := upd s.written s.nfiles [], size := upd s.size s.nfiles 0,
      finished := upd s.finished s.nfiles false, hasWriter := upd s.hasWriter s.nfiles true,
      handle := upd s.handle s.nfiles true, fwaker := upd s.fwaker s.nfiles false,
      wpc := upd s.wpc w (.holding s.nfiles b sz) }
  else
    { s with wpc := upd s.wpc w .idle, wres := upd s.wres w (some false) }

/-- P2 (file lock of `f`): append + flush (may fail), wake, rotate when the size limit is passed
    (`finish` may fail). -/
def stepAppend (fixed : Bool) (s : St) (w f b sz : Nat) (appendOk finishOk : Bool) : St :=
  if s.hasWriter f then
    if appendOk then
      let s1 := wakeFile { s with written := upd s.written f (s.written f ++ [b]),
                                  size := upd s.size f (s.size f + sz) } f
      if s.size f + sz > s.max then
        if finishOk then
          { finishFile s1 f with wpc := upd s.wpc w .idle, wres := upd s.wres w (some true),
                                 log := s.log ++ [(b, true)] }
        else if fixed then
          { finishFile s1 f with wpc := upd s.wpc w .idle, wres := upd s.wres w (some false),
                                 log := s.log ++ [(b, false)] }
        else
          -- upstream: `writer.take()` then `finish()?` returns before `writer_finished = true`
          { s1 with hasWriter := upd s.hasWriter f false,
                    wpc := upd s.wpc w .idle, wres := upd s.wres w (some false),
                    log := s.log ++ [(b, false)] }
      else
        { s1 with wpc := upd s.wpc w (.returning f), log := s.log ++ [(b, true)] }
    else if fixed then
      { finishFile s f with wpc := upd s.wpc w .idle, wres := upd s.wres w (some false) }
    else
      -- upstream: `?` returns with the file neither re-queued nor finished
      { s with wpc := upd s.wpc w .idle, wres := upd s.wres w (some false) }
  else
    -- `file_shared.writer` is None: the batch is skipped silently but the push reports Ok
    -- (recorded in `log` so that reaching this branch would falsify the delivery theorems)
    let s1 := wakeFile s f
    if s.size f > s.max then
      { finishFile s1 f with wpc := upd s.wpc w .idle, wres := upd s.wres w (some true),
                             log := s.log ++ [(b, true)] }
    else
      { s1 with wpc := upd s.wpc w (.returning f), log := s.log ++ [(b, true)] }

/-- P3 (pool lock): `open_write_files.push_back(write_file)` -/
def stepGiveBack (s : St) (w f : Nat) : St :=
  { s with open_ := s.open_ ++ [f], wpc := upd s.wpc w .idle, wres := upd s.wres w (some true) }

/-- `new_sink` / `clone` (pool lock): one more live sink -/
def stepClone (s : St) : St :=
  { s with count := s.count + 1, nw := s.nw + 1, wpc := upd s.wpc s.nw .idle,
           wres := upd s.wres s.nw none }

/-- D1 (pool lock): decrement; the last sink takes the open files (or wakes the pool at once) -/
def stepDrop (s : St) (w : Nat) : St :=
  if s.count = 0 then { s with bad := true, wpc := upd s.wpc w .gone }
  else if s.count - 1 ≠ 0 then { s with count := s.count - 1, wpc := upd s.wpc w .gone }
  else match s.open_ with
    | [] => wakePool { s with count := 0, wpc := upd s.wpc w .gone }
    | f :: fs => { s with count := 0, open_ := [], wpc := upd s.wpc w (.finalizing (f :: fs)) }

/-- D2 (file lock, per taken file) and D3 (pool lock: final `wake`) -/
def stepFinalize (s : St) (w : Nat) (fs : List Nat) : St :=
  match fs with
  | [] => wakePool { s with wpc := upd s.wpc w .gone }
  | f :: r => { finishFile s f with wpc := upd s.wpc w (.finalizing r) }

/-! ### the reader: `SpillPoolReader::poll_next` + `SpillPoolFile::poll_next`, region by region -/

def stepReader (s : St) : St :=
  match s.rpc with
  | .idle =>
    -- the executor clears the notification and enters poll_next
    { s with woken := false, parked := false, last := none,
             rpc := if s.cur = none then .noFile else .atFile }
  | .atFile =>
    match s.cur with
    | none => { s with rpc := .noFile }
    | some f =>
      if h : s.rread < (s.written f).length then
        -- step 1 says "read"; step 2 opens the stream with the file handle taken under the lock
        if s.stream || s.handle f then
          { s with handle := if s.stream then s.handle else upd s.handle f false, stream := true,
                   rread := s.rread + 1, delivered := s.delivered ++ [(s.written f)[s.rread]],
                   last := some (.batch (s.written f)[s.rread]), rpc := .idle }
        else
          -- "file not available": register the file waker (second file-lock region), Pending
          { s with fwaker := upd s.fwaker f true, rpc := .pendPool }
      else if s.finished f then { s with rpc := .chkFin }
      else { s with fwaker := upd s.fwaker f true, rpc := .pendPool }
  | .chkFin =>
    match s.cur with
    | none => { s with rpc := .noFile }
    | some f =>
      if s.finished f then { s with rpc := .popping }
      else { s with done := true, last := some .eos, rpc := .idle }   -- "unexpected" Ready(None)
  | .popping =>
    { s with popped := if s.popped < s.nfiles then s.popped + 1 else s.popped,
             cur := none, stream := false, rread := 0, rpc := .noFile }
  | .pendPool =>
    { s with poolWaker := true, parked := true, last := some .pending, rpc := .idle }
  | .noFile =>
    if s.popped < s.nfiles then
      { s with cur := some s.popped, stream := false, rread := 0, rpc := .atFile }
    else if s.count = 0 then { s with done := true, last := some .eos, rpc := .idle }
    else { s with poolWaker := true, parked := true, last := some .pending, rpc := .idle }

/-! ### schedules -/

/-- one scheduling decision: which thread runs its next lock region, with the environment's choice
    (I/O failure) for that region.  A disabled action leaves the state unchanged. -/
inductive Act where
  | push (w b sz : Nat)                        -- writer `w` (idle) calls `push_batch` (non-empty batch `b`, memory size `sz`)
  | create (w : Nat) (ok : Bool)
  | append (w : Nat) (appendOk finishOk : Bool)
  | giveBack (w : Nat)
  | clone (w : Nat)                            -- `w.clone()` / `w.new_sink()`, by any thread holding `&w`
  | drop (w : Nat)
  | finalize (w : Nat)
  | reader
  deriving DecidableEq, Repr

def step (fixed : Bool) (s : St) : Act → St
  | .push w b sz =>
    if w < s.nw then match s.wpc w with
      | .idle => stepPush s w b sz
      | _ => s
    else s
  | .create w ok =>
    if w < s.nw then match s.wpc w with
      | .creating b sz => stepCreate s w b sz ok
      | _ => s
    else s
  | .append w aok fok =>
    if w < s.nw then match s.wpc w with
      | .holding f b sz => stepAppend fixed s w f b sz aok fok
      | _ => s
    else s
  | .giveBack w =>
    if w < s.nw then match s.wpc w with
      | .returning f => stepGiveBack s w f
      | _ => s
    else s
  | .clone w => if w < s.nw ∧ alive (s.wpc w) = true then stepClone s else s
  | .drop w =>
    if w < s.nw then match s.wpc w with
      | .idle => stepDrop s w
      | _ => s
    else s
  | .finalize w =>
    if w < s.nw then match s.wpc w with
      | .finalizing fs => stepFinalize s w fs
      | _ => s
    else s
  | .reader => stepReader s

def run (fixed : Bool) (s : St) : List Act → St
  | [] => s
  | a :: as => run fixed (step fixed s a) as

/-- concatenation of the files' batch lists in file order, files `0 .. n-1` -/
def catW (wr : Nat → List Nat) : Nat → List Nat
  | 0 => []
  | n + 1 => catW wr n ++ wr n

/-- number of live sinks among writers `0 .. n-1` -/
def cntAlive (pc : Nat → WPc) : Nat → Nat
  | 0 => 0
  | n + 1 => cntAlive pc n + (if alive (pc n) then 1 else 0)

/-- the reader runs alone for `n` micro-steps -/
def readerIter : Nat → St → St
  | 0, s => s
  | n + 1, s => readerIter n (stepReader s)

/-! ### coarse operations (what a sequential caller can do): each call runs to completion -/

/-- environment of one `push_batch` call: does create / append+flush / rotation-finish succeed -/
structure Env where
  createOk : Bool
  appendOk : Bool
  finishOk : Bool
  deriving DecidableEq, Repr

def pushSched (w b sz : Nat) (e : Env) : List Act :=
  [.push w b sz, .create w e.createOk, .append w e.appendOk e.finishOk, .giveBack w]

/-- a whole `push_batch` call -/
def pushAtomic (fixed : Bool) (s : St) (w b sz : Nat) (e : Env) : St :=
  run fixed s (pushSched w b sz e)

/-- a whole `drop(sink)`: D1, then one D2 per taken file, then D3 -/
def dropAtomic (fixed : Bool) (s : St) (w : Nat) : St :=
  run fixed s (.drop w :: List.replicate (s.open_.length + 1) (.finalize w))

/-- one whole `poll_next`: the begin step, then regions until the reader is idle again (the loop
    pops at most every queued file once, 4 regions per file, plus at most 3 regions) -/
def pollLoop : Nat → St → St
  | 0, s => s
  | n + 1, s => if s.rpc = .idle then s else pollLoop n (stepReader s)

def pollAtomic (s : St) : St :=
  pollLoop (4 * (s.nfiles - s.popped) + 4) (stepReader s)

end DfModel.Sm.SpillPool
