/-
  C26 — model of `AlignedBoundaryStream` (datafusion/datasource/src/boundary_stream.rs).
  Core Lean only (linked into `dfdrv`).

  The stream never looks at the file directly: it sees the chunks an object store serves for the
  bounded GETs it issues.  The store is therefore a parameter `store lo hi : List (List α)` (the
  chunks served for `GET lo..hi`); "for every chunking" = for every such function whose chunks
  concatenate to the requested byte range (`StoreOk`, stated in `Proofs/C26.lean`).

  Phases are mirrored branch for branch:
    `run`        = `AlignedBoundaryStream::new`            (empty-range guard, `start-1` peek,
                                                            initial fetch end, `end = u64::MAX`)
    `scanFirst`  = `Phase::ScanningFirstTerminator`
    `fetchStep`/`onChunk`/`fetching`/`fetchingP` = `Phase::FetchingChunks` (with `pending`)
    `scanChunks`/`scanLast` = `Phase::ScanningLastTerminator` incl. the END_SCAN_LOOKAHEAD refetch loop
  The output is the list of observable events: GETs issued and chunks yielded, in order.
  Positions are absolute file offsets (`abs_pos() = fetch_start + bytes_consumed`).
  `end_ = none` models `end = u64::MAX` (all positions are < 2^64, so `pos < end` always holds).
-/
namespace DfModel.Sm.Boundary

variable {α : Type} [DecidableEq α]

/-- Split at the first terminator: `(prefix including the terminator, remainder)`.
    Rust: `chunk.iter().position(|&b| b == t)` = `Some(pos)`; prefix = `chunk.slice(..=pos)`,
    remainder = `chunk.slice(pos+1..)`; `none` when the chunk holds no terminator. -/
def splitTerm (t : α) : List α → Option (List α × List α)
  | [] => none
  | x :: xs =>
    if x = t then some ([x], xs)
    else match splitTerm t xs with
      | some (p, r) => some (x :: p, r)
      | none => none

/-- observable events of one stream -/
inductive Ev (α : Type) where
  /-- bounded `get_opts(lo..hi)` issued to the store -/
  | get (lo hi : Nat)
  /-- `Poll::Ready(Some(Ok(chunk)))` -/
  | chunk (c : List α)
  /-- model ran out of refetch fuel (never happens with a conforming store; theorem `run_ok`) -/
  | stuck
  /-- an unsigned subtraction in the Rust code would underflow (never happens; theorem `run_ok`) -/
  | panic
  deriving Repr, DecidableEq

structure Cfg (α : Type) where
  /-- record terminator byte -/
  term : α
  /-- `file_size` argument -/
  size : Nat
  /-- `END_SCAN_LOOKAHEAD` -/
  lookahead : Nat
  /-- chunks served by the object store for the bounded GET `lo..hi` -/
  store : Nat → Nat → List (List α)

/-- the yielded chunks of an event list -/
def chunks : List (Ev α) → List (List α)
  | [] => []
  | .chunk c :: es => c :: chunks es
  | _ :: es => chunks es

/-- all bytes yielded -/
def bytes (es : List (Ev α)) : List α := (chunks es).flatten

/-- the GETs of an event list -/
def gets : List (Ev α) → List (Nat × Nat)
  | [] => []
  | .get lo hi :: es => (lo, hi) :: gets es
  | _ :: es => gets es

/-- `stuck` or `panic` occurs -/
def bad : List (Ev α) → Bool
  | [] => false
  | .stuck :: _ => true
  | .panic :: _ => true
  | _ :: es => bad es

/-! ### ScanningLastTerminator -/

/-- `ScanningLastTerminator` over the chunks of the current inner stream, starting at absolute
    position `pos`.  Result: events, and `some pos'` when the inner stream ran dry at `pos'` without a
    terminator (→ overflow GET), `none` when the terminator was found (→ `Done`). -/
def scanChunks (t : α) : Nat → List (List α) → List (Ev α) × Option Nat
  | pos, [] => ([], some pos)
  | pos, c :: cs =>
    match splitTerm t c with
    | some (p, _) => ([.chunk p], none)                  -- yield chunk[..=pos]; Done
    | none =>
      let r := scanChunks t (pos + c.length) cs          -- yield chunk; keep scanning
      (.chunk c :: r.1, r.2)

/-- `ScanningLastTerminator` with the refetch loop: when the inner stream is exhausted at `pos`
    and `pos < file_size`, GET `pos .. min(pos + LOOKAHEAD, file_size)` and continue. `fuel` bounds the
    number of refetches (the Rust loop is unbounded). -/
def scanLast (cfg : Cfg α) (fuel : Nat) (pos : Nat) (cs : List (List α)) : List (Ev α) :=
  let r := scanChunks cfg.term pos cs
  match r.2 with
  | none => r.1
  | some pos' =>
    if pos' < cfg.size then
      match fuel with
      | 0 => r.1 ++ [.stuck]
      | fuel' + 1 =>
        let hi := min (pos' + cfg.lookahead) cfg.size
        r.1 ++ .get pos' hi :: scanLast cfg fuel' pos' (cfg.store pos' hi)
    else r.1

/-! ### FetchingChunks -/

inductive FetchDec (α : Type) where
  /-- `pos_after < end`: yield the chunk, stay in `FetchingChunks` -/
  | pass
  /-- yield `out`, go to `Done` -/
  | lastDone (out : List α)
  /-- yield the chunk, go to `ScanningLastTerminator` -/
  | lastScan
  /-- `this.end - pos_before` / `chunk_in_range_len - 1` would underflow -/
  | panic

/-- the decision `FetchingChunks` takes for a chunk `c` whose end is at absolute position `posAfter` -/
def fetchStep (t : α) (end_ : Option Nat) (posAfter : Nat) (c : List α) : FetchDec α :=
  match end_ with
  | none => .pass
  | some e =>
    if posAfter < e then .pass
    else if posAfter = e then
      if c.getLast? = some t then .lastDone c else .lastScan
    else if posAfter < c.length then .panic
    else
      let posBefore := posAfter - c.length
      if e ≤ posBefore then .panic
      else
        let inRange := e - posBefore
        let searchFrom := inRange - 1
        match splitTerm t (c.drop searchFrom) with
        | some (p, _) => .lastDone (c.take searchFrom ++ p)     -- chunk.slice(..=search_from+rel)
        | none => .lastScan

def onChunk (cfg : Cfg α) (end_ : Option Nat) (fuel : Nat) (posAfter : Nat) (c : List α)
    (cs : List (List α)) (cont : Unit → List (Ev α)) : List (Ev α) :=
  match fetchStep cfg.term end_ posAfter c with
  | .pass => .chunk c :: cont ()
  | .lastDone out => [.chunk out]
  | .lastScan => .chunk c :: scanLast cfg fuel posAfter cs
  | .panic => [.panic]

/-- `FetchingChunks` with `pending = None`, at absolute position `pos`, over the rest of the inner stream.
    Inner exhausted → `Done`. -/
def fetching (cfg : Cfg α) (end_ : Option Nat) (fuel : Nat) : Nat → List (List α) → List (Ev α)
  | _, [] => []
  | pos, c :: cs =>
    onChunk cfg end_ fuel (pos + c.length) c cs (fun _ => fetching cfg end_ fuel (pos + c.length) cs)

/-- `FetchingChunks` entered from `ScanningFirstTerminator`: `pending` (already counted in
    `bytes_consumed`, so `posAfter` is its end) is processed first. -/
def fetchingP (cfg : Cfg α) (end_ : Option Nat) (fuel : Nat) (posAfter : Nat)
    (pending : Option (List α)) (cs : List (List α)) : List (Ev α) :=
  match pending with
  | none => fetching cfg end_ fuel posAfter cs
  | some c => onChunk cfg end_ fuel posAfter c cs (fun _ => fetching cfg end_ fuel posAfter cs)

/-! ### ScanningFirstTerminator -/

/-- `aligned_start >= this.end` -/
def endLe (end_ : Option Nat) (x : Nat) : Bool :=
  match end_ with
  | none => false
  | some e => decide (e ≤ x)

def scanFirst (cfg : Cfg α) (end_ : Option Nat) (fuel : Nat) : Nat → List (List α) → List (Ev α)
  | _, [] => []                                           -- inner exhausted: Done
  | pos, c :: cs =>
    let pos' := pos + c.length
    match splitTerm cfg.term c with
    | none => scanFirst cfg end_ fuel pos' cs
    | some (_, rem) =>
      let alignedStart := pos' - rem.length
      if endLe end_ alignedStart then []
      else fetchingP cfg end_ fuel pos' (if rem.isEmpty then none else some rem) cs

/-! ### `AlignedBoundaryStream::new` + draining the stream -/

def run (cfg : Cfg α) (fuel : Nat) (rawStart rawEnd : Nat) : List (Ev α) :=
  if rawStart ≥ rawEnd ∨ rawStart ≥ cfg.size then []
  else
    let fetchStart := if rawStart = 0 then 0 else rawStart - 1
    let initialFetchEnd := min (rawEnd + cfg.lookahead) cfg.size
    let end_ := if rawEnd ≥ cfg.size then none else some rawEnd
    let cs := cfg.store fetchStart initialFetchEnd
    .get fetchStart initialFetchEnd ::
      (if rawStart = 0 then fetching cfg end_ fuel 0 cs
       else scanFirst cfg end_ fuel fetchStart cs)

/-! ### Specification side -/

/-- `f[lo, hi)` -/
def slice (f : List α) (lo hi : Nat) : List α := (f.drop lo).take (hi - lo)

/-- index just after the first terminator at index ≥ `i`; `f.length` if there is none -/
def nextStart (t : α) (f : List α) (i : Nat) : Nat :=
  match splitTerm t (f.drop i) with
  | some (p, _) => i + p.length
  | none => f.length

/-- first record start at or after `x` (0 is a record start; `f.length` if none) -/
def alignPos (t : α) (f : List α) (x : Nat) : Nat :=
  if x = 0 then 0 else if x ≥ f.length then f.length else nextStart t f (x - 1)

def alignStart (t : α) (f : List α) (s : Nat) : Nat :=
  if s = 0 then 0 else nextStart t f (s - 1)

def alignEnd (t : α) (f : List α) (e : Nat) : Nat :=
  if e ≥ f.length then f.length else nextStart t f (e - 1)

/-- the bytes the byte range `[s, e)` is responsible for: the records that START in `[s, e)` -/
def aligned (t : α) (f : List α) (s e : Nat) : List α :=
  if s ≥ e ∨ s ≥ f.length then [] else slice f (alignStart t f s) (alignEnd t f e)

/-- records of a byte string: split after every terminator; a non-empty unterminated tail is a record -/
def recordsAux (t : α) : List α → List α → List (List α)
  | cur, [] => if cur = [] then [] else [cur]
  | cur, x :: xs => if x = t then (cur ++ [x]) :: recordsAux t [] xs else recordsAux t (cur ++ [x]) xs

def records (t : α) (l : List α) : List (List α) := recordsAux t [] l

/-- output of scanning the consecutive ranges `[b, b₁), [b₁, b₂), …` (specification) -/
def rangesOut (t : α) (f : List α) : Nat → List Nat → List (List α)
  | _, [] => []
  | b, b' :: bs => aligned t f b b' :: rangesOut t f b' bs

/-- `b ≤ b₁ ≤ b₂ ≤ …` -/
def Mono : Nat → List Nat → Prop
  | _, [] => True
  | b, b' :: bs => b ≤ b' ∧ Mono b' bs

/-- `b < b₁ < b₂ < …` -/
def Incr : Nat → List Nat → Prop
  | _, [] => True
  | b, b' :: bs => b < b' ∧ Incr b' bs

/-- last boundary -/
def lastB : Nat → List Nat → Nat
  | b, [] => b
  | _, b' :: bs => lastB b' bs

/-- split `xs` into consecutive chunks of the given sizes (a 0 entry gives an empty chunk) — used by
    the driver to rebuild the store's answers from the recorded chunk sizes -/
def splitSizes : List Nat → List α → List (List α)
  | [], _ => []
  | n :: ns, xs => xs.take n :: splitSizes ns (xs.drop n)

end DfModel.Sm.Boundary
