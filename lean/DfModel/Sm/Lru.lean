/-
  C40 — the byte-budgeted LRU/TTL cache (model of `DefaultCacheState` / `DefaultCache` in
  `datafusion/execution/src/cache/default_cache.rs` on top of `LruQueue`, `lru_queue.rs`).

  * `q`     = the `LruQueue`: entries in recency order, **least recently used first** (the head is
              what `LruQueue::pop` returns, `LruQueue::put` appends at the end, `LruQueue::get`
              = remove + put, `peek` does not reorder).  The hash map + doubly linked list of the
              code is abstracted to this list (contract: "LruQueue is a queue with unique keys").
  * `hits`  = `DefaultCacheState::hits` (a separate map in the code, a separate assoc list here).
  * `used`/`limit`/`ttl` = `memory_used` / `memory_limit` / `ttl`.
  * `now`   = what the `TimeProvider` returns (milliseconds after the provider's base instant).
  * `panicked` records that the code would have hit a `usize` underflow in one of its
    `memory_used -= …` statements or the "cannot happen" branch of `evict_entries`
    (`debug_assert!(false)`); a theorem shows it never becomes true.
  * `stamp`/`tick` are ghost: the index of the operation that last `put`/`get` the entry. They are
    never read by `step`; they only let `lru_eviction_order` speak about "least recently used".

  Values carry the validation data the real cached values carry (`ObjectMeta.size`,
  `ObjectMeta.last_modified`, schema fingerprint) so that the "get → is_valid_for → else
  recompute + put" usage pattern of `ListingTable` / `DFParquetMetadata` can be stated (`XOp.use`).
  Core Lean only.
-/
namespace DfModel.Sm.Lru

structure Key where
  id : Nat
  size : Nat                 -- `CacheKey::size`
  table : Option Nat         -- `CacheKey::table_ref`
  deriving DecidableEq, Repr

structure Val where
  id : Nat                   -- payload identity
  size : Nat                 -- `CacheValue::size`
  fsize : Nat                -- `meta.size` of the file the value was computed from
  mtime : Nat                -- `meta.last_modified`
  fp : Nat                   -- schema fingerprint (statistics cache only)
  deriving DecidableEq, Repr

structure Ent where
  key : Key
  val : Val
  expires : Option Nat
  stamp : Nat                -- ghost
  deriving DecidableEq, Repr

structure St where
  q : List Ent
  hits : List (Key × Nat)
  limit : Nat
  used : Nat
  ttl : Option Nat
  now : Nat
  tick : Nat                 -- ghost
  panicked : Bool
  deriving Repr

def init (limit : Nat) (ttl : Option Nat) : St :=
  { q := [], hits := [], limit := limit, used := 0, ttl := ttl, now := 0, tick := 0, panicked := false }

inductive Op where
  | put (k : Key) (v : Val)
  | get (k : Key)
  | contains (k : Key)
  | remove (k : Key)
  | clear
  | setLimit (n : Nat)          -- `update_cache_limit`
  | setTtl (t : Option Nat)     -- `update_cache_ttl`
  | advance (d : Nat)           -- the mock `TimeProvider` moves forward
  | dropTable (t : Nat)         -- `drop_table_entries`
  deriving DecidableEq, Repr

inductive Out where
  | none
  | some (v : Val)
  | bool (b : Bool)
  | unit
  deriving DecidableEq, Repr

/-! ### LruQueue -/

def findEnt (q : List Ent) (k : Key) : Option Ent := q.find? (fun e => decide (e.key = k))
def removeKey (q : List Ent) (k : Key) : List Ent := q.filter (fun e => decide (e.key ≠ k))
def keys (q : List Ent) : List Key := q.map (·.key)

def entSize (e : Ent) : Nat := e.key.size + e.val.size
def sumSizes (q : List Ent) : Nat := (q.map entSize).sum

/-! ### the `hits` map -/

def hitsRemove (h : List (Key × Nat)) (k : Key) : List (Key × Nat) := h.filter (fun p => decide (p.1 ≠ k))
def hitsGet (h : List (Key × Nat)) (k : Key) : Option Nat := (h.find? (fun p => decide (p.1 = k))).map (·.2)
def hitsInsert (h : List (Key × Nat)) (k : Key) (n : Nat) : List (Key × Nat) := hitsRemove h k ++ [(k, n)]
/-- `*self.hits.entry(key.clone()).or_insert(0) += 1` -/
def hitsIncr (h : List (Key × Nat)) (k : Key) : List (Key × Nat) :=
  match hitsGet h k with
  | some n => hitsInsert h k (n + 1)
  | none => hitsInsert h k 1

/-- `self.memory_used -= n` on a `usize`: an underflow is a panic (debug) / wrap (release) -/
def subUsed (s : St) (n : Nat) : St :=
  if n ≤ s.used then { s with used := s.used - n } else { s with used := 0, panicked := true }

/-- `DefaultCacheState::remove` -/
def removeSt (s : St) (k : Key) : St × Option Val :=
  match findEnt s.q k with
  | none => (s, none)
  | some e =>
    let s1 := { s with q := removeKey s.q k }
    let s2 := subUsed (subUsed s1 k.size) e.val.size
    ({ s2 with hits := hitsRemove s2.hits k }, some e.val)

/-- the loop of `evict_entries`: pop least-recently-used entries while `memory_used > memory_limit`.
    Returns the remaining queue, `memory_used`, the panic flag and the evicted keys. -/
def evictAux (limit : Nat) : List Ent → Nat → Bool → List Ent × Nat × Bool × List Key
  | [], used, p =>
    -- "cache is empty while memory_used > memory_limit, cannot happen": debug_assert!(false); used = 0
    if used > limit then ([], 0, true, []) else ([], used, p, [])
  | e :: rest, used, p =>
    if used > limit then
      let (u1, p1) := if e.key.size ≤ used then (used - e.key.size, p) else (0, true)
      let (u2, p2) := if e.val.size ≤ u1 then (u1 - e.val.size, p1) else (0, true)
      let r := evictAux limit rest u2 p2
      (r.1, r.2.1, r.2.2.1, e.key :: r.2.2.2)
    else (e :: rest, used, p, [])

def evictSt (s : St) : St :=
  let r := evictAux s.limit s.q s.used s.panicked
  { s with q := r.1, used := r.2.1, panicked := r.2.2.1, hits := r.2.2.2.foldl hitsRemove s.hits }

/-- `DefaultCacheState::put` (after /repo commit 82a9f7c "zero-sized value removes the cached entry") -/
def putSt (s : St) (k : Key) (v : Val) : St × Option Val :=
  if v.size = 0 then removeSt s k                    -- zero-size: not cached, but the stale entry is removed
  else if k.size + v.size > s.limit then removeSt s k  -- oversize: "Remove potential stale entry"
  else
    let ent : Ent := { key := k, val := v, expires := s.ttl.map (s.now + ·), stamp := s.tick }
    let old := findEnt s.q k
    let s1 := { s with used := s.used + (k.size + v.size), hits := hitsInsert s.hits k 0,
                       q := removeKey s.q k ++ [ent] }
    let s2 := match old with
      | none => s1
      | some o => subUsed (subUsed s1 k.size) o.val.size
    (evictSt s2, old.map (·.val))

def expired (now : Nat) : Option Nat → Bool
  | some exp => decide (now > exp)
  | none => false

/-- `DefaultCacheState::get`: `LruQueue::get` promotes first, then the expiry check -/
def getSt (s : St) (k : Key) : St × Option Val :=
  match findEnt s.q k with
  | none => (s, none)
  | some e =>
    let s1 := { s with q := removeKey s.q k ++ [{ e with stamp := s.tick }] }
    if expired s.now e.expires then ((removeSt s1 k).1, none)
    else ({ s1 with hits := hitsIncr s1.hits k }, some e.val)

/-- `DefaultCacheState::contains_key`: `peek` (no promotion), expired entries are removed -/
def containsSt (s : St) (k : Key) : St × Bool :=
  match findEnt s.q k with
  | none => (s, false)
  | some e => if expired s.now e.expires then ((removeSt s k).1, false) else (s, true)

/-- `drop_table_entries`: `remove` every key whose `table_ref()` is the table -/
def dropKeys (s : St) : List Key → St
  | [] => s
  | k :: ks => dropKeys (removeSt s k).1 ks

/-- the pinned upstream `put`, kept only for the witness theorem: a zero-size value returned early
    (`return None`) and left the entry cached under the key in place -/
def putStUpstream (s : St) (k : Key) (v : Val) : St × Option Val :=
  if v.size = 0 then (s, none) else putSt s k v

def stepCore (s : St) : Op → St × Out
  | .put k v => let r := putSt s k v; (r.1, match r.2 with | some v => .some v | none => .none)
  | .get k => let r := getSt s k; (r.1, match r.2 with | some v => .some v | none => .none)
  | .contains k => let r := containsSt s k; (r.1, .bool r.2)
  | .remove k => let r := removeSt s k; (r.1, match r.2 with | some v => .some v | none => .none)
  | .clear => ({ s with q := [], hits := [], used := 0 }, .unit)
  | .setLimit n => (evictSt { s with limit := n }, .unit)
  | .setTtl t => ({ s with ttl := t }, .unit)
  | .advance d => ({ s with now := s.now + d }, .unit)
  | .dropTable t => (dropKeys s ((keys s.q).filter (fun k => decide (k.table = some t))), .unit)

def step (s : St) (op : Op) : St × Out :=
  let r := stepCore s op
  ({ r.1 with tick := r.1.tick + 1 }, r.2)

def run (s : St) : List Op → St × List Out
  | [] => (s, [])
  | op :: ops =>
    let r := step s op
    let r' := run r.1 ops
    (r'.1, r.2 :: r'.2)

/-- the pinned upstream code (before 82a9f7c): differs from `step` in `put` only -/
def stepUpstream (s : St) (op : Op) : St × Out :=
  match op with
  | .put k v =>
    let r := putStUpstream s k v
    ({ r.1 with tick := r.1.tick + 1 }, match r.2 with | some v => .some v | none => .none)
  | _ => step s op

def runUpstream (s : St) : List Op → St × List Out
  | [] => (s, [])
  | op :: ops =>
    let r := stepUpstream s op
    let r' := runUpstream r.1 ops
    (r'.1, r.2 :: r'.2)

/-! ### observations (`len`, `memory_used`, `list_entries`) -/

structure Info where
  key : Key
  val : Val
  sizeBytes : Nat
  hits : Nat
  expires : Option Nat
  deriving DecidableEq, Repr

/-- `list_entries` (a hash map in the code; the driver sorts by key) -/
def listEntries (s : St) : List Info :=
  s.q.map (fun e => { key := e.key, val := e.val, sizeBytes := e.val.size,
                      hits := (hitsGet s.hits e.key).getD 0,   -- `.copied().unwrap_or(0)` in the code
                      expires := e.expires })

/-! ### the usage pattern of the metadata / statistics caches
    (`ListingTable::do_collect_statistics_and_ordering`, `DFParquetMetadata::fetch_metadata`):
    `get`; if the cached value `is_valid_for` the file's current `ObjectMeta` (and fingerprint) use it,
    otherwise recompute from the current file and `put`. `fresh` is the recomputed value; it carries
    the current `fsize`/`mtime`/`fp`. -/

def validFor (c cur : Val) (withFp : Bool) : Bool :=
  c.fsize == cur.fsize && c.mtime == cur.mtime && (!withFp || c.fp == cur.fp)

inductive XOp where
  | basic (op : Op)
  | use (k : Key) (fresh : Val) (withFp : Bool)
  deriving DecidableEq, Repr

inductive XOut where
  | basic (o : Out)
  | cached (v : Val)       -- the cached value was used
  | computed (v : Val)     -- recomputed from the current file (and offered to the cache)
  deriving DecidableEq, Repr

def stepX (s : St) : XOp → St × XOut
  | .basic op => let r := step s op; (r.1, .basic r.2)
  | .use k fresh withFp =>
    let r := step s (.get k)
    match r.2 with
    | .some c =>
      if validFor c fresh withFp then (r.1, .cached c)
      else ((step r.1 (.put k fresh)).1, .computed fresh)
    | _ => ((step r.1 (.put k fresh)).1, .computed fresh)

def runX (s : St) : List XOp → St × List XOut
  | [] => (s, [])
  | op :: ops =>
    let r := stepX s op
    let r' := runX r.1 ops
    (r'.1, r.2 :: r'.2)

/-! ### the finite-map specification: the last value `put` under each key, with the expiry stamp
    (`now + ttl` of that `put`) — EVERY `put` counts, whatever the value's size -/

abbrev Spec := Key → Option (Val × Option Nat)

def specStep (s : St) (m : Spec) : Op → Spec
  | .put k v => fun k' => if k' = k then some (v, s.ttl.map (s.now + ·)) else m k'
  | _ => m

def runSpec (s : St) (m : Spec) : List Op → St × Spec
  | [] => (s, m)
  | op :: ops => runSpec (step s op).1 (specStep s m op) ops

/-- the same bookkeeping along the upstream code -/
def runSpecUpstream (s : St) (m : Spec) : List Op → St × Spec
  | [] => (s, m)
  | op :: ops => runSpecUpstream (stepUpstream s op).1 (specStep s m op) ops

end DfModel.Sm.Lru
