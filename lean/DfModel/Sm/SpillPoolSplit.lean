/-
  C16 — the spill-pool model with the reader's two check-then-register regions SPLIT.

  In spill_pool.rs the reader decides "caught up with the writer of my file" resp. "nothing queued
  and a sink is alive" and stores its waker under ONE acquisition of the file resp. pool lock; in
  `Sm.SpillPool` each of these is therefore one atomic region, and that atomicity is a premise of
  the no-lost-wake-up invariant.  This file makes the premise visible: the variant below performs
  the check in one region, releases the lock, and registers the waker in a second region
  (`gap = some …` in between).  It is NOT the code; it exists for the witness theorem
  `Props.C16.split_register_loses_wakeup`.  Core Lean only.
-/
import DfModel.Sm.SpillPool
namespace DfModel.Sm.SpillPoolSplit
open DfModel.Sm.SpillPool

/-- the reader has done its check and released the lock; the registration is still to come -/
inductive Gap where
  | file (f : Nat)
  | pool
  deriving DecidableEq, Repr

structure SSt where
  s : St
  gap : Option Gap

def init (max : Nat) : SSt := { s := SpillPool.init max, gap := none }

/-- reader regions with check and register split -/
def stepReaderSplit (t : SSt) : SSt :=
  match t.gap with
  | some (.file f) =>
    -- second region: lock the file again, store the waker, return Pending to the outer loop
    { s := { t.s with fwaker := upd t.s.fwaker f true, rpc := .pendPool }, gap := none }
  | some .pool =>
    -- second region: lock the pool again, store the waker, return Pending
    { s := { t.s with poolWaker := true, parked := true, last := some .pending, rpc := .idle }, gap := none }
  | none =>
    let s := t.s
    match s.rpc, s.cur with
    | .atFile, some f =>
      if s.rread < (s.written f).length ∨ s.finished f = true then { s := stepReader s, gap := none }
      else { s := s, gap := some (.file f) }        -- check says "wait": lock released here
    | .noFile, _ =>
      if s.popped < s.nfiles ∨ s.count = 0 then { s := stepReader s, gap := none }
      else { s := s, gap := some .pool }             -- check says "wait": lock released here
    | _, _ => { s := stepReader s, gap := none }

/-- writers are unchanged; they act on the shared state whatever the reader's gap -/
def step (t : SSt) : Act → SSt
  | .reader => stepReaderSplit t
  | a => { t with s := SpillPool.step true t.s a }

def run (t : SSt) : List Act → SSt
  | [] => t
  | a :: as => run (step t a) as

def readerIter : Nat → SSt → SSt
  | 0, t => t
  | n + 1, t => readerIter n (stepReaderSplit t)

end DfModel.Sm.SpillPoolSplit
