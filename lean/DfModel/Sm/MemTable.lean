/-
  L4 — `MemTable` DML state machine (C39).  Core Lean only (linked into `dfdrv`).

  Hand model of /repo/datafusion/catalog/src/memory/table.rs
    `delete_from_inner`, `update_inner`, `evaluate_filters_to_mask`,
  of `PhysicalExpr::evaluate_selection` (physical-expr-common/src/physical_expr.rs), of
  `extract_dml_filters` / `split_conjunction` (core/src/physical_planner.rs) and of
  `MemSink::write_all` (datasource/src/memory.rs).

  State = the table's physical layout: partitions of batches of rows (`Vec<Arc<RwLock<Vec<RecordBatch>>>>`).
  The implementation works batch by batch and column by column:
    * WHERE is split into its top-level conjuncts; every conjunct is evaluated on EVERY row of the
      batch (no short circuit between conjuncts), the masks are combined with arrow's `and`
      (NOT Kleene: NULL if either side is NULL), a row is selected iff the combined mask is TRUE;
    * empty batches are skipped (and thereby dropped from the partition);
    * DELETE keeps `mask ≠ TRUE`, drops batches that became empty;
    * UPDATE leaves a batch with no selected row untouched; otherwise, for every assigned schema
      field (in schema order) `evaluate_selection` evaluates the expression on the selected rows of
      the ORIGINAL batch only, the result is scattered back and `zip`ped with the old column;
    * partitions are processed in order and each is committed (`*partition = new_batches`) before
      the next one starts; an error leaves the partitions already processed MODIFIED and the rest
      untouched — modelled by `runParts` (see `Props/C39.lean`, `failed_update_not_atomic`);
    * INSERT buffers the sink's input batches round-robin over the partitions and appends them.

  Run-time errors are collapsed to `none` (which of several errors is reported first differs
  between the column-major implementation and a row-major reading; the class is not part of this
  property).  `.type` errors of the reference evaluator (ill-typed input) are detected separately by
  the driver (`unsupported`).
-/
import DfModel.Sql.Rel
namespace DfModel.Sm.MemTable
open DfModel

abbrev Batch := List Row
abbrev Part := List Batch
abbrev Layout := List Part

/-- all rows of a table, in scan order -/
def rows (l : Layout) : List Row := l.flatten.flatten

/-- value of an expression on a row; `none` = run-time error -/
def ev (e : Expr) (r : Row) : Option Val := (eval e r).toOption
/-- truth value of a predicate on a row; `none` = run-time error / not boolean -/
def tv (e : Expr) (r : Row) : Option Tri := (evalTri e r).toOption

/-- `PhysicalExpr::evaluate(batch)`: the whole column, an error on any row is an error -/
def evalCol (e : Expr) (b : Batch) : Option (List Val) := b.mapM (ev e)
def triCol (e : Expr) (b : Batch) : Option (List Tri) := b.mapM (tv e)

/-- `split_conjunction` -/
def conjuncts : Expr → List Expr
  | .bin .and a b => conjuncts a ++ conjuncts b
  | e => [e]

def filtersOf : Option Expr → List Expr
  | none => []
  | some e => conjuncts e

/-- `arrow::compute::and` (NOT the Kleene `and_kleene`): NULL if either operand is NULL -/
def arrowAnd : Tri → Tri → Tri
  | .u, _ => .u
  | _, .u => .u
  | .t, .t => .t
  | _, _ => .f

/-- `combined_mask = Some(match combined_mask { Some(existing) => and(&existing, &bool_array)?, None => bool_array })` -/
def combineMask : Option (List Tri) → List Tri → List Tri
  | none, m => m
  | some a, m => List.zipWith arrowAnd a m

/-- `evaluate_filters_to_mask`: `none` = no filters ("match all rows"); the loop with its
    accumulator `combined_mask` -/
def filtersMask (b : Batch) : Option (List Tri) → List Expr → Option (Option (List Tri))
  | acc, [] => some acc
  | acc, f :: fs => do
    let m ← triCol f b
    filtersMask b (some (combineMask acc m)) fs

/-- `filter_record_batch` -/
def keepRows : List Bool → Batch → Batch
  | true :: ms, r :: rs => r :: keepRows ms rs
  | false :: ms, _ :: rs => keepRows ms rs
  | _, _ => []

/-! ## DELETE -/

def deleteBatch (fs : List Expr) (b : Batch) : Option (Nat × Batch) := do
  match ← filtersMask b none fs with
  | some m => some (m.countP (· == .t), keepRows (m.map (· != .t)) b)
  | none => some (b.length, keepRows (b.map fun _ => false) b)

def deletePart (fs : List Expr) : Part → Option (Nat × Part)
  | [] => some (0, [])
  | b :: bs =>
    if b.isEmpty then deletePart fs bs
    else do
      let r ← deleteBatch fs b
      let rest ← deletePart fs bs
      some (r.1 + rest.1, if r.2.isEmpty then rest.2 else r.2 :: rest.2)

/-- the partition loop: each partition is committed before the next one is processed; on an error
    the statement fails, partitions already committed stay modified -/
def runParts (f : Part → Option (Nat × Part)) : Layout → Nat → Layout × Option Nat
  | [], n => ([], some n)
  | p :: ps, n =>
    match f p with
    | none => (p :: ps, none)
    | some r =>
      let rest := runParts f ps (n + r.1)
      (r.2 :: rest.1, rest.2)

/-! ## UPDATE -/

/-- `scatter(selection, values)`: the i-th TRUE position receives the i-th value, other positions NULL
    (the last equation is unreachable: there are as many values as TRUE positions) -/
def scatter : List Bool → List Val → List Val
  | [], _ => []
  | false :: ms, vs => .null :: scatter ms vs
  | true :: ms, v :: vs => v :: scatter ms vs
  | true :: ms, [] => .null :: scatter ms []

/-- `PhysicalExpr::evaluate_selection` -/
def evalSelection (e : Expr) (b : Batch) (mask : List Bool) : Option (List Val) :=
  if mask.all id then evalCol e b
  else if !mask.any id then some (b.map fun _ => Val.null)
  else (evalCol e (keepRows mask b)).map (scatter mask)

/-- `zip(mask, new, old)` of column `j` followed by rebuilding the batch with that column -/
def setCol (j : Nat) : List Bool → List Val → Batch → Batch
  | m :: ms, v :: vs, r :: rs => (if m then r.set j v else r) :: setCol j ms vs rs
  | _, _, rs => rs

/-- the assigned schema fields in schema order (`for field in self.schema.fields()` with a lookup in
    the assignment map) -/
def ordered (w : Nat) (asg : List (Nat × Expr)) : List (Nat × Expr) :=
  (List.range w).filterMap (fun j => (asg.lookup j).map (fun e => (j, e)))

/-- `(update_count, update_mask)`: number of TRUE positions and the normalised mask (only TRUE, not
    NULL, triggers the update); no filters = every row -/
def countMask (b : Batch) : Option (List Tri) → Nat × List Bool
  | some m => (m.countP (· == .t), m.map (· == .t))
  | none => (b.length, b.map fun _ => true)

def updateBatch (w : Nat) (asg : List (Nat × Expr)) (fs : List Expr) (b : Batch) : Option (Nat × Batch) := do
  let cm := countMask b (← filtersMask b none fs)
  if cm.1 = 0 then some (0, b)
  else do
    -- `for field in schema.fields()`: every new column is computed from the ORIGINAL batch `b`
    let b' ← (ordered w asg).foldlM
      (fun acc je => (evalSelection je.2 b cm.2).map (fun c => setCol je.1 cm.2 c acc)) b
    some (cm.1, b')

def updatePart (w : Nat) (asg : List (Nat × Expr)) (fs : List Expr) : Part → Option (Nat × Part)
  | [] => some (0, [])
  | b :: bs =>
    if b.isEmpty then updatePart w asg fs bs
    else do
      let r ← updateBatch w asg fs b
      let rest ← updatePart w asg fs bs
      some (r.1 + rest.1, r.2 :: rest.2)

/-! ## INSERT (`MemSink::write_all`) -/

/-- the arriving batches whose index is ≡ p (mod n), in arrival order -/
def rrTail (n p : Nat) (bs : List Batch) : List Batch :=
  bs.zipIdx.filterMap (fun bj => if bj.2 % n = p then some bj.1 else none)

def insertBatches (l : Layout) (bs : List Batch) : Layout :=
  l.zipIdx.map (fun pi => pi.1 ++ rrTail l.length pi.2 bs)

/-! ## statements and histories -/

inductive Stmt where
  | delete (wh : Option Expr)
  | update (asg : List (Nat × Expr)) (wh : Option Expr)
  /-- the batches arriving at the sink, in arrival order -/
  | insert (batches : List Batch)
  deriving Repr, Inhabited

/-- one statement on a table of `w` columns: new layout and reported count (`none` = failed) -/
def step (w : Nat) (l : Layout) : Stmt → Layout × Option Nat
  | .delete wh => runParts (deletePart (filtersOf wh)) l 0
  | .update asg wh =>
    -- unknown column: rejected before anything is touched
    if asg.any (fun a => decide (w ≤ a.1)) then (l, none)
    else runParts (updatePart w asg (filtersOf wh)) l 0
  | .insert bs => (insertBatches l bs, some (bs.map List.length).sum)

def run (w : Nat) (l : Layout) : List Stmt → Layout × List (Option Nat)
  | [] => (l, [])
  | s :: ss =>
    let r := step w l s
    let rest := run w r.1 ss
    (rest.1, r.2 :: rest.2)

/-! ## row-by-row specification (SQL semantics) -/

/-- the WHERE condition of one row: every conjunct is evaluated; TRUE iff all are TRUE -/
def predRow (fs : List Expr) (r : Row) : Option Bool :=
  (fs.mapM (fun f => tv f r)).map (fun ts => ts.all (· == .t))

/-- the updated row: every assignment is evaluated on the PRE-update row `r` -/
def assignRow (w : Nat) (asg : List (Nat × Expr)) (r : Row) : Option Row :=
  (ordered w asg).foldlM (fun acc je => (ev je.2 r).map (fun v => acc.set je.1 v)) r

/-- effect of DELETE on one row: (selected?, the rows that replace it) -/
def delRow (fs : List Expr) (r : Row) : Option (Bool × List Row) :=
  (predRow fs r).map (fun p => (p, if p then [] else [r]))

/-- effect of UPDATE on one row: (selected?, the rows that replace it) -/
def updRow (w : Nat) (asg : List (Nat × Expr)) (fs : List Expr) (r : Row) : Option (Bool × List Row) := do
  if ← predRow fs r then (assignRow w asg r).map (fun r' => (true, [r']))
  else some (false, [r])

/-- apply a per-row effect to all rows: (number of selected rows, new rows); `none` if it fails on any row -/
def specRows (g : Row → Option (Bool × List Row)) (rs : List Row) : Option (Nat × List Row) :=
  (rs.mapM g).map (fun us => (us.countP (·.1), (us.map (·.2)).flatten))

/-- what a statement must do to the rows, and the count it must report (`none` = it must fail) -/
def specStmt (w : Nat) (rs : List Row) : Stmt → Option (Nat × List Row)
  | .delete wh => specRows (delRow (filtersOf wh)) rs
  | .update asg wh =>
    if asg.any (fun a => decide (w ≤ a.1)) then none
    else specRows (updRow w asg (filtersOf wh)) rs
  | .insert bs => some ((bs.map List.length).sum, rs ++ bs.flatten)

end DfModel.Sm.MemTable
