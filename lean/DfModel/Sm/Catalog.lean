/-
  C49 — catalog state machine (model of the DDL handlers of `SessionContext`,
  `datafusion/core/src/execution/context/mod.rs`, the in-memory catalog / schema providers
  `datafusion/catalog/src/memory/{catalog,schema}.rs`, identifier normalisation and 1/2/3-part
  resolution `datafusion/sql/src/{planner,utils,statement}.rs`, `TableReference::resolve`, and
  the listings of `datafusion/catalog/src/information_schema.rs`).

  The state is FLAT (three association lists); the real code is NESTED
  (`DashMap<catalog, DashMap<schema, DashMap<table, provider>>>`).  The well-formedness invariant
  `Wf` (Props/C49) says exactly that the flat state is the image of a nested one: names unique
  at each level and no object / schema whose parent is missing ("no dangling schema").  The
  information-schema listings below enumerate the way the code does (catalog → schema → table), so
  "the listing shows exactly the existing objects" is a theorem that needs `Wf`.

  `atomic` selects the behaviour of `CREATE OR REPLACE TABLE … AS <query>` when the query fails
  at run time:  `true` = the code as it is now (/repo commit 5758ed9: evaluate first, swap after);
  `false` = the pinned upstream code (the old object was deregistered BEFORE the query ran, so a
  failing statement left the name dropped) — kept for the witness theorem.  The compiled driver
  uses `true`.
  Core Lean only.
-/
namespace DfModel.Sm.Catalog

/-- a normalised name / any text: list of characters (no `String`, so that `decide` reduces) -/
abbrev Name := List Char

/-- an identifier as written in SQL: `foo` / `"Foo"` -/
structure Ident where
  text : List Char
  quoted : Bool
  deriving Repr, DecidableEq

/-- `str::to_ascii_lowercase` (Lean's `Char.toLower` is ASCII-only as well) -/
def lower (s : List Char) : List Char := s.map Char.toLower

/-- `normalize_ident` (sql/src/utils.rs): quoted ⇒ verbatim, unquoted ⇒ ASCII lower-case -/
def normalize (i : Ident) : Name := if i.quoted then i.text else lower i.text

structure Col where
  name : Name
  ty : Name          -- Arrow type as printed in information_schema.columns.data_type
  nullable : Bool
  deriving Repr, DecidableEq

inductive Kind where
  | base | view
  deriving Repr, DecidableEq

structure Key where
  cat : Name
  sch : Name
  name : Name
  deriving Repr, DecidableEq

structure Entry where
  key : Key
  kind : Kind
  cols : List Col
  /-- `TableProvider::get_table_definition` — the text of the CREATE VIEW statement -/
  defn : Option (List Char)
  /-- does scanning this object succeed at run time?  (`false` only for a view whose defining
      query fails when executed — views are not executed when they are created) -/
  runs : Bool
  deriving Repr, DecidableEq

structure State where
  cats : List Name
  schemas : List (Name × Name)
  objs : List Entry
  deriving Repr, DecidableEq

def defaultCat : Name := ['d','a','t','a','f','u','s','i','o','n']
def defaultSch : Name := ['p','u','b','l','i','c']
def infoSch : Name := ['i','n','f','o','r','m','a','t','i','o','n','_','s','c','h','e','m','a']

/-- `SessionContext::new_with_config(SessionConfig::new().with_information_schema(true))` -/
def init : State := { cats := [defaultCat], schemas := [(defaultCat, defaultSch)], objs := [] }

inductive Err where
  | badName      -- "Unsupported compound identifier" (4+ parts) / "Invalid schema specifier" / "Unable to parse catalog"
  | unresolved   -- name does not resolve: "table … not found" / "failed to resolve schema|catalog"
  | exists       -- "… already exists"
  | missing      -- "… doesn't exist."
  | conflict     -- "'IF NOT EXISTS' cannot coexist with 'REPLACE'"
  | nonEmpty     -- "Cannot drop schema … because other tables depend on it"
  | runtime      -- the defining query failed while running (e.g. division by zero)
  | noCatalog    -- "Missing catalog '…'"
  deriving Repr, DecidableEq

inductive Outcome where
  | created | replaced | skipped | dropped | absent
  | rows (cols : List Col)
  | err (e : Err)
  deriving Repr, DecidableEq

def Outcome.isErr : Outcome → Bool
  | .err _ => true
  | _ => false

/-- the defining query of a CTAS / view / SELECT, as far as the catalog is concerned -/
inductive Query where
  | const (cs : List Col)        -- `SELECT <constants> AS …`
  | src (r : List Ident)         -- `SELECT * FROM r`
  | failing (cs : List Col)      -- plans with columns `cs`, fails at run time
  deriving Repr, DecidableEq

inductive TBody where
  | cols (cs : List Col)         -- `CREATE TABLE t (a INT, …)`
  | as (q : Query)               -- `CREATE TABLE t AS q`
  deriving Repr, DecidableEq

inductive Stmt where
  | createCatalog (n : Ident) (ifNotExists : Bool)                    -- CREATE DATABASE
  | createSchema (r : List Ident) (ifNotExists : Bool)
  | dropSchema (r : List Ident) (ifExists cascade : Bool)
  | createTable (r : List Ident) (ifNotExists orReplace : Bool) (b : TBody)
  | createView (r : List Ident) (orReplace : Bool) (q : Query) (text : List Char)
  | dropTable (r : List Ident) (ifExists : Bool)
  | dropView (r : List Ident) (ifExists : Bool)
  | select (r : List Ident)                                            -- SELECT * FROM r
  deriving Repr, DecidableEq

/-- `idents_to_table_reference` + `TableReference::resolve(default_catalog, default_schema)` -/
def resolveNames : List Name → Option Key
  | [t] => some ⟨defaultCat, defaultSch, t⟩
  | [s, t] => some ⟨defaultCat, s, t⟩
  | [c, s, t] => some ⟨c, s, t⟩
  | _ => none

def resolveRef (r : List Ident) : Option Key := resolveNames (r.map normalize)

def lookup (s : State) (k : Key) : Option Entry := s.objs.find? (fun e => decide (e.key = k))

def hasSchema (s : State) (c sc : Name) : Bool := decide ((c, sc) ∈ s.schemas)

def insertObj (s : State) (e : Entry) : State := { s with objs := s.objs ++ [e] }

def removeObj (s : State) (k : Key) : State :=
  { s with objs := s.objs.filter (fun e => !decide (e.key = k)) }

def inSchema (c sc : Name) (e : Entry) : Bool := decide (e.key.cat = c) && decide (e.key.sch = sc)

def objsOf (s : State) (c sc : Name) : List Entry := s.objs.filter (inSchema c sc)

def schemasOf (s : State) (c : Name) : List Name :=
  (s.schemas.filter (fun p => decide (p.1 = c))).map (·.2)

def addCat (s : State) (c : Name) : State := { s with cats := s.cats ++ [c] }

def addSchema (s : State) (c sc : Name) : State := { s with schemas := s.schemas ++ [(c, sc)] }

/-- `MemoryCatalogProvider::deregister_schema` — the schema goes, and with it all its tables -/
def delSchema (s : State) (c sc : Name) : State :=
  { s with schemas := s.schemas.filter (fun p => !decide (p = (c, sc))),
           objs := s.objs.filter (fun e => !inSchema c sc e) }

/-- SQL planning of a query (`SessionState::create_logical_plan`): result columns and whether
    running it succeeds; `Err` when a table reference does not resolve in the CURRENT state. -/
def planQuery (s : State) : Query → Except Err (List Col × Bool)
  | .const cs => .ok (cs, true)
  | .failing cs => .ok (cs, false)
  | .src r =>
    match resolveRef r with
    | none => .error .badName
    | some k =>
      match lookup s k with
      | some e => .ok (e.cols, e.runs)
      | none => .error .unresolved

/-- planning of the body of CREATE TABLE -/
def planBody (s : State) : TBody → Except Err (List Col × Bool)
  | .cols cs => .ok (cs, true)
  | .as q => planQuery s q

/-- the `(_, _, Err(_))` arm of `create_memory_table` and the `(_, Err(_))` arm of `create_view`:
    (tables only: run the query, `collect_partitioned().await?`), then `register_table(name, …)?`
    whose `schema_for_ref` fails when the catalog or schema does not exist. -/
def createFresh (s : State) (e : Entry) (runsNow : Bool) : State × Outcome :=
  if !runsNow then (s, .err .runtime)
  else if hasSchema s e.key.cat e.key.sch then (insertObj s e, .created)
  else (s, .err .unresolved)

def relabel : Outcome → Outcome
  | .created => .replaced
  | o => o

/-- `SessionContext::create_memory_table` after planning:
    `match (if_not_exists, or_replace, self.table(name).await)` -/
def execCreateTable (atomic : Bool) (s : State) (k : Key) (ine orr : Bool) (cols : List Col)
    (runs : Bool) : State × Outcome :=
  let e : Entry := ⟨k, .base, cols, none, true⟩
  match ine, orr, lookup s k with
  | true, false, some _ => (s, .skipped)
  | false, true, some _ =>
    if atomic && !runs then (s, .err .runtime)       -- 5758ed9: evaluate first, swap after
    else
      -- upstream: `self.deregister_table(name)?` THEN collect THEN `register_table`;
      -- now: collect (succeeded) THEN deregister THEN register — the same result when `runs`
      let r := createFresh (removeObj s k) e runs
      (r.1, relabel r.2)
  | true, true, some _ => (s, .err .conflict)
  | _, _, none => createFresh s e runs
  | false, false, some _ => (s, .err .exists)

/-- `SessionContext::create_view` after planning: `match (or_replace, self.table(name).await)`;
    the defining query is NOT executed. -/
def execCreateView (s : State) (k : Key) (orr : Bool) (cols : List Col) (runs : Bool)
    (text : List Char) : State × Outcome :=
  let e : Entry := ⟨k, .view, cols, some text, runs⟩
  match orr, lookup s k with
  | true, some _ =>
    let r := createFresh (removeObj s k) e true
    (r.1, relabel r.2)
  | _, none => createFresh s e true
  | false, some _ => (s, .err .exists)

/-- `drop_table` / `drop_view`: `find_and_deregister(name, table_type)` then
    `match (result, if_exists)`; an object of the other kind counts as not found. -/
def execDrop (s : State) (r : List Ident) (kind : Kind) (ifx : Bool) : State × Outcome :=
  match resolveRef r with
  | none => (s, .err .badName)
  | some k =>
    match lookup s k with
    | some e =>
      if e.kind = kind then (removeObj s k, .dropped)
      else if ifx then (s, .absent) else (s, .err .missing)
    | none => if ifx then (s, .absent) else (s, .err .missing)

/-- `create_catalog_schema`, after the catalog was found -/
def execCreateSchema (s : State) (c sc : Name) (ine : Bool) : State × Outcome :=
  if hasSchema s c sc then (if ine then (s, .skipped) else (s, .err .exists))
  else (addSchema s c sc, .created)

/-- `drop_schema` -/
def execDropSchema (s : State) (c sc : Name) (ifx cascade : Bool) : State × Outcome :=
  if decide (c ∈ s.cats) then
    if hasSchema s c sc then
      if (objsOf s c sc).isEmpty || cascade then (delSchema s c sc, .dropped)
      else (s, .err .nonEmpty)                      -- `deregister_schema(..)?` — also with IF EXISTS
    else if ifx then (s, .absent) else (s, .err .missing)
  else if ifx then (s, .absent) else (s, .err .missing)

/-- CREATE/DROP SCHEMA name: `[schema]` (default catalog) or `[catalog, schema]` -/
def schemaTarget : List Name → Option (Name × Name)
  | [sc] => some (defaultCat, sc)
  | [c, sc] => some (c, sc)
  | _ => none

def step (atomic : Bool) (s : State) : Stmt → State × Outcome
  | .createCatalog n ine =>
    if decide (normalize n ∈ s.cats) then (if ine then (s, .skipped) else (s, .err .exists))
    else (addCat s (normalize n), .created)
  | .createSchema r ine =>
    -- `get_schema_name` joins the normalised parts with '.', `create_catalog_schema` splits again
    match schemaTarget (r.map normalize) with
    | none => (s, .err .badName)
    | some p =>
      if decide (p.1 ∈ s.cats) then execCreateSchema s p.1 p.2 ine else (s, .err .noCatalog)
  | .dropSchema r ifx cascade =>
    match schemaTarget (r.map normalize) with
    | none => (s, .err .badName)
    | some p => execDropSchema s p.1 p.2 ifx cascade
  | .createTable r ine orr b =>
    -- planning: `resolve_table_references` converts the relation names the sqlparser visitor
    -- reports — which include the name of CREATE TABLE — so a name with more than 3 parts fails
    -- before anything is looked up; then the query is planned against the current state; any
    -- planning error leaves the state alone
    match resolveRef r with
    | none => (s, .err .badName)
    | some k =>
      match planBody s b with
      | .error e => (s, .err e)
      | .ok pr => execCreateTable atomic s k ine orr pr.1 pr.2
  | .createView r orr q text =>
    -- (sqlparser's relation visitor does not visit the name of CREATE VIEW, so here the defining
    -- query is planned first and the name is converted afterwards, as `statement.rs` reads)
    match planQuery s q with
    | .error e => (s, .err e)
    | .ok pr =>
      match resolveRef r with
      | none => (s, .err .badName)
      | some k => execCreateView s k orr pr.1 pr.2 text
  | .dropTable r ifx => execDrop s r .base ifx
  | .dropView r ifx => execDrop s r .view ifx
  | .select r =>
    match planQuery s (.src r) with
    | .error e => (s, .err e)
    | .ok pr => if pr.2 then (s, .rows pr.1) else (s, .err .runtime)

def run (atomic : Bool) (s : State) : List Stmt → State × List Outcome
  | [] => (s, [])
  | st :: sts =>
    let r := step atomic s st
    let r' := run atomic r.1 sts
    (r'.1, r.2 :: r'.2)

/-! ### information_schema listings — enumerated like `InformationSchemaConfig::make_*`:
    for each catalog, for each of its schemas other than `information_schema`, for each table. -/

/-- the tables `information_schema` itself contains (`INFORMATION_SCHEMA_TABLES`) -/
def infoNames : List Name :=
  [['t','a','b','l','e','s'], ['v','i','e','w','s'], ['c','o','l','u','m','n','s'],
   ['d','f','_','s','e','t','t','i','n','g','s'], ['s','c','h','e','m','a','t','a'],
   ['r','o','u','t','i','n','e','s'], ['p','a','r','a','m','e','t','e','r','s']]

def userSchemasOf (s : State) (c : Name) : List Name :=
  (schemasOf s c).filter (fun sc => !decide (sc = infoSch))

/-- `information_schema.tables`: (catalog, schema, table, type) -/
def infoTables (s : State) : List (Key × Kind) :=
  s.cats.flatMap fun c =>
    ((userSchemasOf s c).flatMap fun sc => (objsOf s c sc).map fun e => (e.key, e.kind))
      ++ infoNames.map fun n => (⟨c, infoSch, n⟩, Kind.view)

/-- `information_schema.columns`: (catalog, schema, table, ordinal position, column) -/
def infoColumns (s : State) : List (Key × Nat × Col) :=
  s.cats.flatMap fun c =>
    (userSchemasOf s c).flatMap fun sc =>
      (objsOf s c sc).flatMap fun e => (e.cols.zipIdx).map fun p => (e.key, p.2, p.1)

/-- `information_schema.views`: EVERY table of a user schema with its definition (NULL for base
    tables) — that is what `make_views` does. -/
def infoViews (s : State) : List (Key × Option (List Char)) :=
  s.cats.flatMap fun c =>
    (userSchemasOf s c).flatMap fun sc => (objsOf s c sc).map fun e => (e.key, e.defn)

/-- `information_schema.schemata`: (catalog, schema) -/
def infoSchemata (s : State) : List (Name × Name) :=
  s.cats.flatMap fun c => (userSchemasOf s c).map fun sc => (c, sc)

end DfModel.Sm.Catalog
