/-
  C13 — group-key interning (`GroupValues`, datafusion/physical-plan/src/aggregates/group_values).

  * `Spec`  — the contract of `GroupValues` (mod.rs): the store is the list of distinct live keys in
              first-seen order; a key's group id is its index.
  * `Prim`  — `GroupValuesPrimitive` (single_group_by/primitive.rs): `map` of `(group index, hash)`
              entries, `null_group`, `values` (with a default placeholder in the NULL slot), the
              `EmitTo::First(n)` renumbering of the map and of `null_group`.
  * `Bytes` — `GroupValuesBytes` / `GroupValuesBytesView` (bytes.rs, bytes_view.rs) over
              `ArrowBytesMap`: insertion-ordered `(value, payload)` entries + `num_groups`;
              `EmitTo::First(n)` drains the map and re-interns the remainder.
  * `Bool`  — `GroupValuesBoolean` (boolean.rs): three `Option<usize>`.
  `GroupValuesColumn` (multi-column) and `GroupValuesRows` keep the keys themselves in id order, i.e.
  they are `Spec` plus a hash index; they are corresponded against `Spec` directly
  (`Rows` additionally panics on `emit` before the first `intern`: `rowsInit`).

  `fixClear` selects what `clear_shrink` does to the bookkeeping that lives outside the cleared
  containers: `true` = the current code (after /repo commit f8726ff: `null_group = None`,
  `num_groups = 0`), `false` = the pinned upstream code, in which `GroupValuesPrimitive::null_group`
  and `GroupValuesBytes*::num_groups` survived `clear_shrink` (kept for the witness theorems).
  The hash function is a parameter: every result is independent of it (collisions included).
  Core Lean only.
-/
namespace DfModel.Sm.Gv

inductive Emit where
  | all
  | first (n : Nat)
  deriving DecidableEq, Repr

inductive Op (K : Type) where
  | intern (ks : List K)
  | emit (e : Emit)
  | clear
  deriving Repr

inductive Out (K : Type) where
  | ids (gs : List Nat)        -- `groups` after `intern`
  | keys (ks : List K)         -- the arrays returned by `emit`, row-wise
  | unit
  | invalid                    -- `First(n)` with `n > len`: outside the contract (callers never do it)
  | panic                      -- the code panics (reachable only after a `clear_shrink` defect)
  deriving Repr, DecidableEq

/-! ## the specification -/
namespace Spec
variable {K : Type} [DecidableEq K]

def intern1 (g : List K) (k : K) : List K × Nat :=
  if k ∈ g then (g, g.idxOf k) else (g ++ [k], g.length)

def internAll (g : List K) : List K → List K × List Nat
  | [] => (g, [])
  | k :: ks =>
    let r := intern1 g k
    let r' := internAll r.1 ks
    (r'.1, r.2 :: r'.2)

def step (g : List K) : Op K → List K × Out K
  | .intern ks => let r := internAll g ks; (r.1, .ids r.2)
  | .emit .all => ([], .keys g)
  | .emit (.first n) => if n ≤ g.length then (g.drop n, .keys (g.take n)) else (g, .invalid)
  | .clear => ([], .unit)

def run (g : List K) : List (Op K) → List K × List (Out K)
  | [] => (g, [])
  | op :: ops =>
    let r := step g op
    let r' := run r.1 ops
    (r'.1, r.2 :: r'.2)

end Spec

/-! ## GroupValuesPrimitive -/
namespace Prim

/-- keys are `Option Nat` (`none` = NULL); `default` is `T::Native::default()` -/
structure St where
  map : List (Nat × Nat)        -- `(group index, hash)`
  nullGroup : Option Nat
  values : List Nat
  deriving Repr, DecidableEq

def init : St := { map := [], nullGroup := none, values := [] }

def default : Nat := 0

/-- the `HashTable::entry` lookup: an entry with the same hash whose stored value `is_eq` the key -/
def lookup (hash : Nat → Nat) (s : St) (key : Nat) : Option Nat :=
  (s.map.find? (fun e => e.2 == hash key && s.values[e.1]? == some key)).map (·.1)

def intern1 (hash : Nat → Nat) (s : St) : Option Nat → St × Nat
  | none =>
    match s.nullGroup with
    | some g => (s, g)
    | none => ({ s with nullGroup := some s.values.length, values := s.values ++ [default] }, s.values.length)
  | some key =>
    match lookup hash s key with
    | some g => (s, g)
    | none => ({ s with map := s.map ++ [(s.values.length, hash key)], values := s.values ++ [key] },
               s.values.length)

def internAll (hash : Nat → Nat) (s : St) : List (Option Nat) → St × List Nat
  | [] => (s, [])
  | k :: ks =>
    let r := intern1 hash s k
    let r' := internAll hash r.1 ks
    (r'.1, r.2 :: r'.2)

/-- `build_primitive(values, null_idx)`; `none` = the `values.len() - null_idx - 1` underflow -/
def build (values : List Nat) (nullIdx : Option Nat) : Option (List (Option Nat)) :=
  match nullIdx with
  | none => some (values.map some)
  | some i => if i < values.length then some ((values.map some).set i none) else none

def step (hash : Nat → Nat) (fixClear : Bool) (s : St) : Op (Option Nat) → St × Out (Option Nat)
  | .intern ks => let r := internAll hash s ks; (r.1, .ids r.2)
  | .emit .all =>
    -- map.clear(); build_primitive(mem::take(values), null_group.take())
    (init, match build s.values s.nullGroup with | some ks => .keys ks | none => .panic)
  | .emit (.first n) =>
    if n ≤ s.values.length then
      let map' := s.map.filterMap (fun e => if n ≤ e.1 then some (e.1 - n, e.2) else none)
      let (ng', outNull) := match s.nullGroup with
        | some v => if n ≤ v then (some (v - n), none) else (none, some v)
        | none => (none, none)
      ({ map := map', nullGroup := ng', values := s.values.drop n },
       match build (s.values.take n) outNull with | some ks => .keys ks | none => .panic)
    else (s, .invalid)
  | .clear =>
    -- null_group = None (f8726ff; upstream left it untouched); values.clear(); map.clear()
    ({ map := [], values := [], nullGroup := if fixClear then none else s.nullGroup }, .unit)

def run (hash : Nat → Nat) (fixClear : Bool) (s : St) : List (Op (Option Nat)) → St × List (Out (Option Nat))
  | [] => (s, [])
  | op :: ops =>
    let r := step hash fixClear s op
    let r' := run hash fixClear r.1 ops
    (r'.1, r.2 :: r'.2)

/-- `len()` -/
def len (s : St) : Nat := s.values.length

/-- abstraction: the key of every group id -/
def abs (s : St) : List (Option Nat) :=
  match s.nullGroup with
  | none => s.values.map some
  | some i => (s.values.map some).set i none

end Prim

/-! ## GroupValuesBytes / GroupValuesBytesView (ArrowBytesMap with payload = group index) -/
namespace Bytes

structure St where
  map : List (Option Nat × Nat)    -- insertion order: (value or NULL, payload)
  numGroups : Nat
  deriving Repr, DecidableEq

def init : St := { map := [], numGroups := 0 }

def intern1 (s : St) (k : Option Nat) : St × Nat :=
  match s.map.find? (fun e => e.1 == k) with
  | some e => (s, e.2)
  | none => ({ map := s.map ++ [(k, s.numGroups)], numGroups := s.numGroups + 1 }, s.numGroups)

def internAll (s : St) : List (Option Nat) → St × List Nat
  | [] => (s, [])
  | k :: ks =>
    let r := intern1 s k
    let r' := internAll r.1 ks
    (r'.1, r.2 :: r'.2)

def step (fixClear : Bool) (s : St) : Op (Option Nat) → St × Out (Option Nat)
  | .intern ks => let r := internAll s ks; (r.1, .ids r.2)
  | .emit e =>
    let contents := s.map.map (·.1)          -- `self.map.take().into_state()`
    match e with
    | .all =>
      if contents.length ≤ s.numGroups then ({ map := [], numGroups := s.numGroups - contents.length }, .keys contents)
      else ({ map := [], numGroups := 0 }, .panic)
    | .first n =>
      if n = s.numGroups then
        if contents.length ≤ s.numGroups then ({ map := [], numGroups := s.numGroups - contents.length }, .keys contents)
        else ({ map := [], numGroups := 0 }, .panic)
      else if n < contents.length then
        -- slice(0, n), slice(n, len - n); num_groups = 0; re-intern the remainder
        let r := internAll { map := [], numGroups := 0 } (contents.drop n)
        (r.1, .keys (contents.take n))
      else if n ≤ s.numGroups then ({ map := [], numGroups := s.numGroups }, .panic)   -- slice / group_indexes[0] panics
      else (s, .invalid)
  | .clear => ({ map := [], numGroups := if fixClear then 0 else s.numGroups }, .unit)

def run (fixClear : Bool) (s : St) : List (Op (Option Nat)) → St × List (Out (Option Nat))
  | [] => (s, [])
  | op :: ops =>
    let r := step fixClear s op
    let r' := run fixClear r.1 ops
    (r'.1, r.2 :: r'.2)

def len (s : St) : Nat := s.numGroups
def abs (s : St) : List (Option Nat) := s.map.map (·.1)

end Bytes

/-! ## GroupValuesBoolean — keys `some 0` = false, `some 1` = true, `none` = NULL -/
namespace Bool3

structure St where
  falseGroup : Option Nat
  trueGroup : Option Nat
  nullGroup : Option Nat
  deriving Repr, DecidableEq

def init : St := { falseGroup := none, trueGroup := none, nullGroup := none }

def len (s : St) : Nat :=
  (if s.falseGroup.isSome then 1 else 0) + (if s.trueGroup.isSome then 1 else 0) +
  (if s.nullGroup.isSome then 1 else 0)

def intern1 (s : St) : Option Nat → St × Nat
  | some 0 => match s.falseGroup with
    | some i => (s, i)
    | none => ({ s with falseGroup := some (len s) }, len s)
  | some _ => match s.trueGroup with
    | some i => (s, i)
    | none => ({ s with trueGroup := some (len s) }, len s)
  | none => match s.nullGroup with
    | some i => (s, i)
    | none => ({ s with nullGroup := some (len s) }, len s)

def internAll (s : St) : List (Option Nat) → St × List Nat
  | [] => (s, [])
  | k :: ks =>
    let r := intern1 s k
    let r' := internAll r.1 ks
    (r'.1, r.2 :: r'.2)

/-- after `emit` of `cnt` groups: a slot `< cnt` is emitted and cleared, others shift down -/
def shift (cnt : Nat) : Option Nat → Option Nat
  | some i => if i < cnt then none else some (i - cnt)
  | none => none

/-- the emitted array: `cnt` slots, `false` unless the slot is the true group, NULL at the null group -/
def emitted (s : St) (cnt : Nat) : List (Option Nat) :=
  (List.range cnt).map (fun i =>
    if s.nullGroup = some i then none
    else if s.trueGroup = some i then some 1 else some 0)

def step (s : St) : Op (Option Nat) → St × Out (Option Nat)
  | .intern ks => let r := internAll s ks; (r.1, .ids r.2)
  | .emit e =>
    let cnt := match e with | .all => len s | .first n => n
    if cnt ≤ len s then
      ({ falseGroup := shift cnt s.falseGroup, trueGroup := shift cnt s.trueGroup,
         nullGroup := shift cnt s.nullGroup }, .keys (emitted s cnt))
    else (s, .invalid)
  | .clear => (init, .unit)

def run (s : St) : List (Op (Option Nat)) → St × List (Out (Option Nat))
  | [] => (s, [])
  | op :: ops =>
    let r := step s op
    let r' := run r.1 ops
    (r'.1, r.2 :: r'.2)

/-- abstraction: slot `i` holds the key whose group is `i` -/
def abs (s : St) : List (Option Nat) :=
  (List.range (len s)).map (fun i =>
    if s.nullGroup = some i then none
    else if s.trueGroup = some i then some 1 else some 0)

end Bool3

end DfModel.Sm.Gv
