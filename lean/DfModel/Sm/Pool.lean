/-
  C17 — memory pools (model of `datafusion/execution/src/memory_pool/{mod,pool,peak_recording}.rs`).

  The stack modelled is what the harness builds:
      `TrackConsumersPool< PeakRecordingPool( inner ) >`,  inner ∈ {Unbounded, Greedy, FairSpill}.

  * `Ledger`  = the inner pool's counters: `used` (Unbounded/Greedy `AtomicUsize`) or the
                `FairSpillPoolState {num_spill, spillable, unspillable}` under its mutex.
  * `Peak`    = `PeakRecordingPool {reserved, peak, max}`.
  * `Cons`    = one `TrackedConsumer {reserved, peak}` of `TrackConsumersPool::tracked_consumers`.
  * `Res`     = one live `MemoryReservation` (`size` atomic; `cid`/`spill` = the consumer of its
                `SharedRegistration`).  Reservations made by `split/new_empty/take` share the
                registration of their parent (same `cid`); the consumer is unregistered when the
                last reservation with that `cid` is dropped (`Drop for SharedRegistration`).

  Everything is `Nat`.  Assumption (listed in props/C17.json): no `usize` overflow of any sum.
  Subtractions that the real code performs on counters (`fetch_sub`, `-=`, `checked_sub(1).unwrap()`)
  are modelled by truncated subtraction PLUS a `bad` flag that is raised whenever the subtrahend
  exceeds the counter (the real code would wrap around / panic there); `no_underflow` in
  Props/C17 proves the flag is never raised, so the truncation is never exercised.

  Part 1: sequential state machine (one step per API call).
  Part 2: concurrent micro-step model (each API call on a shared reservation = its two atomic
          phases, in the order of the code; a schedule is a list of thread ids).
  Core Lean only.
-/
namespace DfModel.Sm.Pool

/-! ## Part 0: data -/

inductive Kind where
  | unbounded
  | greedy (limit : Nat)
  | fair (limit : Nat)
  deriving Repr, DecidableEq

structure Ledger where
  used : Nat          -- Unbounded / Greedy: `used`
  numSpill : Nat      -- Fair: `num_spill`
  spillable : Nat     -- Fair: `spillable`
  unspillable : Nat   -- Fair: `unspillable`
  deriving Repr, DecidableEq

structure Res where
  rid : Nat
  cid : Nat
  size : Nat
  spill : Bool
  deriving Repr, DecidableEq

structure Cons where
  cid : Nat
  spill : Bool
  reserved : Nat
  peak : Nat
  deriving Repr, DecidableEq

structure Peak where
  reserved : Nat
  peak : Nat
  max : Nat
  deriving Repr, DecidableEq

/-! ## Part 0.1: primitive transformers on the inner pool's ledger -/

/-- `MemoryPool::reserved()` of the inner pool -/
def Ledger.reserved (k : Kind) (l : Ledger) : Nat :=
  match k with
  | .fair _ => l.spillable + l.unspillable
  | _ => l.used

/-- `inner.grow(reservation, n)` (infallible, unchecked) -/
def ledAdd (k : Kind) (spill : Bool) (n : Nat) (l : Ledger) : Ledger :=
  match k with
  | .fair _ => if spill then { l with spillable := l.spillable + n } else { l with unspillable := l.unspillable + n }
  | _ => { l with used := l.used + n }

/-- `inner.shrink(reservation, n)` -/
def ledSub (k : Kind) (spill : Bool) (n : Nat) (l : Ledger) : Ledger :=
  match k with
  | .fair _ => if spill then { l with spillable := l.spillable - n } else { l with unspillable := l.unspillable - n }
  | _ => { l with used := l.used - n }

/-- would `inner.shrink` go below zero (wrap-around of the atomic / `-=` overflow panic)? -/
def ledUnder (k : Kind) (spill : Bool) (n : Nat) (l : Ledger) : Bool :=
  match k with
  | .fair _ => if spill then decide (l.spillable < n) else decide (l.unspillable < n)
  | _ => decide (l.used < n)

/-- `FairSpillPool::try_grow`'s `available` for a spilling consumer:
    `(pool_size ⊖ unspillable).checked_div(num_spill).unwrap_or(pool_size ⊖ unspillable)` -/
def fairShare (lim : Nat) (l : Ledger) : Nat :=
  if l.numSpill = 0 then lim - l.unspillable else (lim - l.unspillable) / l.numSpill

/-- `inner.try_grow(reservation, n)`: `none` = `Err(ResourcesExhausted)`.
    `rsize` is `reservation.size()` as read by the fair pool under its lock. -/
def ledTryAdd (k : Kind) (spill : Bool) (rsize n : Nat) (l : Ledger) : Option Ledger :=
  match k with
  | .unbounded => some { l with used := l.used + n }
  | .greedy lim => if l.used + n ≤ lim then some { l with used := l.used + n } else none
  | .fair lim =>
    if spill then
      if rsize + n > fairShare lim l then none else some { l with spillable := l.spillable + n }
    else
      if lim - (l.unspillable + l.spillable) < n then none
      else some { l with unspillable := l.unspillable + n }

/-- `inner.register(consumer)` -/
def ledRegister (k : Kind) (spill : Bool) (l : Ledger) : Ledger :=
  match k with
  | .fair _ => if spill then { l with numSpill := l.numSpill + 1 } else l
  | _ => l

/-- `inner.unregister(consumer)` (`num_spill.checked_sub(1).unwrap()`) -/
def ledUnregister (k : Kind) (spill : Bool) (l : Ledger) : Ledger :=
  match k with
  | .fair _ => if spill then { l with numSpill := l.numSpill - 1 } else l
  | _ => l

def ledUnregUnder (k : Kind) (spill : Bool) (l : Ledger) : Bool :=
  match k with
  | .fair _ => spill && decide (l.numSpill = 0)
  | _ => false

/-! ## Part 0.2: primitive transformers on the reservation list -/

def findRes : List Res → Nat → Option Res
  | [], _ => none
  | x :: xs, r => if x.rid = r then some x else findRes xs r

/-- apply `g` to the size of reservation `r` (the first entry with that id; ids are unique) -/
def updRes : List Res → Nat → (Nat → Nat) → List Res
  | [], _, _ => []
  | x :: xs, r, g => if x.rid = r then { x with size := g x.size } :: xs else x :: updRes xs r g

def eraseRes : List Res → Nat → List Res
  | [], _ => []
  | x :: xs, r => if x.rid = r then xs else x :: eraseRes xs r

def hasCid (rs : List Res) (c : Nat) : Bool := rs.any (fun x => x.cid == c)

/-- Σ of the sizes of the reservations selected by `p cid spill` -/
def sumBy (p : Nat → Bool → Bool) : List Res → Nat
  | [] => 0
  | x :: xs => (if p x.cid x.spill then x.size else 0) + sumBy p xs

def sumSize (rs : List Res) : Nat := sumBy (fun _ _ => true) rs
def sumSpill (b : Bool) (rs : List Res) : Nat := sumBy (fun _ s => s == b) rs
def sumCid (c : Nat) (rs : List Res) : Nat := sumBy (fun cid _ => cid == c) rs

/-! ## Part 0.3: primitive transformers on the wrappers -/

/-- `PeakRecordingPool::record(n)` -/
def peakAdd (p : Peak) (n : Nat) : Peak :=
  let r := p.reserved + n
  { reserved := r, peak := max p.peak r, max := max p.max r }

/-- `PeakRecordingPool::shrink`: `reserved.fetch_sub(n)` -/
def peakSub (p : Peak) (n : Nat) : Peak := { p with reserved := p.reserved - n }

/-- `TrackedConsumer::grow(n)` on the entry of consumer `c` (`entry(id).and_modify`) -/
def trackAdd (cs : List Cons) (c n : Nat) : List Cons :=
  cs.map (fun x => if x.cid = c then
    { x with reserved := x.reserved + n, peak := max x.peak (x.reserved + n) } else x)

/-- `TrackedConsumer::shrink(n)` -/
def trackSub (cs : List Cons) (c n : Nat) : List Cons :=
  cs.map (fun x => if x.cid = c then { x with reserved := x.reserved - n } else x)

def trackUnder (cs : List Cons) (c n : Nat) : Bool :=
  cs.any (fun x => x.cid == c && decide (x.reserved < n))

/-! ## Part 1: the sequential state machine -/

structure St where
  led : Ledger
  pk : Peak
  cons : List Cons       -- `TrackConsumersPool::tracked_consumers`
  res : List Res         -- live reservations
  nextRid : Nat
  nextCid : Nat
  bad : Bool             -- some counter subtraction went below zero (never happens: `no_underflow`)
  deriving Repr, DecidableEq

def init : St :=
  { led := ⟨0, 0, 0, 0⟩, pk := ⟨0, 0, 0⟩, cons := [], res := [], nextRid := 0, nextCid := 0, bad := false }

def St.reserved (k : Kind) (s : St) : Nat := s.led.reserved k

inductive Op where
  | register (spill : Bool)   -- `MemoryConsumer::new(..).with_can_spill(spill).register(&pool)`
  | grow (r n : Nat)
  | tryGrow (r n : Nat)
  | shrink (r n : Nat)
  | tryShrink (r n : Nat)
  | resize (r n : Nat)
  | tryResize (r n : Nat)
  | split (r n : Nat)
  | newEmpty (r : Nat)
  | take (r : Nat)
  | free (r : Nat)
  | drop (r : Nat)
  | resetPeak                 -- `PeakRecordingPool::reset_peak`
  deriving Repr, DecidableEq

inductive Out where
  | registered (rid cid : Nat)
  | unit                      -- `()` of grow / shrink / resize / drop / reset_peak
  | ok                        -- `Ok(())` of try_grow / try_resize
  | okSize (n : Nat)          -- `Ok(new_size)` of try_shrink
  | freed (n : Nat)           -- `free()` returns the bytes freed
  | newRes (rid : Nat)        -- split / new_empty / take
  | errResources              -- try_grow / try_resize: `ResourcesExhausted`
  | errInternal               -- try_shrink / try_resize: "Cannot free the capacity …"
  | panic                     -- shrink / split with capacity > size
  | noSuchRes                 -- the harness never sends these; the model rejects
  deriving Repr, DecidableEq

/-- the three layers' `grow(reservation x, n)` : inner, then `record`, then `TrackedConsumer::grow` -/
def poolGrow (k : Kind) (s : St) (x : Res) (n : Nat) : St :=
  { s with led := ledAdd k x.spill n s.led, pk := peakAdd s.pk n, cons := trackAdd s.cons x.cid n }

/-- the three layers' `try_grow`; `x.size` is the reservation's size at the time of the call -/
def poolTryGrow (k : Kind) (s : St) (x : Res) (n : Nat) : Option St :=
  match ledTryAdd k x.spill x.size n s.led with
  | none => none
  | some l => some { s with led := l, pk := peakAdd s.pk n, cons := trackAdd s.cons x.cid n }

/-- the three layers' `shrink(reservation x, n)` -/
def poolShrink (k : Kind) (s : St) (x : Res) (n : Nat) : St :=
  { s with led := ledSub k x.spill n s.led, pk := peakSub s.pk n, cons := trackSub s.cons x.cid n,
           bad := s.bad || ledUnder k x.spill n s.led || decide (s.pk.reserved < n)
                    || trackUnder s.cons x.cid n }

/-- `size.fetch_add(n)` -/
def resAdd (s : St) (r n : Nat) : St := { s with res := updRes s.res r (· + n) }
/-- `size.fetch_update(checked_sub n)` after the check succeeded -/
def resSub (s : St) (r n : Nat) : St := { s with res := updRes s.res r (· - n) }
/-- `size.swap(0)` -/
def resZero (s : St) (r : Nat) : St := { s with res := updRes s.res r (fun _ => 0) }

/-- a new `MemoryReservation` sharing the registration of `x` -/
def resPush (s : St) (x : Res) (size : Nat) : St :=
  { s with res := s.res ++ [{ rid := s.nextRid, cid := x.cid, size := size, spill := x.spill }],
           nextRid := s.nextRid + 1 }

/-- `MemoryReservation::grow` : pool first, then `size` -/
def doGrow (k : Kind) (s : St) (x : Res) (n : Nat) : St := resAdd (poolGrow k s x n) x.rid n

/-- `MemoryReservation::try_grow` -/
def doTryGrow (k : Kind) (s : St) (x : Res) (n : Nat) : Option St :=
  match poolTryGrow k s x n with
  | none => none
  | some s' => some (resAdd s' x.rid n)

/-- `MemoryReservation::shrink/try_shrink` after the `checked_sub` succeeded: `size` first, then pool -/
def doShrink (k : Kind) (s : St) (x : Res) (n : Nat) : St := poolShrink k (resSub s x.rid n) x n

/-- `MemoryReservation::free` -/
def doFree (k : Kind) (s : St) (x : Res) : St :=
  if x.size ≠ 0 then poolShrink k (resZero s x.rid) x x.size else resZero s x.rid

/-- `Drop for MemoryReservation` (after `free`): forget the reservation; if it was the last one
    sharing the registration, `pool.unregister(consumer)` on all three layers -/
def resDrop (k : Kind) (s : St) (x : Res) : St :=
  let rs := eraseRes s.res x.rid
  if hasCid rs x.cid then { s with res := rs }
  else { s with res := rs, led := ledUnregister k x.spill s.led,
                cons := s.cons.filter (fun c => c.cid != x.cid),
                bad := s.bad || ledUnregUnder k x.spill s.led }

def step (k : Kind) (s : St) : Op → St × Out
  | .register spill =>
      ({ s with led := ledRegister k spill s.led,
                cons := s.cons ++ [{ cid := s.nextCid, spill := spill, reserved := 0, peak := 0 }],
                res := s.res ++ [{ rid := s.nextRid, cid := s.nextCid, size := 0, spill := spill }],
                nextRid := s.nextRid + 1, nextCid := s.nextCid + 1 },
       .registered s.nextRid s.nextCid)
  | .grow r n =>
      match findRes s.res r with
      | none => (s, .noSuchRes)
      | some x => (doGrow k s x n, .unit)
  | .tryGrow r n =>
      match findRes s.res r with
      | none => (s, .noSuchRes)
      | some x =>
        match doTryGrow k s x n with
        | none => (s, .errResources)
        | some s' => (s', .ok)
  | .shrink r n =>
      match findRes s.res r with
      | none => (s, .noSuchRes)
      | some x => if n ≤ x.size then (doShrink k s x n, .unit) else (s, .panic)
  | .tryShrink r n =>
      match findRes s.res r with
      | none => (s, .noSuchRes)
      | some x => if n ≤ x.size then (doShrink k s x n, .okSize (x.size - n)) else (s, .errInternal)
  | .resize r cap =>
      match findRes s.res r with
      | none => (s, .noSuchRes)
      | some x =>
        if cap > x.size then (doGrow k s x (cap - x.size), .unit)
        else if cap < x.size then (doShrink k s x (x.size - cap), .unit)
        else (s, .unit)
  | .tryResize r cap =>
      match findRes s.res r with
      | none => (s, .noSuchRes)
      | some x =>
        if cap > x.size then
          match doTryGrow k s x (cap - x.size) with
          | none => (s, .errResources)
          | some s' => (s', .ok)
        else if cap < x.size then (doShrink k s x (x.size - cap), .ok)
        else (s, .ok)
  | .split r n =>
      match findRes s.res r with
      | none => (s, .noSuchRes)
      | some x => if n ≤ x.size then (resPush (resSub s r n) x n, .newRes s.nextRid) else (s, .panic)
  | .newEmpty r =>
      match findRes s.res r with
      | none => (s, .noSuchRes)
      | some x => (resPush s x 0, .newRes s.nextRid)
  | .take r =>
      match findRes s.res r with
      | none => (s, .noSuchRes)
      | some x => (resPush (resSub s r x.size) x x.size, .newRes s.nextRid)
  | .free r =>
      match findRes s.res r with
      | none => (s, .noSuchRes)
      | some x => (doFree k s x, .freed x.size)
  | .drop r =>
      match findRes s.res r with
      | none => (s, .noSuchRes)
      | some x => (resDrop k (doFree k s x) x, .unit)
  | .resetPeak => ({ s with pk := { s.pk with peak := s.pk.reserved } }, .unit)

def run (k : Kind) (s : St) : List Op → St × List Out
  | [] => (s, [])
  | op :: ops =>
    let r := step k s op
    let r' := run k r.1 ops
    (r'.1, r.2 :: r'.2)

/-- final state of a history -/
def exec (k : Kind) (s : St) : List Op → St
  | [] => s
  | op :: ops => exec k (step k s op).1 ops

/-! ### specification of the PeakRecording observables: running maxima of `reserved()` -/

/-- `(max of reserved() over the states since the last reset_peak, max of reserved() ever)`,
    computed along a history from the inner pool's `reserved()` after every op -/
def peakSpec (k : Kind) (s : St) (g : Nat × Nat) : List Op → Nat × Nat
  | [] => g
  | op :: ops =>
    let s' := (step k s op).1
    let now := s'.reserved k
    let g' := match op with
      | .resetPeak => (now, max g.2 now)
      | _ => (max g.1 now, max g.2 now)
    peakSpec k s' g' ops

/-! ## Part 2: concurrent micro-steps on shared reservations

  Threads share the reservations of a fixed set (created beforehand).  Every API call is split
  into its two atomic phases exactly in the order of `MemoryReservation`'s code:

    grow(n)       A: `pool.grow`  (ledger += n)                      B: `size.fetch_add(n)`
    try_grow(n)   A: `pool.try_grow` (check+add, atomic: `fetch_update` / under the fair mutex,
                     reading `reservation.size()` at that moment)    B: `size.fetch_add(n)`
    shrink(n)     A: `size.fetch_update(checked_sub n)` or panic     B: `pool.shrink(n)`
    try_shrink(n) A: same, `Err` instead of panic                    B: `pool.shrink(n)`
    free()        A: `v = size.swap(0)`                              B: `pool.shrink(v)` if v ≠ 0

  The pool here is the bare inner pool (no wrappers).  One schedule entry = one phase of that thread. -/

inductive COp where
  | grow (r n : Nat)
  | tryGrow (r n : Nat)
  | shrink (r n : Nat)
  | tryShrink (r n : Nat)
  | free (r : Nat)
  deriving Repr, DecidableEq

/-- what a thread still owes between phase A and phase B -/
inductive Pend where
  | idle
  | growB (r n : Nat) (spill : Bool) (out : Out)     -- granted by the pool, `size` not yet increased
  | shrinkB (r n : Nat) (spill : Bool) (out : Out)   -- `size` already decreased, pool not yet told
  deriving Repr, DecidableEq

structure Thread where
  prog : List COp
  pend : Pend
  outs : List Out        -- results of the finished calls, oldest first
  deriving Repr, DecidableEq

structure CSt where
  led : Ledger
  res : List Res
  threads : List Thread
  bad : Bool
  deriving Repr, DecidableEq

/-- bytes in flight (granted growth not yet in `size`, or shrink not yet told to the pool) of
    reservations with spill flag `b` -/
def Pend.amount (b : Bool) : Pend → Nat
  | .idle => 0
  | .growB _ n sp _ => if sp == b then n else 0
  | .shrinkB _ n sp _ => if sp == b then n else 0

def inflight (b : Bool) : List Thread → Nat
  | [] => 0
  | t :: ts => t.pend.amount b + inflight b ts

/-- only the in-flight *grows* -/
def Pend.growAmount : Pend → Nat
  | .growB _ n _ _ => n
  | _ => 0

def inflightGrows : List Thread → Nat
  | [] => 0
  | t :: ts => t.pend.growAmount + inflightGrows ts

def quiescent (ts : List Thread) : Bool := ts.all (fun t => t.pend == .idle)

/-- one phase of one thread; returns the new thread, ledger, reservations, underflow flag -/
def microThread (k : Kind) (l : Ledger) (rs : List Res) (t : Thread) : Thread × Ledger × List Res × Bool :=
  match t.pend with
  | .growB r n _ out => ({ t with pend := .idle, outs := t.outs ++ [out] }, l, updRes rs r (· + n), false)
  | .shrinkB _ n sp out =>
      ({ t with pend := .idle, outs := t.outs ++ [out] }, ledSub k sp n l, rs, ledUnder k sp n l)
  | .idle =>
    match t.prog with
    | [] => (t, l, rs, false)
    | op :: rest =>
      let t := { t with prog := rest }
      let done (o : Out) : Thread := { t with outs := t.outs ++ [o] }
      match op with
      | .grow r n =>
        match findRes rs r with
        | none => (done .noSuchRes, l, rs, false)
        | some x => ({ t with pend := .growB r n x.spill .unit }, ledAdd k x.spill n l, rs, false)
      | .tryGrow r n =>
        match findRes rs r with
        | none => (done .noSuchRes, l, rs, false)
        | some x =>
          match ledTryAdd k x.spill x.size n l with
          | none => (done .errResources, l, rs, false)
          | some l' => ({ t with pend := .growB r n x.spill .ok }, l', rs, false)
      | .shrink r n =>
        match findRes rs r with
        | none => (done .noSuchRes, l, rs, false)
        | some x =>
          if n ≤ x.size then ({ t with pend := .shrinkB r n x.spill .unit }, l, updRes rs r (· - n), false)
          else (done .panic, l, rs, false)
      | .tryShrink r n =>
        match findRes rs r with
        | none => (done .noSuchRes, l, rs, false)
        | some x =>
          if n ≤ x.size then
            ({ t with pend := .shrinkB r n x.spill (.okSize (x.size - n)) }, l, updRes rs r (· - n), false)
          else (done .errInternal, l, rs, false)
      | .free r =>
        match findRes rs r with
        | none => (done .noSuchRes, l, rs, false)
        | some x =>
          if x.size ≠ 0 then
            ({ t with pend := .shrinkB r x.size x.spill (.freed x.size) }, l, updRes rs r (fun _ => 0), false)
          else (done (.freed 0), l, updRes rs r (fun _ => 0), false)

/-- run one phase of thread number `i` of `ts` -/
def microAt (k : Kind) (l : Ledger) (rs : List Res) : List Thread → Nat → List Thread × Ledger × List Res × Bool
  | [], _ => ([], l, rs, false)
  | t :: ts, 0 =>
    let r := microThread k l rs t
    (r.1 :: ts, r.2.1, r.2.2.1, r.2.2.2)
  | t :: ts, i + 1 =>
    let r := microAt k l rs ts i
    (t :: r.1, r.2.1, r.2.2.1, r.2.2.2)

def cstep (k : Kind) (c : CSt) (i : Nat) : CSt :=
  let r := microAt k c.led c.res c.threads i
  { led := r.2.1, res := r.2.2.1, threads := r.1, bad := c.bad || r.2.2.2 }

/-- a schedule is a list of thread indices (an index ≥ the number of threads, or a finished
    thread, is a no-op) -/
def crun (k : Kind) (c : CSt) : List Nat → CSt
  | [] => c
  | i :: is => crun k (cstep k c i) is

/-- initial concurrent state: reservations given as `(cid, spill)`, all of size 0, rid = position;
    `numSpill` = number of spilling consumers registered -/
def mkRes : Nat → List (Nat × Bool) → List Res
  | _, [] => []
  | i, (c, sp) :: xs => { rid := i, cid := c, size := 0, spill := sp } :: mkRes (i + 1) xs

def cinit (numSpill : Nat) (rs : List (Nat × Bool)) (progs : List (List COp)) : CSt :=
  { led := ⟨0, numSpill, 0, 0⟩, res := mkRes 0 rs,
    threads := progs.map (fun p => { prog := p, pend := .idle, outs := [] }), bad := false }

def noInfallibleGrow (p : List COp) : Bool := p.all (fun op => match op with | .grow _ _ => false | _ => true)

end DfModel.Sm.Pool
