/-
  C42 — model of `datafusion_common::tree_node` traversals over rose trees.

  The *decision tables* (`TreeNodeRecursion::visit_{children,sibling,parent}`,
  `Transformed::transform_{children,sibling,parent}`) are NOT written here: they are the generated
  definitions of `DfModel.Gen.TreeNodeTbl` (translator T2, regenerated from
  datafusion/common/src/tree_node.rs on every run).  This file hand-models the recursion skeletons
  around them, line by line:

    apply_impl            f(node)?.visit_children(|| node.apply_children(|c| apply_impl(c, f)))
    visit                 f_down(n)?.visit_children(|| n.apply_children(|c| c.visit(v)))?.visit_parent(|| f_up(n))
    transform_down_impl   f(node)?.transform_children(|n| n.map_children(|c| transform_down_impl(c, f)))
    transform_up_impl     node.map_children(|c| transform_up_impl(c, f))?.transform_parent(f)
    handle_transform_recursion!   (rewrite, transform_down_up)
                          f_down(n)?.transform_children(|n| n.map_children(child))?.transform_parent(f_up)
    Vec::apply_elements / tuple apply_(ref_)elements   (sibling loop; last result is returned)
    Vec::map_elements   / tuple map_elements           (sibling loop; flags OR-ed; last tnr returned)

  Children of a node live in *containers* (Box, Option, Vec, tuples of those).  A container sequence
  behaves like the flat list of its elements, with one exception that the code really has: an EMPTY
  container returns `Continue` / `Transformed::no`, so when the last (innermost) container of a node
  is empty (`CASE … END` without ELSE, `x IN ()`, an aggregate without FILTER/ORDER BY) the result
  of the child sequence is reset to `Continue` unless it is `Stop`.  `Tree.node _ _ reset` records
  that (`reset = true`).

  Callbacks are arbitrary state-passing functions (Rust `FnMut` closures / visitor objects); `none`
  stands for `Err(_)`.  Rewriting callbacks replace the node's label only (children are kept): see
  notes/C42.md for why (a `transform_down` callback that grows the tree need not terminate).
  Core Lean only — linked into `dfdrv`.
-/
import DfModel.Gen.TreeNodeTbl
namespace DfModel.Sm.TreeWalk
open DfModel.Tbl DfModel.Gen.TreeNodeTbl

abbrev Tnr := TreeNodeRecursion

inductive Tree where
  | node (label : Nat) (kids : List Tree) (reset : Bool)
  deriving Repr, Inhabited

def Tree.label : Tree → Nat | .node l _ _ => l
def Tree.kids : Tree → List Tree | .node _ k _ => k
def Tree.reset : Tree → Bool | .node _ _ r => r

/-- result of a rewriting callback / traversal: `Transformed<T>` -/
structure Tr (α : Type) where
  data : α
  transformed : Bool
  tnr : Tnr
  deriving Repr

/-- inspecting callback: `FnMut(&N) -> Result<TreeNodeRecursion>`; `none` = `Err` -/
abbrev VF (σ : Type) := σ → Tree → σ × Option Tnr
/-- rewriting callback: `FnMut(N) -> Result<Transformed<N>>`, replacing the label only -/
abbrev TF (σ : Type) := σ → Tree → σ × Option (Tr Nat)

/-- an empty trailing container resets a non-`Stop` result of the child sequence to `Continue` -/
def seqEnd (reset : Bool) (d : Tnr) : Tnr :=
  if reset then (match d with | .Stop => .Stop | _ => .Continue) else d

variable {σ : Type}

/-- `TreeNodeRecursion::visit_children / visit_sibling / visit_parent (self, f)`: the generated table
    `tbl` says whether the closure runs (`call`) or `Ok(v)` is returned without running it. -/
def vdispatch (tbl : Tnr → Act Tnr) (self : Tnr) (s : σ) (f : σ → σ × Option Tnr) : σ × Option Tnr :=
  match tbl self with
  | .ret v => (s, some v)
  | _ => f s

/-- `t.transformed |= self.transformed` of the merge closure -/
def Tr.merge {α} (t : Tr α) (selfTransformed : Bool) : Tr α := { t with transformed := t.transformed || selfTransformed }

/-- `Transformed::transform_children / transform_sibling / transform_parent (self, f)`: per the
    generated table either `Ok(self)` with `tnr := v`, or `f(self.data)` with the flags OR-ed. -/
def tdispatch {α : Type} (tbl : Tnr → Act Tnr) (self : Tr α) (s : σ) (f : σ → α → σ × Option (Tr α)) : σ × Option (Tr α) :=
  match tbl self.tnr with
  | .ret v => (s, some { self with tnr := v })
  | _ =>
    match f s self.data with
    | (s1, none) => (s1, none)
    | (s1, some t) => (s1, some (t.merge self.transformed))

/-- `?` on a `Result`: continue with the `Ok` value, pass the error (and the state) through -/
def andOk {α β : Type} (r : σ × Option α) (k : σ → α → σ × Option β) : σ × Option β :=
  match r with
  | (s1, none) => (s1, none)
  | (s1, some a) => k s1 a

/-- close an `apply_children` result: an empty trailing container resets non-`Stop` to `Continue` -/
def endKids (reset : Bool) (r : σ × Option Tnr) : σ × Option Tnr :=
  andOk r (fun s d => (s, some (seqEnd reset d)))

/-! ### `TreeNode::apply` -/
mutual
/-- `apply_impl`: `f(node)?.visit_children(|| node.apply_children(|c| apply_impl(c, f)))` -/
def apply (f : VF σ) (s : σ) : Tree → σ × Option Tnr
  | .node l ks r =>
    andOk (f s (.node l ks r)) fun s1 d =>
      vdispatch TreeNodeRecursion.visit_children d s1 fun s2 => endKids r (applyKids f s2 .Continue ks)
/-- `Vec::apply_elements` / tuple `apply_ref_elements`: `last` is the running `tnr` -/
def applyKids (f : VF σ) (s : σ) (last : Tnr) : List Tree → σ × Option Tnr
  | [] => (s, some last)
  | c :: cs =>
    vdispatch TreeNodeRecursion.visit_sibling last s fun s0 =>
      andOk (apply f s0 c) fun s1 d => applyKids f s1 d cs
end

/-! ### `TreeNode::visit` (visitor with `f_down` / `f_up`) -/
mutual
/-- `f_down(n)?.visit_children(|| n.apply_children(|c| c.visit(v)))?.visit_parent(|| f_up(n))` -/
def visit (fd fu : VF σ) (s : σ) : Tree → σ × Option Tnr
  | .node l ks r =>
    andOk (fd s (.node l ks r)) fun s1 d =>
      andOk (vdispatch TreeNodeRecursion.visit_children d s1 fun s2 => endKids r (visitKids fd fu s2 .Continue ks)) fun s3 d2 =>
        vdispatch TreeNodeRecursion.visit_parent d2 s3 fun s4 => fu s4 (.node l ks r)
def visitKids (fd fu : VF σ) (s : σ) (last : Tnr) : List Tree → σ × Option Tnr
  | [] => (s, some last)
  | c :: cs =>
    vdispatch TreeNodeRecursion.visit_sibling last s fun s0 =>
      andOk (visit fd fu s0 c) fun s1 d => visitKids fd fu s1 d cs
end

/-! ### rewriting traversals -/

/-- apply a label-replacing callback to a node: the node keeps its children -/
def callT (f : TF σ) (s : σ) (n : Tree) : σ × Option (Tr Tree) :=
  andOk (f s n) fun s1 t => (s1, some { data := .node t.data n.kids n.reset, transformed := t.transformed, tnr := t.tnr })

/-- close a `map_children` result: rebuild the node, apply the empty-trailing-container reset -/
def rebuild (l : Nat) (r : Bool) (k : Tr (List Tree)) : Tr Tree :=
  { data := .node l k.data r, transformed := k.transformed, tnr := seqEnd r k.tnr }

/-- one step of the sibling loop of `Vec::map_elements` / tuple `map_elements`: the running
    `(tnr, transformed)` decide via `transform_sibling` whether element `c` is processed by `g`;
    `rest` processes the remaining elements. -/
def mapStep (tnr : Tnr) (tr : Bool) (c : Tree) (cs : List Tree) (s : σ)
    (g : σ → σ × Option (Tr Tree)) (rest : σ → Tnr → Bool → σ × Option (Tr (List Tree))) : σ × Option (Tr (List Tree)) :=
  match Transformed.transform_sibling tnr with
  | .ret v => (s, some { data := c :: cs, transformed := tr, tnr := v })
  | _ =>
    andOk (g s) fun s1 t =>
      andOk (rest s1 t.tnr (t.transformed || tr)) fun s2 k => (s2, some { k with data := t.data :: k.data })

mutual
/-- `transform_down_impl`: `f(node)?.transform_children(|n| n.map_children(|c| transform_down_impl(c, f)))` -/
def transformDown (f : TF σ) (s : σ) : Tree → σ × Option (Tr Tree)
  | .node l ks r =>
    andOk (f s (.node l ks r)) fun s1 t =>
      tdispatch Transformed.transform_children { data := Tree.node t.data ks r, transformed := t.transformed, tnr := t.tnr } s1
        fun s2 _ => andOk (mapDown f s2 .Continue false ks) fun s3 k => (s3, some (rebuild t.data r k))
/-- `map_children` over the children: `tnr` / `tr` are the running `tnr` and `transformed` of the loop -/
def mapDown (f : TF σ) (s : σ) (tnr : Tnr) (tr : Bool) : List Tree → σ × Option (Tr (List Tree))
  | [] => (s, some { data := [], transformed := tr, tnr := tnr })
  | c :: cs => mapStep tnr tr c cs s (fun s0 => transformDown f s0 c) (fun s1 d b => mapDown f s1 d b cs)
end

mutual
/-- `transform_up_impl`: `node.map_children(|c| transform_up_impl(c, f))?.transform_parent(f)` -/
def transformUp (f : TF σ) (s : σ) : Tree → σ × Option (Tr Tree)
  | .node l ks r =>
    andOk (mapUp f s .Continue false ks) fun s1 k =>
      tdispatch Transformed.transform_parent (rebuild l r k) s1 (callT f)
def mapUp (f : TF σ) (s : σ) (tnr : Tnr) (tr : Bool) : List Tree → σ × Option (Tr (List Tree))
  | [] => (s, some { data := [], transformed := tr, tnr := tnr })
  | c :: cs => mapStep tnr tr c cs s (fun s0 => transformUp f s0 c) (fun s1 d b => mapUp f s1 d b cs)
end

mutual
/-- `handle_transform_recursion!` — `TreeNode::rewrite` and `TreeNode::transform_down_up`:
    `f_down(n)?.transform_children(|n| n.map_children(child))?.transform_parent(f_up)` -/
def transformDownUp (fd fu : TF σ) (s : σ) : Tree → σ × Option (Tr Tree)
  | .node l ks r =>
    andOk (fd s (.node l ks r)) fun s1 t =>
      andOk (tdispatch Transformed.transform_children { data := Tree.node t.data ks r, transformed := t.transformed, tnr := t.tnr } s1
          fun s2 _ => andOk (mapDownUp fd fu s2 .Continue false ks) fun s3 k => (s3, some (rebuild t.data r k))) fun s4 me =>
        tdispatch Transformed.transform_parent me s4 (callT fu)
def mapDownUp (fd fu : TF σ) (s : σ) (tnr : Tnr) (tr : Bool) : List Tree → σ × Option (Tr (List Tree))
  | [] => (s, some { data := [], transformed := tr, tnr := tnr })
  | c :: cs => mapStep tnr tr c cs s (fun s0 => transformDownUp fd fu s0 c) (fun s1 d b => mapDownUp fd fu s1 d b cs)
end

end DfModel.Sm.TreeWalk
