/-
  C14 — join hash map (model of `datafusion/physical-plan/src/joins/join_hash_map.rs` and
  `joins/chain.rs`).

  * `first` = the `HashTable<(u64, T)>`: one entry `(hash, row + 1)` per distinct build hash
              (hashbrown is abstracted to an association list: "a finite map keyed by the hash").
  * `next`  = the `next` array: `next[row]` = (previous row with the same hash) + 1, `0` = end.
  `T = u32 / u64` only bounds the row numbers (`T::try_from(row + 1).unwrap()`); the model uses `Nat`
  and the harness stays below 2^32 rows, so both instantiations have the same model.

  Every function returns `none` where the code would panic (index out of bounds, `usize` underflow)
  or — for the model's traversal only — where the fuel runs out (the code would loop forever on a
  cyclic chain; `Props/C14` shows that neither happens for maps built by `update_from_iter`).
  Core Lean only.
-/
namespace DfModel.Sm.Jhm

structure Map where
  first : List (Nat × Nat)
  next : List Nat
  deriving Repr, DecidableEq

/-- `JoinHashMapU32::with_capacity(cap)` -/
def withCapacity (cap : Nat) : Map := { first := [], next := List.replicate cap 0 }

/-- `map.find(hash, |(h, _)| hash == *h)` -/
def find (m : Map) (h : Nat) : Option Nat := (m.first.find? (fun e => e.1 == h)).map (·.2)

def setFirst (f : List (Nat × Nat)) (h v : Nat) : List (Nat × Nat) :=
  f.map (fun e => if e.1 == h then (h, v) else e)

/-- one iteration of `update_from_iter` for `(row, hash)` -/
def insert (m : Map) (row h deleted : Nat) : Option Map :=
  match find m h with
  | some prev =>
    -- Occupied: *index = row + 1; next[row - deleted_offset] = prev_index
    if row < deleted ∨ row - deleted ≥ m.next.length then none
    else some { first := setFirst m.first h (row + 1), next := m.next.set (row - deleted) prev }
  | none => some { m with first := m.first ++ [(h, row + 1)] }

/-- `update_from_iter(iter, deleted_offset)`: `rows` in the order the caller's iterator yields them -/
def updateFromIter (m : Map) (deleted : Nat) : List (Nat × Nat) → Option Map
  | [] => some m
  | (row, h) :: rest =>
    match insert m row h deleted with
    | none => none
    | some m' => updateFromIter m' deleted rest

abbrev Offset := Nat × Option Nat          -- `MapOffset = (usize, Option<u64>)`
abbrev Pairs := List (Nat × Nat)           -- (probe index, build row) = (input_indices, match_indices)

/-- `traverse_chain(next_chain, prob_idx, start_chain_idx, remaining, …, is_last_input)`:
    returns (emitted pairs, remaining afterwards, returned offset) -/
def traverseChain (next : List Nat) (probe : Nat) (isLast : Bool) :
    Nat → Nat → Nat → Option (Pairs × Nat × Option Offset)
  | 0, _, _ => none
  | fuel + 1, start, remaining =>
    if start = 0 ∨ remaining = 0 then none            -- `start - one` / `*remaining -= 1` underflow
    else
      match next[start - 1]? with
      | none => none                                  -- `next_chain[match_row_idx]` out of bounds
      | some nx =>
        if remaining - 1 = 0 then
          some ([(probe, start - 1)], 0, if isLast ∧ nx = 0 then none else some (probe, some nx))
        else if nx = 0 then some ([(probe, start - 1)], remaining - 1, none)
        else
          match traverseChain next probe isLast fuel nx (remaining - 1) with
          | none => none
          | some r => some ((probe, start - 1) :: r.1, r.2.1, r.2.2)

/-- the whole chain (the loop of `get_matched_indices`, `deleted_offset = None`) -/
def walkChain (next : List Nat) : Nat → Nat → Option (List Nat)
  | 0, _ => none
  | fuel + 1, start =>
    if start = 0 then none
    else
      match next[start - 1]? with
      | none => none
      | some nx => if nx = 0 then some [start - 1] else (walkChain next fuel nx).map (fun r => (start - 1) :: r)

def fuelOf (m : Map) : Nat := m.next.length + 1

/-- `get_matched_indices(iter, None)`: `probes` = the `(row_idx, hash)` pairs the iterator yields -/
def getMatchedIndices (m : Map) : List (Nat × Nat) → Option Pairs
  | [] => some []
  | (p, h) :: rest =>
    match find m h with
    | none => getMatchedIndices m rest
    | some idx =>
      match walkChain m.next (fuelOf m) idx, getMatchedIndices m rest with
      | some c, some r => some (c.map (fun b => (p, b)) ++ r)
      | _, _ => none

/-- the main loop of `get_matched_indices_with_limit_offset` over the probe rows
    `(row_idx, hash, valid)` from `to_skip` on -/
def probeLoop (m : Map) (len : Nat) : List (Nat × Nat × Bool) → Nat → Option (Pairs × Option Offset)
  | [], _ => some ([], none)
  | (i, h, v) :: rest, remaining =>
    if !v then probeLoop m len rest remaining           -- NULL keys cannot match any build row
    else
      match find m h with
      | none => probeLoop m len rest remaining
      | some idx =>
        match traverseChain m.next i (decide (i = len - 1)) (fuelOf m) idx remaining with
        | none => none
        | some (out, _, some off) => some (out, some off)
        | some (out, rem', none) => (probeLoop m len rest rem').map (fun r => (out ++ r.1, r.2))

/-- probe rows with their index and validity bit (`valid_keys = None` ⇒ all valid) -/
def probeRows (hashes : List Nat) (valid : List Bool) : List (Nat × Nat × Bool) :=
  (List.range hashes.length).map (fun i => (i, hashes.getD i 0, valid.getD i true))

/-- the all-unique fast path: `limit` *probe rows* per call -/
def fastPage (m : Map) (hashes : List Nat) (valid : List Bool) (limit start : Nat) :
    Option (Pairs × Option Offset) :=
  let stop := min (start + limit) hashes.length
  if start > stop then none                            -- `hash_values[start..end]` panics
  else
    let out := ((probeRows hashes valid).drop start |>.take (stop - start)).filterMap (fun r =>
      if !r.2.2 then none else (find m r.2.1).map (fun idx => (r.1, idx - 1)))
    some (out, if stop = hashes.length then none else some (stop, none))

/-- `get_matched_indices_with_limit_offset(hash_values, valid_keys, limit, offset, …)` -/
def page (m : Map) (hashes : List Nat) (valid : List Bool) (limit : Nat) (offset : Offset) :
    Option (Pairs × Option Offset) :=
  if m.first.length = m.next.length then fastPage m hashes valid limit offset.1
  else
    let len := hashes.length
    let rows := probeRows hashes valid
    match offset with
    | (idx, none) => if idx > len then none else probeLoop m len (rows.drop idx) limit
    | (idx, some 0) => if idx + 1 > len then none else probeLoop m len (rows.drop (idx + 1)) limit
    | (idx, some nextIdx) =>
      if len = 0 then none                             -- `hash_values.len() - 1` underflows
      else
        match traverseChain m.next idx (decide (idx = len - 1)) (fuelOf m) nextIdx limit with
        | none => none
        | some (out, _, some off) => some (out, some off)
        | some (out, rem', none) =>
          if idx + 1 > len then none
          else (probeLoop m len (rows.drop (idx + 1)) rem').map (fun r => (out ++ r.1, r.2))

/-- call `page` again and again, resuming from the returned offset, until it returns `None`;
    the pages in order (`fuel` bounds the number of calls in the model) -/
def pages (m : Map) (hashes : List Nat) (valid : List Bool) (limit : Nat) :
    Nat → Offset → Option (List Pairs)
  | 0, _ => none
  | fuel + 1, offset =>
    match page m hashes valid limit offset with
    | none => none
    | some (out, none) => some [out]
    | some (out, some off) => (pages m hashes valid limit fuel off).map (fun r => out :: r)

/-- `contain_hashes` -/
def containHashes (m : Map) (hashes : List Nat) : List Bool := hashes.map (fun h => (find m h).isSome)

end DfModel.Sm.Jhm
