/-
  C21 — disk-manager accounting (model of `datafusion/execution/src/disk_manager.rs`).

  State mirrors the three counters of the code:
    * `used`   = `DiskManager::used_disk_space`            (global, AtomicU64)
    * `limit`  = `DiskManager::max_temp_directory_size`
    * per temp file: `usage` = `RefCountedTempFile::current_file_disk_usage` (shared by clones),
      `refs` = number of live `RefCountedTempFile` clones (the `Arc<NamedTempFile>` strong count).
  A file leaves the state when its last clone is dropped (`Drop for RefCountedTempFile`).

  `rollback` selects the behaviour of `FileSpillWriter::write` when `file.write_all` fails:
  `true`  = the global counter is rolled back (the repaired code, commit "fix: roll back …"),
  `false` = the pinned upstream code, which leaks `len` bytes (kept for the witness theorem).
  Core Lean only.
-/
namespace DfModel.Sm.Disk

structure TFile where
  id : Nat
  usage : Nat
  refs : Nat
  deriving Repr, DecidableEq

structure St where
  used : Nat
  limit : Nat
  files : List TFile        -- live files only
  nextId : Nat
  deriving Repr, DecidableEq

def init (limit : Nat) : St := { used := 0, limit := limit, files := [], nextId := 0 }

/-- outcome of the OS-level `write_all` chosen by the environment (fault oracle) -/
inductive Io where
  | ok | fail
  deriving Repr, DecidableEq

inductive Op where
  | create                                  -- `DiskManager::create_tmp_file`
  | clone (f : Nat)                         -- `RefCountedTempFile::clone`
  | drop (f : Nat)                          -- drop of one clone
  | write (f : Nat) (len : Nat) (io : Io)   -- `FileSpillWriter::write` of `len` bytes
  | setLimit (n : Nat)                      -- `set_max_temp_directory_size`
  deriving Repr, DecidableEq

inductive Out where
  | created (f : Nat)
  | done
  | wrote (n : Nat)
  | rejected                                -- over the limit: error, rolled back
  | ioError
  | noSuchFile                              -- the harness never sends these; model rejects
  deriving Repr, DecidableEq

def sumUsage (fs : List TFile) : Nat := (fs.map (·.usage)).sum

def updFile (fs : List TFile) (f : Nat) (g : TFile → TFile) : List TFile :=
  fs.map (fun x => if x.id = f then g x else x)

def hasFile (fs : List TFile) (f : Nat) : Bool := fs.any (·.id == f)

def getUsage (fs : List TFile) (f : Nat) : Nat :=
  match fs.find? (·.id == f) with
  | some x => x.usage
  | none => 0

def getRefs (fs : List TFile) (f : Nat) : Nat :=
  match fs.find? (·.id == f) with
  | some x => x.refs
  | none => 0

def step (rollback : Bool) (s : St) : Op → St × Out
  | .create =>
      ({ s with files := s.files ++ [{ id := s.nextId, usage := 0, refs := 1 }], nextId := s.nextId + 1 },
       .created s.nextId)
  | .clone f =>
      if hasFile s.files f then
        ({ s with files := updFile s.files f (fun x => { x with refs := x.refs + 1 }) }, .done)
      else (s, .noSuchFile)
  | .drop f =>
      if hasFile s.files f then
        if getRefs s.files f ≤ 1 then
          -- last reference: subtract this file's usage (AtomicU64::fetch_sub) and forget the file
          ({ s with used := s.used - getUsage s.files f,
                    files := s.files.filter (fun x => x.id != f) }, .done)
        else
          ({ s with files := updFile s.files f (fun x => { x with refs := x.refs - 1 }) }, .done)
      else (s, .noSuchFile)
  | .write f len io =>
      if hasFile s.files f then
        if len = 0 then (s, .wrote 0)
        else if s.used + len > s.limit then (s, .rejected)          -- fetch_add; check; fetch_sub
        else match io with
          | .fail => if rollback then (s, .ioError) else ({ s with used := s.used + len }, .ioError)
          | .ok =>
            ({ s with used := s.used + len,
                      files := updFile s.files f (fun x => { x with usage := x.usage + len }) },
             .wrote len)
      else (s, .noSuchFile)
  | .setLimit n => ({ s with limit := n }, .done)

def run (rollback : Bool) (s : St) : List Op → St × List Out
  | [] => (s, [])
  | op :: ops =>
    let (s', o) := step rollback s op
    let (s'', os) := run rollback s' ops
    (s'', o :: os)

/-- ids are unique and below `nextId` -/
def Wf (s : St) : Prop :=
  (s.files.map (·.id)).Nodup ∧ ∀ x ∈ s.files, x.id < s.nextId

end DfModel.Sm.Disk
