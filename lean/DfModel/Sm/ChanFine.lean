/-
  C15 — a first refinement of the coarse channel model towards real thread interleavings.

  Within ONE channel every poll / receiver drop runs entirely under that channel's mutex, so
  same-channel operations are atomic w.r.t. each other — with one exception in the code:
  `Drop for DistributionSender` does `n_senders.fetch_sub(1)` BEFORE taking the channel lock.
  This file splits exactly that operation into its two phases and lets every other operation
  (executed atomically, as in `Sm.Chan`) run in between:

      dropTxBegin c   = `let n_senders_pre = self.channel.n_senders.fetch_sub(1, SeqCst);`
      dropTxFinish c  = the locked region that follows when `n_senders_pre == 1`

  Interleavings of *different* channels' lock regions at the granularity of the gate's atomics /
  gate mutex are NOT modelled here (see notes/C15.md).  Core Lean only.
-/
import DfModel.Sm.Chan
namespace DfModel.Sm.ChanFine
open DfModel.Sm.Chan

inductive FOp where
  | atomic (op : Op)
  | dropTxBegin (c : Nat)
  | dropTxFinish (c : Nat)
  deriving Repr, DecidableEq

structure FSt where
  s : St
  /-- channels whose last sender handle has done its `fetch_sub` (saw 1) but not yet locked -/
  fin : List Nat

def finit (n : Nat) : FSt := { s := init n, fin := [] }

/-- the locked region of `Drop for DistributionSender` (the thread saw `n_senders_pre == 1`) -/
def finishDrop (s : St) (c : Nat) : St × Out :=
  let ch := s.chan c
  let s2 := if ch.data = some [] then decrEmpty s else s
  match ch.recvWakers with
  | none => (s2, ⟨.panic, []⟩)
  | some ws =>
    (wakeAll (clearBlk (setChan s2 c { s2.chan c with recvWakers := none }) (.send c)) ws, ⟨.done, ws⟩)

def fstep (f : FSt) : FOp → FSt × Out
  | .atomic op => let r := step f.s op; ({ f with s := r.1 }, r.2)
  | .dropTxBegin c =>
    if c < f.s.n ∧ (f.s.chan c).nSenders > 0 then
      let pre := (f.s.chan c).nSenders
      let s1 := setChan f.s c { f.s.chan c with nSenders := pre - 1 }
      ({ s := s1, fin := if pre > 1 then f.fin else c :: f.fin }, ⟨.done, []⟩)
    else (f, ⟨.invalid, []⟩)
  | .dropTxFinish c =>
    if f.fin.contains c then
      let r := finishDrop f.s c
      ({ s := r.1, fin := f.fin.erase c }, r.2)
    else (f, ⟨.invalid, []⟩)

def frun (f : FSt) : List FOp → FSt × List Out
  | [] => (f, [])
  | op :: ops =>
    let r := fstep f op
    let rest := frun r.1 ops
    (rest.1, r.2 :: rest.2)

/-- what the counter is meant to be -/
def trueCount (s : St) : Nat := countOE s.chan s.n

end DfModel.Sm.ChanFine
