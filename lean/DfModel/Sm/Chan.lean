/-
  C15 — distribution channels with the shared "all channels non-empty" gate.
  COARSE model of `datafusion/physical-plan/src/repartition/distributor_channels.rs`:
  every `SendFuture::poll`, `RecvFuture::poll`, `DistributionSender::{clone,drop}` and
  `DistributionReceiver::drop` is ONE atomic step (this is what any single-threaded executor
  does, and what the harness drives).  The fine-grained (lock-region) model is `Sm/ChanFine.lean`.

  State mirrors the code field by field:
    per channel  `nSenders`   = `Channel::n_senders`            (AtomicUsize)
                 `data`       = `ChannelState::data`            (`none` once the receiver is dropped)
                 `recvWakers` = `ChannelState::recv_wakers`     (`none` once the last sender is dropped)
    gate         `empty`      = `Gate::empty_channels`          (AtomicUsize, *wrapping* fetch_add/sub)
                 `sendWakers` = `Gate::send_wakers`             (`none` = gate open, `some l` = closed)

  Wakers.  A `Waker` is a *waiter id* `t : Nat` with a `woken` flag: `wake()` sets `woken t`, the next
  poll made with waker `t` clears it.  `blk t` remembers what the last poll made with waker `t`
  returned `Pending` on.  A real task that waits on several futures at once (select / merge) uses
  one waiter id per future; it is runnable iff one of them is woken, so a statement proved for
  every waiter id holds for every task.  The channel behaviour never depends on `blk`/`woken`;
  they are bookkeeping for the no-lost-wakeup theorems.

  Rust's borrow rules are mirrored where they matter: a `RecvFuture` mutably borrows its receiver,
  so dropping the receiver ends every wait on `recv c`; a `SendFuture` borrows a sender handle, so
  when the *last* handle of channel `c` is dropped no wait on `send c` can still exist; `cancel t`
  = the future that `t` waited on is dropped (no `Drop` impl: no channel effect).

  Core Lean only (linked into `dfdrv`).
-/
namespace DfModel.Sm.Chan

structure Chan where
  nSenders : Nat
  data : Option (List Nat)
  recvWakers : Option (List Nat)
  deriving Repr

inductive Blk where
  | send (c : Nat)
  | recv (c : Nat)
  deriving Repr, DecidableEq

structure St where
  n : Nat                                   -- number of channels created by `channels(n)`
  chan : Nat → Chan
  empty : Nat
  sendWakers : Option (List (Nat × Nat))    -- (waiter id, channel id)
  blk : Nat → Option Blk
  woken : Nat → Bool

/-- `usize::MAX` on the 64-bit targets DataFusion supports -/
def usizeMax : Nat := 18446744073709551615

/-- `channels(n)` -/
def init (n : Nat) : St :=
  { n := n
    chan := fun _ => { nSenders := 1, data := some [], recvWakers := some [] }
    empty := n
    sendWakers := none
    blk := fun _ => none
    woken := fun _ => false }

inductive Op where
  | send (c t v : Nat)      -- one `SendFuture::poll` on channel `c`, waker `t`, element `v`
  | recv (c t : Nat)        -- one `RecvFuture::poll` on channel `c`, waker `t`
  | clone (c : Nat)         -- `DistributionSender::clone` of some live handle of `c`
  | dropTx (c : Nat)        -- drop of one live sender handle of `c`
  | dropRx (c : Nat)        -- drop of the receiver of `c`
  | cancel (t : Nat)        -- the pending future `t` waited on is dropped
  deriving Repr, DecidableEq

inductive Res where
  | sendOk | sendErr | sendPending
  | recvSome (v : Nat) | recvNone | recvPending
  | done
  | invalid      -- op not expressible in safe Rust in this state (no live handle / receiver)
  | panic        -- one of the `expect(..)`s in the code would fire
  deriving Repr, DecidableEq

structure Out where
  res : Res
  wakes : List Nat          -- `wake()` calls made by this step, in call order
  deriving Repr, DecidableEq

def setChan (s : St) (c : Nat) (x : Chan) : St :=
  { s with chan := fun i => if i = c then x else s.chan i }

/-- `waker.wake()` for every waiter in `ts` -/
def wakeAll (s : St) (ts : List Nat) : St :=
  { s with woken := fun x => ts.contains x || s.woken x }

/-- a poll with waker `t` starts: the task was scheduled, its wake flag is consumed -/
def pollBegin (s : St) (t : Nat) : St :=
  { s with woken := fun x => if x = t then false else s.woken x }

def setBlk (s : St) (t : Nat) (b : Option Blk) : St :=
  { s with blk := fun x => if x = t then b else s.blk x }

/-- forget every wait of kind `b` (the futures are gone by the borrow rules) -/
def clearBlk (s : St) (b : Blk) : St :=
  { s with blk := fun x => if s.blk x = some b then none else s.blk x }

/-- `AtomicUsize::fetch_sub(1)` wraps -/
def wrapDec (e : Nat) : Nat := if e = 0 then usizeMax else e - 1
/-- `AtomicUsize::fetch_add(1)` wraps -/
def wrapInc (e : Nat) : Nat := if e = usizeMax then 0 else e + 1

/-- `Gate::decr_empty_channels` -/
def decrEmpty (s : St) : St :=
  let old := s.empty
  let s1 := { s with empty := wrapDec old }
  if old = 1 then
    -- lock; double-check
    if s1.empty = 0 ∧ s1.sendWakers.isNone then { s1 with sendWakers := some [] } else s1
  else s1

/-- the tail of `SendFuture::poll` after the gate let the element through -/
def pushSend (s : St) (c v : Nat) (q : List Nat) : St × Out :=
  let ch := s.chan c
  let wasEmpty := q.isEmpty
  let s1 := setChan s c { ch with data := some (q ++ [v]) }
  if wasEmpty then
    let s2 := decrEmpty s1
    -- `take_recv_wakers`: `expect("not closed")`
    match ch.recvWakers with
    | some ws =>
      (wakeAll (setChan s2 c { s2.chan c with recvWakers := some [] }) ws, ⟨.sendOk, ws⟩)
    | none => (s2, ⟨.panic, []⟩)
  else (s1, ⟨.sendOk, []⟩)

/-- `SendFuture::poll` -/
def pollSend (s : St) (c t v : Nat) : St × Out :=
  match (s.chan c).data with
  | none => (s, ⟨.sendErr, []⟩)                      -- receiver end dead
  | some q =>
    -- `if empty_channels == 0 { if let Some(send_wakers) = .. { push; return Pending } }`
    match (if s.empty = 0 then s.sendWakers else none) with
    | some l => ({ s with sendWakers := some (l ++ [(t, c)]) }, ⟨.sendPending, []⟩)
    | none => pushSend s c v q

/-- `RecvFuture::poll` (receiver alive) -/
def pollRecv (s : St) (c t : Nat) : St × Out :=
  let ch := s.chan c
  match ch.data with
  | none => (s, ⟨.panic, []⟩)                         -- `expect("not dropped yet")`
  | some [] =>
    match ch.recvWakers with
    | some ws => (setChan s c { ch with recvWakers := some (ws ++ [t]) }, ⟨.recvPending, []⟩)
    | none => (s, ⟨.recvNone, []⟩)
  | some (v :: q) =>
    let s1 := setChan s c { ch with data := some q }
    if q.isEmpty ∧ ch.recvWakers.isSome then
      let old := s1.empty
      let s2 := { s1 with empty := wrapInc old }      -- fetch_add
      if old = 0 then
        -- lock; "check after lock to see if we should still change the state"
        if s2.empty > 0 then
          let l := s2.sendWakers.getD []              -- `guard.take().unwrap_or_default()`
          (wakeAll { s2 with sendWakers := none } (l.map (·.1)), ⟨.recvSome v, l.map (·.1)⟩)
        else (s2, ⟨.recvSome v, []⟩)
      else (s2, ⟨.recvSome v, []⟩)
    else (s1, ⟨.recvSome v, []⟩)

/-- `Drop for DistributionSender` (some handle of `c`, `nSenders ≥ 1`) -/
def dropSender (s : St) (c : Nat) : St × Out :=
  let ch := s.chan c
  let pre := ch.nSenders
  let s1 := setChan s c { ch with nSenders := pre - 1 }     -- fetch_sub; `pre ≥ 1` by validity
  if pre > 1 then (s1, ⟨.done, []⟩)
  else
    -- `state.data.as_ref().is_some_and(|data| data.is_empty())`
    let s2 := if ch.data = some [] then decrEmpty s1 else s1
    match ch.recvWakers with
    | none => (s2, ⟨.panic, []⟩)                      -- `expect("not closed yet")`
    | some ws =>
      (wakeAll (clearBlk (setChan s2 c { s2.chan c with recvWakers := none }) (.send c)) ws,
       ⟨.done, ws⟩)

/-- `Drop for DistributionReceiver` -/
def dropReceiver (s : St) (c : Nat) (q : List Nat) : St × Out :=
  let ch := s.chan c
  let s1 := setChan s c { ch with data := none }             -- `data.take()`
  let s2 := if q.isEmpty ∧ ch.nSenders > 0 then decrEmpty s1 else s1
  let s3 := clearBlk s2 (.recv c)
  -- `Gate::wake_channel_senders(id)`
  match s3.sendWakers with
  | some l =>
    let wk := l.filter (fun p => p.2 = c)
    let keep := l.filter (fun p => ¬ p.2 = c)
    (wakeAll { s3 with sendWakers := some keep } (wk.map (·.1)), ⟨.done, wk.map (·.1)⟩)
  | none => (s3, ⟨.done, []⟩)

def blkOfRes (c : Nat) : Res → Option Blk
  | .sendPending => some (.send c)
  | .recvPending => some (.recv c)
  | _ => none

def step (s : St) : Op → St × Out
  | .send c t v =>
    if c < s.n ∧ (s.chan c).nSenders > 0 then
      let r := pollSend (pollBegin s t) c t v
      (setBlk r.1 t (blkOfRes c r.2.res), r.2)
    else (s, ⟨.invalid, []⟩)
  | .recv c t =>
    if c < s.n ∧ (s.chan c).data.isSome then
      let r := pollRecv (pollBegin s t) c t
      (setBlk r.1 t (blkOfRes c r.2.res), r.2)
    else (s, ⟨.invalid, []⟩)
  | .clone c =>
    if c < s.n ∧ (s.chan c).nSenders > 0 then
      (setChan s c { s.chan c with nSenders := (s.chan c).nSenders + 1 }, ⟨.done, []⟩)
    else (s, ⟨.invalid, []⟩)
  | .dropTx c =>
    if c < s.n ∧ (s.chan c).nSenders > 0 then dropSender s c else (s, ⟨.invalid, []⟩)
  | .dropRx c =>
    if c < s.n then
      match (s.chan c).data with
      | some q => dropReceiver s c q
      | none => (s, ⟨.invalid, []⟩)
    else (s, ⟨.invalid, []⟩)
  | .cancel t => (setBlk s t none, ⟨.done, []⟩)

/-- replay a whole history; the trace pairs every op with what it returned and whom it woke -/
def run (s : St) : List Op → St × List (Op × Out)
  | [] => (s, [])
  | op :: ops =>
    let r := step s op
    let rest := run r.1 ops
    (rest.1, (op, r.2) :: rest.2)

/-! ### observables of a trace -/

/-- values accepted (`Ready(Ok)`) on channel `c`, in order -/
def sentOf (c : Nat) : Op × Out → List Nat
  | (.send c' _ v, ⟨.sendOk, _⟩) => if c' = c then [v] else []
  | _ => []

/-- values delivered (`Ready(Some v)`) on channel `c`, in order -/
def rcvdOf (c : Nat) : Op × Out → List Nat
  | (.recv c' _, ⟨.recvSome v, _⟩) => if c' = c then [v] else []
  | _ => []

def sent (c : Nat) (tr : List (Op × Out)) : List Nat := tr.flatMap (sentOf c)
def rcvd (c : Nat) (tr : List (Op × Out)) : List Nat := tr.flatMap (rcvdOf c)

/-! ### state predicates used by the theorems -/

/-- open at both ends and empty: what `empty_channels` is meant to count -/
def openEmpty (ch : Chan) : Bool :=
  match ch.data, ch.recvWakers with
  | some [], some _ => true
  | _, _ => false

def countOE (f : Nat → Chan) : Nat → Nat
  | 0 => 0
  | k + 1 => countOE f k + (if openEmpty (f k) then 1 else 0)

def qlen (s : St) (c : Nat) : Nat :=
  match (s.chan c).data with
  | some q => q.length
  | none => 0

/-- waiter `t`'s last poll was a `send` on `c` that returned `Pending`, and nobody woke it since -/
def BlockedSend (s : St) (t c : Nat) : Prop := s.blk t = some (.send c) ∧ s.woken t = false
def BlockedRecv (s : St) (t c : Nat) : Prop := s.blk t = some (.recv c) ∧ s.woken t = false

end DfModel.Sm.Chan
