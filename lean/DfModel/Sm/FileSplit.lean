/-
  C26 — `FileGroupPartitioner::repartition_evenly_by_size` (datafusion/datasource/src/file_groups.rs):
  how whole files are cut into byte ranges. Core Lean only.
-/
namespace DfModel.Sm.FileSplit

/-- a produced range: (partition index, file index, start, end) -/
structure Piece where
  part : Nat
  file : Nat
  start : Nat
  stop : Nat
  deriving DecidableEq, Repr

/-- the inner `while range_start < file_end` loop for one source file; state = (current_partition_index,
    current_partition_size). `target - cur` is a u64 subtraction: `none` = it would underflow (panic). -/
def splitFile (target file : Nat) : Nat → Nat → Nat → Nat → Nat → Option (List Piece × Nat × Nat)
  | 0, idx, cur, rs, fe => if rs < fe then none else some ([], idx, cur)
  | fuel + 1, idx, cur, rs, fe =>
    if rs < fe then
      if target < cur then none
      else
        let re := min (rs + (target - cur)) fe
        let st : Nat × Nat := if cur + (re - rs) ≥ target then (idx + 1, 0) else (idx, cur + (re - rs))
        match splitFile target file fuel st.1 st.2 re fe with
        | none => none
        | some (ps, i, c) => some ({ part := idx, file := file, start := rs, stop := re } :: ps, i, c)
    else some ([], idx, cur)

/-- the `scan` over all files (whole files: range = (0, size)) -/
def splitAll (target : Nat) : Nat → Nat → Nat → List Nat → Option (List Piece)
  | _, _, _, [] => some []
  | fileIdx, idx, cur, size :: rest =>
    match splitFile target fileIdx size idx cur 0 size with
    | none => none
    | some (ps, i, c) =>
      match splitAll target (fileIdx + 1) i c rest with
      | none => none
      | some qs => some (ps ++ qs)

/-- `repartition_evenly_by_size` on whole files: `none` = not repartitioned -/
def repartition (targetPartitions minSize : Nat) (sizes : List Nat) : Option (Option (List Piece)) :=
  let total := sizes.foldl (· + ·) 0
  if total < minSize ∨ total = 0 then some none
  else if targetPartitions = 0 then none            -- div_ceil by zero: panic
  else
    let target := (total + targetPartitions - 1) / targetPartitions
    match splitAll target 0 0 0 sizes with
    | none => none
    | some ps => some (some ps)

end DfModel.Sm.FileSplit
