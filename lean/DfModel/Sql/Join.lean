/-
  C03 — a small bag-of-rows relational model: the ten `JoinType`s by nested loops, and filters.
  `JoinType` itself and the optimizer's decision tables are GENERATED (`DfModel.Gen.JoinTypeTbl`,
  `DfModel.Gen.PushDownFilterTbl`, `DfModel.Gen.EliminateOuterTbl`).

  Rows are lists of nullable integers; a relation is a list of rows (a bag with a deterministic
  order, so that the laws below are list equalities).  The ON condition is an arbitrary function
  `on : Row → Row → Bool` ("the join condition evaluates to TRUE" — SQL's three-valued logic is
  collapsed where SQL collapses it: only TRUE matches), a filter predicate an arbitrary
  `p : Row → Bool` ("evaluates to TRUE").  Core Lean only.

  Output shapes (as in `build_join_schema`): Inner/Left/Right/Full → `l ++ r` (null-padded on the
  missing side), LeftSemi/LeftAnti → `l`, RightSemi/RightAnti → `r`, LeftMark → `l ++ [mark]`,
  RightMark → `r ++ [mark]`.
-/
import DfModel.Gen.JoinTypeTbl
namespace DfModel.Sql.Join
open DfModel.Gen.JoinTypeTbl

abbrev Row := List (Option Int)
abbrev Rel := List Row

def nulls (n : Nat) : Row := List.replicate n none

def mark (b : Bool) : Row := [some (if b then 1 else 0)]

/-- rows of `R` that never matched (emitted null-padded by Right / Full joins) -/
def unmatchedRight (on : Row → Row → Bool) (L R : Rel) : Rel :=
  R.filter (fun r => !(L.any (fun l => on l r)))

def innerPart (on : Row → Row → Bool) (L R : Rel) : Rel :=
  L.flatMap (fun l => (R.filter (on l)).map (l ++ ·))

def leftPart (wr : Nat) (on : Row → Row → Bool) (L R : Rel) : Rel :=
  L.flatMap (fun l => if R.any (on l) then (R.filter (on l)).map (l ++ ·) else [l ++ nulls wr])

/-- the ten join types by nested loops; `wl`, `wr` = number of columns of the inputs -/
def join (jt : JoinType) (wl wr : Nat) (on : Row → Row → Bool) (L R : Rel) : Rel :=
  match jt with
  | .Inner => innerPart on L R
  | .Left => leftPart wr on L R
  | .Right => innerPart on L R ++ (unmatchedRight on L R).map (nulls wl ++ ·)
  | .Full => leftPart wr on L R ++ (unmatchedRight on L R).map (nulls wl ++ ·)
  | .LeftSemi => L.filter (fun l => R.any (on l))
  | .LeftAnti => L.filter (fun l => !(R.any (on l)))
  | .RightSemi => R.filter (fun r => L.any (fun l => on l r))
  | .RightAnti => R.filter (fun r => !(L.any (fun l => on l r)))
  | .LeftMark => L.map (fun l => l ++ mark (R.any (on l)))
  | .RightMark => R.map (fun r => r ++ mark (L.any (fun l => on l r)))

/-- does the output of this join type contain the left / right input's columns? -/
def hasLeftCols : JoinType → Bool
  | .RightSemi | .RightAnti | .RightMark => false
  | _ => true
def hasRightCols : JoinType → Bool
  | .LeftSemi | .LeftAnti | .LeftMark => false
  | _ => true

/-- `p` (on output rows) refers only to the LEFT input's columns, where it equals `pl`:
    the left columns are the first `wl` of every output shape that has them -/
def RefsLeft (wl : Nat) (p pl : Row → Bool) : Prop :=
  ∀ (l x : Row), l.length = wl → p (l ++ x) = pl l

/-- `p` refers only to the RIGHT input's columns (`pr`); their position depends on the output shape -/
def RefsRight (jt : JoinType) (wl : Nat) (p pr : Row → Bool) : Prop :=
  match jt with
  | .Inner | .Left | .Right | .Full => ∀ (x r : Row), x.length = wl → p (x ++ r) = pr r
  | .RightSemi | .RightAnti => ∀ r, p r = pr r
  | .RightMark => ∀ (r m : Row), m.length = 1 → p (r ++ m) = pr r
  | _ => False

def WidthIs (w : Nat) (T : Rel) : Prop := ∀ t ∈ T, t.length = w

end DfModel.Sql.Join
