/-
  L1 — typed expression AST and the row-by-row SQL semantics `eval` in THIS ENGINE'S dialect.
  Core Lean only (linked into `dfdrv`).

  Dialect decisions (each read off /repo or arrow-rs 59.2 and pinned by the correspondence runs):
  * integer `+ - *` and unary `-` WRAP (`BinaryExpr` uses `add_wrapping/sub_wrapping/mul_wrapping`
    unless `fail_on_overflow`; `NegativeExpr` uses `neg_wrapping`);
  * `/` and `%` truncate toward zero, raise `div0` on a zero divisor and `overflow` on `MIN / -1`,
    `MIN % -1` (arrow `div_checked` / `mod_checked`); a NULL operand gives NULL *without* looking at
    the other operand (`NULL / 0 = NULL`);
  * comparisons / `AND OR NOT` are Kleene three-valued; `IS [NOT] DISTINCT FROM` is two-valued;
  * `CASE` and `COALESCE` are lazy row by row (an unselected branch is never evaluated for that row);
    everything else evaluates all operands, so an error in any operand is an error of the row
    (the engine evaluates column-at-a-time and may or may not skip rows — see notes/C01.md);
  * `CAST` errors when the value does not fit (arrow `CastOptions{safe:false}`), `TRY_CAST` gives
    NULL instead; string → integer accepts ASCII-whitespace-trimmed `[+-]?[0-9]+`;
  * `LIKE`: `%` any sequence, `_` exactly one code point, optional escape character.
-/
import DfModel.Base.Val
namespace DfModel

/-- runtime error classes (the harness maps engine errors to the same classes) -/
inductive RtErr where
  | div0 | overflow | cast
  | card        -- scalar sub-query returned more than one row
  | type        -- ill-typed / outside the model: the driver answers `unsupported`
  deriving DecidableEq, Repr, Inhabited

inductive Ty where
  | null
  | int (w : Nat) (s : Bool)
  | bool
  | str
  deriving DecidableEq, Repr, Inhabited

inductive BinOp where
  | add | sub | mul | div | mod
  | eq | ne | lt | le | gt | ge
  | and | or
  | distinct | notDistinct
  | concat
  deriving DecidableEq, Repr, Inhabited

/-- `IS [NOT] NULL / TRUE / FALSE / UNKNOWN` -/
inductive IsKind where
  | null | true | false | unknown
  deriving DecidableEq, Repr, Inhabited

inductive Expr where
  | col (i : Nat)
  | outer (i : Nat)                    -- column of the enclosing query's row (correlated sub-query)
  | lit (v : Val)
  | ph (i : Nat)                       -- placeholder `$i+1`
  | bin (op : BinOp) (a b : Expr)
  | not (a : Expr)
  | neg (a : Expr)
  | is (k : IsKind) (negated : Bool) (a : Expr)
  | inList (negated : Bool) (a : Expr) (list : List Expr)
  | between (negated : Bool) (a lo hi : Expr)
  | case (operand : Option Expr) (whens : List (Expr × Expr)) (els : Option Expr)
  | coalesce (args : List Expr)
  | nullif (a b : Expr)
  | cast (ty : Ty) (try_ : Bool) (a : Expr)
  | like (negated ci : Bool) (a pat : Expr) (esc : Option Char)
  deriving Repr, Inhabited

/-- evaluation environment besides the current row -/
structure Env where
  params : List Val := []
  outer : Row := []
  deriving Repr, Inhabited

/-! ## scalar operations -/

/-- `Int.tdiv`/`Int.tmod` (truncate toward zero) with the engine's error cases -/
def intDiv (w : Nat) (s : Bool) (x y : Int) : Except RtErr Val :=
  if y = 0 then .error .div0
  else if s && x = intMin w s && y = -1 then .error .overflow
  else .ok (.int w s (Int.tdiv x y))

def intMod (w : Nat) (s : Bool) (x y : Int) : Except RtErr Val :=
  if y = 0 then .error .div0
  else if s && x = intMin w s && y = -1 then .error .overflow
  else .ok (.int w s (Int.tmod x y))

def ordIs (op : BinOp) (o : Ordering) : Bool :=
  match op with
  | .eq => o == .eq
  | .ne => o != .eq
  | .lt => o == .lt
  | .le => o != .gt
  | .gt => o == .gt
  | .ge => o != .lt
  | _ => false

/-- are the two (non-null) values of comparable kinds? -/
def sameKind : Val → Val → Bool
  | .int _ _ _, .int _ _ _ => true
  | .bool _, .bool _ => true
  | .str _, .str _ => true
  | _, _ => false

/-- null-safe equality (`IS NOT DISTINCT FROM`, grouping, DISTINCT, set operations):
    NULL equals NULL; integers by mathematical value -/
def eqNullSafe (a b : Val) : Except RtErr Bool :=
  match a, b with
  | .null, .null => .ok true
  | .null, _ => .ok false
  | _, .null => .ok false
  | a, b => if sameKind a b then .ok (cmpVal a b == .eq) else .error .type

def evalBin (op : BinOp) (a b : Val) : Except RtErr Val :=
  match op with
  | .add | .sub | .mul | .div | .mod =>
    match a, b with
    | .null, .null => .ok .null
    | .null, .int _ _ _ => .ok .null
    | .int _ _ _, .null => .ok .null
    | .int w s x, .int w' s' y =>
      if w = w' ∧ s = s' then
        match op with
        | .add => .ok (.int w s (wrapInt w s (x + y)))
        | .sub => .ok (.int w s (wrapInt w s (x - y)))
        | .mul => .ok (.int w s (wrapInt w s (x * y)))
        | .div => intDiv w s x y
        | _ => intMod w s x y
      else .error .type
    | _, _ => .error .type
  | .eq | .ne | .lt | .le | .gt | .ge =>
    match a, b with
    | .null, _ => .ok .null
    | _, .null => .ok .null
    | a, b => if sameKind a b then .ok (.bool (ordIs op (cmpVal a b))) else .error .type
  | .and =>
    match Tri.ofVal? a, Tri.ofVal? b with
    | some x, some y => .ok (Tri.and x y).toVal
    | _, _ => .error .type
  | .or =>
    match Tri.ofVal? a, Tri.ofVal? b with
    | some x, some y => .ok (Tri.or x y).toVal
    | _, _ => .error .type
  | .notDistinct => (eqNullSafe a b).map Val.bool
  | .distinct => (eqNullSafe a b).map (fun e => Val.bool (!e))
  | .concat =>
    match a, b with
    | .null, .null => .ok .null
    | .null, .str _ => .ok .null
    | .str _, .null => .ok .null
    | .str x, .str y => .ok (.str (x ++ y))
    | _, _ => .error .type

def evalNot (a : Val) : Except RtErr Val :=
  match Tri.ofVal? a with
  | some x => .ok x.not.toVal
  | none => .error .type

def evalNeg : Val → Except RtErr Val
  | .null => .ok .null
  | .int w s x => .ok (.int w s (wrapInt w s (-x)))
  | _ => .error .type

def evalIs (k : IsKind) (negated : Bool) (a : Val) : Except RtErr Val :=
  match k with
  | .null => .ok (.bool (a.isNull != negated))
  | .true => match Tri.ofVal? a with
    | some x => .ok (.bool ((x == .t) != negated))
    | none => .error .type
  | .false => match Tri.ofVal? a with
    | some x => .ok (.bool ((x == .f) != negated))
    | none => .error .type
  | .unknown => match Tri.ofVal? a with
    | some x => .ok (.bool ((x == .u) != negated))
    | none => .error .type

/-- `x = y` as a truth value (the comparison used by IN, simple CASE, NULLIF) -/
def eqTri (a b : Val) : Except RtErr Tri :=
  match a, b with
  | .null, _ => .ok .u
  | _, .null => .ok .u
  | a, b => if sameKind a b then .ok (Tri.ofBool (cmpVal a b == .eq)) else .error .type

/-- `x IN (vs)` = `x = v₁ OR … OR x = vₙ` (Kleene), the empty list gives FALSE -/
def inListTri (x : Val) : List Val → Except RtErr Tri
  | [] => .ok .f
  | v :: vs => do
    let e ← eqTri x v
    let r ← inListTri x vs
    pure (Tri.or e r)

/-! ### LIKE -/

inductive PatTok where
  | any            -- `%`
  | one            -- `_`
  | ch (c : Char)
  deriving DecidableEq, Repr

/-- pattern text → tokens; an escape character makes the next character literal (a trailing
    escape character stands for itself) -/
def likeToks (esc : Option Char) : List Char → List PatTok
  | [] => []
  | c :: cs =>
    if some c = esc then
      match cs with
      | [] => [.ch c]
      | d :: ds => .ch d :: likeToks esc ds
    else if c = '%' then .any :: likeToks esc cs
    else if c = '_' then .one :: likeToks esc cs
    else .ch c :: likeToks esc cs

/-- does `f` accept some suffix of the string (the part left over after `%` swallowed a prefix)? -/
def existsSuffix (f : List Char → Bool) : List Char → Bool
  | [] => f []
  | c :: cs => f (c :: cs) || existsSuffix f cs

/-- backtracking matcher, structurally recursive on the pattern -/
def likeMatch : List PatTok → List Char → Bool
  | [], s => s.isEmpty
  | .any :: ps, s => existsSuffix (likeMatch ps) s
  | .one :: ps, s => match s with
    | [] => false
    | _ :: cs => likeMatch ps cs
  | .ch p :: ps, s => match s with
    | [] => false
    | c :: cs => p == c && likeMatch ps cs

def asciiLower (c : Char) : Char := if 'A' ≤ c ∧ c ≤ 'Z' then Char.ofNat (c.toNat + 32) else c

def evalLike (negated ci : Bool) (esc : Option Char) (a p : Val) : Except RtErr Val :=
  match a, p with
  | .null, .null => .ok .null
  | .null, .str _ => .ok .null
  | .str _, .null => .ok .null
  | .str s, .str pat =>
    let s' := if ci then s.map asciiLower else s
    let toks := likeToks esc pat
    let toks' := if ci then toks.map (fun t => match t with | .ch c => .ch (asciiLower c) | t => t) else toks
    .ok (.bool (likeMatch toks' s' != negated))
  | _, _ => .error .type

/-! ### CAST -/

def isAsciiWs (c : Char) : Bool := c == ' ' || c == '\t' || c == '\n' || c == '\x0c' || c == '\r'

def digitsVal : List Char → Nat → Option Nat
  | [], acc => some acc
  | c :: cs, acc => if c.isDigit then digitsVal cs (acc * 10 + (c.toNat - '0'.toNat)) else none

/-- arrow `parser_primitive!`: trim ASCII white space, optional sign, at least one digit, digits only -/
def parseInt (cs : List Char) : Option Int :=
  let t := ((cs.dropWhile isAsciiWs).reverse.dropWhile isAsciiWs).reverse
  match t with
  | [] => none
  | '-' :: ds => if ds.isEmpty then none else (digitsVal ds 0).map (fun n => -(n : Int))
  | '+' :: ds => if ds.isEmpty then none else (digitsVal ds 0).map (fun n => (n : Int))
  | ds => (digitsVal ds 0).map (fun n => (n : Int))

def intToChars (n : Int) : List Char := (toString n).toList

def Val.hasTy : Val → Ty → Bool
  | .null, _ => true
  | .int w s _, .int w' s' => w == w' && s == s'
  | .bool _, .bool => true
  | .str _, .str => true
  | _, _ => false

/-- `CAST(v AS ty)` with `safe = false`; `none` = the value cannot be represented (→ error or NULL) -/
def castVal (ty : Ty) (v : Val) : Except RtErr (Option Val) :=
  match v, ty with
  | .null, _ => .ok (some .null)
  | .int _ _ n, .int w s => .ok (if inRange w s n then some (.int w s n) else none)
  | .int _ _ n, .str => .ok (some (.str (intToChars n)))
  | .int _ _ n, .bool => .ok (some (.bool (n != 0)))
  | .bool b, .bool => .ok (some (.bool b))
  | .bool b, .int w s => .ok (some (.int w s (if b then 1 else 0)))
  | .bool b, .str => .ok (some (.str (if b then "true".toList else "false".toList)))
  | .str cs, .str => .ok (some (.str cs))
  | .str cs, .int w s =>
    .ok (match parseInt cs with
      | some n => if inRange w s n then some (.int w s n) else none
      | none => none)
  | _, _ => .error .type

def evalCast (ty : Ty) (try_ : Bool) (v : Val) : Except RtErr Val :=
  match castVal ty v with
  | .error e => .error e
  | .ok (some r) => .ok r
  | .ok none => if try_ then .ok .null else .error .cast

/-! ## eval -/

mutual
/-- row-by-row SQL semantics -/
def eval (e : Expr) (ρ : Row) (env : Env := {}) : Except RtErr Val :=
  match e with
  | .col i => match ρ[i]? with
    | some v => .ok v
    | none => .error .type
  | .outer i => match env.outer[i]? with
    | some v => .ok v
    | none => .error .type
  | .lit v => .ok v
  | .ph i => match env.params[i]? with
    | some v => .ok v
    | none => .error .type
  | .bin op a b => do
    let x ← eval a ρ env
    let y ← eval b ρ env
    evalBin op x y
  | .not a => do evalNot (← eval a ρ env)
  | .neg a => do evalNeg (← eval a ρ env)
  | .is k n a => do evalIs k n (← eval a ρ env)
  | .inList n a list => do
    let x ← eval a ρ env
    let vs ← evalList list ρ env
    let r ← inListTri x vs
    pure (if n then r.not.toVal else r.toVal)
  | .between n a lo hi => do
    let x ← eval a ρ env
    let l ← eval lo ρ env
    let h ← eval hi ρ env
    let c1 ← evalBin .ge x l
    let c2 ← evalBin .le x h
    let r ← evalBin .and c1 c2
    if n then evalNot r else pure r
  | .case operand whens els => do
    let x ← match operand with
      | none => pure none
      | some o => do pure (some (← eval o ρ env))
    match ← evalWhens x whens ρ env with
    | some v => pure v
    | none => match els with
      | none => pure .null
      | some e => eval e ρ env
  | .coalesce args => evalCoalesce args ρ env
  | .nullif a b => do
    let x ← eval a ρ env
    let y ← eval b ρ env
    let e ← eqTri x y
    pure (if e == .t then .null else x)
  | .cast ty t a => do evalCast ty t (← eval a ρ env)
  | .like n ci a p esc => do
    let x ← eval a ρ env
    let y ← eval p ρ env
    evalLike n ci esc x y

/-- all elements of an IN list (strict) -/
def evalList (es : List Expr) (ρ : Row) (env : Env) : Except RtErr (List Val) :=
  match es with
  | [] => .ok []
  | e :: es => do
    let v ← eval e ρ env
    let vs ← evalList es ρ env
    pure (v :: vs)

/-- CASE arms in order; `operand = some x`: simple CASE (`x = when` must be TRUE), otherwise searched
    CASE (`when` must be TRUE). Only the selected branch's result expression is evaluated;
    `none` = no arm selected (the caller evaluates ELSE). -/
def evalWhens (operand : Option Val) (whens : List (Expr × Expr)) (ρ : Row) (env : Env) :
    Except RtErr (Option Val) :=
  match whens with
  | [] => .ok none
  | (w, thn) :: rest => do
    let c ← eval w ρ env
    let hit ← match operand with
      | none => match Tri.ofVal? c with
        | some x => pure (x == .t)
        | none => .error .type
      | some x => do pure ((← eqTri x c) == .t)
    if hit then do pure (some (← eval thn ρ env)) else evalWhens operand rest ρ env

/-- first non-NULL argument; later arguments are not evaluated -/
def evalCoalesce (args : List Expr) (ρ : Row) (env : Env) : Except RtErr Val :=
  match args with
  | [] => .ok .null
  | e :: es => do
    let v ← eval e ρ env
    if v.isNull then evalCoalesce es ρ env else pure v
end

/-- truth value of a predicate on a row (`type` error when the expression is not boolean) -/
def evalTri (e : Expr) (ρ : Row) (env : Env := {}) : Except RtErr Tri := do
  match Tri.ofVal? (← eval e ρ env) with
  | some tv => pure tv
  | none => .error .type

/-- a predicate *holds* on a row iff it evaluates to TRUE (not FALSE, not NULL) -/
def holds (e : Expr) (ρ : Row) (env : Env := {}) : Except RtErr Bool :=
  (evalTri e ρ env).map Tri.isTrue

end DfModel
