/-
  C47 — hand model around the GENERATED coercion tables (`DfModel.Gen.CoercionTbl`, translator T2
  from datafusion/expr-common/src/type_coercion/binary.rs) and operator tables
  (`DfModel.Gen.OperatorTbl`, from expr-common/src/operator.rs).

  Modelled by hand, branch for branch:
    * `binary_numeric_coercion` / `comparison_coercion` restricted to integer and Decimal128 types
      (`cmpCoerce`): equal types → that type; a decimal side → `decimal_coercion`
      (`get_common_decimal_type` = generated `coerce_numeric_type_to_decimal128` +
      `get_wider_decimal_type` + `create_decimal128_type` clamp); otherwise the generated
      `numerical_coercion`;
    * `CAST` of an exact numeric value to the common type with `safe = false` (error when the value
      does not fit) — `castVal`;
    * the six comparison operators on exact values.
  Values are exact: an integer `v`, or a decimal `(u, s)` meaning `u / 10^s`.   Core Lean only.
-/
import DfModel.Gen.CoercionTbl
import DfModel.Gen.OperatorTbl
namespace DfModel.Sql.Coerce
open DfModel.Gen.CoercionTbl DfModel.Gen.OperatorTbl

/-- value range of the eight integer types -/
def intRange : DataType → Option (Int × Int)
  | .Int8 => some (-128, 127)
  | .Int16 => some (-32768, 32767)
  | .Int32 => some (-2147483648, 2147483647)
  | .Int64 => some (-9223372036854775808, 9223372036854775807)
  | .UInt8 => some (0, 255)
  | .UInt16 => some (0, 65535)
  | .UInt32 => some (0, 4294967295)
  | .UInt64 => some (0, 18446744073709551615)
  | _ => none

def inRange (t : DataType) (v : Int) : Prop :=
  match intRange t with
  | some (lo, hi) => lo ≤ v ∧ v ≤ hi
  | none => False

instance (t : DataType) (v : Int) : Decidable (inRange t v) := by
  unfold inRange; cases intRange t with
  | none => exact isFalse (fun h => h)
  | some p => cases p; exact inferInstance

def isDecimal : DataType → Bool
  | .Decimal128 _ _ => true
  | _ => false

def DECIMAL128_MAX_PRECISION : Nat := 38
def DECIMAL128_MAX_SCALE : Int := 38

/-- `create_decimal128_type`: clamp precision and scale -/
def createDecimal128 (p : Nat) (s : Int) : DataType :=
  .Decimal128 (min DECIMAL128_MAX_PRECISION p) (min DECIMAL128_MAX_SCALE s)

/-- `get_wider_decimal_type` (Decimal128 arm): `(max(s1,s2) + max(p1-s1, p2-s2), max(s1,s2))`.
    The Rust code computes in `i8` and converts with `as u8`; within the ranges Arrow admits for
    Decimal128 (`1 ≤ p ≤ 38`, `|s| ≤ 38`) nothing wraps, and the model computes in `Int`.  A negative
    sum cannot arise for `p ≥ 1`. -/
def getWiderDecimal : DataType → DataType → Option DataType
  | .Decimal128 p1 s1, .Decimal128 p2 s2 =>
    let s := max s1 s2
    let range := max ((p1 : Int) - s1) ((p2 : Int) - s2)
    some (createDecimal128 (range + s).toNat s)
  | _, _ => none

/-- `get_common_decimal_type` (Decimal128 arm) -/
def getCommonDecimal (dec other : DataType) : Option DataType :=
  match coerce_numeric_type_to_decimal128 other with
  | some od => getWiderDecimal dec od
  | none => none

/-- `decimal_coercion` restricted to Decimal128 / non-decimal operands -/
def decimalCoercion (l r : DataType) : Option DataType :=
  match isDecimal l, isDecimal r with
  | true, true => getWiderDecimal l r
  | true, false => getCommonDecimal l r
  | false, true => getCommonDecimal r l
  | false, false => none

def isNumeric : DataType → Bool
  | .Int8 | .Int16 | .Int32 | .Int64 | .UInt8 | .UInt16 | .UInt32 | .UInt64
  | .Float16 | .Float32 | .Float64 | .Decimal128 _ _ => true
  | _ => false

/-- `binary_numeric_coercion` (= what `comparison_coercion` returns for two numeric types) -/
def cmpCoerce (l r : DataType) : Option DataType :=
  if !(isNumeric l) || !(isNumeric r) then none
  else if l = r then some l
  else match decimalCoercion l r with
    | some t => some t
    | none => numerical_coercion l r

/-- an exact numeric value: `u / 10^s` (`s = 0` for integers) -/
structure Num where
  u : Int
  s : Nat
  deriving Repr, DecidableEq

/-- `CAST(x AS t)` with `safe = false`, for exact values: `none` = overflow error.  Only the casts the
    coercion produces are modelled: to an integer type (from an integer), to `Decimal128(p, s)` with
    a scale not smaller than the value's scale (so no rounding occurs). -/
def castVal (t : DataType) (x : Num) : Option Num :=
  match t with
  | .Decimal128 p s =>
    if s < 0 ∨ s.toNat < x.s then none
    else
      let u' := x.u * 10 ^ (s.toNat - x.s)
      if u'.natAbs < 10 ^ p then some ⟨u', s.toNat⟩ else none
  | t =>
    match intRange t with
    | some (lo, hi) => if x.s = 0 ∧ lo ≤ x.u ∧ x.u ≤ hi then some x else none
    | none => none

/-- the six comparison operators on two values of the same scale (after the casts) -/
def evalOp (op : Operator) (a b : Int) : Option Bool :=
  match op with
  | .Eq => some (decide (a = b))
  | .NotEq => some (decide (a ≠ b))
  | .Lt => some (decide (a < b))
  | .LtEq => some (decide (a ≤ b))
  | .Gt => some (decide (a > b))
  | .GtEq => some (decide (a ≥ b))
  | _ => none

/-- the exact mathematical comparison of `u1/10^s1` with `u2/10^s2` (cross-multiplied) -/
def mathCmp (op : Operator) (x y : Num) : Option Bool :=
  evalOp op (x.u * 10 ^ y.s) (y.u * 10 ^ x.s)

/-- what the engine computes for `x op y` with `x : l`, `y : r`: coerce, cast both, compare.
    `none` = the comparison is rejected or a cast fails. -/
def engineCmp (op : Operator) (l r : DataType) (x y : Num) : Option Bool :=
  match cmpCoerce l r with
  | none => none
  | some t =>
    match castVal t x, castVal t y with
    | some x', some y' => evalOp op x'.u y'.u
    | _, _ => none

def cmpOps : List Operator := [.Eq, .NotEq, .Lt, .LtEq, .Gt, .GtEq]

end DfModel.Sql.Coerce
