/-
  L1/L2 — static types and nullability (C30).  Core Lean only (linked into `dfdrv`).

  `typeOf`   mirrors `ExprSchemable::{get_type, nullable}` (/repo/datafusion/expr/src/expr_schema.rs)
             on the reference AST: the declared type of an expression and whether it may be NULL.
  `schemaOf` mirrors the output-schema rules of the logical plan nodes
             (/repo/datafusion/expr/src/logical_plan/{plan.rs,builder.rs}): the null-supplying side
             of an outer join becomes nullable, COUNT is NOT NULL, MIN/MAX/SUM are nullable, a mark
             column is NOT NULL, UNION is nullable if either input is, INTERSECT/EXCEPT keep the left
             schema, a scalar sub-query column is nullable, EXISTS is NOT NULL.
  Nullability rules follow the code, with two deliberate differences that keep the model SOUND and
  make it in places *stronger* than the code (the correspondence is a refinement: wherever the code
  says NOT NULL the model must say NOT NULL too):
    * `IS [NOT] DISTINCT FROM` is NOT NULL here (the code: nullable if an operand is);
    * IN lists are inspected completely (the code gives up after 6 items and says "nullable").
  One place where the code is cleverer than the model (searched `CASE WHEN x IS NOT NULL THEN x …`:
  the code proves the nullable THEN unreachable through `predicate_bounds`) is not modelled; the
  driver answers `unsupported` there.
-/
import DfModel.Sql.Rel
namespace DfModel

inductive TyErr where
  | mismatch      -- ill-typed
  | unbound       -- column / parameter / table not in scope
  deriving DecidableEq, Repr, Inhabited

/-- declared columns: type and "may be NULL" -/
abbrev Schema := List (Ty × Bool)

structure TEnv where
  cols : Schema
  outer : Schema := []
  params : Schema := []
  deriving Repr, Inhabited

def Val.ty : Val → Ty
  | .null => .null
  | .int w s _ => .int w s
  | .bool _ => .bool
  | .str _ => .str

/-- the NULL type is absorbed by any type (a bare `NULL` takes the type of its context) -/
def unifyTy : Ty → Ty → Option Ty
  | .null, t => some t
  | t, .null => some t
  | a, b => if a = b then some a else none

def isIntTy : Ty → Bool
  | .int _ _ => true
  | .null => true
  | _ => false

def isBoolTy : Ty → Bool
  | .bool => true
  | .null => true
  | _ => false

def isStrTy : Ty → Bool
  | .str => true
  | .null => true
  | _ => false

def lookupTy (Γ : Schema) (i : Nat) : Except TyErr (Ty × Bool) :=
  match Γ[i]? with
  | some t => .ok t
  | none => .error .unbound

def unifyE (a b : Ty) : Except TyErr Ty :=
  match unifyTy a b with
  | some t => .ok t
  | none => .error .mismatch

def typeBin (op : BinOp) (a b : Ty × Bool) : Except TyErr (Ty × Bool) :=
  match op with
  | .add | .sub | .mul | .div | .mod => do
    let t ← unifyE a.1 b.1
    if isIntTy t then pure (t, a.2 || b.2) else .error .mismatch
  | .eq | .ne | .lt | .le | .gt | .ge => do
    let _ ← unifyE a.1 b.1
    pure (.bool, a.2 || b.2)
  | .and | .or =>
    if isBoolTy a.1 && isBoolTy b.1 then pure (.bool, a.2 || b.2) else .error .mismatch
  | .distinct | .notDistinct => do
    let _ ← unifyE a.1 b.1
    pure (.bool, false)
  | .concat =>
    if isStrTy a.1 && isStrTy b.1 then pure (.str, a.2 || b.2) else .error .mismatch

/-- the WHEN of a CASE arm: boolean (searched CASE) or comparable with the operand (simple CASE) -/
def checkWhen (operand : Option Ty) (tw : Ty) : Except TyErr Unit :=
  match operand with
  | none => if isBoolTy tw then pure () else .error .mismatch
  | some to => do
    let _ ← unifyE to tw
    pure ()

mutual
def typeOf (e : Expr) (Γ : TEnv) : Except TyErr (Ty × Bool) :=
  match e with
  | .col i => lookupTy Γ.cols i
  | .outer i => lookupTy Γ.outer i
  | .lit v => .ok (v.ty, v.isNull)
  | .ph i => lookupTy Γ.params i
  | .bin op a b => do
    let ta ← typeOf a Γ
    let tb ← typeOf b Γ
    typeBin op ta tb
  | .not a => do
    let ta ← typeOf a Γ
    if isBoolTy ta.1 then pure (.bool, ta.2) else .error .mismatch
  | .neg a => do
    let ta ← typeOf a Γ
    if isIntTy ta.1 then pure ta else .error .mismatch
  | .is k _ a => do
    let ta ← typeOf a Γ
    match k with
    | .null => pure (.bool, false)
    | _ => if isBoolTy ta.1 then pure (.bool, false) else .error .mismatch
  | .inList _ a list => do
    let ta ← typeOf a Γ
    let tl ← typeList list Γ ta.1
    pure (.bool, ta.2 || tl.2)
  | .between _ a lo hi => do
    let ta ← typeOf a Γ
    let tlo ← typeOf lo Γ
    let thi ← typeOf hi Γ
    let t ← unifyE ta.1 tlo.1
    let _ ← unifyE t thi.1
    pure (.bool, ta.2 || tlo.2 || thi.2)
  | .case operand whens els => do
    let to ← match operand with
      | none => pure none
      | some o => do pure (some (← typeOf o Γ).1)
    let tw ← typeWhens to whens Γ .null
    match els with
    | none => pure (tw.1, true)            -- CASE without ELSE produces NULL when no arm matches
    | some e => do
      let te ← typeOf e Γ
      let t ← unifyE tw.1 te.1
      pure (t, tw.2 || te.2)
  | .coalesce args => typeCoalesce args Γ
  | .nullif a b => do
    let ta ← typeOf a Γ
    let tb ← typeOf b Γ
    let _ ← unifyE ta.1 tb.1
    pure (ta.1, true)
  | .cast ty t a => do
    let ta ← typeOf a Γ
    pure (ty, t || ta.2)                   -- TRY_CAST is always nullable; CAST keeps nullability
  | .like _ _ a p _ => do
    let ta ← typeOf a Γ
    let tp ← typeOf p Γ
    if isStrTy ta.1 && isStrTy tp.1 then pure (.bool, ta.2 || tp.2) else .error .mismatch

/-- IN list: every item unifies with the tested expression's type; nullable if any item is -/
def typeList (es : List Expr) (Γ : TEnv) (t : Ty) : Except TyErr (Ty × Bool) :=
  match es with
  | [] => .ok (t, false)
  | e :: es => do
    let te ← typeOf e Γ
    let t' ← unifyE t te.1
    let rest ← typeList es Γ t'
    pure (rest.1, te.2 || rest.2)

/-- CASE arms: WHEN is boolean (searched) or unifies with the operand (simple); the result type is
    the unification of the THEN types; nullable if any THEN is -/
def typeWhens (operand : Option Ty) (whens : List (Expr × Expr)) (Γ : TEnv) (acc : Ty) : Except TyErr (Ty × Bool) :=
  match whens with
  | [] => .ok (acc, false)
  | (w, thn) :: rest => do
    let tw ← typeOf w Γ
    let _ ← checkWhen operand tw.1
    let tt ← typeOf thn Γ
    let acc' ← unifyE acc tt.1
    let r ← typeWhens operand rest Γ acc'
    pure (r.1, tt.2 || r.2)

/-- COALESCE: the common type; NOT NULL as soon as one argument is NOT NULL -/
def typeCoalesce (args : List Expr) (Γ : TEnv) : Except TyErr (Ty × Bool) :=
  match args with
  | [] => .ok (.null, true)
  | e :: es => do
    let te ← typeOf e Γ
    let r ← typeCoalesce es Γ
    let t ← unifyE te.1 r.1
    pure (t, te.2 && r.2)
end

/-! ## conformance of values and rows -/

/-- `v : (τ, nullable)` -/
def Val.conforms (v : Val) (t : Ty × Bool) : Bool := v.hasTy t.1 && (t.2 || !v.isNull)

def rowConforms : Row → Schema → Bool
  | [], [] => true
  | v :: vs, t :: ts => v.conforms t && rowConforms vs ts
  | _, _ => false

/-! ## plans -/

/-- declared schemas of the tables -/
abbrev TDb := List (String × Schema)

def tdbFind (Δ : TDb) (name : String) : Option Schema :=
  (List.find? (fun (t : String × Schema) => t.1 == name) Δ).map (·.2)

def allNullable (Γ : Schema) : Schema := Γ.map (fun t => (t.1, true))

def typeExprs (es : List Expr) (Γ : TEnv) : Except TyErr Schema := es.mapM (fun e => typeOf e Γ)

def typeAgg (a : Agg) (Γ : TEnv) : Except TyErr (Ty × Bool) := do
  match a.filter with
    | none => pure ()
    | some f => do
      let tf ← typeOf f Γ
      if isBoolTy tf.1 then pure () else .error .mismatch
  match a.fn with
  | .countStar => pure (.int 64 true, false)          -- COUNT is never NULL
  | .count => do
    let _ ← typeOf a.arg Γ
    pure (.int 64 true, false)
  | .sum => do
    let ta ← typeOf a.arg Γ
    match ta.1 with
    | .int _ s => pure (.int 64 s, true)               -- SUM over no (non-NULL) row is NULL
    | .null => pure (.null, true)
    | _ => .error .mismatch
  | .min | .max => do
    let ta ← typeOf a.arg Γ
    pure (ta.1, true)

def unifySchemas : Schema → Schema → (Bool → Bool → Bool) → Except TyErr Schema
  | [], [], _ => .ok []
  | a :: as, b :: bs, f => do
    let t ← unifyE a.1 b.1
    let rest ← unifySchemas as bs f
    pure ((t, f a.2 b.2) :: rest)
  | _, _, _ => .error .mismatch

def joinSchema (jt : JoinType) (L R : Schema) : Schema :=
  match jt with
  | .inner => L ++ R
  | .left => L ++ allNullable R
  | .right => allNullable L ++ R
  | .full => allNullable L ++ allNullable R
  | .leftSemi | .leftAnti => L
  | .rightSemi | .rightAnti => R
  | .leftMark => L ++ [(.bool, false)]
  | .rightMark => R ++ [(.bool, false)]

def valuesSchema (w : Nat) (rows : List Row) : Schema :=
  (List.range w).map (fun j =>
    let col := rows.filterMap (fun r => r[j]?)
    ((col.find? (fun v => !v.isNull)).map Val.ty |>.getD .null, col.any Val.isNull))

def schemaOf (p : Plan) (Δ : TDb) (outer : Schema := []) (params : Schema := []) : Except TyErr Schema :=
  match p with
  | .scan n => match tdbFind Δ n with
    | some Γ => .ok Γ
    | none => .error .unbound
  | .values w rows => .ok (valuesSchema w rows)
  | .filter e p => do
    let Γ ← schemaOf p Δ outer params
    let te ← typeOf e { cols := Γ, outer := outer, params := params }
    if isBoolTy te.1 then pure Γ else .error .mismatch
  | .project es p => do
    let Γ ← schemaOf p Δ outer params
    typeExprs es { cols := Γ, outer := outer, params := params }
  | .join jt _ on f l r => do
    let L ← schemaOf l Δ outer params
    let R ← schemaOf r Δ outer params
    let _ ← on.mapM (fun ab => do
      let ta ← typeOf ab.1 { cols := L, outer := outer, params := params }
      let tb ← typeOf ab.2 { cols := R, outer := outer, params := params }
      unifyE ta.1 tb.1)
    match f with
      | none => pure ()
      | some e => do
        let te ← typeOf e { cols := L ++ R, outer := outer, params := params }
        if isBoolTy te.1 then pure () else .error .mismatch
    pure (joinSchema jt L R)
  | .aggregate ks as p => do
    let Γ ← schemaOf p Δ outer params
    let env : TEnv := { cols := Γ, outer := outer, params := params }
    let tk ← typeExprs ks env
    let ta ← as.mapM (fun a => typeAgg a env)
    pure (tk ++ ta)
  | .sort ks p => do
    let Γ ← schemaOf p Δ outer params
    let _ ← typeExprs (ks.map (·.1)) { cols := Γ, outer := outer, params := params }
    pure Γ
  | .limit _ _ p => schemaOf p Δ outer params
  | .setop k _ l r => do
    let L ← schemaOf l Δ outer params
    let R ← schemaOf r Δ outer params
    match k with
    | .union => unifySchemas L R (fun a b => a || b)
    | _ => unifySchemas L R (fun a _ => a)       -- INTERSECT / EXCEPT return rows of the left input
  | .distinct p => schemaOf p Δ outer params
  | .apply k x i sub => do
    let Γ ← schemaOf i Δ outer params
    let S ← schemaOf sub Δ Γ params
    let tx ← match x with
      | none => pure none
      | some e => do pure (some (← typeOf e { cols := Γ, outer := outer, params := params }))
    let c ← match k with
      | .exists => pure (Ty.bool, false)
      | .scalar => match S with
        | [t] => pure (t.1, true)
        | _ => .error .mismatch
      | .inSub | .quant _ _ => match S, tx with
        | [t], some tx => do
          let _ ← unifyE t.1 tx.1
          pure (Ty.bool, true)
        | _, _ => .error .mismatch
    pure (Γ ++ [c])

end DfModel
