/-
  L1/L2 — binding of query parameters (C41).  Core Lean only (linked into `dfdrv`).

  Hand model of `LogicalPlan::with_param_values` / `replace_params_with_values`
  (/repo/datafusion/expr/src/logical_plan/plan.rs) and `Expr::Placeholder` substitution
  (`ParamValues::get_placeholders_with_values`, common/src/param_value.rs):
  every placeholder `$n` in every expression of every plan node — including the expressions inside
  sub-query plans and the `LIMIT`/`OFFSET` expressions — is replaced by the literal of the n-th
  parameter value; nothing else changes.

  `bindExpr ps e` / `bindPlan ps p` are that substitution on the reference AST; evaluating a
  parameterised query is `eval … { params := ps }` (the placeholder case of `eval` looks the value up).
  The AST of `Sql/Rel.lean` carries LIMIT/OFFSET as numbers, so parameterised `LIMIT $n OFFSET $m`
  is modelled by the wrapper `PQuery` below (the outermost LIMIT of a statement).
-/
import DfModel.Sql.Rel
namespace DfModel

abbrev Params := List Val

mutual
/-- substitute parameter values for placeholders (an unbound placeholder stays) -/
def bindExpr (ps : Params) : Expr → Expr
  | .col i => .col i
  | .outer i => .outer i
  | .lit v => .lit v
  | .ph i => match ps[i]? with
    | some v => .lit v
    | none => .ph i
  | .bin op a b => .bin op (bindExpr ps a) (bindExpr ps b)
  | .not a => .not (bindExpr ps a)
  | .neg a => .neg (bindExpr ps a)
  | .is k n a => .is k n (bindExpr ps a)
  | .inList n a l => .inList n (bindExpr ps a) (bindList ps l)
  | .between n a lo hi => .between n (bindExpr ps a) (bindExpr ps lo) (bindExpr ps hi)
  | .case o ws e => .case (bindOpt ps o) (bindWhens ps ws) (bindOpt ps e)
  | .coalesce l => .coalesce (bindList ps l)
  | .nullif a b => .nullif (bindExpr ps a) (bindExpr ps b)
  | .cast ty t a => .cast ty t (bindExpr ps a)
  | .like n ci a p esc => .like n ci (bindExpr ps a) (bindExpr ps p) esc

def bindList (ps : Params) : List Expr → List Expr
  | [] => []
  | e :: es => bindExpr ps e :: bindList ps es

def bindOpt (ps : Params) : Option Expr → Option Expr
  | none => none
  | some e => some (bindExpr ps e)

def bindWhens (ps : Params) : List (Expr × Expr) → List (Expr × Expr)
  | [] => []
  | (w, t) :: rest => (bindExpr ps w, bindExpr ps t) :: bindWhens ps rest
end

def bindAgg (ps : Params) (a : Agg) : Agg :=
  { a with arg := bindExpr ps a.arg, filter := bindOpt ps a.filter }

def bindOn (ps : Params) : List (Expr × Expr) → List (Expr × Expr)
  | [] => []
  | (a, b) :: rest => (bindExpr ps a, bindExpr ps b) :: bindOn ps rest

def bindKeys (ps : Params) : List (Expr × SortOpt) → List (Expr × SortOpt)
  | [] => []
  | (e, o) :: rest => (bindExpr ps e, o) :: bindKeys ps rest

/-- `LogicalPlan::with_param_values`: every expression of every node, sub-query plans included -/
def bindPlan (ps : Params) : Plan → Plan
  | .scan n => .scan n
  | .values w rows => .values w rows
  | .filter e p => .filter (bindExpr ps e) (bindPlan ps p)
  | .project es p => .project (bindList ps es) (bindPlan ps p)
  | .join jt ne on f l r => .join jt ne (bindOn ps on) (bindOpt ps f) (bindPlan ps l) (bindPlan ps r)
  | .aggregate ks as p => .aggregate (bindList ps ks) (as.map (bindAgg ps)) (bindPlan ps p)
  | .sort ks p => .sort (bindKeys ps ks) (bindPlan ps p)
  | .limit s f p => .limit s f (bindPlan ps p)
  | .setop k all l r => .setop k all (bindPlan ps l) (bindPlan ps r)
  | .distinct p => .distinct (bindPlan ps p)
  | .apply k x i sub => .apply k (bindOpt ps x) (bindPlan ps i) (bindPlan ps sub)

/-- evaluation of a parameterised plan: the placeholders read `ps` -/
def evalPlanP (ps : Params) (p : Plan) (db : Db) (outer : Row := []) : Except RtErr (List Row) :=
  evalPlan p db { params := ps, outer := outer }

/-! ## parameterised LIMIT / OFFSET (outermost clause of a statement) -/

/-- a `LIMIT`/`OFFSET` operand: a number written in the text, `NULL`, or a placeholder -/
inductive LimArg where
  | num (n : Nat)
  | null
  | ph (i : Nat)
  deriving DecidableEq, Repr, Inhabited

/-- a statement: a plan under an optional outermost `OFFSET skip LIMIT fetch` -/
structure PQuery where
  plan : Plan
  skip : Option LimArg := none
  fetch : Option LimArg := none
  deriving Repr, Inhabited

/-- value of a LIMIT/OFFSET operand (`Limit::get_fetch_type` / `get_skip_type`): a non-negative
    Int64; NULL means "no limit" / "offset 0"; anything else is rejected when the plan is built -/
inductive LimVal where
  | n (n : Nat)
  | null
  | bad
  deriving DecidableEq, Repr

def limOfVal : Val → LimVal
  | .null => .null
  | .int 64 true n => if 0 ≤ n then .n n.toNat else .bad
  | _ => .bad

def limArgVal (ps : Params) : LimArg → LimVal
  | .num n => .n n
  | .null => .null
  | .ph i => match ps[i]? with
    | some v => limOfVal v
    | none => .bad

/-- write the value in; a value that is no valid LIMIT operand cannot be written as one: the
    placeholder stays (and is rejected exactly as before) -/
def bindLimArg (ps : Params) : LimArg → LimArg
  | .num n => .num n
  | .null => .null
  | .ph i => match ps[i]? with
    | some v => match limOfVal v with
      | .n k => .num k
      | .null => .null
      | .bad => .ph i
    | none => .ph i

/-- apply the outermost OFFSET/LIMIT (`none` = the statement is rejected) -/
def applyLimit (skip fetch : Option LimVal) (rows : List Row) : Option (List Row) :=
  match skip, fetch with
  | some .bad, _ => none
  | _, some .bad => none
  | s, f =>
    let sk := match s with
      | some (.n k) => k
      | _ => 0
    let fe := match f with
      | some (.n k) => some k
      | _ => none
    some (limitRows sk fe rows)

/-- parameterised statement -/
def evalQueryP (ps : Params) (q : PQuery) (db : Db) : Except RtErr (Option (List Row)) := do
  let rows ← evalPlanP ps q.plan db
  pure (applyLimit (q.skip.map (limArgVal ps)) (q.fetch.map (limArgVal ps)) rows)

/-- the statement with the values written in as literals -/
def bindQuery (ps : Params) (q : PQuery) : PQuery :=
  { plan := bindPlan ps q.plan, skip := q.skip.map (bindLimArg ps), fetch := q.fetch.map (bindLimArg ps) }

end DfModel
