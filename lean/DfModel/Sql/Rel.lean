/-
  L2 — bag-of-rows relational reference semantics with deterministic list order.
  Core Lean only (linked into `dfdrv`).

  Every operator is a small total function on `List Row`; the order of the output list is fixed
  (nested loops, first-appearance order of groups, stable sort) so that most laws are list
  equalities and the rest `List.Perm`.  A bag is a list up to permutation.

  Pure operators (`innerJoin`, `leftJoin`, `semiJoin`, …, `intersectAll`, `limitRows`, …) take
  already-decided predicates; `evalPlan` first evaluates the SQL expressions (propagating
  run-time errors strictly: an error on any row an operator looks at is an error of the query) and
  then calls the pure operators.
-/
import DfModel.Sql.Expr
namespace DfModel

abbrev Table := List Row

/-- a database: named tables with their declared number of columns -/
structure Db where
  tables : List (String × Nat × Table) := []
  deriving Repr, Inhabited

def Db.find? (db : Db) (name : String) : Option (Nat × Table) :=
  (db.tables.find? (fun t => t.1 == name)).map (·.2)

def nulls (n : Nat) : Row := List.replicate n Val.null

/-! ## filter / project -/

/-- rows on which the predicate is TRUE (FALSE and NULL rows are dropped); strict in errors -/
def evalFilter (e : Expr) (env : Env) : List Row → Except RtErr (List Row)
  | [] => .ok []
  | r :: rs => do
    let b ← holds e r env
    let rest ← evalFilter e env rs
    pure (if b then r :: rest else rest)

def evalExprs (es : List Expr) (ρ : Row) (env : Env) : Except RtErr Row :=
  es.mapM (fun e => eval e ρ env)

def evalProject (es : List Expr) (env : Env) (rows : List Row) : Except RtErr (List Row) :=
  rows.mapM (fun r => evalExprs es r env)

/-! ## joins (pure, by nested loops) -/

/-- `datafusion_common::JoinType` -/
inductive JoinType where
  | inner | left | right | full
  | leftSemi | rightSemi | leftAnti | rightAnti
  | leftMark | rightMark
  deriving DecidableEq, Repr, Inhabited

section joins
variable (θ : Row → Row → Bool)

def innerJoin (L R : List Row) : List Row :=
  L.flatMap (fun l => (R.filter (θ l)).map (l ++ ·))

/-- left rows without a partner -/
def antiJoin (L R : List Row) : List Row := L.filter (fun l => !R.any (θ l))
/-- left rows with at least one partner (each once) -/
def semiJoin (L R : List Row) : List Row := L.filter (fun l => R.any (θ l))

def rightAntiJoin (L R : List Row) : List Row := R.filter (fun r => !L.any (fun l => θ l r))
def rightSemiJoin (L R : List Row) : List Row := R.filter (fun r => L.any (fun l => θ l r))

/-- every left row: with each partner, or once padded with NULLs when it has none -/
def leftJoin (wr : Nat) (L R : List Row) : List Row :=
  L.flatMap (fun l => if R.any (θ l) then (R.filter (θ l)).map (l ++ ·) else [l ++ nulls wr])

def rightJoin (wl : Nat) (L R : List Row) : List Row :=
  innerJoin θ L R ++ (rightAntiJoin θ L R).map (nulls wl ++ ·)

def fullJoin (wl wr : Nat) (L R : List Row) : List Row :=
  leftJoin θ wr L R ++ (rightAntiJoin θ L R).map (nulls wl ++ ·)

/-- every left row once, with a boolean "has a partner" column appended -/
def leftMarkJoin (L R : List Row) : List Row := L.map (fun l => l ++ [Val.bool (R.any (θ l))])
def rightMarkJoin (L R : List Row) : List Row := R.map (fun r => r ++ [Val.bool (L.any (fun l => θ l r))])

def joinRows (jt : JoinType) (wl wr : Nat) (L R : List Row) : List Row :=
  match jt with
  | .inner => innerJoin θ L R
  | .left => leftJoin θ wr L R
  | .right => rightJoin θ wl L R
  | .full => fullJoin θ wl wr L R
  | .leftSemi => semiJoin θ L R
  | .rightSemi => rightSemiJoin θ L R
  | .leftAnti => antiJoin θ L R
  | .rightAnti => rightAntiJoin θ L R
  | .leftMark => leftMarkJoin θ L R
  | .rightMark => rightMarkJoin θ L R
end joins

def JoinType.arity (jt : JoinType) (wl wr : Nat) : Nat :=
  match jt with
  | .inner | .left | .right | .full => wl + wr
  | .leftSemi | .leftAnti => wl
  | .rightSemi | .rightAnti => wr
  | .leftMark => wl + 1
  | .rightMark => wr + 1

/-- the join condition of one pair: all key pairs equal (`nullEq`: NULL = NULL counts as equal,
    otherwise a NULL key never matches) and the residual filter TRUE -/
def joinCond (nullEq : Bool) (on : List (Expr × Expr)) (filter : Option Expr) (env : Env) (l r : Row) :
    Except RtErr Bool := do
  let keys ← on.mapM (fun (a, b) => do
    let x ← eval a l env
    let y ← eval b r env
    if nullEq then eqNullSafe x y else (eqTri x y).map Tri.isTrue)
  let f ← match filter with
    | none => pure true
    | some e => holds e (l ++ r) env
  pure (keys.all id && f)

/-! ## aggregation -/

inductive AggFn where
  | countStar | count | sum | min | max
  deriving DecidableEq, Repr, Inhabited

structure Agg where
  fn : AggFn
  distinct : Bool := false
  arg : Expr := .lit .null
  filter : Option Expr := none
  deriving Repr, Inhabited

/-- first occurrences, in order (`DISTINCT`; NULL equals NULL) -/
def dedup {α : Type} [BEq α] : List α → List α
  | [] => []
  | x :: xs => x :: (dedup xs).filter (fun y => !(y == x))

def minVal (a b : Val) : Val := if cmpVal b a == .lt then b else a
def maxVal (a b : Val) : Val := if cmpVal b a == .gt then b else a

def sumVals : List Val → Except RtErr (Option (Bool × Int))
  | [] => .ok none
  | .int _ s n :: vs => do
    match ← sumVals vs with
    | none => pure (some (s, n))
    | some (s', m) => if s = s' then pure (some (s, n + m)) else .error .type
  | _ :: _ => .error .type

/-- one aggregate over the (already filtered) argument values of a group -/
def aggVals (fn : AggFn) (distinct : Bool) (nrows : Nat) (vals : List Val) : Except RtErr Val :=
  let nn := vals.filter (fun v => !v.isNull)
  let nn := if distinct then dedup nn else nn
  match fn with
  | .countStar => .ok (.int 64 true nrows)
  | .count => .ok (.int 64 true nn.length)
  | .sum => do
    match ← sumVals nn with
    | none => pure .null
    | some (s, n) => pure (.int 64 s (wrapInt 64 s n))     -- `SUM` accumulates with `add_wrapping`
  | .min => match nn with
    | [] => .ok .null
    | v :: vs => .ok (vs.foldl minVal v)
  | .max => match nn with
    | [] => .ok .null
    | v :: vs => .ok (vs.foldl maxVal v)

def evalAgg (a : Agg) (env : Env) (rows : List Row) : Except RtErr Val := do
  let rows ← match a.filter with
    | none => pure rows
    | some f => evalFilter f env rows
  match a.fn with
  | .countStar => aggVals .countStar a.distinct rows.length []
  | fn => do
    let vals ← rows.mapM (fun r => eval a.arg r env)
    aggVals fn a.distinct rows.length vals

/-- insert a row into its group (groups in order of first appearance; keys compare with NULL = NULL) -/
def groupInsert (k : Row) (r : Row) : List (Row × List Row) → List (Row × List Row)
  | [] => [(k, [r])]
  | (k', rs) :: gs => if k' == k then (k', rs ++ [r]) :: gs else (k', rs) :: groupInsert k r gs

def groupRows (keyed : List (Row × Row)) : List (Row × List Row) :=
  keyed.foldl (fun gs kr => groupInsert kr.1 kr.2 gs) []

def evalAggregate (keys : List Expr) (aggs : List Agg) (env : Env) (rows : List Row) : Except RtErr (List Row) := do
  let keyed ← rows.mapM (fun r => do pure ((← evalExprs keys r env), r))
  -- no GROUP BY: exactly one group, even over an empty input
  let groups := if keys.isEmpty then [([], rows)] else groupRows keyed
  groups.mapM (fun (k, rs) => do
    let vs ← aggs.mapM (fun a => evalAgg a env rs)
    pure (k ++ vs))

/-! ## sort / limit / distinct / set operations -/

/-- stable sort by the evaluated keys with `cmpRows` -/
def evalSort (keys : List (Expr × SortOpt)) (env : Env) (rows : List Row) : Except RtErr (List Row) := do
  let keyed ← rows.mapM (fun r => do pure ((← evalExprs (keys.map (·.1)) r env), r))
  let opts := keys.map (·.2)
  pure ((sortBy' (fun a b => leRows opts a.1 b.1) keyed).map (·.2))

def limitRows (skip : Nat) (fetch : Option Nat) (rows : List Row) : List Row :=
  match fetch with
  | none => rows.drop skip
  | some n => (rows.drop skip).take n

inductive SetKind where
  | union | intersect | except
  deriving DecidableEq, Repr, Inhabited

/-- `INTERSECT ALL`: each row as often as in BOTH inputs (minimum of the two counts) -/
def intersectAll : List Row → List Row → List Row
  | [], _ => []
  | a :: as, B => if B.contains a then a :: intersectAll as (B.erase a) else intersectAll as B

/-- `EXCEPT ALL`: each row as often as it occurs more in the left input (truncated difference) -/
def exceptAll : List Row → List Row → List Row
  | [], _ => []
  | a :: as, B => if B.contains a then exceptAll as (B.erase a) else a :: exceptAll as B

def setOp (k : SetKind) (all : Bool) (A B : List Row) : List Row :=
  match k, all with
  | .union, true => A ++ B
  | .union, false => dedup (A ++ B)
  | .intersect, true => intersectAll A B
  | .intersect, false => (dedup A).filter (fun a => B.contains a)
  | .except, true => exceptAll A B
  | .except, false => (dedup A).filter (fun a => !B.contains a)

/-! ## sub-queries as a dependent join -/

/-- what a sub-query expression computes for one outer row from the sub-query's rows -/
inductive SubKind where
  | exists                         -- `EXISTS (q)`                      → bool
  | scalar                         -- `(q)` one column, ≤ 1 row         → the value / NULL
  | inSub                          -- `x IN (q)`                        → bool / NULL
  | quant (op : BinOp) (all : Bool) -- `x op ANY|ALL (q)`               → bool / NULL
  deriving Repr, Inhabited

def quantTri (op : BinOp) (all : Bool) (x : Val) : List Val → Except RtErr Tri
  | [] => .ok (if all then .t else .f)
  | v :: vs => do
    let c ← evalBin op x v
    let tv ← match Tri.ofVal? c with
      | some tv => pure tv
      | none => .error .type
    let r ← quantTri op all x vs
    pure (if all then Tri.and tv r else Tri.or tv r)

def firstCol (rows : List Row) : Except RtErr (List Val) :=
  rows.mapM (fun r => match r with
    | v :: _ => .ok v
    | [] => .error .type)

def subValue (k : SubKind) (x : Option Val) (sub : List Row) : Except RtErr Val :=
  match k with
  | .exists => .ok (.bool (!sub.isEmpty))
  | .scalar => match sub with
    | [] => .ok .null
    | [v :: _] => .ok v
    | [[]] => .error .type
    | _ => .error .card
  | .inSub => match x with
    | some x => do pure (← inListTri x (← firstCol sub)).toVal
    | none => .error .type
  | .quant op all => match x with
    | some x => do pure (← quantTri op all x (← firstCol sub)).toVal
    | none => .error .type

/-! ## plans -/

inductive Plan where
  | scan (name : String)
  | values (arity : Nat) (rows : List Row)
  | filter (e : Expr) (p : Plan)
  | project (es : List Expr) (p : Plan)
  | join (jt : JoinType) (nullEq : Bool) (on : List (Expr × Expr)) (filter : Option Expr) (l r : Plan)
  | aggregate (keys : List Expr) (aggs : List Agg) (p : Plan)
  | sort (keys : List (Expr × SortOpt)) (p : Plan)
  | limit (skip : Nat) (fetch : Option Nat) (p : Plan)
  | setop (k : SetKind) (all : Bool) (l r : Plan)
  | distinct (p : Plan)
  /-- dependent join: for every row of `input`, evaluate `sub` with that row as `Env.outer`, and
      append the sub-query expression's value (`x` is the left operand of IN / ANY / ALL) -/
  | apply (k : SubKind) (x : Option Expr) (input sub : Plan)
  deriving Repr, Inhabited

def Plan.arity (db : Db) : Plan → Except RtErr Nat
  | .scan n => match db.find? n with
    | some (w, _) => .ok w
    | none => .error .type
  | .values w _ => .ok w
  | .filter _ p => p.arity db
  | .project es _ => .ok es.length
  | .join jt _ _ _ l r => do pure (jt.arity (← l.arity db) (← r.arity db))
  | .aggregate ks as _ => .ok (ks.length + as.length)
  | .sort _ p => p.arity db
  | .limit _ _ p => p.arity db
  | .setop _ _ l _ => l.arity db
  | .distinct p => p.arity db
  | .apply _ _ i _ => do pure ((← i.arity db) + 1)

/-- all pairs must evaluate (strictness), then the pure nested-loop join is taken -/
def evalJoin (jt : JoinType) (nullEq : Bool) (on : List (Expr × Expr)) (filter : Option Expr) (env : Env)
    (wl wr : Nat) (L R : List Row) : Except RtErr (List Row) := do
  let _ ← L.mapM (fun l => R.mapM (fun r => joinCond nullEq on filter env l r))
  let θ := fun l r => match joinCond nullEq on filter env l r with
    | .ok b => b
    | .error _ => false
  pure (joinRows θ jt wl wr L R)

def evalPlan (p : Plan) (db : Db) (env : Env := {}) : Except RtErr (List Row) :=
  match p with
  | .scan n => match db.find? n with
    | some (_, rows) => .ok rows
    | none => .error .type
  | .values _ rows => .ok rows
  | .filter e p => do evalFilter e env (← evalPlan p db env)
  | .project es p => do evalProject es env (← evalPlan p db env)
  | .join jt ne on f l r => do
    let L ← evalPlan l db env
    let R ← evalPlan r db env
    evalJoin jt ne on f env (← l.arity db) (← r.arity db) L R
  | .aggregate ks as p => do evalAggregate ks as env (← evalPlan p db env)
  | .sort ks p => do evalSort ks env (← evalPlan p db env)
  | .limit s f p => do pure (limitRows s f (← evalPlan p db env))
  | .setop k all l r => do pure (setOp k all (← evalPlan l db env) (← evalPlan r db env))
  | .distinct p => do pure (dedup (← evalPlan p db env))
  | .apply k x i sub => do
    let rows ← evalPlan i db env
    rows.mapM (fun ρ => do
      let xv ← match x with
        | none => pure none
        | some e => do pure (some (← eval e ρ env))
      let s ← evalPlan sub db { env with outer := ρ }
      pure (ρ ++ [← subValue k xv s]))

end DfModel
