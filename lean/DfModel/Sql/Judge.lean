/-
  The judge used by the round-trip properties (C35–C38, C48): two exported plans are `same` when
  they are structurally equal after normalisation.  Core Lean only (linked into `dfdrv`).

  The exported `Plan` is positional (the exporter resolves every column reference to its index in
  the input schema), so aliases and qualifiers are already gone.  What remains are harmless
  re-spellings that encoders/decoders introduce; `normExpr` / `normPlan` rewrite them to one
  spelling.  Every rewrite is EXACT for `eval` / `evalPlan` (same value or same error on every
  row, every database, every environment) — proved in Proofs/C35Judge.lean:

    expression level (`normExpr`)
      e NOT IN (l)              ↦  NOT (e IN (l))
      e NOT BETWEEN lo AND hi   ↦  NOT (e BETWEEN lo AND hi)
      e NOT [I]LIKE p           ↦  NOT (e [I]LIKE p)
      e IS NOT NULL             ↦  NOT (e IS NULL)
      a <> b                    ↦  NOT (a = b)
      NOT (NOT (NOT a))         ↦  NOT a
    plan level (`normPlan`)
      expressions of every node are normalised
      Limit{skip 0, fetch none} p   ↦  p
      Limit s₁ f₁ (Limit 0 none p)  (by the rule above)
      Distinct (Distinct p)         ↦  Distinct p      (not needed so far; not included)

  Structural equality is decided by `beqPlan` (the ASTs are nested inductives, for which Lean does
  not derive `DecidableEq`); only its soundness `beqPlan p q = true → p = q` is needed.
-/
import DfModel.Sql.Rel
namespace DfModel.Judge
open DfModel

/-! ## structural equality -/

def beqTy (a b : Ty) : Bool := decide (a = b)
def beqOptChar (a b : Option Char) : Bool := decide (a = b)

mutual
def beqExpr : Expr → Expr → Bool
  | .col i, e => match e with | .col j => i == j | _ => false
  | .outer i, e => match e with | .outer j => i == j | _ => false
  | .lit v, e => match e with | .lit w => decide (v = w) | _ => false
  | .ph i, e => match e with | .ph j => i == j | _ => false
  | .bin op a b, e => match e with
    | .bin op' a' b' => decide (op = op') && beqExpr a a' && beqExpr b b' | _ => false
  | .not a, e => match e with | .not a' => beqExpr a a' | _ => false
  | .neg a, e => match e with | .neg a' => beqExpr a a' | _ => false
  | .is k n a, e => match e with
    | .is k' n' a' => decide (k = k') && n == n' && beqExpr a a' | _ => false
  | .inList n a l, e => match e with
    | .inList n' a' l' => n == n' && beqExpr a a' && beqExprs l l' | _ => false
  | .between n a lo hi, e => match e with
    | .between n' a' lo' hi' => n == n' && beqExpr a a' && beqExpr lo lo' && beqExpr hi hi' | _ => false
  | .case o ws el, e => match e with
    | .case o' ws' el' => beqOptExpr o o' && beqWhens ws ws' && beqOptExpr el el' | _ => false
  | .coalesce l, e => match e with | .coalesce l' => beqExprs l l' | _ => false
  | .nullif a b, e => match e with | .nullif a' b' => beqExpr a a' && beqExpr b b' | _ => false
  | .cast t tr a, e => match e with
    | .cast t' tr' a' => beqTy t t' && tr == tr' && beqExpr a a' | _ => false
  | .like n ci a p esc, e => match e with
    | .like n' ci' a' p' esc' => n == n' && ci == ci' && beqExpr a a' && beqExpr p p' && beqOptChar esc esc'
    | _ => false
def beqExprs : List Expr → List Expr → Bool
  | [], l => match l with | [] => true | _ => false
  | a :: as, l => match l with | b :: bs => beqExpr a b && beqExprs as bs | _ => false
def beqWhens : List (Expr × Expr) → List (Expr × Expr) → Bool
  | [], l => match l with | [] => true | _ => false
  | (a, b) :: as, l => match l with | (a', b') :: bs => beqExpr a a' && beqExpr b b' && beqWhens as bs | _ => false
def beqOptExpr : Option Expr → Option Expr → Bool
  | none, o => match o with | none => true | _ => false
  | some a, o => match o with | some b => beqExpr a b | _ => false
end

def beqOpt (a b : Option Expr) : Bool :=
  match a, b with
  | none, none => true
  | some x, some y => beqExpr x y
  | _, _ => false

def beqList {α : Type} (f : α → α → Bool) : List α → List α → Bool
  | [], [] => true
  | a :: as, b :: bs => f a b && beqList f as bs
  | _, _ => false

def beqAgg (a b : Agg) : Bool :=
  decide (a.fn = b.fn) && a.distinct == b.distinct && beqExpr a.arg b.arg && beqOpt a.filter b.filter

def beqSortKey (a b : Expr × SortOpt) : Bool :=
  beqExpr a.1 b.1 && a.2.desc == b.2.desc && a.2.nullsFirst == b.2.nullsFirst

def beqOn (a b : Expr × Expr) : Bool := beqExpr a.1 b.1 && beqExpr a.2 b.2

def beqSubKind : SubKind → SubKind → Bool
  | .exists, .exists => true
  | .scalar, .scalar => true
  | .inSub, .inSub => true
  | .quant op all, .quant op' all' => decide (op = op') && all == all'
  | _, _ => false

def beqPlan : Plan → Plan → Bool
  | .scan n, q => match q with | .scan m => n == m | _ => false
  | .values w rows, q => match q with | .values w' rows' => w == w' && decide (rows = rows') | _ => false
  | .filter e p, q => match q with | .filter e' p' => beqExpr e e' && beqPlan p p' | _ => false
  | .project es p, q => match q with | .project es' p' => beqList beqExpr es es' && beqPlan p p' | _ => false
  | .join jt ne on f l r, q => match q with
    | .join jt' ne' on' f' l' r' =>
      decide (jt = jt') && ne == ne' && beqList beqOn on on' && beqOpt f f' && beqPlan l l' && beqPlan r r'
    | _ => false
  | .aggregate ks as p, q => match q with
    | .aggregate ks' as' p' => beqList beqExpr ks ks' && beqList beqAgg as as' && beqPlan p p' | _ => false
  | .sort ks p, q => match q with | .sort ks' p' => beqList beqSortKey ks ks' && beqPlan p p' | _ => false
  | .limit s f p, q => match q with | .limit s' f' p' => s == s' && decide (f = f') && beqPlan p p' | _ => false
  | .setop k all l r, q => match q with
    | .setop k' all' l' r' => decide (k = k') && all == all' && beqPlan l l' && beqPlan r r' | _ => false
  | .distinct p, q => match q with | .distinct p' => beqPlan p p' | _ => false
  | .apply k x i s, q => match q with
    | .apply k' x' i' s' => beqSubKind k k' && beqOpt x x' && beqPlan i i' && beqPlan s s' | _ => false

/-! ## normalisation -/

/-- `NOT e`, collapsing a triple negation -/
def mkNot : Expr → Expr
  | .not (.not a) => .not a
  | a => .not a

mutual
def normExpr : Expr → Expr
  | .col i => .col i
  | .outer i => .outer i
  | .lit v => .lit v
  | .ph i => .ph i
  | .bin .ne a b => mkNot (.bin .eq (normExpr a) (normExpr b))
  | .bin op a b => .bin op (normExpr a) (normExpr b)
  | .not a => mkNot (normExpr a)
  | .neg a => .neg (normExpr a)
  | .is .null true a => mkNot (.is .null false (normExpr a))
  | .is k n a => .is k n (normExpr a)
  | .inList true a l => mkNot (.inList false (normExpr a) (normExprs l))
  | .inList false a l => .inList false (normExpr a) (normExprs l)
  | .between true a lo hi => mkNot (.between false (normExpr a) (normExpr lo) (normExpr hi))
  | .between false a lo hi => .between false (normExpr a) (normExpr lo) (normExpr hi)
  | .case o ws e => .case (normOptExpr o) (normWhens ws) (normOptExpr e)
  | .coalesce l => .coalesce (normExprs l)
  | .nullif a b => .nullif (normExpr a) (normExpr b)
  | .cast t tr a => .cast t tr (normExpr a)
  | .like true ci a p esc => mkNot (.like false ci (normExpr a) (normExpr p) esc)
  | .like false ci a p esc => .like false ci (normExpr a) (normExpr p) esc
def normExprs : List Expr → List Expr
  | [] => []
  | e :: es => normExpr e :: normExprs es
def normWhens : List (Expr × Expr) → List (Expr × Expr)
  | [] => []
  | (a, b) :: ws => (normExpr a, normExpr b) :: normWhens ws
def normOptExpr : Option Expr → Option Expr
  | none => none
  | some e => some (normExpr e)
end

def normAgg (a : Agg) : Agg := { a with arg := normExpr a.arg, filter := a.filter.map normExpr }

/-- `Limit{skip 0, fetch none}` is the identity -/
def mkLimit (s : Nat) (f : Option Nat) (p : Plan) : Plan :=
  match s, f with
  | 0, none => p
  | s, f => .limit s f p

def normPlan : Plan → Plan
  | .scan n => .scan n
  | .values w rows => .values w rows
  | .filter e p => .filter (normExpr e) (normPlan p)
  | .project es p => .project (es.map normExpr) (normPlan p)
  | .join jt ne on f l r =>
    .join jt ne (on.map (fun ab => (normExpr ab.1, normExpr ab.2))) (f.map normExpr) (normPlan l) (normPlan r)
  | .aggregate ks as p => .aggregate (ks.map normExpr) (as.map normAgg) (normPlan p)
  | .sort ks p => .sort (ks.map (fun k => (normExpr k.1, k.2))) (normPlan p)
  | .limit s f p => mkLimit s f (normPlan p)
  | .setop k all l r => .setop k all (normPlan l) (normPlan r)
  | .distinct p => .distinct (normPlan p)
  | .apply k x i s => .apply k (x.map normExpr) (normPlan i) (normPlan s)

/-- the judge: normalised structural equality -/
def same (p q : Plan) : Bool := beqPlan (normPlan p) (normPlan q)

end DfModel.Judge
