/-
  S-expression codec for L0–L2 (driver side only; never imported by a `Props` module).

    val   := null | (i W s|u n) | (b t|f) | (s x<hex of UTF-8 bytes>)
    ty    := null | (int W s|u) | bool | str
    expr  := (col i) | (outer i) | (lit val) | (ph i) | (bin OP a b) | (not a) | (neg a)
           | (is KIND neg a)                 KIND ∈ null true false unknown ; neg ∈ t f
           | (in neg a e*) | (between neg a lo hi)
           | (case (operand?) ((when then)*) (else?))
           | (coalesce e*) | (nullif a b) | (cast ty try a)
           | (like neg ci a pat (esc-codepoint?))
    OP    := add sub mul div mod eq ne lt le gt ge and or distinct notdistinct concat
    agg   := (FN distinct arg (filter?))     FN ∈ count_star count sum min max
    plan  := (scan name) | (values arity row*) | (filter e p) | (project (e*) p)
           | (join JT nulleq ((l r)*) (filter?) p p)
           | (aggregate (e*) (agg*) p) | (sort ((e desc nullsfirst)*) p)
           | (limit skip (fetch?) p) | (setop union|intersect|except all p p) | (distinct p)
           | (apply KINDS (x?) input sub)    KINDS := exists | scalar | in | (quant OP all)
    JT    := inner left right full leftsemi rightsemi leftanti rightanti leftmark rightmark
    db    := ((name arity (row*))*)
    row   := (val*)
  Answers: `ok (row*)`, `err <class>`, `unsupported`.
-/
import DfModel.Base.Sexp
import DfModel.Sql.Rel
namespace DfModel.Codec
open DfModel

/-! ### UTF-8 -/

def utf8Decode : List Nat → Option (List Char)
  | [] => some []
  | b :: rest =>
    if b < 0x80 then (utf8Decode rest).map (Char.ofNat b :: ·)
    else if b < 0xC0 then none
    else if b < 0xE0 then
      match rest with
      | c :: r => (utf8Decode r).map (Char.ofNat ((b % 32) * 64 + c % 64) :: ·)
      | _ => none
    else if b < 0xF0 then
      match rest with
      | c :: d :: r => (utf8Decode r).map (Char.ofNat ((b % 16) * 4096 + (c % 64) * 64 + d % 64) :: ·)
      | _ => none
    else
      match rest with
      | c :: d :: e :: r =>
        (utf8Decode r).map (Char.ofNat ((b % 8) * 262144 + (c % 64) * 4096 + (d % 64) * 64 + e % 64) :: ·)
      | _ => none

def utf8Encode (cs : List Char) : List Nat :=
  (String.ofList cs).toUTF8.toList.map (·.toNat)

/-! ### values -/

def parseVal : Sexp → Option Val
  | .atom "null" => some .null
  | .list [.atom "i", w, .atom sg, n] => do
    let s ← (if sg == "s" then some true else if sg == "u" then some false else none)
    some (.int (← w.asNat?) s (← n.asInt?))
  | .list [.atom "b", b] => b.asBool?.map .bool
  | .list [.atom "s", .atom h] => do
    let bs ← hexBytes? h
    (utf8Decode bs).map .str
  | _ => none

def showVal : Val → String
  | .null => "null"
  | .int w s n => s!"(i {w} {if s then "s" else "u"} {n})"
  | .bool b => if b then "(b t)" else "(b f)"
  | .str cs => s!"(s {bytesHex (utf8Encode cs)})"

def parseRow (s : Sexp) : Option Row :=
  match s with
  | .list xs => xs.mapM parseVal
  | _ => none

def showRow (r : Row) : String := "(" ++ " ".intercalate (r.map showVal) ++ ")"

def showRows (rs : List Row) : String := "(" ++ " ".intercalate (rs.map showRow) ++ ")"

/-- canonical text of a bag: printed rows sorted as strings -/
def showBag (rs : List Row) : String :=
  "(" ++ " ".intercalate ((rs.map showRow).mergeSort (fun a b => decide (a ≤ b))) ++ ")"

def parseTy : Sexp → Option Ty
  | .atom "null" => some .null
  | .atom "bool" => some .bool
  | .atom "str" => some .str
  | .list [.atom "int", w, .atom sg] => do
    let s ← (if sg == "s" then some true else if sg == "u" then some false else none)
    some (.int (← w.asNat?) s)
  | _ => none

def showTy : Ty → String
  | .null => "null"
  | .bool => "bool"
  | .str => "str"
  | .int w s => s!"(int {w} {if s then "s" else "u"})"

def parseBinOp : String → Option BinOp
  | "add" => some .add | "sub" => some .sub | "mul" => some .mul | "div" => some .div | "mod" => some .mod
  | "eq" => some .eq | "ne" => some .ne | "lt" => some .lt | "le" => some .le | "gt" => some .gt | "ge" => some .ge
  | "and" => some .and | "or" => some .or
  | "distinct" => some .distinct | "notdistinct" => some .notDistinct
  | "concat" => some .concat
  | _ => none

def parseIsKind : String → Option IsKind
  | "null" => some .null | "true" => some .true | "false" => some .false | "unknown" => some .unknown
  | _ => none

/-! ### expressions -/

partial def parseExpr : Sexp → Option Expr
  | .list [.atom "col", i] => i.asNat?.map .col
  | .list [.atom "outer", i] => i.asNat?.map .outer
  | .list [.atom "lit", v] => (parseVal v).map .lit
  | .list [.atom "ph", i] => i.asNat?.map .ph
  | .list [.atom "bin", .atom op, a, b] => do
    some (.bin (← parseBinOp op) (← parseExpr a) (← parseExpr b))
  | .list [.atom "not", a] => (parseExpr a).map .not
  | .list [.atom "neg", a] => (parseExpr a).map .neg
  | .list [.atom "is", .atom k, n, a] => do
    some (.is (← parseIsKind k) (← n.asBool?) (← parseExpr a))
  | .list (.atom "in" :: n :: a :: es) => do
    some (.inList (← n.asBool?) (← parseExpr a) (← es.mapM parseExpr))
  | .list [.atom "between", n, a, lo, hi] => do
    some (.between (← n.asBool?) (← parseExpr a) (← parseExpr lo) (← parseExpr hi))
  | .list [.atom "case", .list op, .list whens, .list els] => do
    let o ← match op with
      | [] => some none
      | [x] => (parseExpr x).map some
      | _ => none
    let ws ← whens.mapM (fun w => match w with
      | .list [c, r] => do some ((← parseExpr c), (← parseExpr r))
      | _ => none)
    let e ← match els with
      | [] => some none
      | [x] => (parseExpr x).map some
      | _ => none
    some (.case o ws e)
  | .list (.atom "coalesce" :: es) => (es.mapM parseExpr).map .coalesce
  | .list [.atom "nullif", a, b] => do some (.nullif (← parseExpr a) (← parseExpr b))
  | .list [.atom "cast", ty, t, a] => do some (.cast (← parseTy ty) (← t.asBool?) (← parseExpr a))
  | .list [.atom "like", n, ci, a, p, .list esc] => do
    let e ← match esc with
      | [] => some none
      | [c] => c.asNat?.map (fun n => some (Char.ofNat n))
      | _ => none
    some (.like (← n.asBool?) (← ci.asBool?) (← parseExpr a) (← parseExpr p) e)
  | _ => none

def parseOptExpr : Sexp → Option (Option Expr)
  | .list [] => some none
  | .list [x] => (parseExpr x).map some
  | _ => none

/-! ### plans -/

def parseJoinType : String → Option JoinType
  | "inner" => some .inner | "left" => some .left | "right" => some .right | "full" => some .full
  | "leftsemi" => some .leftSemi | "rightsemi" => some .rightSemi
  | "leftanti" => some .leftAnti | "rightanti" => some .rightAnti
  | "leftmark" => some .leftMark | "rightmark" => some .rightMark
  | _ => none

def parseAgg : Sexp → Option Agg
  | .list [.atom f, d, a, flt] => do
    let fn ← match f with
      | "count_star" => some AggFn.countStar | "count" => some .count | "sum" => some .sum
      | "min" => some .min | "max" => some .max | _ => none
    some { fn := fn, distinct := (← d.asBool?), arg := (← parseExpr a), filter := (← parseOptExpr flt) }
  | _ => none

def parseSubKind : Sexp → Option SubKind
  | .atom "exists" => some .exists
  | .atom "scalar" => some .scalar
  | .atom "in" => some .inSub
  | .list [.atom "quant", .atom op, all] => do some (.quant (← parseBinOp op) (← all.asBool?))
  | _ => none

partial def parsePlan : Sexp → Option Plan
  | .list [.atom "scan", .atom n] => some (.scan n)
  | .list (.atom "values" :: w :: rows) => do some (.values (← w.asNat?) (← rows.mapM parseRow))
  | .list [.atom "filter", e, p] => do some (.filter (← parseExpr e) (← parsePlan p))
  | .list [.atom "project", .list es, p] => do some (.project (← es.mapM parseExpr) (← parsePlan p))
  | .list [.atom "join", .atom jt, ne, .list on, f, l, r] => do
    let on ← on.mapM (fun x => match x with
      | .list [a, b] => do some ((← parseExpr a), (← parseExpr b))
      | _ => none)
    some (.join (← parseJoinType jt) (← ne.asBool?) on (← parseOptExpr f) (← parsePlan l) (← parsePlan r))
  | .list [.atom "aggregate", .list ks, .list as, p] => do
    some (.aggregate (← ks.mapM parseExpr) (← as.mapM parseAgg) (← parsePlan p))
  | .list [.atom "sort", .list ks, p] => do
    let ks ← ks.mapM (fun x => match x with
      | .list [e, d, nf] => do some ((← parseExpr e), ({ desc := (← d.asBool?), nullsFirst := (← nf.asBool?) } : SortOpt))
      | _ => none)
    some (.sort ks (← parsePlan p))
  | .list [.atom "limit", s, .list f, p] => do
    let f ← match f with
      | [] => some none
      | [n] => n.asNat?.map some
      | _ => none
    some (.limit (← s.asNat?) f (← parsePlan p))
  | .list [.atom "setop", .atom k, all, l, r] => do
    let k ← match k with
      | "union" => some SetKind.union | "intersect" => some .intersect | "except" => some .except | _ => none
    some (.setop k (← all.asBool?) (← parsePlan l) (← parsePlan r))
  | .list [.atom "distinct", p] => (parsePlan p).map .distinct
  | .list [.atom "apply", k, x, i, s] => do
    some (.apply (← parseSubKind k) (← parseOptExpr x) (← parsePlan i) (← parsePlan s))
  | _ => none

def parseDb : Sexp → Option Db
  | .list ts => do
    let ts ← ts.mapM (fun t => match t with
      | .list [.atom n, w, .list rows] => do some (n, (← w.asNat?), (← rows.mapM parseRow))
      | _ => none)
    some { tables := ts }
  | _ => none

def showErr : RtErr → String
  | .div0 => "err div0"
  | .overflow => "err overflow"
  | .cast => "err cast"
  | .card => "err card"
  | .type => "unsupported"

def showValResult : Except RtErr Val → String
  | .ok v => showVal v
  | .error .type => "unsupported"
  | .error .div0 => "err:div0"
  | .error .overflow => "err:overflow"
  | .error .cast => "err:cast"
  | .error .card => "err:card"

end DfModel.Codec
