/-
  DataFrame / LogicalPlanBuilder combinators on the positional `Plan` of Sql/Rel.lean, carrying the
  output column NAMES beside the plan (the names are what the by-name builders look at).
  Core Lean only.  Modelled after datafusion/core/src/dataframe/mod.rs and
  datafusion/expr/src/logical_plan/{builder.rs, plan.rs (Union::try_new_by_name)}:

    select_columns   projection of the named columns, in the order given (unknown name: error)
    drop_columns     projection of the columns whose (unqualified) name is not listed; unknown names
                     are ignored
    with_column_renamed   identity projection with one name changed; a no-op for an unknown name
    with_column      replaces the column of that name in place, else appends the expression
    union_by_name    output names = first occurrences over left ++ right; every input is wrapped
                     in a projection that picks each output column by name, or NULL when absent;
                     then UNION ALL (`union_by_name_distinct` adds DISTINCT)
    distinct_on      first row of every group of `on` keys in the order of the sort keys
-/
import DfModel.Sql.Rel
namespace DfModel.Builder
open DfModel

structure Rel where
  names : List String
  plan : Plan
  deriving Repr, Inhabited

def indexOf? (n : String) : List String → Option Nat
  | [] => none
  | x :: xs => if x = n then some 0 else (indexOf? n xs).map (· + 1)

/-- `col k, col (k+1), …, col (k+m-1)` -/
def idColsFrom (k : Nat) : Nat → List Expr
  | 0 => []
  | m + 1 => .col k :: idColsFrom (k + 1) m

def idCols (n : Nat) : List Expr := idColsFrom 0 n

/-- each target name picked from `names` by name, NULL when absent (`rewrite_inputs_from_schema`) -/
def pickByName (names target : List String) : List Expr :=
  target.map (fun n => match indexOf? n names with
    | some i => .col i
    | none => .lit .null)

/-- `derive_schema_from_inputs_by_name`: first occurrences over all inputs' names -/
def unionNames (l r : List String) : List String := dedup (l ++ r)

def selectColumns (r : Rel) (cols : List String) : Option Rel := do
  let idx ← cols.mapM (fun c => indexOf? c r.names)
  pure { names := cols, plan := .project (idx.map .col) r.plan }

/-- positions (from `k`) of the names that are kept -/
def keptFrom (k : Nat) (drop : List String) : List String → List Nat
  | [] => []
  | n :: ns => if drop.contains n then keptFrom (k + 1) drop ns else k :: keptFrom (k + 1) drop ns

def dropColumns (r : Rel) (cols : List String) : Rel :=
  { names := r.names.filter (fun n => !cols.contains n),
    plan := .project ((keptFrom 0 cols r.names).map .col) r.plan }

def withColumnRenamed (r : Rel) (old new : String) : Rel :=
  if r.names.contains old then
    { names := r.names.map (fun n => if n = old then new else n), plan := .project (idCols r.names.length) r.plan }
  else r

/-- expressions of `with_column`: the existing column of that name is replaced in place -/
def withColumnExprs (k : Nat) (name : String) (e : Expr) : List String → List Expr
  | [] => []
  | n :: ns => (if n = name then e else .col k) :: withColumnExprs (k + 1) name e ns

def withColumn (r : Rel) (name : String) (e : Expr) : Rel :=
  if r.names.contains name then
    { names := r.names, plan := .project (withColumnExprs 0 name e r.names) r.plan }
  else
    { names := r.names ++ [name], plan := .project (idCols r.names.length ++ [e]) r.plan }

def unionByName (a b : Rel) (distinct : Bool := false) : Rel :=
  let ns := unionNames a.names b.names
  let u := Plan.setop .union true (.project (pickByName a.names ns) a.plan) (.project (pickByName b.names ns) b.plan)
  { names := ns, plan := if distinct then .distinct u else u }

/-- first row of every key, in order of first appearance -/
def firstByKey : List (Row × Row) → List (Row × Row)
  | [] => []
  | (k, r) :: rest => (k, r) :: (firstByKey rest).filter (fun kr => !(kr.1 == k))

/-- `DISTINCT ON (on) sel … ORDER BY sort`: sort, keep the first row of every `on` key, project -/
def distinctOnRows (on sel : List Expr) (sort : List (Expr × SortOpt)) (env : Env) (rows : List Row) :
    Except RtErr (List Row) := do
  let sorted ← evalSort sort env rows
  let keyed ← sorted.mapM (fun r => do pure ((← evalExprs on r env), r))
  (firstByKey keyed).mapM (fun kr => evalExprs sel kr.2 env)

end DfModel.Builder
