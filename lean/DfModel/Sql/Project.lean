/-
  C03 — projections over named rows, to state why `optimize_projections`' "same projection twice"
  fast path (`merge_consecutive_projections_one_level`: `prev_projection.expr == expr` → drop the
  outer projection) is only valid for IDEMPOTENT projections.

  A row is an environment `name → value`; a projection item is an output name with an expression
  over the input row; the output row binds exactly the item names (first match wins, like a schema
  lookup).  Two stacked projections with the same item list are `project items ∘ project items`:
  the outer expressions read the OUTPUT of the inner ones.   Core Lean only.
-/
namespace DfModel.Sql.Project

abbrev Env := String → Option Int

structure Item where
  name : String
  expr : Env → Option Int

/-- a plain column reference `c` (its output name is `c`) -/
def col (c : String) : Item := ⟨c, fun env => env c⟩

/-- `SELECT items FROM row` -/
def project (items : List Item) (env : Env) : Env := fun n =>
  match items.find? (fun it => it.name == n) with
  | some it => it.expr env
  | none => none

/-- `x + k AS x` -/
def plusAs (x : String) (k : Int) : Item := ⟨x, fun env => (env x).map (· + k)⟩

end DfModel.Sql.Project
