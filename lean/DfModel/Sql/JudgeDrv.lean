/-
  Driver-side wrapper of the judge (shared by Drv/C35 … C38, C48): parse BEFORE / AFTER / data sets,
  answer
      ok            the two plans are `same` (normalised structural equality — proved sound), or
                    they evaluate to the same bag of rows (or both fail) on every data set of the
                    case (a TEST on the case's data, not a proof)
      bad:differ    the model semantics distinguishes them on one of the data sets
      unsupported   not `same`, and the model cannot evaluate one of them (outside the fragment)
      bad-plan      the request does not parse (an exporter bug — never silently uncovered)
  `kind` gives the finer answer `same | equiv | differ | unsupported` for the coverage statistics.
-/
import DfModel.Sql.Codec
import DfModel.Sql.Judge
namespace DfModel.JudgeDrv
open DfModel DfModel.Codec DfModel.Judge

inductive Verdict where
  | same | equiv | differ | unsupported | badPlan
  deriving DecidableEq, Repr

/-- canonical text of a plan's result on a database; `none`: outside the model -/
def evalShow (p : Plan) (db : Db) : Option String :=
  match evalPlan p db with
  | .ok rows => some ("ok " ++ showBag rows)
  | .error .type => none
  | .error _ => some "err"

def equivOn (p q : Plan) : List Db → Verdict
  | [] => .equiv
  | db :: dbs =>
    match evalShow p db, evalShow q db with
    | some a, some b => if a == b then equivOn p q dbs else .differ
    | _, _ => .unsupported

def verdict (arg : Sexp) : Verdict :=
  match arg with
  | .list [b, a, .list dbs] =>
    match parsePlan b, parsePlan a, dbs.mapM parseDb with
    | some p, some q, some dbs =>
      if same p q then .same
      else if dbs.isEmpty then .differ
      else equivOn p q dbs
    | _, _, _ => .badPlan
  | _ => .badPlan

def judgeAnswer (arg : Sexp) : String :=
  match verdict arg with
  | .same => "ok"
  | .equiv => "ok"
  | .differ => "bad:differ"
  | .unsupported => "unsupported"
  | .badPlan => "bad-plan"

def kindAnswer (arg : Sexp) : String :=
  match verdict arg with
  | .same => "same"
  | .equiv => "equiv"
  | .differ => "differ"
  | .unsupported => "unsupported"
  | .badPlan => "bad-plan"

/-- `eval (plan db)` → the model's result, for exporter-faithfulness spot checks -/
def evalAnswer (arg : Sexp) : String :=
  match arg with
  | .list [p, db] =>
    match parsePlan p, parseDb db with
    | some p, some db =>
      match evalShow p db with
      | some s => s
      | none => "unsupported"
    | _, _ => "bad-plan"
  | _ => "bad-plan"

end DfModel.JudgeDrv
