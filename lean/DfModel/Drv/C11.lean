import DfModel.Base.Sexp
import DfModel.Gen.SR
namespace DfModel.Drv.C11
open DfModel DfModel.Gen.SR

/-- `bucket (v d)` → the bucket computed by the *generated* `partition_indices` model. -/
def handle (op : String) (arg : Sexp) : String :=
  match op, arg.natList? with
  | "bucket", some [v, d] =>
      if d = 0 ∨ d ≥ 2 ^ 64 ∨ v ≥ 2 ^ 64 then "bad-op"
      else toString (partition_indices_bucket (new' d) v)
  | "rem", some [v, d] =>
      if d = 0 ∨ d ≥ 2 ^ 64 ∨ v ≥ 2 ^ 64 then "bad-op"
      else toString (remainder (new' d) v)
  | _, _ => "bad-op"

end DfModel.Drv.C11
