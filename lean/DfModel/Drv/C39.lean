import DfModel.Base.Sexp
import DfModel.Sql.Codec
import DfModel.Sm.MemTable
/-!
  C39 driver.  `run (w u-rows layout stmt*)`:
    layout := (part*)   part := (batch*)   batch := (row*)
    stmt   := (delete (wh?)) | (update ((j expr)*) (wh?))
            | (insert (row*) (batch*))                      -- rows to insert, observed arrival batches
            | (insert-select t|u (expr*) (wh?) (batch*))    -- SELECT list over the source table
  Answer: per statement `<count|err>[|ins-ok|ins-bad]|<layout>` joined by ` ; `.
  INSERT is judged: the bag of the observed new batches must be the bag the statement has to
  insert; the model then applies `MemSink`'s round-robin distribution to the observed batches.
-/
namespace DfModel.Drv.C39
open DfModel DfModel.Codec DfModel.Sm.MemTable

def parseBatch (s : Sexp) : Option Batch :=
  match s with
  | .list rs => rs.mapM parseRow
  | _ => none

def parseBatches (s : Sexp) : Option (List Batch) :=
  match s with
  | .list bs => bs.mapM parseBatch
  | _ => none

def parseLayout (s : Sexp) : Option Layout :=
  match s with
  | .list ps => ps.mapM parseBatches
  | _ => none

inductive Req where
  | plain (s : Stmt)
  | insertRows (rows : List Row) (obs : List Batch)
  | insertSelect (fromT : Bool) (es : List Expr) (wh : Option Expr) (obs : List Batch)

def parseReq : Sexp → Option Req
  | .list [.atom "delete", wh] => do some (.plain (.delete (← parseOptExpr wh)))
  | .list [.atom "update", .list asg, wh] => do
    let asg ← asg.mapM (fun a => match a with
      | .list [j, e] => do some ((← j.asNat?), (← parseExpr e))
      | _ => none)
    some (.plain (.update asg (← parseOptExpr wh)))
  | .list [.atom "insert", rows, obs] => do some (.insertRows (← parseBatch rows) (← parseBatches obs))
  | .list [.atom "insert-select", .atom src, .list es, wh, obs] => do
    some (.insertSelect (src == "t") (← es.mapM parseExpr) (← parseOptExpr wh) (← parseBatches obs))
  | _ => none

def showLayout (l : Layout) : String :=
  "(" ++ " ".intercalate (l.map (fun p => "(" ++ " ".intercalate (p.map showRows) ++ ")")) ++ ")"

/-- does the reference evaluator report an ill-typed expression on any row? (→ `unsupported`) -/
def typeErr (es : List Expr) (rs : List Row) : Bool :=
  es.any (fun e => rs.any (fun r => match eval e r with
    | .error .type => true
    | _ => false))

def stmtExprs : Stmt → List Expr
  | .delete wh => wh.toList
  | .update asg wh => asg.map (·.2) ++ wh.toList
  | .insert _ => []

/-- rows of `INSERT … SELECT es FROM src WHERE wh` (`none` = run-time error) -/
def selectRows (es : List Expr) (wh : Option Expr) (src : List Row) : Option (List Row) := do
  let kept ← match wh with
    | none => some src
    | some e => (evalFilter e {} src).toOption
  (evalProject es {} kept).toOption

def runReqs (w : Nat) (urows : List Row) : Layout → List Req → Option (List String)
  | _, [] => some []
  | l, q :: qs =>
    match q with
    | .plain s =>
      if typeErr (stmtExprs s) (rows l) then none
      else
        let r := step w l s
        let head := match r.2 with
          | some n => toString n
          | none => "err"
        (runReqs w urows r.1 qs).map (fun rest => s!"{head}|{showLayout r.1}" :: rest)
    | .insertRows want obs =>
      let r := step w l (.insert obs)
      let ok := showBag want == showBag obs.flatten
      (runReqs w urows r.1 qs).map (fun rest =>
        s!"{want.length}|{if ok then "ins-ok" else "ins-bad"}|{showLayout r.1}" :: rest)
    | .insertSelect fromT es wh obs =>
      let src := if fromT then rows l else urows
      if typeErr (es ++ wh.toList) src then none
      else
        match selectRows es wh src with
        | none => (runReqs w urows l qs).map (fun rest => s!"err|{showLayout l}" :: rest)
        | some want =>
          let r := step w l (.insert obs)
          let ok := showBag want == showBag obs.flatten
          (runReqs w urows r.1 qs).map (fun rest =>
            s!"{want.length}|{if ok then "ins-ok" else "ins-bad"}|{showLayout r.1}" :: rest)

def handle (op : String) (arg : Sexp) : String :=
  match op, arg with
  | "run", .list (w :: u :: l :: stmts) =>
    match w.asNat?, parseBatch u, parseLayout l, stmts.mapM parseReq with
    | some w, some u, some l, some qs =>
      match runReqs w u l qs with
      | some out => " ; ".intercalate out
      | none => "unsupported"
    | _, _, _, _ => "bad-op"
  | _, _ => "bad-op"

end DfModel.Drv.C39
