import DfModel.Base.Sexp
import DfModel.Mech.Counting
/-!
  C53 driver.
    `count (poll*)`   poll := p | (b n) | e | d            → `<rows>/<batches>/<ended t|f>`
    `wrap tree`       tree := (src n*) | (cnt tree) | (merge tree*) | (rebatch tree) | (limit n tree)
                                                            → `<reported>/<rows>`
                      (`unsupported` when a binding limit sits above a counting point: there the
                       model only gives an upper bound)
    `spill (op*)`     op := (a n ok|fail) | f               → `<out>… <spilled_rows>/<rows in file>/<files>`
-/
namespace DfModel.Drv.C53
open DfModel DfModel.Mech.Counting

def poll? : Sexp → Option Poll
  | .atom "p" => some .pending
  | .atom "e" => some .error
  | .atom "d" => some .done
  | .list [.atom "b", n] => n.asNat?.map .batch
  | _ => none

partial def wrap? : Sexp → Option Wrap
  | .list (.atom "src" :: ns) => (ns.mapM Sexp.asNat?).map .source
  | .list [.atom "cnt", t] => (wrap? t).map .counted
  | .list (.atom "merge" :: ts) => (ts.mapM wrap?).map .merge
  | .list [.atom "rebatch", t] => (wrap? t).map .rebatch
  | .list [.atom "limit", n, t] => do some (.limit (← n.asNat?) (← wrap? t))
  | _ => none

mutual
/-- the model is exact (not only an upper bound) when no binding limit sits above a counting point -/
def exact : Wrap → Bool
  | .source _ => true
  | .counted w => exact w
  | .merge ws => exactL ws
  | .rebatch w => exact w
  | .limit n w => exact w && (uncounted w || decide (rows w ≤ n))
def exactL : List Wrap → Bool
  | [] => true
  | w :: ws => exact w && exactL ws
end

def spillOp? : Sexp → Option SpillOp
  | .atom "f" => some .finish
  | .list [.atom "a", n, .atom "ok"] => n.asNat?.map (.append · .ok)
  | .list [.atom "a", n, .atom "fail"] => n.asNat?.map (.append · .fail)
  | _ => none

def spillShow (s : Spill) : List SpillOp → List String
  | [] => [s!"{s.spilledRows}/{s.fileRows.sum}/{s.spillFiles}"]
  | op :: ops =>
    let r := spillStep s op
    (match r.2 with | .ok => "ok" | .err => "err") :: spillShow r.1 ops

def handle (op : String) (arg : Sexp) : String :=
  match op, arg with
  | "count", .list ps =>
    match ps.mapM poll? with
    | some ps =>
      let m := recordAll Metrics.zero ps
      s!"{m.outputRows}/{m.outputBatches}/{if m.ended then "t" else "f"}"
    | none => "bad-op"
  | "wrap", t =>
    match wrap? t with
    | some w => if exact w then s!"{reported w}/{rows w}" else "unsupported"
    | none => "bad-op"
  | "spill", .list ops =>
    match ops.mapM spillOp? with
    | some ops => " ".intercalate (spillShow Spill.init ops)
    | none => "bad-op"
  | _, _ => "bad-op"

end DfModel.Drv.C53
