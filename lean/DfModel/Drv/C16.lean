import DfModel.Base.Sexp
import DfModel.Sm.SpillPool
namespace DfModel.Drv.C16
open DfModel DfModel.Sm.SpillPool

/-- coarse operations of a sequential caller (each call runs to completion) -/
inductive Op where
  | push (w b sz : Nat) (e : Env)     -- `push_batch` of a non-empty batch
  | pushEmpty (w : Nat)               -- `push_batch` of a 0-row batch: returns Ok at once
  | clone (w : Nat)
  | drop (w : Nat)
  | poll
  /-- `push_batch` started on a thread of its own: region P1 runs; if a file has to be created the
      call stops inside `create_in_progress_file` (no lock held), otherwise it completes -/
  | pushBegin (w b sz : Nat) (e : Env)
  /-- the stopped call of `w` runs to completion -/
  | pushCont (w : Nat) (e : Env)

def parseOp : Sexp → Option Op
  | .list [.atom "push", w, b, sz, c, a, f] => do
      some (.push (← w.asNat?) (← b.asNat?) (← sz.asNat?) ⟨← c.asBool?, ← a.asBool?, ← f.asBool?⟩)
  | .list [.atom "pushb", w, b, sz, c, a, f] => do
      some (.pushBegin (← w.asNat?) (← b.asNat?) (← sz.asNat?) ⟨← c.asBool?, ← a.asBool?, ← f.asBool?⟩)
  | .list [.atom "pushc", w, c, a, f] => do
      some (.pushCont (← w.asNat?) ⟨← c.asBool?, ← a.asBool?, ← f.asBool?⟩)
  | .list [.atom "pushe", w] => w.asNat?.map .pushEmpty
  | .list [.atom "clone", w] => w.asNat?.map .clone
  | .list [.atom "drop", w] => w.asNat?.map .drop
  | .list [.atom "poll"] => some .poll
  | _ => none

def showPoll : Option Poll → String
  | some (.batch b) => s!"b{b}"
  | some .pending => "pending"
  | some .eos => "eos"
  | none => "none"

/-- the op is one a sequential caller can issue: the sink exists, is alive and not inside a call -/
def idleW (s : St) (w : Nat) : Bool := decide (w < s.nw) && (s.wpc w == .idle)

/-- apply one coarse op; `none` = the op is not possible here -/
def apply (fixed : Bool) (s : St) : Op → Option (St × String)
  | .push w b sz e =>
    if idleW s w then
      let s' := pushAtomic fixed s w b sz e
      if s'.wpc w == .idle then
        some (s', match s'.wres w with | some true => "ok" | some false => "err" | none => "none")
      else none
    else none
  | .pushBegin w b sz e =>
    if idleW s w then
      let s1 := step fixed s (.push w b sz)
      match s1.wpc w with
      | .creating _ _ => some (s1, "gate")
      | _ =>
        let s' := run fixed s1 [.append w e.appendOk e.finishOk, .giveBack w]
        if s'.wpc w == .idle then
          some (s', match s'.wres w with | some true => "ok" | some false => "err" | none => "none")
        else none
    else none
  | .pushCont w e =>
    if decide (w < s.nw) then
      match s.wpc w with
      | .creating _ _ =>
        let s' := run fixed s [.create w e.createOk, .append w e.appendOk e.finishOk, .giveBack w]
        if s'.wpc w == .idle then
          some (s', match s'.wres w with | some true => "ok" | some false => "err" | none => "none")
        else none
      | _ => none
    else none
  | .pushEmpty w => if idleW s w then some (s, "ok") else none
  | .clone w =>
    -- by any thread holding `&w`, also while a push of `w` is stopped
    if decide (w < s.nw) && alive (s.wpc w) then some (step fixed s (.clone w), "ok") else none
  | .drop w =>
    if idleW s w then
      let s' := dropAtomic fixed s w
      if s'.wpc w == .gone then some (s', "ok") else none
    else none
  | .poll =>
    if s.rpc == .idle then
      let s' := pollAtomic s
      if s'.rpc == .idle then some (s', showPoll s'.last) else none
    else none

/-- per op: `<result>/<w if the task's waker has been woken since the last poll began, else ->/<files created>` -/
def runShow (fixed : Bool) (showFiles : Bool) (s : St) : List Op → Option (List String)
  | [] => some []
  | op :: ops =>
    match apply fixed s op with
    | none => none
    | some (s', r) =>
      let files := if showFiles then toString s'.nfiles else "_"
      match runShow fixed showFiles s' ops with
      | none => none
      | some rest => some (s!"{r}/{if s'.woken then "w" else "-"}/{files}" :: rest)

def handleRun (fixed : Bool) (arg : Sexp) : String :=
  match arg with
  | .list (mx :: .atom mode :: ops) =>
    match mx.asNat?, ops.mapM parseOp with
    | some m, some os =>
      match runShow fixed (mode == "mem") (init m) os with
      | some out => " ".intercalate out
      | none => "bad-op"
    | _, _ => "bad-op"
  | _ => "bad-op"

/-- `run (max mode op*)`: the repaired code (what /repo contains).  `run0`: the pinned upstream
    error paths (diagnostic only; never sent by the harness). -/
def handle (op : String) (arg : Sexp) : String :=
  match op with
  | "run" => handleRun true arg
  | "run0" => handleRun false arg
  | _ => "bad-op"

end DfModel.Drv.C16
