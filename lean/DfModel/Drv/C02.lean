import DfModel.Base.Sexp
import DfModel.Sql.Codec
import DfModel.Mech.Partitioned
import DfModel.Drv.C01
/-!
  C02 driver.
  `query (<mode> <plan> <db> <impl>)`   the engine's result under one configuration, judged against
                                        the Lean reference exactly as in C01 (`bag` / `seq` / `sorted`).
  `twostage (<fn> (<partition of values>*))`   the model's two-stage aggregate vs its single-stage
                                        aggregate on a split produced by the harness (a run-time test
                                        of `agg_two_stage_statement` for SUM / MIN / MAX): answers
                                        `ok <value>` when both agree, `bad:<two-stage>/<single>` otherwise.
-/
namespace DfModel.Drv.C02
open DfModel DfModel.Codec DfModel.Mech.Partitioned

def parseFn : String → Option AggFn
  | "count" => some .count | "sum" => some .sum | "min" => some .min | "max" => some .max
  | _ => none

def handle (op : String) (arg : Sexp) : String :=
  match op, arg with
  | "query", a => DfModel.Drv.C01.handle "query" a
  | "twostage", .list [.atom f, .list parts] =>
    match parseFn f, parts.mapM parseRow with
    | some fn, some ps =>
      let a := twoStage fn ps
      let b := aggVals fn false ps.flatten.length ps.flatten
      if a == b then "ok " ++ showValResult a else s!"bad:{showValResult a}/{showValResult b}"
    | _, _ => "bad-op"
  | _, _ => "bad-op"

end DfModel.Drv.C02
