import DfModel.Base.Sexp
import DfModel.Sql.Codec
import DfModel.Mech.Partitioned
import DfModel.Drv.C01
/-!
  C02 driver.
  `common (<mode> <plan> <db> <impl>)`  the result all configurations agree on, judged against the Lean
                                        reference as in C01 (`bag` / `seq` / `sorted`); a deviation from
                                        the reference that is the same under every configuration is
                                        answered `unsupported` (C01's matter).
  `deviating (<mode> <plan> <db> <impl>)`  a result that differs from the baseline configuration's.
  `twostage (<fn> (<partition of values>*))`   the model's two-stage aggregate vs its single-stage
                                        aggregate on a split produced by the harness (a run-time test
                                        of `agg_two_stage_statement` for SUM / MIN / MAX): answers
                                        `ok <value>` when both agree, `bad:<two-stage>/<single>` otherwise.
-/
namespace DfModel.Drv.C02
open DfModel DfModel.Codec DfModel.Mech.Partitioned

def parseFn : String → Option AggFn
  | "count" => some .count | "sum" => some .sum | "min" => some .min | "max" => some .max
  | _ => none

def handle (op : String) (arg : Sexp) : String :=
  match op, arg with
  | "deviating", a => DfModel.Drv.C01.handle "query" a
  | "common", a =>
    -- the result every configuration agrees on: if it deviates from the reference, that is a
    -- question of C01 (reference vs engine), not of configuration independence — uncovered here
    let r := DfModel.Drv.C01.handle "query" a
    if r.startsWith "bad:" then "unsupported" else r
  | "twostage", .list [.atom f, .list parts] =>
    match parseFn f, parts.mapM parseRow with
    | some fn, some ps =>
      let a := twoStage fn ps
      let b := aggVals fn false ps.flatten.length ps.flatten
      if a == b then "ok " ++ showValResult a else s!"bad:{showValResult a}/{showValResult b}"
    | _, _ => "bad-op"
  | _, _ => "bad-op"

end DfModel.Drv.C02
