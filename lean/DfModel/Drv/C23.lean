import DfModel.Base.Sexp
import DfModel.Mech.Interval
/-!
  C23 driver.  Refinement judge: the request carries the implementation's answer; the model
  computes its own and answers `ok` iff  γ(model answer) ⊆ γ(implementation answer)
  (the implementation may be wider / keep more), else `bad:<model answer>`.

  atoms:  type `i8|i16|i32|i64|u8|u16|u32|u64`; endpoint `n` (NULL) or an integer;
          interval `(lo hi)`; boolean interval `(f t)`; absent result `none`; error `err`.
-/
namespace DfModel.Drv.C23
open DfModel DfModel.Mech.Interval

def parseTy : Sexp → Option Ty
  | .atom "i8" => some (Ty.ofBits false 8)
  | .atom "i16" => some (Ty.ofBits false 16)
  | .atom "i32" => some (Ty.ofBits false 32)
  | .atom "i64" => some (Ty.ofBits false 64)
  | .atom "u8" => some (Ty.ofBits true 8)
  | .atom "u16" => some (Ty.ofBits true 16)
  | .atom "u32" => some (Ty.ofBits true 32)
  | .atom "u64" => some (Ty.ofBits true 64)
  | _ => none

def parseBound : Sexp → Option (Option Int)
  | .atom "n" => some none
  | s => s.asInt?.map some

def parseIv : Sexp → Option Iv
  | .list [l, h] => do some ⟨← parseBound l, ← parseBound h⟩
  | _ => none

def parseBIv : Sexp → Option BIv
  | .list [l, h] => do some ⟨← l.asBool?, ← h.asBool?⟩
  | _ => none

def parseOptIv : Sexp → Option (Option Iv)
  | .atom "none" => some none
  | s => (parseIv s).map some

def parseOptPair : Sexp → Option (Option (Iv × Iv))
  | .atom "none" => some none
  | .list [a, b] => do some (some (← parseIv a, ← parseIv b))
  | _ => none

def parseAOp : Sexp → Option AOp
  | .atom "add" => some .add
  | .atom "sub" => some .sub
  | .atom "mul" => some .mul
  | .atom "div" => some .div
  | _ => none

def parseCOp : Sexp → Option COp
  | .atom "eq" => some .eq
  | .atom "gt" => some .gt
  | .atom "ge" => some .gtEq
  | .atom "lt" => some .lt
  | .atom "le" => some .ltEq
  | _ => none

def showBound : Option Int → String
  | none => "n"
  | some v => toString v

def showIv (a : Iv) : String := s!"({showBound a.lo} {showBound a.hi})"
def showB (b : Bool) : String := if b then "t" else "f"
def showBIv (a : BIv) : String := s!"({showB a.lo} {showB a.hi})"
def showOptIv : Option Iv → String
  | none => "none"
  | some a => showIv a
def showOptPair : Option (Iv × Iv) → String
  | none => "none"
  | some (a, b) => s!"({showIv a} {showIv b})"

def judgeIv (t : Ty) (m r : Iv) : String :=
  if subset t m r then "ok" else s!"bad:{showIv m}"

def judgeBIv (m r : BIv) : String :=
  if bsubset m r then "ok" else s!"bad:{showBIv m}"

def judgeOptIv (t : Ty) (m r : Option Iv) : String :=
  match m with
  | none => "ok"
  | some a =>
    if isEmpty t a then "ok"
    else match r with
      | some b => if subset t a b then "ok" else s!"bad:{showIv a}"
      | none => s!"bad:{showIv a}"

def judgeOptPair (t : Ty) (m r : Option (Iv × Iv)) : String :=
  match m with
  | none => "ok"
  | some (a, b) =>
    if isEmpty t a || isEmpty t b then "ok"
    else match r with
      | some (a', b') =>
        if subset t a a' && subset t b b' then "ok" else s!"bad:{showOptPair m}"
      | none => s!"bad:{showOptPair m}"

def handle (op : String) (arg : Sexp) : String :=
  match op, arg with
  | _, .list [_, _, _, .atom "err"] => "unsupported"
  | _, .list [_, _, _, _, .atom "err"] => "unsupported"
  | _, .list [_, _, _, _, _, .atom "err"] => "unsupported"
  | "arith", .list [ty, o, a, b, r] =>
    match parseTy ty, parseAOp o, parseIv a, parseIv b, parseIv r with
    | some t, some o, some a, some b, some r => judgeIv t (applyArith Cfg.current t o a b) r
    | _, _, _, _, _ => "bad-op"
  | "cmp", .list [_ty, o, a, b, r] =>
    match parseCOp o, parseIv a, parseIv b, parseBIv r with
    | some o, some a, some b, some r => judgeBIv (applyCmp o a b) r
    | _, _, _, _ => "bad-op"
  | "bool", .list [.atom "and", a, b, r] =>
    match parseBIv a, parseBIv b, parseBIv r with
    | some a, some b, some r => judgeBIv (band a b) r
    | _, _, _ => "bad-op"
  | "bool", .list [.atom "or", a, b, r] =>
    match parseBIv a, parseBIv b, parseBIv r with
    | some a, some b, some r => judgeBIv (bor a b) r
    | _, _, _ => "bad-op"
  | "bool", .list [.atom "not", a, r] =>
    match parseBIv a, parseBIv r with
    | some a, some r => judgeBIv (bnot a) r
    | _, _ => "bad-op"
  | "isect", .list [ty, a, b, r] =>
    match parseTy ty, parseIv a, parseIv b, parseOptIv r with
    | some t, some a, some b, some r => judgeOptIv t (intersect a b) r
    | _, _, _, _ => "bad-op"
  | "union", .list [ty, a, b, r] =>
    match parseTy ty, parseIv a, parseIv b, parseIv r with
    | some t, some a, some b, some r => judgeIv t (union a b) r
    | _, _, _, _ => "bad-op"
  | "contains", .list [_ty, a, b, r] =>
    match parseIv a, parseIv b, parseBIv r with
    | some a, some b, some r => judgeBIv (contains a b) r
    | _, _, _ => "bad-op"
  | "sg", .list [ty, s, a, b, r] =>
    match parseTy ty, s.asBool?, parseIv a, parseIv b, parseOptPair r with
    | some t, some s, some a, some b, some r => judgeOptPair t (satisfyGreater t a b s) r
    | _, _, _, _, _ => "bad-op"
  | "pc", .list [ty, o, p, a, b, r] =>
    match parseTy ty, parseCOp o, parseBIv p, parseIv a, parseIv b, parseOptPair r with
    | some t, some o, some p, some a, some b, some r =>
      judgeOptPair t (propagateComparison Cfg.current t o p a b) r
    | _, _, _, _, _, _ => "bad-op"
  | "pa", .list [ty, o, p, a, b, r] =>
    match parseTy ty, parseAOp o, parseIv p, parseIv a, parseIv b, parseOptPair r with
    | some t, some o, some p, some a, some b, some r =>
      judgeOptPair t (propagateArithmetic Cfg.current t o p a b) r
    | _, _, _, _, _, _ => "bad-op"
  | _, _ => "bad-op"

end DfModel.Drv.C23
