import DfModel.Base.Sexp
import DfModel.Text.Split
import DfModel.Text.Csv
import DfModel.Text.Json
namespace DfModel.Drv.C51
open DfModel DfModel.Text

def showPieces (ps : List (List Char)) : String :=
  if ps.isEmpty then "-" else " ".intercalate (ps.map charsSexp)

def cell? : Sexp → Option (Option (List Char))
  | .atom "n" => some none
  | x => x.asChars?.map some

def rows? : Sexp → Option (List (List (Option (List Char))))
  | .list rs => rs.mapM fun r => match r with
    | .list cs => cs.mapM cell?
    | _ => none
  | _ => none

def showRows (rows : List (List (List Char))) : String :=
  "(" ++ " ".intercalate (rows.map fun r => "(" ++ " ".intercalate (r.map charsSexp) ++ ")") ++ ")"

/-- ops
  `split <chars>`            split_from_semicolon        → pieces
  `spec <chars>`             specification lexer          → pieces
  `csv (<delim> (<row>…))`   arrow-csv writer on string/NULL cells (cell = `n` | <chars>) → text
  `csvdec (<delim> <chars>)` reference reader             → rows
  `jstr <chars>`             JSON string encoding         → text
  `jdec <chars>`             reference JSON string decoder → `<chars> <#chars left>` | `none`
-/
def handle (op : String) (arg : Sexp) : String :=
  match op, arg with
  | "split", a => match a.asChars? with
    | some s => showPieces (Split.splitFromSemicolon s) | none => "bad-op"
  | "spec", a => match a.asChars? with
    | some s => showPieces (Split.specSplit s) | none => "bad-op"
  | "csv", .list [d, rs] => match d.asNat?, rows? rs with
    | some d, some rows => charsSexp (Csv.encodeCells (Char.ofNat d) rows)
    | _, _ => "bad-op"
  | "csvdec", .list [d, t] => match d.asNat?, t.asChars? with
    | some d, some t => showRows (Csv.decodeRecords (Char.ofNat d) t)
    | _, _ => "bad-op"
  | "jstr", a => match a.asChars? with
    | some s => charsSexp (Json.encodeString s) | none => "bad-op"
  | "jdec", a => match a.asChars? with
    | some s => match Json.decodeString s with
      | some (v, r) => s!"{charsSexp v} {r.length}"
      | none => "none"
    | none => "bad-op"
  | _, _ => "bad-op"

end DfModel.Drv.C51
