import DfModel.Base.Sexp
import DfModel.Sql.Codec
import DfModel.Sql.Typing
/-!
  C30 driver.  `schema (<plan> <tdb> <impl-schema>)`
     tdb          := ((name ((ty nullable)*))*)           declared table schemas
     impl-schema  := ((ty nullable)*)                     `DataFrame::schema()` of the real plan
                     ty as in Codec (`null | (int W s|u) | bool | str`), or `other`
  Judge (refinement): the model's `schemaOf` must give the same column count and types, and
  wherever the implementation declares a column NOT NULL the model must declare it NOT NULL too
  (then `type_sound` / `plan_schema_sound` cover the implementation's claim).
  Answers: `ok`, `bad:<col> …`, `unsupported` (type outside the model, model cannot type the plan,
  or the only difference is a searched CASE whose nullability the code derives by predicate
  analysis that is not modelled).
-/
namespace DfModel.Drv.C30
open DfModel DfModel.Codec

def parseField : Sexp → Option (Option Ty × Bool)
  | .list [.atom "other", n] => do some (none, (← n.asBool?))
  | .list [t, n] => do some (some (← parseTy t), (← n.asBool?))
  | _ => none

def parseSchema : Sexp → Option (List (Option Ty × Bool))
  | .list fs => fs.mapM parseField
  | _ => none

def parseTDb : Sexp → Option TDb
  | .list ts => ts.mapM (fun t => match t with
    | .list [.atom n, s] => do
      let fs ← parseSchema s
      let fs ← fs.mapM (fun f => f.1.map (fun t => (t, f.2)))
      some (n, fs)
    | _ => none)
  | _ => none

/-- does the request contain a searched CASE `(case () …)`? -/
partial def hasSearchedCase : Sexp → Bool
  | .list (.atom "case" :: .list [] :: _) => true
  | .list xs => xs.any hasSearchedCase
  | .atom _ => false

def showField (t : Ty × Bool) : String := s!"({showTy t.1} {if t.2 then "t" else "f"})"

def judge (searched : Bool) (model : Schema) (impl : List (Option Ty × Bool)) : String :=
  if model.length != impl.length then s!"bad:arity model={model.length} impl={impl.length}"
  else
    let rec go (i : Nat) : List (Ty × Bool) → List (Option Ty × Bool) → String
      | m :: ms, f :: fs =>
        match f.1 with
        | none => "unsupported"
        | some it =>
          if m.1 != Ty.null && it != Ty.null && it != m.1 then s!"bad:type col {i} model={showTy m.1} impl={showTy it}"
          else if !f.2 && m.2 then
            (if searched then "unsupported" else s!"bad:nullability col {i}: implementation declares NOT NULL, model {showField m}")
          else go (i + 1) ms fs
      | _, _ => "ok"
    go 0 model impl

def handle (op : String) (arg : Sexp) : String :=
  match op, arg with
  | "schema", .list [plan, tdb, impl] =>
    match parsePlan plan, parseTDb tdb, parseSchema impl with
    | some p, some Δ, some fs =>
      match schemaOf p Δ with
      | .ok Γ => judge (hasSearchedCase plan) Γ fs
      | .error _ => "unsupported"
    | _, _, _ => "bad-op"
  | _, _ => "bad-op"

end DfModel.Drv.C30
