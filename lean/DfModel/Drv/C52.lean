import DfModel.Base.Sexp
import DfModel.Text.Ident
namespace DfModel.Drv.C52
open DfModel DfModel.Text.Ident

def showRef : TableRef → String
  | .bare t => s!"bare {charsSexp t}"
  | .part s t => s!"part {charsSexp s} {charsSexp t}"
  | .full c s t => s!"full {charsSexp c} {charsSexp s} {charsSexp t}"

def showCol (c : Column) : String :=
  match c.relation with
  | none => s!"col {charsSexp c.name}"
  | some r => s!"col {charsSexp c.name} of {showRef r}"

def refOf? (x : Sexp) : Option TableRef :=
  match x with
  | .list [t] => do some (.bare (← t.asChars?))
  | .list [s, t] => do some (.part (← s.asChars?) (← t.asChars?))
  | .list [c, s, t] => do some (.full (← c.asChars?) (← s.asChars?) (← t.asChars?))
  | _ => none

def colOf? (x : Sexp) : Option Column :=
  match x with
  | .list [.atom "none", n] => do some ⟨none, ← n.asChars?⟩
  | .list [r, n] => do some ⟨some (← refOf? r), ← n.asChars?⟩
  | _ => none

def orUnsup (f : α → String) : Option α → String
  | some a => f a
  | none => "unsupported"

/-- ops
  `quote <chars>`            quote_identifier
  `tq (<chars>…)`            TableReference::to_quoted_string   (1–3 parts)
  `disp (<chars>…)`          Display
  `parse <chars>`            TableReference::parse_str
  `parseic <chars>`          TableReference::parse_str_normalized(_, true)
  `rt (<chars>…)`            parse_str(to_quoted_string(r))
  `cq (none|(parts) name)`   Column::quoted_flat_name
  `cf (…)`                   Column::flat_name
  `cparse <chars>`           Column::from_qualified_name
  `cparseic <chars>`         Column::from_qualified_name_ignore_case
  `crt (…)`                  from_qualified_name(quoted_flat_name(c))
-/
def handle (op : String) (arg : Sexp) : String :=
  match op with
  | "quote" => match arg.asChars? with
    | some s => charsSexp (quoteIdentifier s) | none => "bad-op"
  | "tq" => match refOf? arg with
    | some r => charsSexp r.toQuotedString | none => "bad-op"
  | "disp" => match refOf? arg with
    | some r => charsSexp r.display | none => "bad-op"
  | "parse" => match arg.asChars? with
    | some s => orUnsup showRef (parseStr s) | none => "bad-op"
  | "parseic" => match arg.asChars? with
    | some s => orUnsup showRef (parseStrNormalized s true) | none => "bad-op"
  | "rt" => match refOf? arg with
    | some r => orUnsup showRef (parseStr r.toQuotedString) | none => "bad-op"
  | "cq" => match colOf? arg with
    | some c => charsSexp c.quotedFlatName | none => "bad-op"
  | "cf" => match colOf? arg with
    | some c => charsSexp c.flatName | none => "bad-op"
  | "cparse" => match arg.asChars? with
    | some s => orUnsup showCol (fromQualifiedName s false) | none => "bad-op"
  | "cparseic" => match arg.asChars? with
    | some s => orUnsup showCol (fromQualifiedName s true) | none => "bad-op"
  | "crt" => match colOf? arg with
    | some c => orUnsup showCol (fromQualifiedName c.quotedFlatName false) | none => "bad-op"
  | _ => "bad-op"

end DfModel.Drv.C52
