import DfModel.Base.Sexp
import DfModel.Mech.PartPrune
namespace DfModel.Drv.C27
open DfModel DfModel.Text.Percent DfModel.Text.Hive DfModel.Mech.PartPrune
open DfModel.Mech.Demux (Cell Ty)

def hexOf? : Sexp → Option Bytes
  | .atom a => hexBytes? a
  | _ => none

def parseLit? : Sexp → Option (Option Cell)
  | .atom "N" => some none
  | .list [.atom "s", .atom h] => (hexBytes? h).map (fun b => some (.str b))
  | .list [.atom "i", n] => n.asInt?.map (fun i => some (.int i))
  | _ => none

def parseOp? : String → Option CmpOp
  | "eq" => some .eq | "ne" => some .ne | "lt" => some .lt | "le" => some .le
  | "gt" => some .gt | "ge" => some .ge | _ => none

partial def parseFilter? : Sexp → Option Filter
  | .list [.atom "cmp", .atom op, c, l] => do some (.cmp (← parseOp? op) (← hexOf? c) (← parseLit? l))
  | .list [.atom "cmpr", .atom op, l, c] => do some (.cmpR (← parseOp? op) (← parseLit? l) (← hexOf? c))
  | .list [.atom "and", l, r] => do some (.and (← parseFilter? l) (← parseFilter? r))
  | .list [.atom "or", l, r] => do some (.or (← parseFilter? l) (← parseFilter? r))
  | .list [.atom "not", f] => do some (.not (← parseFilter? f))
  | .list [.atom "isnull", c] => do some (.isNull (← hexOf? c))
  | .list [.atom "isnotnull", c] => do some (.isNotNull (← hexOf? c))
  | _ => none

def parseCols? : Sexp → Option (List (Bytes × Ty))
  | .list xs => xs.mapM (fun x => match x with
      | .list [c, .atom "utf8"] => do some (← hexOf? c, Ty.utf8)
      | .list [c, .atom "int"] => do some (← hexOf? c, Ty.int)
      | _ => none)
  | _ => none

/-- file `(size x<seg> …)` -/
def parseFiles? : Sexp → Option (List File)
  | .list xs => xs.mapM (fun x => match x with
      | .list (sz :: segs) => do some { segs := ← segs.mapM hexOf?, size := ← sz.asNat? }
      | _ => none)
  | _ => none

def showPath (segs : List Bytes) : String := "/".intercalate (segs.map bytesHex)

/--
  `prefix (cols filters)` → `none` | segments of the listing prefix (equality with `evaluate_partition_prefix`)
  `prune (cols filters files returned)` → judge (refinement): `ok` iff  required ⊆ returned ⊆ files
-/
def handle (op : String) (arg : Sexp) : String :=
  match op, arg with
  | "prefix", .list [cols, .list fs] =>
    match parseCols? cols, fs.mapM parseFilter? with
    | some cols, some fs =>
      match evaluatePartitionPrefix (cols.map (·.1)) fs with
      | none => "none"
      | some p => showPath p
    | _, _ => "bad-op"
  | "prune", .list [cols, .list fs, files, returned] =>
    match parseCols? cols, fs.mapM parseFilter?, parseFiles? files, parseFiles? returned with
    | some cols, some fs, some files, some ret =>
      let req := required cols fs files
      match req.find? (fun f => !ret.contains f) with
      | some f => "bad:missing:" ++ showPath f.segs
      | none =>
        -- refinement: returning MORE files is allowed, inventing files is not
        match ret.find? (fun f => !files.contains f) with
        | some f => "bad:invented:" ++ showPath f.segs
        | none => "ok"
    | _, _, _, _ => "bad-op"
  | _, _ => "bad-op"

end DfModel.Drv.C27
