import DfModel.Base.Sexp
import DfModel.Sql.Coerce
namespace DfModel.Drv.C47
open DfModel DfModel.Tbl DfModel.Gen.CoercionTbl DfModel.Gen.OperatorTbl DfModel.Sql.Coerce

/-- `Int8` … or `(Decimal128 p s)` -/
def type? : Sexp → Option DataType
  | .atom a => DataType.ofName? a
  | .list [.atom "Decimal128", p, s] => do
    let p ← p.asNat?
    let s ← s.asInt?
    -- negative scales are outside the cast model (`castVal` answers an error there): not comparable
    if s < 0 then none else pure (.Decimal128 p s)
  | _ => none

def typeStr : Option DataType → String
  | none => "none"
  | some t => t.name

def handle (op : String) (arg : Sexp) : String :=
  match op, arg with
  | "tbl", .list (.atom fn :: args) =>
    match args.mapM Sexp.asAtom? with
    | some as =>
      match DfModel.Gen.CoercionTbl.eval fn as with
      | some r => r
      | none => (DfModel.Gen.OperatorTbl.eval fn as).getD "bad-op"
    | none => "bad-op"
  | "coerce", .list [l, r] =>
    match type? l, type? r with
    | some l, some r => typeStr (cmpCoerce l r)
    | _, _ => "unsupported"
  | "cmp", .list [.atom o, l, r, xu, xs, yu, ys] =>
    match Operator.ofName? o, type? l, type? r, xu.asInt?, xs.asNat?, yu.asInt?, ys.asNat? with
    | some o, some l, some r, some xu, some xs, some yu, some ys =>
      match engineCmp o l r ⟨xu, xs⟩ ⟨yu, ys⟩ with
      | none => "err"
      | some b => show_ b
    | _, _, _, _, _, _, _ => "unsupported"
  | _, _ => "bad-op"

end DfModel.Drv.C47
