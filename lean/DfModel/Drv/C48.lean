import DfModel.Base.Sexp
import DfModel.Sql.JudgeDrv
namespace DfModel.Drv.C48
open DfModel

/-- `judge (before after (db*))` → ok | bad:differ | unsupported | bad-plan  (see Sql/JudgeDrv.lean);
    `kind` gives same | equiv | differ | unsupported for the coverage statistics -/
def handle (op : String) (arg : Sexp) : String :=
  match op with
  | "judge" => JudgeDrv.judgeAnswer arg
  | "kind" => JudgeDrv.kindAnswer arg
  | "eval" => JudgeDrv.evalAnswer arg
  | _ => "bad-op"

end DfModel.Drv.C48
