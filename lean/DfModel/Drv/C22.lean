import DfModel.Base.Sexp
import DfModel.Mech.Pruning
/-!
  C22 driver.
  `prune (expr (container*) (k|s *))`  refinement judge: `ok` iff every container the
        implementation skipped (`s`) is skipped by the model too; else `bad:<index>:<model bits>`.
  `eval (expr (row*))`                 row-by-row semantics, one of `t f n` per row (equality).
  container = `((ic (min max nulls)*) (bc (min max)*) rows)`, row = `((int*) (bool*))`, `n` = NULL/unknown.
-/
namespace DfModel.Drv.C22
open DfModel DfModel.Mech.Pruning

def pInt? : Sexp → Option (Option Int)
  | .atom "n" => some none
  | s => s.asInt?.map some

def pNat? : Sexp → Option (Option Nat)
  | .atom "n" => some none
  | s => s.asNat?.map some

def pB? : Sexp → Option (Option Bool)
  | .atom "n" => some none
  | .atom "t" => some (some true)
  | .atom "f" => some (some false)
  | _ => none

def pCmp : Sexp → Option Cmp
  | .atom "eq" => some .eq
  | .atom "ne" => some .ne
  | .atom "lt" => some .lt
  | .atom "le" => some .le
  | .atom "gt" => some .gt
  | .atom "ge" => some .ge
  | _ => none

partial def pExpr : Sexp → Option Expr
  | .list [.atom "lit", b] => (pB? b).map .lit
  | .list [.atom "cmp", o, c, l] => do some (.cmp (← pCmp o) (← c.asNat?) (← pInt? l))
  | .list [.atom "cmpr", o, l, c] => do some (.cmpR (← pCmp o) (← pInt? l) (← c.asNat?))
  | .list [.atom "cc", o, a, b] => do some (.cmpCC (← pCmp o) (← a.asNat?) (← b.asNat?))
  | .list [.atom "isnull", c] => c.asNat?.map .isNull
  | .list [.atom "isnotnull", c] => c.asNat?.map .isNotNull
  | .list [.atom "bcol", c] => c.asNat?.map .bcol
  | .list [.atom "not", e] => (pExpr e).map .not
  | .list [.atom "and", a, b] => do some (.and (← pExpr a) (← pExpr b))
  | .list [.atom "or", a, b] => do some (.or (← pExpr a) (← pExpr b))
  | .list [.atom "distinct", neg, c, l] => do
    some (.distinct (← neg.asBool?) (← c.asNat?) (← pInt? l))
  | .list [.atom "in", c, .list ls, neg] => do
    some (.inList (← c.asNat?) (← ls.mapM pInt?) (← neg.asBool?))
  | _ => none

def pColStats : Sexp → Option ColStats
  | .list [a, b, c] => do some ⟨← pInt? a, ← pInt? b, ← pNat? c⟩
  | _ => none

def pBColStats : Sexp → Option BColStats
  | .list [a, b] => do some ⟨← pB? a, ← pB? b⟩
  | _ => none

def pContainer : Sexp → Option CStats
  | .list [.list (.atom "ic" :: ics), .list (.atom "bc" :: bcs), rows] => do
    let ic ← ics.mapM pColStats
    let bc ← bcs.mapM pBColStats
    let r ← pNat? rows
    some { ic := fun i => (ic[i]?).getD ⟨none, none, none⟩,
           bc := fun i => (bc[i]?).getD ⟨none, none⟩, rows := r }
  | _ => none

def pRow : Sexp → Option Row
  | .list [.list is, .list bs] => do
    let iv ← is.mapM pInt?
    let bv ← bs.mapM pB?
    some { iv := fun i => (iv[i]?).getD none, bv := fun i => (bv[i]?).getD none }
  | _ => none

def show3 : Option Bool → String
  | some true => "t"
  | some false => "f"
  | none => "n"

def handle (op : String) (arg : Sexp) : String :=
  match op, arg with
  | _, .list (.list (.atom "unsupported" :: _) :: _) => "unsupported"
  | "prune", .list [e, .list cs, .list bits] =>
    match pExpr e, cs.mapM pContainer with
    | some e, some cs =>
      let se := prunePred e
      let model := cs.map (fun c => keep se c)
      let impl := bits.map (fun b => b != Sexp.atom "s")
      if impl.length != model.length then "bad-op"
      else
        -- refinement: impl skip ⇒ model skip
        match (List.zip impl model).findIdx? (fun (i, m) => !i && m) with
        | none => "ok"
        | some k => s!"bad:{k}:" ++ String.ofList (model.map (fun m => if m then 'k' else 's'))
    | _, _ => "bad-op"
  | "eval", .list [e, .list rows] =>
    match pExpr e, rows.mapM pRow with
    | some e, some rs => " ".intercalate (rs.map (fun r => show3 (eval e r)))
    | _, _ => "bad-op"
  | _, _ => "bad-op"

end DfModel.Drv.C22
