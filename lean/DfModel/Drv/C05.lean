import DfModel.Base.Sexp
import DfModel.Mech.HashJoin
namespace DfModel.Drv.C05
open DfModel DfModel.Mech.Join DfModel.Mech.HashJoin

def parseJt : String → Option JoinType
  | "Inner" => some .inner | "Left" => some .left | "Right" => some .right | "Full" => some .full
  | "LeftSemi" => some .leftSemi | "RightSemi" => some .rightSemi
  | "LeftAnti" => some .leftAnti | "RightAnti" => some .rightAnti
  | "LeftMark" => some .leftMark | "RightMark" => some .rightMark
  | _ => none

def parseVal : Sexp → Option Val
  | .atom "N" => some none
  | .atom a => a.toInt?.map some
  | _ => none

def parseRow : Sexp → Option Row
  | .list xs => xs.mapM parseVal
  | _ => none

def parseRows : Sexp → Option (List Row)
  | .list xs => xs.mapM parseRow
  | _ => none

def parsePair : Sexp → Option (Nat × Nat)
  | .list [a, b] => do some (← a.asNat?, ← b.asNat?)
  | _ => none

def showVal : Val → String
  | none => "N"
  | some i => toString i

def showRow (r : Row) : String := ",".intercalate (r.map showVal)

/-- canonical bag: rows as text, sorted -/
def showBag (rows : List Row) : String :=
  match (rows.map showRow).mergeSort (fun a b => !(b < a)) with
  | [] => "-"
  | xs => ";".intercalate xs

structure Req where
  cfg : Cfg
  L : List Row
  batches : List (List Row)

def mkFilter : Sexp → Option (Row → Row → Bool)
  | .atom "none" => some fun _ _ => true
  | .list [.atom "lt", a, b] => do
    let i ← a.asNat?
    let j ← b.asNat?
    some fun l r => match l.getD i none, r.getD j none with
      | some x, some y => decide (x < y)
      | _, _ => false
  | _ => none

def filterCols : Sexp → List Nat × List Nat
  | .list [.atom "lt", a, b] => ([a.asNat?.getD 0], [b.asNat?.getD 0])
  | _ => ([], [])

def parseReq : List Sexp → Option Req
  | [.atom jt, ne, .list on, flt, wl, wr, l, .list bs] => do
    let jt ← parseJt jt
    let ne ← ne.asBool?
    let on ← on.mapM parsePair
    let f ← mkFilter flt
    let wl ← wl.asNat?
    let wr ← wr.asNat?
    let L ← parseRows l
    let batches ← bs.mapM parseRows
    -- well-formedness: every row has the declared width, every referenced column exists
    let (fl, fr) := filterCols flt
    if !(L.all (·.length == wl)) || !(batches.all (·.all (·.length == wr))) then none
    else if !(on.all fun p => p.1 < wl && p.2 < wr) || !(fl.all (· < wl)) || !(fr.all (· < wr)) then none
    else
      some { cfg := { jt := jt, nullEq := ne,
                      kl := fun l => on.map fun p => l.getD p.1 none,
                      kr := fun r => on.map fun p => r.getD p.2 none,
                      flt := f, wl := wl, wr := wr },
             L := L, batches := batches }
  | _ => none

def hashOf : String → Option (List Val → Nat)
  | "hash0" => some fun _ => 0
  | "hashsum" => some fun k => k.foldl (fun acc v => match v with
      | none => acc * 31 + 7
      | some i => acc * 31 + i.natAbs % 3) 0
  | _ => none

def arrayEligible (c : Cfg) (nk : Nat) (L : List Row) : Bool :=
  nk == 1 && (!c.nullEq || L.all fun l => c.kl l != [none])

def tableAns (name : String) (jt : JoinType) : Option String :=
  let b (x : Bool) := if x then "t" else "f"
  let showJt : JoinType → String
    | .inner => "Inner" | .left => "Left" | .right => "Right" | .full => "Full"
    | .leftSemi => "LeftSemi" | .rightSemi => "RightSemi" | .leftAnti => "LeftAnti"
    | .rightAnti => "RightAnti" | .leftMark => "LeftMark" | .rightMark => "RightMark"
  match name with
  | "swap" => some (showJt jt.swap)
  | "on_lr_is_preserved" => some (b jt.onLrIsPreserved.1 ++ b jt.onLrIsPreserved.2)
  | "empty_build" => some (b jt.emptyBuildEmpty)
  | "empty_map" => some (b jt.emptyMapEmpty)
  | _ => none

def handle (op : String) (arg : Sexp) : String :=
  -- `join.<operator>`: the operator name only labels the request; the answer is the spec
  if op.startsWith "join." then
    match arg with
    | .list xs =>
      match parseReq xs with
      | some q => showBag (q.cfg.spec q.L q.batches.flatten)
      | none => "bad-op"
    | _ => "bad-op"
  else
  match op, arg with
  | "hashjoin", .list (.atom mk :: limit :: xs) =>
    match parseReq xs, limit.asNat? with
    | some q, some lim =>
      let nk := (q.cfg.kl []).length
      if nk == 0 then "unsupported" else
      let run (m : MapKind) : String :=
        let Li := q.L.zipIdx
        let bs := q.batches.map fun B =>
          ({ rows := B, cuts := limitCuts lim (allCands m q.cfg Li B.zipIdx).length } : Batch)
        showBag (hashJoin m q.cfg q.L bs)
      if mk == "array" then
        if arrayEligible q.cfg nk q.L then run .array else "unsupported"
      else match hashOf mk with
        | some h => run (.hash h)
        | none => "bad-op"
    | _, _ => "bad-op"
  | "table", .list [.atom name, .atom jt] =>
    match parseJt jt with
    | some j => (tableAns name j).getD "bad-op"
    | none => "bad-op"
  | _, _ => "bad-op"

end DfModel.Drv.C05
