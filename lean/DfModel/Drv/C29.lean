import DfModel.Base.Sexp
import DfModel.Mech.Precision
/-!
  C29 driver (refinement judge: the implementation may demote more, never less).
  `op (name a b r)`           name ∈ add sub mul min max; a b r = `(e n)` | `(i n)` | `a`
  `inexact (a r)`             to_inexact
  `fetch (rows f skip np r)`  num_rows after `Statistics::with_fetch`; f = `n` or a number
  answer `ok` iff (impl result is Exact v ⇒ model result is Exact v), else `bad:<model>`.
-/
namespace DfModel.Drv.C29
open DfModel DfModel.Mech.Precision

def pP : Sexp → Option P
  | .atom "a" => some .absent
  | .list [.atom "e", n] => n.asNat?.map .exact
  | .list [.atom "i", n] => n.asNat?.map .inexact
  | _ => none

def showP : P → String
  | .exact n => s!"(e {n})"
  | .inexact n => s!"(i {n})"
  | .absent => "a"

def judge (m r : P) : String :=
  match r with
  | .exact v => if m == .exact v then "ok" else s!"bad:{showP m}"
  | _ => "ok"

def handle (op : String) (arg : Sexp) : String :=
  match op, arg with
  | "op", .list [.atom name, a, b, r] =>
    match pP a, pP b, pP r with
    | some a, some b, some r =>
      match name with
      | "add" => judge (a.add b) r
      | "sub" => judge (a.sub b) r
      | "mul" => judge (a.mul b) r
      | "min" => judge (a.min b) r
      | "max" => judge (a.max b) r
      | _ => "bad-op"
    | _, _, _ => "bad-op"
  | "inexact", .list [a, r] =>
    match pP a, pP r with
    | some a, some r => judge a.toInexact r
    | _, _ => "bad-op"
  | "fetch", .list [rows, f, skip, np, r] =>
    let fetch : Option (Option Nat) := match f with
      | .atom "n" => some none
      | s => s.asNat?.map some
    match pP rows, fetch, skip.asNat?, np.asNat?, pP r with
    | some rows, some f, some sk, some np, some r => judge (withFetchRows rows f sk np) r
    | _, _, _, _, _ => "bad-op"
  | _, _ => "bad-op"

end DfModel.Drv.C29
