import DfModel.Base.Sexp
import DfModel.Text.Bench
namespace DfModel.Drv.C46
open DfModel DfModel.Text DfModel.Text.Bench

def table? : Sexp → Option (List (List Str))
  | .list rs => rs.mapM fun r => match r with
    | .list cs => cs.mapM (·.asChars?)
    | _ => none
  | _ => none

def cell? : Sexp → Option Cell
  | .atom "n" => some none
  | x => x.asChars?.map some

def cells? : Sexp → Option (List (List Cell))
  | .list rs => rs.mapM fun r => match r with
    | .list cs => cs.mapM cell?
    | _ => none
  | _ => none

def strs? : Sexp → Option (List Str)
  | .list cs => cs.mapM (·.asChars?)
  | _ => none

def pairs? : Sexp → Option (List (Str × Str))
  | .list ps => ps.mapM fun p => match p with
    | .list [k, v] => do some ((← k.asChars?), (← v.asChars?))
    | _ => none
  | _ => none

def showTable (t : List (List Str)) : String :=
  "(" ++ " ".intercalate (t.map fun r => "(" ++ " ".intercalate (r.map charsSexp) ++ ")") ++ ")"

def showCell : Cell → String
  | none => "n"
  | some s => charsSexp s

def showCells (t : List (List Cell)) : String :=
  "(" ++ " ".intercalate (t.map fun r => "(" ++ " ".intercalate (r.map showCell) ++ ")") ++ ")"

def ascii (s : Str) : Bool := s.all fun c => c.toNat < 128

/-- ops
  `cmp (<cc> <actual table> <expected table>)`  compare_results → `ok` | `rows` | `cols` | `cell r c`
  `persist (<header> <rows of cells>)`           text of the persisted file
  `readback <text>`                              cells read back (header dropped)
  `expected (<header> <rows of cells>)`          expected table used by verify after persist
  `repl (<map> <env> <input>)`                   process_replacements_with_env → `ok <text>` | `err`
-/
def handle (op : String) (arg : Sexp) : String :=
  match op, arg with
  | "cmp", .list [cc, a, e] =>
    match cc.asNat?, table? a, table? e with
    | some cc, some a, some e =>
      match compareResults cc a e with
      | .ok _ => "ok"
      | .error .rows => "rows"
      | .error .cols => "cols"
      | .error (.cell r c) => s!"cell {r} {c}"
    | _, _, _ => "bad-op"
  | "persist", .list [h, rows] =>
    match strs? h, cells? rows with
    | some h, some rows => charsSexp (persist h rows)
    | _, _ => "bad-op"
  | "readback", t =>
    match t.asChars? with
    | some t => showCells (readBack t)
    | none => "bad-op"
  | "expected", .list [h, rows] =>
    match strs? h, cells? rows with
    | some h, some rows => showTable (expectedOf h rows)
    | _, _ => "bad-op"
  | "repl", .list [m, e, i] =>
    match pairs? m, pairs? e, i.asChars? with
    | some m, some e, some i =>
      if !(ascii i && m.all (fun p => ascii p.1 && ascii p.2) && e.all (fun p => ascii p.1 && ascii p.2)) then
        "unsupported"
      else match processReplacements m e i with
        | some s => s!"ok {charsSexp s}"
        | none => "err"
    | _, _, _ => "bad-op"
  | _, _ => "bad-op"

end DfModel.Drv.C46
