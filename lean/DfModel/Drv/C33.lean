/-
  C33 driver.
    evalrows (<expr> (row*) <impl>)            impl := (ok (val*)) | (err <class>)
    evalsel  (<expr> (row*) (t|f*) <impl>)     judged on the selected rows only
       → `ok` | `bad:<reference values>` | `unsupported`
       (a row on which the reference raises a run-time error is not judged when the engine
        returned an array: the engine may have skipped it; an engine error needs a reference error)
    static (<strategy> <w> <neg> (hay*) (needle*))   hay/needle := int | null
       → `t f u …`  the Lean model of that static filter, per needle
    casebatch ((when then)*) (else?) (row*))        → `ok (val*)` | `err`   Lean `caseBatch`
-/
import DfModel.Base.Sexp
import DfModel.Sql.Codec
import DfModel.Mech.ExprStrat
namespace DfModel.Drv.C33
open DfModel DfModel.Codec DfModel.Strat

def showRes : Except RtErr Val → String
  | .ok v => showVal v
  | .error .type => "unsupported"
  | .error _ => "err"

/-- judge engine values against per-row reference results; `sel[i] = false` rows are not judged -/
def judgeRows (refs : List (Except RtErr Val)) (sel : List Bool) (impl : Sexp) : String :=
  let relevant := (refs.zip sel).filter (·.2) |>.map (·.1)
  if relevant.any (fun r => match r with | .error .type => true | _ => false) then "unsupported"
  else
    match impl with
    | .list [.atom "ok", .list vs] =>
      match vs.mapM parseVal with
      | some got =>
        if got.length != refs.length then "bad:length"
        else
          let bad := ((refs.zip sel).zip got).any (fun ((r, s), g) =>
            s && (match r with
              | .ok v => showVal v != showVal g
              | .error _ => false))
          if bad then "bad:" ++ " ".intercalate (refs.map showRes) else "ok"
      | none => "bad-op"
    | .list [.atom "err", .atom _] =>
      if relevant.any (fun r => match r with | .error _ => true | _ => false) then "ok"
      else "bad:no-reference-error " ++ " ".intercalate (refs.map showRes)
    | _ => "bad-op"

def parseOptInt : Sexp → Option (Option Int)
  | .atom "null" => some none
  | s => s.asInt?.map some

def showTri : Tri → String
  | .t => "t" | .f => "f" | .u => "u"

partial def handle (op : String) (arg : Sexp) : String :=
  match op, arg with
  | "evalrows", .list [e, .list rows, impl] =>
    match parseExpr e, rows.mapM parseRow with
    | some e, some rows => judgeRows (rows.map (fun r => eval e r)) (rows.map (fun _ => true)) impl
    | none, _ => "unsupported"
    | _, _ => "bad-op"
  | "evalrows-inlist-case-element", a => handle "evalrows" a
  | "evalsel-inlist-case-element", a => handle "evalsel" a
  | "evalrows-neg-of-constant", a => handle "evalrows" a
  | "evalsel-neg-of-constant", a => handle "evalsel" a
  | "evalsel", .list [e, .list rows, .list mask, impl] =>
    match parseExpr e, rows.mapM parseRow, mask.mapM Sexp.asBool? with
    | some e, some rows, some mask => judgeRows (rows.map (fun r => eval e r)) mask impl
    | none, _, _ => "unsupported"
    | _, _, _ => "bad-op"
  | "static", .list [.atom s, w, neg, .list hay, .list needles] =>
    match w.asNat?, neg.asBool?, hay.mapM parseOptInt, needles.mapM parseOptInt with
    | some w, some neg, some hay, some needles =>
      let strat? : Option Strategy := match s with
        | "branchless" => some .branchless
        | "bitmap" => some (.bitmap w)
        | "hashset" => some .hashSet
        | _ => none
      match strat? with
      | some st => " ".intercalate (needles.map (fun x => showTri (staticIn st hay neg x)))
      | none => "bad-op"
    | _, _, _, _ => "bad-op"
  | "presel", .list [isAnd, .list rows] =>
    -- the Lean model of the AND/OR pre-selection strategy on a batch of (left, right) values
    let parseTri : Sexp → Option Tri := fun s => match s with
      | .atom "t" => some .t | .atom "f" => some .f | .atom "u" => some .u | _ => none
    let rs := rows.mapM (fun r => match r with
      | .list [l, r] => do some ((← l.asBool?), (← parseTri r))
      | _ => none)
    match isAnd.asBool?, rs with
    | some a, some rs => " ".intercalate ((preSelect a (rs.map (·.1)) (selectedRhs a rs)).map showTri)
    | _, _ => "bad-op"
  | "casebatch", .list [.list whens, els, .list rows] =>
    let ws := whens.mapM (fun w => match w with
      | .list [c, r] => do some ((← parseExpr c), (← parseExpr r))
      | _ => none)
    match ws, parseOptExpr els, rows.mapM parseRow with
    | some ws, some els, some rows =>
      match caseBatch ws els {} rows with
      | .ok vs => "ok " ++ showRow vs
      | .error .type => "unsupported"
      | .error _ => "err"
    | _, _, _ => "bad-op"
  | _, _ => "bad-op"

end DfModel.Drv.C33
