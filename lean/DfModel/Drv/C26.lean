import DfModel.Base.Sexp
import DfModel.Sm.Boundary
import DfModel.Sm.FileSplit
namespace DfModel.Drv.C26
open DfModel DfModel.Sm.Boundary DfModel.Sm.FileSplit

/-- run-length encoded byte string `((byte count) …)` -/
def parseRle : Sexp → Option (List Nat)
  | .list xs => do
    let parts ← xs.mapM (fun x => match x with
      | .list [b, n] => do some (List.replicate (← n.asNat?) (← b.asNat?))
      | _ => none)
    some parts.flatten
  | _ => none

def rleGo : Nat → Nat → List Nat → List String
  | b, n, [] => [s!"{b}*{n}"]
  | b, n, x :: xs => if x = b then rleGo b (n + 1) xs else s!"{b}*{n}" :: rleGo x 1 xs

def showRle : List Nat → String
  | [] => ""
  | x :: xs => ",".intercalate (rleGo x 1 xs)

def showEv : Ev Nat → String
  | .get lo hi => s!"G{lo}-{hi}"
  | .chunk c => "C" ++ showRle c
  | .stuck => "STUCK"
  | .panic => "PANIC"

/-- trace entry `(lo hi (size …))`: the chunk sizes the store served for `GET lo..hi` -/
def parseTrace : Sexp → Option (List (Nat × Nat × List Nat))
  | .list xs => xs.mapM (fun x => match x with
      | .list [lo, hi, sz] => do some (← lo.asNat?, ← hi.asNat?, ← sz.natList?)
      | _ => none)
  | _ => none

def storeOf (f : List Nat) (tr : List (Nat × Nat × List Nat)) (lo hi : Nat) : List (List Nat) :=
  match tr.find? (fun e => e.1 == lo && e.2.1 == hi) with
  | some (_, _, sizes) => splitSizes sizes (slice f lo hi)
  | none => []

/--
  `run (term lookahead start end file-rle trace)` → the event list of the model stream
  `tile (term file-rle (b1 … bn))` → `aligned` for the ranges [0,b1) [b1,b2) …, separated by `|`
  `split (target_partitions min_size (file sizes))` → `repartition_evenly_by_size`: `none` | `part:file:start-stop …`
-/
def handle (op : String) (arg : Sexp) : String :=
  match op, arg with
  | "run", .list [t, l, s, e, file, trace] =>
    match t.asNat?, l.asNat?, s.asNat?, e.asNat?, parseRle file, parseTrace trace with
    | some t, some l, some s, some e, some f, some tr =>
      let cfg : Cfg Nat := { term := t, size := f.length, lookahead := l, store := storeOf f tr }
      let evs := run cfg (f.length + 1) s e
      if evs.isEmpty then "-" else " ".intercalate (evs.map showEv)
    | _, _, _, _, _, _ => "bad-op"
  | "tile", .list [t, file, bs] =>
    match t.asNat?, parseRle file, bs.natList? with
    | some t, some f, some bs => "|".intercalate ((rangesOut t f 0 bs).map showRle)
    | _, _, _ => "bad-op"
  | "split", .list [tp, ms, sizes] =>
    match tp.asNat?, ms.asNat?, sizes.natList? with
    | some tp, some ms, some sizes =>
      match repartition tp ms sizes with
      | none => "panic"
      | some none => "none"
      | some (some ps) =>
        if ps.isEmpty then "-" else " ".intercalate (ps.map (fun p => s!"{p.part}:{p.file}:{p.start}-{p.stop}"))
    | _, _, _ => "bad-op"
  | _, _ => "bad-op"

end DfModel.Drv.C26
