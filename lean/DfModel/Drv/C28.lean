import DfModel.Base.Sexp
import DfModel.Mech.OrderProps
/-!
  C28 driver: the Lean side is the judge `rows ∈ γ(declared)`.
  `sorted (node ((d nf)*) (row*))`   declared ordering (desc, nulls_first per key) on one partition's key rows
  `const (node (v*))`             a declared constant expression evaluated on one scope
  `eqclass (node (row*))`            one equivalence class: per row the member expressions' values
  `coloc (node ((row*)*))`            hash partitioning: key rows per partition
  values: `n` (NULL) or an integer.  Answer `ok` or `bad:<where>`.
-/
namespace DfModel.Drv.C28
open DfModel DfModel.Mech.OrderProps

def pV : Sexp → Option (Option Int)
  | .atom "n" => some none
  | s => s.asInt?.map some

def pRow : Sexp → Option Key
  | .list vs => vs.mapM pV
  | _ => none

def pOpt : Sexp → Option SortOpt
  | .list [d, nf] => do some ⟨← d.asBool?, ← nf.asBool?⟩
  | _ => none

def handle (op : String) (arg : Sexp) : String :=
  match op, arg with
  | "sorted", .list [_node, .list os, .list rows] =>
    match os.mapM pOpt, rows.mapM pRow with
    | some os, some rows =>
      if sortedJudge os rows then "ok"
      else match firstUnsorted os rows 0 with
        | some i => s!"bad:{i}"
        | none => "bad"
    | _, _ => "bad-op"
  | "const", .list [_node, .list vs] =>
    match vs.mapM pV with
    | some vs => if constJudge vs then "ok" else "bad"
    | none => "bad-op"
  | "eqclass", .list [_node, .list rows] =>
    match rows.mapM pRow with
    | some rows => if eqClassJudge rows then "ok" else "bad"
    | none => "bad-op"
  | "coloc", .list [_node, .list parts] =>
    match parts.mapM (fun p => match p with | .list rows => rows.mapM pRow | _ => none) with
    | some parts => if colocJudge parts then "ok" else "bad"
    | none => "bad-op"
  | _, _ => "bad-op"

end DfModel.Drv.C28
