import DfModel.Base.Sexp
import DfModel.Mech.ErrFlow
namespace DfModel.Drv.C20
open DfModel DfModel.Mech.ErrFlow

def parseItem : Sexp → Option Item
  | .list (.atom "b" :: xs) => (xs.mapM Sexp.asInt?).map Except.ok
  | .list [.atom "e", t] => t.asNat?.map (fun n => Except.error (Err.source n))
  | _ => none

def boolBits (s : Sexp) : Option (List Bool) :=
  match s with
  | .list xs => xs.mapM (fun x => x.asNat?.map (· != 0))
  | _ => none

/-- the concrete operator vocabulary the harness builds on the real engine -/
def filterF (c : Int) : Batch → Except Err Batch := fun b => .ok (b.filter (· > c))
def udfF (bad : Int) : Batch → Except Err Batch := fun b =>
  if b.any (· == bad) then .error (.udf 0) else .ok (b.map (· + 1))
def sortG : List Batch → Except Err (List Batch) := fun bs => .ok [bs.flatten.mergeSort (fun a b => decide (a ≤ b))]
def countG : List Batch → Except Err (List Batch) := fun bs => .ok [[(bs.flatten.length : Int)]]
def joinJ : List Batch → Batch → Except Err Batch := fun build probe =>
  .ok (probe.flatMap (fun v => (build.flatten.filter (· == v)).map (fun _ => v)))

def parsePlan (fuel : Nat) (s : Sexp) : Option Plan :=
  match fuel with
  | 0 => none
  | fuel + 1 =>
    match s with
    | .list (.atom "src" :: items) => (items.mapM parseItem).map Plan.source
    | .list [.atom "filter", c, p] => do pure (.map (filterF (← c.asInt?)) (← parsePlan fuel p))
    | .list [.atom "udf", bad, p] => do pure (.map (udfF (← bad.asInt?)) (← parsePlan fuel p))
    | .list [.atom "sort", p] => do pure (.blocking sortG (← parsePlan fuel p))
    | .list [.atom "count", p] => do pure (.blocking countG (← parsePlan fuel p))
    | .list [.atom "join", b, p] => do pure (.join joinJ (← parsePlan fuel b) (← parsePlan fuel p))
    | .list [.atom "union", sch, l, r] => do pure (.coalesce (← boolBits sch) (← parsePlan fuel l) (← parsePlan fuel r))
    | _ => none

def handle (op : String) (arg : Sexp) : String :=
  match op with
  -- `collect` of the plan: `err` or `ok (<sorted rows>)`
  | "plan" =>
    match parsePlan 64 arg with
    | none => "bad-op"
    | some p =>
      match collect p.eval with
      | .error _ => "err"
      | .ok bs => "ok " ++ intsSexp (bs.flatten.mergeSort (fun a b => decide (a ≤ b)))
  | _ => "bad-op"

end DfModel.Drv.C20
