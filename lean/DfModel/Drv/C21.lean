import DfModel.Base.Sexp
import DfModel.Sm.Disk
namespace DfModel.Drv.C21
open DfModel DfModel.Sm.Disk

def parseOp : Sexp → Option Op
  | .list [.atom "create"] => some .create
  | .list [.atom "clone", f] => f.asNat?.map .clone
  | .list [.atom "drop", f] => f.asNat?.map .drop
  | .list [.atom "write", f, len, .atom "ok"] => do some (.write (← f.asNat?) (← len.asNat?) .ok)
  | .list [.atom "write", f, len, .atom "fail"] => do some (.write (← f.asNat?) (← len.asNat?) .fail)
  | .list [.atom "limit", n] => n.asNat?.map .setLimit
  | _ => none

def showOut : Out → String
  | .created f => s!"created:{f}"
  | .done => "done"
  | .wrote n => s!"wrote:{n}"
  | .rejected => "rejected"
  | .ioError => "ioerr"
  | .noSuchFile => "nofile"

/-- `run (limit op*)` → per op `<out>/<used>/<sum of live usage>` -/
def runShow (s : St) : List Op → List String
  | [] => []
  | op :: ops =>
    let (s', o) := step true s op
    s!"{showOut o}/{s'.used}/{sumUsage s'.files}" :: runShow s' ops

def handle (op : String) (arg : Sexp) : String :=
  match op, arg with
  | "run", .list (lim :: ops) =>
    match lim.asNat?, ops.mapM parseOp with
    | some l, some os => " ".intercalate (runShow (init l) os)
    | _, _ => "bad-op"
  | _, _ => "bad-op"

end DfModel.Drv.C21
