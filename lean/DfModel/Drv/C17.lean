import DfModel.Base.Sexp
import DfModel.Sm.Pool
namespace DfModel.Drv.C17
open DfModel DfModel.Sm.Pool

def parseKind : Sexp → Sexp → Option Kind
  | .atom "u", _ => some .unbounded
  | .atom "g", l => l.asNat?.map .greedy
  | .atom "f", l => l.asNat?.map .fair
  | _, _ => none

def parseOp : Sexp → Option Op
  | .list [.atom "reg", b] => b.asBool?.map .register
  | .list [.atom "grow", r, n] => do some (.grow (← r.asNat?) (← n.asNat?))
  | .list [.atom "trygrow", r, n] => do some (.tryGrow (← r.asNat?) (← n.asNat?))
  | .list [.atom "shrink", r, n] => do some (.shrink (← r.asNat?) (← n.asNat?))
  | .list [.atom "tryshrink", r, n] => do some (.tryShrink (← r.asNat?) (← n.asNat?))
  | .list [.atom "resize", r, n] => do some (.resize (← r.asNat?) (← n.asNat?))
  | .list [.atom "tryresize", r, n] => do some (.tryResize (← r.asNat?) (← n.asNat?))
  | .list [.atom "split", r, n] => do some (.split (← r.asNat?) (← n.asNat?))
  | .list [.atom "newempty", r] => r.asNat?.map .newEmpty
  | .list [.atom "take", r] => r.asNat?.map .take
  | .list [.atom "free", r] => r.asNat?.map .free
  | .list [.atom "drop", r] => r.asNat?.map .drop
  | .list [.atom "resetpeak"] => some .resetPeak
  | _ => none

def showOut : Out → String
  | .registered r c => s!"reg:{r}:{c}"
  | .unit => "unit"
  | .ok => "ok"
  | .okSize n => s!"ok:{n}"
  | .freed n => s!"freed:{n}"
  | .newRes r => s!"new:{r}"
  | .errResources => "err:resources"
  | .errInternal => "err:internal"
  | .panic => "panic"
  | .noSuchRes => "nores"

def showB (b : Bool) : String := if b then "t" else "f"

def showSizes (rs : List Res) : String :=
  ",".intercalate (rs.map (fun x => s!"{x.rid}:{x.size}"))

def showMetrics (cs : List Cons) : String :=
  ",".intercalate (cs.map (fun c => s!"{c.cid}:{showB c.spill}:{c.reserved}:{c.peak}"))

/-- `run (kind limit op*)` → per op
    `<out>/<reserved()>/<rid:size,…>/<cid:spill:reserved:peak,…>/<peak_reserved>/<max_reserved>` -/
def runShow (k : Kind) (s : St) : List Op → List String
  | [] => []
  | op :: ops =>
    let r := step k s op
    let s' := r.1
    let bad := if s'.bad then "/BAD" else ""
    s!"{showOut r.2}/{s'.reserved k}/{showSizes s'.res}/{showMetrics s'.cons}/{s'.pk.peak}/{s'.pk.max}{bad}"
      :: runShow k s' ops

def parseCOp : Sexp → Option COp
  | .list [.atom "grow", r, n] => do some (.grow (← r.asNat?) (← n.asNat?))
  | .list [.atom "trygrow", r, n] => do some (.tryGrow (← r.asNat?) (← n.asNat?))
  | .list [.atom "shrink", r, n] => do some (.shrink (← r.asNat?) (← n.asNat?))
  | .list [.atom "tryshrink", r, n] => do some (.tryShrink (← r.asNat?) (← n.asNat?))
  | .list [.atom "free", r] => r.asNat?.map .free
  | _ => none

def parseResDecl : Sexp → Option (Nat × Bool)
  | .list [c, b] => do some ((← c.asNat?), (← b.asBool?))
  | _ => none

def parseProg : Sexp → Option (List COp)
  | .list xs => xs.mapM parseCOp
  | _ => none

/-- number of distinct spilling consumers among the declared reservations -/
def countSpillCids (rs : List (Nat × Bool)) : Nat :=
  ((rs.filter (·.2)).map (·.1)).eraseDups.length

/-- per schedule entry `<reserved()>/<rid:size,…>` -/
def crunShow (k : Kind) (c : CSt) : List Nat → List String × CSt
  | [] => ([], c)
  | i :: is =>
    let c' := cstep k c i
    let bad := if c'.bad then "/BAD" else ""
    let r := crunShow k c' is
    (s!"{c'.led.reserved k}/{showSizes c'.res}{bad}" :: r.1, r.2)

def handle (op : String) (arg : Sexp) : String :=
  match op, arg with
  | "run", .list (kd :: lim :: ops) =>
    match parseKind kd lim, ops.mapM parseOp with
    | some k, some os => " ".intercalate (runShow k init os)
    | _, _ => "bad-op"
  | "crun", .list [kd, lim, .list rdecl, .list progs, sched] =>
    match parseKind kd lim, rdecl.mapM parseResDecl, progs.mapM parseProg, sched.natList? with
    | some k, some rs, some ps, some sc =>
      let r := crunShow k (cinit (countSpillCids rs) rs ps) sc
      let outs := r.2.threads.map (fun t => ",".intercalate (t.outs.map showOut))
      let q := if quiescent r.2.threads then "q" else "busy"
      " ".intercalate r.1 ++ " | " ++ ";".intercalate outs ++ " | " ++ q
    | _, _, _, _ => "bad-op"
  | _, _ => "bad-op"

end DfModel.Drv.C17
