/-
  C04 driver.
    equiv (<orig> <simplified> (row*))
        → `ok`                 on every row where `orig` evaluates, `simplified` gives the same value
        → `bad:<row> <v> <v'>` first row where it does not
        → `unsupported`        an expression is outside the model / ill-typed for the model
    negate <op> / swap <op>    the model's `Operator::negate` / `Operator::swap` table entry
-/
import DfModel.Base.Sexp
import DfModel.Sql.Codec
import DfModel.Mech.Simplify
namespace DfModel.Drv.C04
open DfModel DfModel.Codec DfModel.Simp

def showOp : BinOp → String
  | .add => "add" | .sub => "sub" | .mul => "mul" | .div => "div" | .mod => "mod"
  | .eq => "eq" | .ne => "ne" | .lt => "lt" | .le => "le" | .gt => "gt" | .ge => "ge"
  | .and => "and" | .or => "or" | .distinct => "distinct" | .notDistinct => "notdistinct"
  | .concat => "concat"

def firstBad (e e' : Expr) : List Row → Option String
  | [] => none
  | r :: rs =>
    match eval e r with
    | .error .type => some "unsupported"
    | .error _ => firstBad e e' rs
    | .ok v =>
      match eval e' r with
      | .ok v' => if showVal v == showVal v' then firstBad e e' rs else some s!"bad:{showRow r} {showVal v} {showVal v'}"
      | .error .type => some "unsupported"
      -- the reference's AND/OR are strict in errors, the engine's are not (it may short-circuit):
      -- whether the rewritten expression really fails on this row is judged by the harness's
      -- physical-evaluation oracle, not here
      | .error _ => some "unsupported"

partial def handle (op : String) (arg : Sexp) : String :=
  match op, arg with
  | "equiv", .list [e, e', .list rows] =>
    match parseExpr e, parseExpr e', rows.mapM parseRow with
    | some e, some e', some rows =>
      match firstBad e e' rows with
      | none => "ok"
      | some s => s
    | none, _, _ => "unsupported"
    | _, none, _ => "unsupported"
    | _, _, _ => "bad-op"
  | "equiv-trycast", a => handle "equiv" a
  | "equiv-inlist", a => handle "equiv" a
  | "equiv-case-fallible", a => handle "equiv" a
  | "sqlfilter-commuted-utf8view", a => handle "sqlfilter" a
  | "sqlfilter", .list [e, .list rows, impl] =>
    -- `SELECT id FROM t WHERE e`: ids (= row positions) of the rows on which `e` is TRUE
    match parseExpr e, rows.mapM parseRow with
    | some e, some rows =>
      let ids := (rows.zipIdx.filterMap (fun (r, i) => match holds e r with
        | .ok true => some (some i)
        | .ok false => none
        | .error _ => some none))
      if ids.any Option.isNone then "unsupported"
      else
        let want := "(ok (" ++ " ".intercalate (ids.filterMap id |>.map toString) ++ "))"
        if want == impl.toStr then "ok" else "bad:" ++ want
    | _, _ => "unsupported"
  | "negate", .atom o =>
    match parseBinOp o with
    | some o => match negateOp o with
      | some o' => showOp o'
      | none => "none"
    | none => "unsupported"
  | "swap", .atom o =>
    match parseBinOp o with
    | some o => match swapOp o with
      | some o' => showOp o'
      | none => "none"
    | none => "unsupported"
  | _, _ => "bad-op"

end DfModel.Drv.C04
