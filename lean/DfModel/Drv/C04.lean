/-
  C04 driver.
    equiv (<orig> <simplified> (row*))
        → `ok`                 on every row where `orig` evaluates, `simplified` gives the same value
        → `bad:<row> <v> <v'>` first row where it does not
        → `unsupported`        an expression is outside the model / ill-typed for the model
    negate <op> / swap <op>    the model's `Operator::negate` / `Operator::swap` table entry
-/
import DfModel.Base.Sexp
import DfModel.Sql.Codec
import DfModel.Mech.Simplify
namespace DfModel.Drv.C04
open DfModel DfModel.Codec DfModel.Simp

def showOp : BinOp → String
  | .add => "add" | .sub => "sub" | .mul => "mul" | .div => "div" | .mod => "mod"
  | .eq => "eq" | .ne => "ne" | .lt => "lt" | .le => "le" | .gt => "gt" | .ge => "ge"
  | .and => "and" | .or => "or" | .distinct => "distinct" | .notDistinct => "notdistinct"
  | .concat => "concat"

def firstBad (e e' : Expr) : List Row → Option String
  | [] => none
  | r :: rs =>
    match eval e r with
    | .error .type => some "unsupported"
    | .error _ => firstBad e e' rs
    | .ok v =>
      match eval e' r with
      | .ok v' => if showVal v == showVal v' then firstBad e e' rs else some s!"bad:{showRow r} {showVal v} {showVal v'}"
      | .error .type => some "unsupported"
      | .error _ => some s!"bad:{showRow r} {showVal v} err"

def handle (op : String) (arg : Sexp) : String :=
  match op, arg with
  | "equiv", .list [e, e', .list rows] =>
    match parseExpr e, parseExpr e', rows.mapM parseRow with
    | some e, some e', some rows =>
      match firstBad e e' rows with
      | none => "ok"
      | some s => s
    | none, _, _ => "unsupported"
    | _, none, _ => "unsupported"
    | _, _, _ => "bad-op"
  | "negate", .atom o =>
    match parseBinOp o with
    | some o => match negateOp o with
      | some o' => showOp o'
      | none => "none"
    | none => "unsupported"
  | "swap", .atom o =>
    match parseBinOp o with
    | some o => match swapOp o with
      | some o' => showOp o'
      | none => "none"
    | none => "unsupported"
  | _, _ => "bad-op"

end DfModel.Drv.C04
