import DfModel.Base.Sexp
import DfModel.Sm.Own
namespace DfModel.Drv.C19
open DfModel DfModel.Sm.Own

def showOuts (os : List Out) : String :=
  String.ofList (os.map (fun o => match o with | .ready => 'R' | .pending => 'P'))

def parseScript : List Sexp → Option (List (Option Bool))
  | [] => some []
  | .atom "r" :: rest => (parseScript rest).map (some true :: ·)
  | .atom "p" :: rest => (parseScript rest).map (some false :: ·)
  | .atom "y" :: rest => (parseScript rest).map (none :: ·)
  | _ => none

def handle (op : String) (arg : Sexp) : String :=
  match op, arg with
  -- `(coop budget (r p y …))`: the tokio-budget cooperative wrapper over a scripted inner stream
  | "coop", .list [y, .list script] =>
    match y.asNat?, parseScript script with
    | some y, some sc => showOuts (run .tokio y y sc)
    | _, _ => "bad-op"
  -- `(drop root (owners of node 0) (owners of node 1) …)`: which nodes are released
  | "drop", .list (r :: owners) =>
    match r.asNat?, owners.mapM Sexp.natList? with
    | some r, some f =>
      if wellFormed f then String.ofList ((released f r).map (fun b => if b then '1' else '0')) else "unsupported"
    | _, _ => "bad-op"
  | _, _ => "bad-op"

end DfModel.Drv.C19
