import DfModel.Base.Sexp
import DfModel.Mech.Repart
import DfModel.Gen.SR
namespace DfModel.Drv.C10
open DfModel DfModel.Mech.Repart

/-- a key component: `n` = NULL, otherwise an i64 -/
def cell? : Sexp → Option (Option Int)
  | .atom "n" => some none
  | s => s.asInt?.map some

def tuple? : Sexp → Option (List (Option Int))
  | .list xs => xs.mapM cell?
  | _ => none

def opt? : Sexp → Option SortOpt
  | .list [d, nf] => do some ⟨(← d.asNat?) != 0, (← nf.asNat?) != 0⟩
  | _ => none

def showParts (out : List (Nat × List Nat)) : String :=
  " ".intercalate (out.map (fun x => s!"{x.1}:" ++ ",".intercalate (x.2.map toString)))

/-- the `Range` arm of `partition_iter`: no split points → the whole batch goes to partition 0
    (even an empty one); otherwise route every row and split -/
def rangeArm (opts : List SortOpt) (splits keys : List (List (Option Int))) :
    Option (List (Nat × List Nat)) :=
  if splits.isEmpty then some [(0, List.range keys.length)]
  else partitionBatch (keys.map (fun k => rangeId k splits opts)) (splits.length + 1)

def i64ok (t : List (Option Int)) : Bool :=
  t.all (fun c => match c with
    | none => true
    | some v => decide (-9223372036854775808 ≤ v ∧ v ≤ 9223372036854775807))

def handle (op : String) (arg : Sexp) : String :=
  match op, arg with
  | "range", .list [.list os, .list ss, .list ks] =>
    match os.mapM opt?, ss.mapM tuple?, ks.mapM tuple? with
    | some opts, some splits, some keys =>
      if !(splits.all i64ok && keys.all i64ok) then "unsupported" else
      let ids := keys.map (fun k => toString (rangeId k splits opts))
      " ".intercalate ids ++ s!" v:{if validSplits splits opts then 1 else 0}"
    | _, _, _ => "bad-op"
  | "rsplit", .list [.list os, .list ss, .list ks] =>
    match os.mapM opt?, ss.mapM tuple?, ks.mapM tuple? with
    | some opts, some splits, some keys =>
      if !(splits.all i64ok && keys.all i64ok) then "unsupported" else
      match rangeArm opts splits keys with
      | some out => showParts out
      | none => "panic"
    | _, _, _ => "bad-op"
  | "hsplit", .list [n, hs] =>
    match n.asNat?, hs.natList? with
    | some n, some hashes =>
      if n = 0 ∨ n ≥ 2 ^ 64 ∨ hashes.any (· ≥ 2 ^ 64) then "unsupported" else
      let routes := hashes.map (fun h => DfModel.Gen.SR.partition_indices_bucket (DfModel.Gen.SR.new' n) h)
      match partitionBatch routes n with
      | some out => showParts out
      | none => "panic"
    | _, _ => "bad-op"
  | "split", .list [n, rs] =>
    match n.asNat?, rs.natList? with
    | some n, some routes =>
      match partitionBatch routes n with
      | some out => showParts out
      | none => "panic"
    | _, _ => "bad-op"
  | "rr", .list [n, m, i, k] =>
    match n.asNat?, m.asNat?, i.asNat?, k.asNat? with
    | some n, some m, some i, some k =>
      -- `(i*n)/m` and `% n` panic on zero divisors
      if n = 0 ∨ m = 0 then "unsupported"
      else " ".intercalate ((rrSeq (rrStart i n m) n k).map toString)
    | _, _, _, _ => "bad-op"
  | _, _ => "bad-op"

end DfModel.Drv.C10
