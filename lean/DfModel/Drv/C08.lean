import DfModel.Base.Sexp
import DfModel.Base.Order
import DfModel.Mech.SortMerge
namespace DfModel.Drv.C08
open DfModel DfModel.RowOrd DfModel.Mech.SortMerge

def parseOpt : Sexp → Option SortOpt
  | .atom "af" => some ⟨false, true⟩
  | .atom "al" => some ⟨false, false⟩
  | .atom "df" => some ⟨true, true⟩
  | .atom "dl" => some ⟨true, false⟩
  | _ => none

def parseVal : Sexp → Option NVal
  | .atom "n" => some none
  | .atom a => a.toInt?.map some
  | _ => none

def parseRow : Sexp → Option NRow
  | .list xs => xs.mapM parseVal
  | _ => none

def parseRows : Sexp → Option (List NRow)
  | .list xs => xs.mapM parseRow
  | _ => none

def parseOpts : Sexp → Option (List SortOpt)
  | .list xs => xs.mapM parseOpt
  | _ => none

def parseFetch : Sexp → Option (Option Nat)
  | .atom "none" => some none
  | .atom a => a.toNat?.map some
  | _ => none

def showVal : NVal → String
  | none => "n"
  | some i => toString i

def showRow (r : NRow) : String := "(" ++ " ".intercalate (r.map showVal) ++ ")"
def showRows (rs : List NRow) : String := " ".intercalate (rs.map showRow)

/-- canonical order used to compare multisets (same as `Props.C08.fullLe`) -/
def fullLe (a b : NRow) : Bool := leRows (List.replicate (max a.length b.length) ⟨false, true⟩) a b

/-- all rows have one arity `n ≥ |os|` -/
def wf (os : List SortOpt) (rows : List NRow) : Bool :=
  match rows with
  | [] => true
  | r :: _ => os.length ≤ r.length && rows.all (fun x => x.length == r.length)

def handle (op : String) (arg : Sexp) : String :=
  match op, arg with
  | "cmp", .list [os, a, b] =>
    match parseOpts os, parseRow a, parseRow b with
    | some os, some a, some b => showOrdering (cmpRows os a b)
    | _, _, _ => "bad-op"
  | "judge", .list [os, fetch, inp, out] =>
    match parseOpts os, parseFetch fetch, parseRows inp, parseRows out with
    | some os, some fetch, some inp, some out =>
      if !(wf os (inp ++ out)) then "bad-op"
      else
        match fetch with
        | none => (judgeSort (leRows os) fullLe inp out).show
        | some k => (judgeTopK (leRows os) k inp out).show
    | _, _, _, _ => "bad-op"
  | "judgez", .list [os, fetch, inp, out] =>   -- same judge; op name used for inputs with a known finding (±0.0 under TopK)
    match parseOpts os, parseFetch fetch, parseRows inp, parseRows out with
    | some os, some fetch, some inp, some out =>
      if !(wf os (inp ++ out)) then "bad-op"
      else
        match fetch with
        | none => (judgeSort (leRows os) fullLe inp out).show
        | some k => (judgeTopK (leRows os) k inp out).show
    | _, _, _, _ => "bad-op"
  | "kmerge", .list [os, fetch, .list streams] =>
    match parseOpts os, parseFetch fetch, streams.mapM parseRows with
    | some os, some fetch, some ss =>
      if !(wf os ss.flatten) then "bad-op"
      else if !(ss.all (sortedB (leRows os))) then "unsupported"
      else
        let out := kMerge (leRows os) ss
        showRows (match fetch with | none => out | some k => out.take k)
    | _, _, _ => "bad-op"
  | _, _ => "bad-op"

end DfModel.Drv.C08
