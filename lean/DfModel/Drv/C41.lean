import DfModel.Base.Sexp
import DfModel.Sql.Codec
import DfModel.Sql.Bind
import DfModel.Drv.C01
/-!
  C41 driver.  `query (<mode> <plan> <skip> <fetch> <db> <params> <impl-param> <impl-literal>)`
     plan            the plan WITH placeholders `(ph i)`
     skip, fetch     () | (num n) | null | (ph i)     — the statement's outermost OFFSET / LIMIT
     params          (val*)
     impl-param      the engine's answer for the parameterised statement (EXECUTE / with_param_values)
     impl-literal    the engine's answer for the statement with the values written as literals
  The reference evaluates BOTH `evalQueryP ps q` and `evalQueryP [] (bindQuery ps q)` (equal by
  `bind_query_eval`; a difference is reported as `bad:model-bind`), and judges both engine answers
  (C01's judge: bag / seq / sorted).  Answers: `ok`, `bad:<which> <reference result>`,
  `unsupported` (outside the model, or the reference raises a run-time error where the engine
  returned rows — see C01).
-/
namespace DfModel.Drv.C41
open DfModel DfModel.Codec

def parseLimArg : Sexp → Option (Option LimArg)
  | .list [] => some none
  | .atom "null" => some (some .null)
  | .list [.atom "num", n] => n.asNat?.map (fun n => some (.num n))
  | .list [.atom "ph", i] => i.asNat?.map (fun i => some (.ph i))
  | _ => none

inductive Verdict where
  | ok | bad (why : String) | unsupported | badop

def judgeOne (mode : Sexp) (want : Except RtErr (Option (List Row))) (impl : Sexp) : Verdict :=
  match want, impl with
  | .error .type, _ => .unsupported
  | .ok none, .list [.atom "err", .atom c] =>
    -- the reference rejects the LIMIT/OFFSET value; the engine must reject it when planning
    if c == "plan" || c == "other" then .ok else .bad s!"reference rejects the statement, engine: err {c}"
  | .ok none, _ => .bad "reference rejects the LIMIT/OFFSET value, engine returned rows"
  | .ok (some want), .list [.atom "ok", .list rows] =>
    match rows.mapM parseRow with
    | some got => match DfModel.Drv.C01.judge mode want got with
      | some true => .ok
      | some false => .bad ("ok " ++ showRows want)
      | none => .badop
    | none => .badop
  | .ok (some want), .list [.atom "err", .atom c] => .bad s!"ok {showRows want} (engine: err {c})"
  | .error e, .list [.atom "err", .atom c] =>
    if c == "plan" || c == "notimpl" || c == "other" then .bad s!"{showErr e} (engine: err {c})" else .ok
  | .error _, .list [.atom "ok", _] => .unsupported
  | _, _ => .badop

def handle (op : String) (arg : Sexp) : String :=
  match op, arg with
  | "query", .list [mode, plan, skip, fetch, db, .list params, implP, implL] =>
    match parsePlan plan, parseLimArg skip, parseLimArg fetch, parseDb db, params.mapM parseVal with
    | some p, some sk, some fe, some d, some ps =>
      let q : PQuery := { plan := p, skip := sk, fetch := fe }
      let wantP := evalQueryP ps q d
      let wantL := evalQueryP [] (bindQuery ps q) d
      if wantP != wantL then "bad:model-bind"
      else
        let same := match implP, implL with
          | .list [.atom "ok", .list rp], .list [.atom "ok", .list rl] =>
            (match rp.mapM parseRow, rl.mapM parseRow with
             | some a, some b => DfModel.Drv.C01.judge mode b a == some true
             | _, _ => false)
          | a, b => a.toStr == b.toStr
        match judgeOne mode wantP implP, judgeOne mode wantL implL with
        | .badop, _ => "bad-op"
        | _, .badop => "bad-op"
        | .bad w, vl =>
          -- the literal statement deviates from the reference in exactly the same way: that is a
          -- matter of C01 (reference vs engine), not of parameter binding
          if same then "unsupported" else
          match vl with
          | .bad _ => "bad:param-and-literal " ++ w
          | _ => "bad:param " ++ w
        | _, .bad w => if same then "unsupported" else "bad:literal " ++ w
        | .unsupported, _ => "unsupported"
        | _, .unsupported => "unsupported"
        | .ok, .ok => "ok"
    | _, _, _, _, _ => "bad-op"
  | _, _ => "bad-op"

end DfModel.Drv.C41
