import DfModel.Base.Sexp
import DfModel.Base.PhysCodec
namespace DfModel.Drv.C36
open DfModel DfModel.PhysCodec

def showOpt : Option Nat → String
  | some n => toString n
  | none => "none"

def parseOptNat : Sexp → Option (Option Nat)
  | .atom "none" => some none
  | s => s.asNat?.map some

def showJt : JoinType → String
  | .inner => "inner" | .left => "left" | .right => "right" | .full => "full"
  | .leftSemi => "leftsemi" | .rightSemi => "rightsemi" | .leftAnti => "leftanti" | .rightAnti => "rightanti"
  | .leftMark => "leftmark" | .rightMark => "rightmark"

def parseJt : String → Option JoinType
  | "inner" => some .inner | "left" => some .left | "right" => some .right | "full" => some .full
  | "leftsemi" => some .leftSemi | "rightsemi" => some .rightSemi
  | "leftanti" => some .leftAnti | "rightanti" => some .rightAnti
  | "leftmark" => some .leftMark | "rightmark" => some .rightMark
  | _ => none

partial def sexpEq : Sexp → Sexp → Bool
  | .atom a, .atom b => a == b
  | .list xs, .list ys => xs.length == ys.length && (xs.zip ys).all (fun p => sexpEq p.1 p.2)
  | _, _ => false

def handle (op : String) (arg : Sexp) : String :=
  match op, arg with
  | "limit_codec", .list [.atom "global", s, f] =>
    match s.asNat?, parseOptNat f with
    | some s, some f => let r := rtGlobalLimit s f; s!"{r.1} {showOpt r.2}"
    | _, _ => "bad-op"
  | "fetch_codec", .list [.atom kind, v] =>
    match v.asNat? with
    | some v =>
      if kind == "sort" || kind == "spm" then showOpt (rtFetchI64 (some v))
      else if kind == "local" || kind == "coalesce" || kind == "filter" then showOpt (rtFetchU32 (some v))
      else "unsupported"
    | none => "bad-op"
  | "join_type", .atom j => match parseJt j with
    | some j => toString (joinTypeNum j)
    | none => "bad-op"
  | "join_type_of", n => match n.asNat? with
    | some n => match joinTypeOf n with
      | some j => showJt j
      | none => "none"
    | none => "bad-op"
  | "null_equality", .atom "nothing" => toString (nullEqualityNum false)
  | "null_equality", .atom "null" => toString (nullEqualityNum true)
  | "join_constraint", .atom "on" => toString (joinConstraintNum false)
  | "join_constraint", .atom "using" => toString (joinConstraintNum true)
  | "pjudge", .list [a, b] => if sexpEq a b then "ok" else "bad:differ"
  | _, _ => "bad-op"

end DfModel.Drv.C36
