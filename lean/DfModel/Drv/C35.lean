import DfModel.Base.Sexp
import DfModel.Base.Wire
import DfModel.Sql.JudgeDrv
namespace DfModel.Drv.C35
open DfModel DfModel.Wire

def parsePType : String → Option PType
  | "none" => some .none | "bool" => some .bool
  | "i8" => some .i8 | "i16" => some .i16 | "i32" => some .i32 | "i64" => some .i64
  | "u8" => some .u8 | "u16" => some .u16 | "u32" => some .u32 | "u64" => some .u64
  | "utf8" => some .utf8 | "large_utf8" => some .largeUtf8 | "utf8_view" => some .utf8View
  | _ => none

def parseScalar : Sexp → Option Scalar
  | .list [.atom "null", .atom t] => (parsePType t).map .null
  | .list [.atom "bool", b] => b.asBool?.map .bool
  | .list [.atom k, v] =>
    match parsePType k with
    | some t =>
      if (sintBits t).isSome then v.asInt?.map (.sint t)
      else if (uintBits t).isSome then v.asNat?.map (.uint t)
      else match v with
        | .atom h => (hexBytes? h).map (.str t)
        | _ => none
    | none => none
  | _ => none

def handle (op : String) (arg : Sexp) : String :=
  match op with
  | "varint" => match arg.asNat? with
    | some n => bytesHex (encodeVarint n)
    | none => "bad-op"
  | "sint64" => match arg.asInt? with
    | some v => bytesHex (encodeVarint (zigzag v))
    | none => "bad-op"
  | "fixed64" => match arg.asNat? with
    | some n => bytesHex (encodeFixed 8 n)
    | none => "bad-op"
  | "fixed32" => match arg.asNat? with
    | some n => bytesHex (encodeFixed 4 n)
    | none => "bad-op"
  | "int32" => match arg.asInt? with
    | some v => bytesHex (encodeInt v)
    | none => "bad-op"
  | "key" => match arg with
    | .list [f, w] => match f.asNat?, w.asNat? with
      | some f, some w => bytesHex (encodeKey f w)
      | _, _ => "bad-op"
    | _ => "bad-op"
  | "lendelim" => match arg with
    | .list [f, .atom h] => match f.asNat?, hexBytes? h with
      | some f, some bs => bytesHex (encodeKey f 2 ++ encodeLenDelim bs)
      | _, _ => "bad-op"
    | _ => "bad-op"
  | "scalar" => match parseScalar arg with
    | some s =>
      let bs := encodeScalar s
      -- the model's own decoder must invert it (theorem `scalar_msg_roundtrip`; checked again here)
      if decodeScalar bs == some s then bytesHex bs else "bad:model-decode"
    | none => "unsupported"
  | "judge" => JudgeDrv.judgeAnswer arg
  | "kind" => JudgeDrv.kindAnswer arg
  | "eval" => JudgeDrv.evalAnswer arg
  | _ => "bad-op"

end DfModel.Drv.C35
