import DfModel.Base.Sexp
import DfModel.Base.ScalarFns
namespace DfModel.Drv.C32
open DfModel DfModel.ScalarFns

def parseVal : Sexp → Option Val
  | .atom "null" => some .null
  | .list [.atom "i", n] => n.asInt?.map .int
  | .list [.atom "b", b] => b.asBool?.map .bool
  | .list (.atom "s" :: cs) => (cs.mapM Sexp.asNat?).map .str
  | _ => none

def showVal : Val → String
  | .null => "null"
  | .int n => s!"(i {n})"
  | .bool b => if b then "(b t)" else "(b f)"
  | .str cs => "(s" ++ String.join (cs.map fun c => " " ++ toString c) ++ ")"

def showR : R → String
  | .ok v => showVal v
  | .error .exec => "err"
  | .error .unsup => "unsupported"

/-- `fn (name (arg*))` → the reference value for one row;
    `rows (name (row*))` → per-row answers joined by `|` -/
def handle (op : String) (arg : Sexp) : String :=
  match op, arg with
  | "fn", .list [.atom name, .list args] =>
    match args.mapM parseVal with
    | some vs => showR (apply name vs)
    | none => "bad-op"
  | "rows", .list [.atom name, .list rows] =>
    match rows.mapM (fun r => match r with | .list args => args.mapM parseVal | _ => none) with
    | some rs =>
      let outs := rs.map (fun r => showR (apply name r))
      if outs.any (· == "unsupported") then "unsupported" else "|".intercalate outs
    | none => "bad-op"
  | _, _ => "bad-op"

end DfModel.Drv.C32
