import DfModel.Base.Sexp
import DfModel.Base.Order
import DfModel.Mech.AggAcc
import DfModel.Mech.GroupAgg
import DfModel.Mech.SortMerge
namespace DfModel.Drv.C06
open DfModel DfModel.Mech.AggAcc DfModel.Mech.GroupAgg

abbrev Key := List (Option Int)

def parseCell : Sexp → Option (Option Int)
  | .atom "n" => some none
  | .atom a => a.toInt?.map some
  | _ => none

def toNV (c : Option Int) : NV := c.map (BitVec.ofInt 64)

def showCell : Option Int → String
  | none => "n"
  | some i => toString i

def showI (v : Option V) : String := match v with | none => "n" | some x => toString x.toInt

/-- the specification's output for one aggregate function over one value column -/
def specCol {σ ρ : Type} (a : Acc σ ρ) (sh : ρ → String) (rows : List (Row Key)) : List (Key × String) :=
  (singleAgg a rows).map (fun e => (e.1, sh e.2))

def colFor (f : String) (rows : List (Row Key)) : Option (List (Key × String)) :=
  match f with
  | "count" => some (specCol count toString rows)
  | "sum" => some (specCol sum showI rows)
  | "min" => some (specCol min showI rows)
  | "max" => some (specCol max showI rows)
  | "bit_and" => some (specCol bitAnd showI rows)
  | "bit_or" => some (specCol bitOr showI rows)
  | "bit_xor" => some (specCol bitXor showI rows)
  | "count_distinct" => some (specCol countDistinct toString rows)
  | _ => none

/-- canonical row order of the printed bag: NULLs first, ascending, key column by key column -/
def keyLe (a b : Key) : Bool :=
  RowOrd.leRows (List.replicate (max a.length b.length) ⟨false, true⟩) a b

/-- key columns outside the grouping set are NULL in that set's output -/
def maskRows (nk : Nat) (st : List Nat) (rows : List (List (Option Int))) : List (List (Option Int)) :=
  rows.map (fun r => ((List.range nk).map (fun c => if st.contains c then r.getD c none else none)) ++ r.drop nk)

/-- the specification's output lines `(key, "k1,…|a1|…")` for one grouping -/
def linesFor (nk : Nat) (fns : List String) (rows : List (List (Option Int))) : Option (List (Key × String)) :=
  let cols : List (Option (List (Key × String))) := (List.range fns.length).map (fun j =>
    colFor (fns.getD j "") (rows.map (fun r => (r.take nk, toNV ((r.drop (nk + j)).headD none)))))
  match cols.mapM id with
  | none => none
  | some cols =>
    let keys : List Key := match cols with | [] => (rows.map (fun r => r.take nk)).eraseDups | c :: _ => c.map (·.1)
    some (keys.map (fun k =>
      (k, ",".intercalate (k.map showCell) ++ String.join (cols.map (fun c => "|" ++ ((c.find? (fun e => e.1 = k)).map (·.2)).getD "?")))))

/-- `(nk (f1 f2 …) ((k1 … knk v1 v2 …) …))` → `k1,k2|a1|a2;…` sorted by key -/
def handle (op : String) (arg : Sexp) : String :=
  match op, arg with
  | "agg", .list [nk, .list fns, .list rows] =>
    match nk.asNat?, fns.mapM Sexp.asAtom?, rows.mapM (fun r => r.asList? >>= (·.mapM parseCell)) with
    | some nk, some fns, some rows =>
      if rows.any (fun r => r.length != nk + fns.length) then "bad-op"
      else
        let cols := (List.range fns.length).map (fun j =>
          colFor (fns.getD j "") (rows.map (fun r => (r.take nk, toNV ((r.drop (nk + j)).headD none)))))
        match cols.mapM id with
        | none => "unsupported"
        | some cols =>
          -- all columns list the keys in the same (first-appearance) order
          let keys : List Key := match cols with | [] => (rows.map (·.take nk)).eraseDups | c :: _ => c.map (·.1)
          let lines := keys.map (fun k =>
            (k, ",".intercalate (k.map showCell) ++ String.join (cols.map (fun c => "|" ++ ((c.find? (fun e => e.1 = k)).map (·.2)).getD "?"))))
          ";".intercalate ((lines.mergeSort (fun x y => keyLe x.1 y.1)).map (·.2))
    | _, _, _ => "bad-op"
  -- GROUPING SETS / ROLLUP / CUBE = bag union of the per-set aggregations, key columns outside the set masked to NULL:
  -- `(nk (f1 …) ((i j …) (…) …) ((k1 … knk v1 …) …))` → sorted lines `k1,…|a1|…;…` (duplicate sets give duplicate rows)
  | "gsets", .list [nk, .list fns, .list sets, .list rows] =>
    match nk.asNat?, fns.mapM Sexp.asAtom?, sets.mapM Sexp.natList?, rows.mapM (fun r => r.asList? >>= (·.mapM parseCell)) with
    | some nk, some fns, some sets, some rows =>
      if rows.any (fun r => r.length != nk + fns.length) then "bad-op"
      else
        match (sets.map (fun st => linesFor nk fns (maskRows nk st rows))).mapM id with
        | none => "unsupported"
        | some ls => ";".intercalate ((ls.flatten.map (·.2)).mergeSort (fun x y => decide (x ≤ y)))
    | _, _, _, _ => "bad-op"
  -- grouped TopK: `(f desc nullsFirst k ((key v) …) ((key agg) …))`: the impl's rows must be a top-k (up to ties) of the
  -- specification's full aggregate ordered by the aggregate value — judged with the C08 top-k judge
  | "topk", .list [.atom f, .atom d, .atom nf, k, .list rows, .list out] =>
    match k.asNat?, rows.mapM (fun r => r.asList? >>= (·.mapM parseCell)), out.mapM (fun r => r.asList? >>= (·.mapM parseCell)) with
    | some k, some rows, some out =>
      if rows.any (·.length != 2) || out.any (·.length != 2) then "bad-op"
      else
        let acc := match f with | "min" => some min | "max" => some max | _ => none
        match acc with
        | none => "unsupported"
        | some a =>
          let full : List RowOrd.NRow := (singleAgg a (rows.map (fun r => ([r.headD none], toNV (r.getD 1 none))))).map
            (fun e => [e.2.map BitVec.toInt, e.1.headD none])
          let outR : List RowOrd.NRow := out.map (fun r => [r.getD 1 none, r.headD none])
          let le := RowOrd.leRows [⟨d == "t", nf == "t"⟩]
          (Mech.SortMerge.judgeTopK le k full outR).show
    | _, _, _ => "bad-op"
  | _, _ => "bad-op"

end DfModel.Drv.C06
