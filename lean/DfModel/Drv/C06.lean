import DfModel.Base.Sexp
import DfModel.Base.Order
import DfModel.Mech.AggAcc
import DfModel.Mech.GroupAgg
namespace DfModel.Drv.C06
open DfModel DfModel.Mech.AggAcc DfModel.Mech.GroupAgg

abbrev Key := List (Option Int)

def parseCell : Sexp → Option (Option Int)
  | .atom "n" => some none
  | .atom a => a.toInt?.map some
  | _ => none

def toNV (c : Option Int) : NV := c.map (BitVec.ofInt 64)

def showCell : Option Int → String
  | none => "n"
  | some i => toString i

def showI (v : Option V) : String := match v with | none => "n" | some x => toString x.toInt

/-- the specification's output for one aggregate function over one value column -/
def specCol {σ ρ : Type} (a : Acc σ ρ) (sh : ρ → String) (rows : List (Row Key)) : List (Key × String) :=
  (singleAgg a rows).map (fun e => (e.1, sh e.2))

def colFor (f : String) (rows : List (Row Key)) : Option (List (Key × String)) :=
  match f with
  | "count" => some (specCol count toString rows)
  | "sum" => some (specCol sum showI rows)
  | "min" => some (specCol min showI rows)
  | "max" => some (specCol max showI rows)
  | "bit_and" => some (specCol bitAnd showI rows)
  | "bit_or" => some (specCol bitOr showI rows)
  | "bit_xor" => some (specCol bitXor showI rows)
  | "count_distinct" => some (specCol countDistinct toString rows)
  | _ => none

/-- canonical row order of the printed bag: NULLs first, ascending, key column by key column -/
def keyLe (a b : Key) : Bool :=
  RowOrd.leRows (List.replicate (max a.length b.length) ⟨false, true⟩) a b

/-- `(nk (f1 f2 …) ((k1 … knk v1 v2 …) …))` → `k1,k2|a1|a2;…` sorted by key -/
def handle (op : String) (arg : Sexp) : String :=
  match op, arg with
  | "agg", .list [nk, .list fns, .list rows] =>
    match nk.asNat?, fns.mapM Sexp.asAtom?, rows.mapM (fun r => r.asList? >>= (·.mapM parseCell)) with
    | some nk, some fns, some rows =>
      if rows.any (fun r => r.length != nk + fns.length) then "bad-op"
      else
        let cols := (List.range fns.length).map (fun j =>
          colFor (fns.getD j "") (rows.map (fun r => (r.take nk, toNV ((r.drop (nk + j)).headD none)))))
        match cols.mapM id with
        | none => "unsupported"
        | some cols =>
          -- all columns list the keys in the same (first-appearance) order
          let keys : List Key := match cols with | [] => (rows.map (·.take nk)).eraseDups | c :: _ => c.map (·.1)
          let lines := keys.map (fun k =>
            (k, ",".intercalate (k.map showCell) ++ String.join (cols.map (fun c => "|" ++ ((c.find? (fun e => e.1 = k)).map (·.2)).getD "?"))))
          ";".intercalate ((lines.mergeSort (fun x y => keyLe x.1 y.1)).map (·.2))
    | _, _, _ => "bad-op"
  | _, _ => "bad-op"

end DfModel.Drv.C06
