import DfModel.Base.Sexp
import DfModel.Base.Order
import DfModel.Mech.AggAcc
import DfModel.Mech.WindowFrame
namespace DfModel.Drv.C09
open DfModel DfModel.RowOrd DfModel.Mech.AggAcc DfModel.Mech.WindowFrame

def parseOpt : Sexp → Option SortOpt
  | .atom "af" => some ⟨false, true⟩
  | .atom "al" => some ⟨false, false⟩
  | .atom "df" => some ⟨true, true⟩
  | .atom "dl" => some ⟨true, false⟩
  | _ => none

def parseBound : Sexp → Option Bound
  | .atom "up" => some .unbPrec
  | .atom "c" => some .cur
  | .atom "uf" => some .unbFoll
  | .list [.atom "p", n] => n.asNat?.map .prec
  | .list [.atom "f", n] => n.asNat?.map .foll
  | _ => none

def parseKind : Sexp → Option Kind
  | .atom "rows" => some .rows
  | .atom "range" => some .range
  | .atom "groups" => some .groups
  | _ => none

def parseCell : Sexp → Option (Option Int)
  | .atom "n" => some none
  | .atom a => a.toInt?.map some
  | _ => none

def toNV (c : Option Int) : NV := c.map (BitVec.ofInt 64)
def showI (v : Option V) : String := match v with | none => "n" | some x => toString x.toInt
def showFrac (p : Nat × Nat) : String := s!"{p.1}/{p.2}"

/-- value of one window function for row `i` -/
def evalFn (f : String) (args : List Nat) (dflt : NV) (kind : Kind) (o : SortOpt) (s e : Bound)
    (keys : List NVal) (vals : List NV) (rframes : List (Nat × Nat)) (i : Nat) : Option String :=
  -- ROWS / GROUPS: the declarative frame; RANGE: the frame as the operator computes it (memoised scan,
  -- overflow collapse) — equal to the declarative one for representable offsets (`range_search_eq_spec`)
  let fr := match kind with
    | .range => let r := rframes.getD i (0, 0); slice vals r.1 r.2
    | _ => (frameIdx kind o s e keys i).map (fun j => vals.getD j none)
  match f with
  | "count" => some (toString (count.eval (count.update count.init fr)))
  | "sum" => some (showI (sum.update sum.init fr))
  | "min" => some (showI (min.update min.init fr))
  | "max" => some (showI (max.update max.init fr))
  | "first_value" => some (showI (fr.headD none))
  | "last_value" => some (showI (fr.getLast?.getD none))
  | "nth_value" => some (showI (match args.headD 1 with | 0 => none | n + 1 => fr.getD n none))
  | "row_number" => some (toString (rowNumber i))
  | "rank" => some (toString (rank keys i))
  | "dense_rank" => some (toString (denseRank keys i))
  | "percent_rank" => some (showFrac (percentRank keys i))
  | "cume_dist" => some (showFrac (cumeDist keys i))
  | "ntile" => some (toString (ntile (args.headD 1) keys.length i))
  | "lag" => some (showI (lag vals (args.headD 1) dflt i))
  | "lead" => some (showI (lead vals (args.headD 1) dflt i))
  | _ => none

/-- `((fn arg* [dflt]) kind start end opt ((key val) …))` → per-row values, rows in the given (sorted) order -/
def handle (op : String) (arg : Sexp) : String :=
  match op, arg with
  | "win", .list [.list (.atom f :: fargs), kind, s, e, o, .list rows] =>
    match parseKind kind, parseBound s, parseBound e, parseOpt o,
          rows.mapM (fun r => match r with | .list [k, v] => do some ((← parseCell k), (← parseCell v)) | _ => none) with
    | some kind, some s, some e, some o, some rows =>
      if !(validFrame s e) then "err:plan"
      else
        let keys : List NVal := rows.map (·.1)
        let vals : List NV := rows.map (fun r => toNV r.2)
        let nums := fargs.filterMap Sexp.asNat?
        let dflt : NV := match f, fargs with
          | "lag", [_, d] => (parseCell d).bind toNV
          | "lead", [_, d] => (parseCell d).bind toNV
          | _, _ => none
        let rframes := if kind == .range then rangeFrames o keys s e else []
        match (List.range rows.length).mapM (fun i => evalFn f nums dflt kind o s e keys vals rframes i) with
        | some out => ",".intercalate out
        | none => "unsupported"
    | _, _, _, _, _ => "bad-op"
  | _, _ => "bad-op"

end DfModel.Drv.C09
