import DfModel.Base.Sexp
import DfModel.Sm.TreeWalk
namespace DfModel.Drv.C42
open DfModel DfModel.Tbl DfModel.Gen.TreeNodeTbl DfModel.Sm.TreeWalk

/-- `(label t|f kid…)` -/
partial def tree? : Sexp → Option Tree
  | .list (.atom l :: .atom r :: kids) => do
    let l ← l.toNat?
    let r ← boolOfName? r
    let ks ← kids.mapM tree?
    pure (.node l ks r)
  | _ => none

partial def treeStr : Tree → String
  | .node l ks _ => "(" ++ " ".intercalate (toString l :: ks.map treeStr) ++ ")"

/-- traversal state of the driver's callbacks: invocation counter + log of (phase, label seen) -/
structure St where
  k : Nat := 0
  log : List String := []

inductive VDec | c | j | s | e
structure TDec where
  tnr : Tnr
  flag : Bool
  relabel : Bool

def vdec? : Sexp → Option VDec
  | .atom "C" => some .c | .atom "J" => some .j | .atom "S" => some .s | .atom "E" => some .e
  | _ => none

def tnrOfChar? : Char → Option Tnr
  | 'C' => some .Continue | 'J' => some .Jump | 'S' => some .Stop | _ => none

/-- `Ctr` = Continue, transformed=true, relabel;  `Jfk` = Jump, transformed=false, keep label; `E` = error -/
def tdec? : Sexp → Option (Option TDec)
  | .atom "E" => some none
  | .atom a =>
    match a.toList with
    | [x, y, z] => do
      let t ← tnrOfChar? x
      let fl ← (if y = 't' then some true else if y = 'f' then some false else none)
      let rl ← (if z = 'r' then some true else if z = 'k' then some false else none)
      pure (some ⟨t, fl, rl⟩)
    | _ => none
  | _ => none

/-- inspecting callback driven by a decision vector indexed by the global invocation count
    (beyond the vector: `Continue`) -/
def mkVF (phase : String) (decs : List VDec) : VF St := fun s t =>
  let s' : St := { k := s.k + 1, log := s.log ++ [phase ++ toString t.label] }
  match decs[s.k]? with
  | none | some .c => (s', some .Continue)
  | some .j => (s', some .Jump)
  | some .s => (s', some .Stop)
  | some .e => (s', none)

/-- rewriting callback: new label = old + 100·(k+1) when the entry says `relabel` -/
def mkTF (phase : String) (decs : List (Option TDec)) : TF St := fun s t =>
  let s' : St := { k := s.k + 1, log := s.log ++ [phase ++ toString t.label] }
  match decs[s.k]? with
  | none => (s', some { data := t.label, transformed := false, tnr := .Continue })
  | some none => (s', none)
  | some (some d) => (s', some { data := if d.relabel then t.label + 100 * (s.k + 1) else t.label, transformed := d.flag, tnr := d.tnr })

def logStr (s : St) : String := "(" ++ " ".intercalate s.log ++ ")"

def vAns : St × Option Tnr → String
  | (s, none) => logStr s ++ " err"
  | (s, some d) => logStr s ++ " " ++ d.name

def tAns : St × Option (Tr Tree) → String
  | (s, none) => logStr s ++ " err"
  | (s, some t) => logStr s ++ " " ++ treeStr t.data ++ " " ++ show_ t.transformed ++ " " ++ t.tnr.name

def handle (op : String) (arg : Sexp) : String :=
  match op, arg with
  | "tbl", .list (.atom fn :: args) =>
    match args.mapM Sexp.asAtom? with
    | some as => (eval fn as).getD "bad-op"
    | none => "bad-op"
  | op, .list [t, .list ds] =>
    match tree? t with
    | none => "bad-op"
    | some t =>
      if op = "exists" then
        -- `TreeNode::exists(f)` = `apply` with Stop where `f` answers true; Jump counts as "not here"
        match ds.mapM vdec? with
        | none => "bad-op"
        | some ds =>
          let ds := ds.map (fun d => match d with | .j => VDec.c | d => d)
          match apply (mkVF "d" ds) {} t with
          | (s, none) => logStr s ++ " err"
          | (s, some d) => logStr s ++ " " ++ (if d == TreeNodeRecursion.Stop then "t" else "f")
      else if op = "apply" ∨ op = "visit" then
        match ds.mapM vdec? with
        | none => "bad-op"
        | some ds =>
          if op = "apply" then vAns (apply (mkVF "d" ds) {} t)
          else vAns (visit (mkVF "d" ds) (mkVF "u" ds) {} t)
      else
        match ds.mapM tdec? with
        | none => "bad-op"
        | some ds =>
          match op with
          | "tdown" => tAns (transformDown (mkTF "d" ds) {} t)
          | "tup" => tAns (transformUp (mkTF "u" ds) {} t)
          | "tdownup" | "rewrite" => tAns (transformDownUp (mkTF "d" ds) (mkTF "u" ds) {} t)
          | _ => "bad-op"
  | _, _ => "bad-op"

end DfModel.Drv.C42
