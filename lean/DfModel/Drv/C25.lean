import DfModel.Base.Sexp
import DfModel.Text.Percent
import DfModel.Text.Hive
import DfModel.Mech.Demux
namespace DfModel.Drv.C25
open DfModel DfModel.Text.Percent DfModel.Text.Hive DfModel.Mech.Demux

def hexList? : Sexp → Option (List Bytes)
  | .list xs => xs.mapM (fun x => match x with | .atom a => hexBytes? a | _ => none)
  | _ => none

def parseCell? : Sexp → Option (Option Cell)
  | .atom "N" => some none
  | .list [.atom "s", .atom h] => (hexBytes? h).map (fun b => some (.str b))
  | .list [.atom "i", n] => n.asInt?.map (fun i => some (.int i))
  | .list [.atom "b", b] => b.asBool?.map (fun b => some (.bool b))
  | _ => none

def parseTy? : Sexp → Option Ty
  | .atom "utf8" => some .utf8
  | .atom "int" => some .int
  | .atom "bool" => some .bool
  | _ => none

def digits (n : Nat) : Bytes := (Nat.toDigits 10 n).map Char.toNat

/-- text the writer puts in the directory name (`compute_partition_keys_by_row`) -/
def cellText : Cell → Bytes
  | .str s => s
  | .int i => if i < 0 then 45 :: digits i.natAbs else digits i.natAbs
  | .bool true => [116, 114, 117, 101]
  | .bool false => [102, 97, 108, 115, 101]

def insertSorted (s : String) : List String → List String
  | [] => [s]
  | x :: xs => if s ≤ x then s :: x :: xs else x :: insertSorted s xs
def sortStrings (xs : List String) : List String := xs.foldl (fun acc x => insertSorted x acc) []

/-- CSV: NULL and the empty string share one encoding; both read back as NULL -/
def csvCanon (cell : String) : String := if cell == "S:x" then "N" else cell

def rowKey (csv : Bool) : Sexp → String
  | .list cells => " ".intercalate (cells.map (fun c => match c with
      | .atom a => if csv then csvCanon a else a
      | s => s.toStr))
  | .atom a => a

/--
  `part (x<hex>)`               → `PathPart::from(bytes)` (hex)
  `seg (x<name> x<val>)`        → the directory segment the writer creates (hex)
  `parse ((x<col> …) (x<seg> …))` → `parse_partitions_for_path`: `none` | list of hex values
  `demux ((ty …) ((id cell …) …))` → files: `key-texts:ids` sorted
  `bag (csv|plain (row …) (row …))` → `ok` iff the two row bags are equal (CSV: "" ≡ NULL)
-/
def handle (op : String) (arg : Sexp) : String :=
  match op, arg with
  | "part", .list [.atom h] =>
    match hexBytes? h with
    | some b => bytesHex (pathPart b)
    | none => "bad-op"
  | "seg", .list [.atom n, .atom v] =>
    match hexBytes? n, hexBytes? v with
    | some n, some v => bytesHex (buildSeg n v)
    | _, _ => "bad-op"
  | "parse", .list [cols, segs] =>
    match hexList? cols, hexList? segs with
    | some cols, some segs =>
      match parsePartitions segs cols with
      | none => "none"
      | some vs => "(" ++ " ".intercalate (vs.map bytesHex) ++ ")"
    | _, _ => "bad-op"
  | "demux", .list [.list tys, .list rows] =>
    match tys.mapM parseTy? with
    | none => "bad-op"
    | some tys =>
      let parsed := rows.mapM (fun r => match r with
        | .list (id :: cells) => do
          let i ← id.asNat?
          let cs ← cells.mapM parseCell?
          some ({ part := cs, data := i } : Row Nat)
        | _ => none)
      match parsed with
      | none => "bad-op"
      | some rs =>
        let files := demux tys rs
        let strs := files.map (fun f =>
          ",".intercalate (f.1.map (fun c => bytesHex (cellText c))) ++ ":" ++
            ",".intercalate ((f.2.map toString) |> sortStrings))
        " ".intercalate (sortStrings strs)
  | "bag", .list [.atom mode, .list a, .list b] =>
    let csv := mode == "csv"
    let ka := sortStrings (a.map (rowKey csv))
    let kb := sortStrings (b.map (rowKey csv))
    if ka == kb then "ok" else "bad:bags-differ"
  | _, _ => "bad-op"

end DfModel.Drv.C25
