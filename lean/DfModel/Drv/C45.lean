import DfModel.Base.Sexp
import DfModel.Gen.FfiInsertOp
import DfModel.Gen.FfiVolatility
import DfModel.Gen.FfiPlanProps
import DfModel.Gen.FfiTableSource
import DfModel.Gen.FfiPlacement
import DfModel.Gen.FfiMetrics
import DfModel.Gen.FfiUdaf
namespace DfModel.Drv.C45
open DfModel

/-- `tbl (fn arg)` → the generated conversion table evaluated on a variant name -/
def handle (op : String) (arg : Sexp) : String :=
  match op, arg with
  | "tbl", .list (.atom fn :: args) =>
    match args.mapM Sexp.asAtom? with
    | some as =>
      let tries := [DfModel.Gen.FfiInsertOp.eval fn as, DfModel.Gen.FfiVolatility.eval fn as,
        DfModel.Gen.FfiPlanProps.eval fn as, DfModel.Gen.FfiTableSource.eval fn as,
        DfModel.Gen.FfiPlacement.eval fn as, DfModel.Gen.FfiMetrics.eval fn as, DfModel.Gen.FfiUdaf.eval fn as]
      match tries.filterMap id with
      | r :: _ => r
      | [] => "bad-op"
    | none => "bad-op"
  | _, _ => "bad-op"

end DfModel.Drv.C45
