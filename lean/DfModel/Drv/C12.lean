import DfModel.Base.Sexp
import DfModel.Mech.RowHash
namespace DfModel.Drv.C12
open DfModel DfModel.Mech.RowHash

/-! The driver evaluates `hashCol` with a *concrete, transparent* hasher — FNV-1a over the bytes
    that Rust's `Hash` impls feed to `Hasher::write` — which the harness plugs into the real
    `create_hashes` through the public `HashState` trait.  So the numbers themselves are compared. -/

def M64 : Nat := 2 ^ 64

def le (n k : Nat) : List Nat := (List.range k).map fun i => (n / 256 ^ i) % 256

/-- bytes written by `Hash::hash` for each kind of hashed datum (little endian, 64-bit usize) -/
def leafBytes : Leaf → List Nat
  | .int i => le (i % (2 ^ 64 : Int)).toNat 8           -- `write_i64`
  | .str b => b ++ [255]                                 -- `write_str`: bytes, then 0xff
  | .bytes b => le b.length 8 ++ b                       -- `[u8]`: length prefix, then bytes
  | .u128 len data => le len 4 ++ data                   -- `write_u128` of the view word

def fnv (init : Nat) (bs : List Nat) : Nat :=
  bs.foldl (fun h b => ((h ^^^ b) * 0x100000001b3) % M64) init

def basis : Nat := 0xcbf29ce484222325

/-- the transparent hash state used by the harness (`TState`) -/
def T : Hasher where
  one := fun l => fnv basis (leafBytes l)
  seeded := fun seed l => fnv ((basis ^^^ ((seed * 0x9E3779B97F4A7C15) % M64)) % M64) (leafBytes l)

def parseValid : Sexp → Option Validity
  | .atom "none" => some none
  | .list xs => (xs.mapM Sexp.asBool?).map some
  | _ => none

def parseView : Sexp → Option View
  | .list [.atom "i", len, .list data] => do some (.inline (← len.asNat?) (← data.mapM Sexp.asNat?))
  | .list [.atom "r", len, buf, off] => do some (.ref (← len.asNat?) (← buf.asNat?) (← off.asNat?))
  | _ => none

partial def parsePhys : Sexp → Option Phys
  | .list [.atom "prim", vals, v] => do some (.prim (← vals.intList?) (← parseValid v))
  | .list [.atom "bytes", offs, data, v] => do
    some (.bytes (← offs.natList?) (← data.natList?) (← parseValid v))
  | .list [.atom "view", .list views, .list bufs, v] => do
    some (.view (← views.mapM parseView) (← bufs.mapM Sexp.natList?) (← parseValid v))
  | .list [.atom "dict", keys, kv, values] => do
    some (.dict (← keys.natList?) (← parseValid kv) (← parsePhys values))
  | .list [.atom "ree", re, values, off, len] => do
    some (.ree (← re.natList?) (← parsePhys values) (← off.asNat?) (← len.asNat?))
  | .list [.atom "list", offs, child, v] => do
    some (.list (← offs.natList?) (← parsePhys child) (← parseValid v))
  | .list [.atom "struct", c1, c2, v, len] => do
    some (.struct (← parsePhys c1) (← parsePhys c2) (← parseValid v) (← len.asNat?))
  | _ => none

partial def showLVal : LVal → String
  | .null => "N"
  | .int i => toString i
  | .bytes b => bytesHex b
  | .list xs => "[" ++ ",".intercalate (xs.map showLVal) ++ "]"
  | .struct a b => "{" ++ showLVal a ++ "," ++ showLVal b ++ "}"

def showNats (xs : List Nat) : String :=
  if xs.isEmpty then "-" else " ".intercalate (xs.map toString)

/-- which kernel path a column takes (the const-generic / fast-path dispatch) -/
def pathOf : Phys → String
  | .prim _ v => if v.nullCount = 0 then "prim:nonull" else "prim:valid_indices"
  | .bytes _ _ v => if v.nullCount = 0 then "bytes:nonull" else "bytes:valid_indices"
  | .view _ bufs v =>
    s!"view:nulls={decide (v.nullCount ≠ 0)},buffers={!bufs.isEmpty}"
  | .dict _ kv values =>
    s!"dict:nullkeys={decide (kv.nullCount ≠ 0)},nullvalues={decide (values.physNullCount ≠ 0)}"
  | .ree _ values _ _ => s!"ree:nullvalues={decide (values.physNullCount ≠ 0)}"
  | .list _ _ v => if v.nullCount = 0 then "list:nonull" else "list:nulls"
  | .struct _ _ v _ => if v.nullCount = 0 then "struct:nonull" else "struct:nulls"

def handle (op : String) (arg : Sexp) : String :=
  match op, arg with
  | "hash", .list (n :: cols) =>
    match n.asNat?, cols.mapM parsePhys with
    | some n, some ps => showNats (createHashes T ps n)
    | _, _ => "bad-op"
  | "logical", p =>
    match parsePhys p with
    | some p => "|".intercalate (p.logical.map showLVal)
    | none => "bad-op"
  | "path", p =>
    match parsePhys p with
    | some p => pathOf p
    | none => "bad-op"
  | _, _ => "bad-op"

end DfModel.Drv.C12
