import DfModel.Base.Sexp
import DfModel.Sm.Gv
namespace DfModel.Drv.C13
open DfModel DfModel.Sm.Gv

abbrev Row := List (Option Nat)

def parseCell : Sexp → Option (Option Nat)
  | .atom "n" => some none
  | s => s.asNat?.map some

def parseRow : Sexp → Option Row
  | .list cs => cs.mapM parseCell
  | _ => none

def parseOp : Sexp → Option (Op Row)
  | .list (.atom "i" :: rows) => (rows.mapM parseRow).map .intern
  | .list [.atom "ea"] => some (.emit .all)
  | .list [.atom "ef", n] => n.asNat?.map (fun n => .emit (.first n))
  | .list [.atom "c"] => some .clear
  | _ => none

def showCell : Option Nat → String
  | none => "n"
  | some v => toString v

def showRow (r : Row) : String := ",".intercalate (r.map showCell)

def showOut {K : Type} (showK : K → String) : Out K → String
  | .ids gs => "ids:" ++ ",".intercalate (gs.map toString)
  | .keys ks => "keys:" ++ ";".intercalate (ks.map showK)
  | .unit => "unit"
  | .invalid => "invalid"
  | .panic => "panic"

/-- single-column stores see the first cell of each row -/
def oneCell : Row → Option (Option Nat)
  | [c] => some c
  | _ => none

def cellOp : Op Row → Option (Op (Option Nat))
  | .intern rows => (rows.mapM oneCell).map .intern
  | .emit e => some (.emit e)
  | .clear => some .clear

def isBad {K : Type} : Out K → Bool
  | .invalid => true
  | _ => false
def isPanic {K : Type} : Out K → Bool
  | .panic => true
  | _ => false

/-- generic runner: per op `<out>|<len>`; stops after a panic; `none` = outside the model -/
def runShow {S K : Type} (step : S → Op K → S × Out K) (len : S → Nat) (showK : K → String)
    (s : S) : List (Op K) → Option (List String)
  | [] => some []
  | op :: ops =>
    let r := step s op
    if isBad r.2 then none
    else if isPanic r.2 then some ["panic"]
    else (runShow step len showK r.1 ops).map (fun rest => s!"{showOut showK r.2}|{len r.1}" :: rest)

/-- `GroupValuesRows`: the specification plus "emit before the first intern panics" -/
def rowsStep (s : List Row × Bool) (op : Op Row) : (List Row × Bool) × Out Row :=
  match op with
  | .intern _ => let r := Spec.step s.1 op; ((r.1, true), r.2)
  | .emit _ => if s.2 then let r := Spec.step s.1 op; ((r.1, s.2), r.2) else (s, .panic)
  | .clear => let r := Spec.step s.1 op; ((r.1, s.2), r.2)

/-- `GroupValuesColumn`: the specification, except that `emit(All)` leaves the hash table (and
    `group_index_lists`) populated; what a following non-empty `intern` does then depends on stale
    indices (out-of-bounds reads) and is outside the model until `clear_shrink` resets the table -/
def colStep (s : List Row × Bool) (op : Op Row) : (List Row × Bool) × Out Row :=
  match op with
  | .intern ks =>
    if s.2 && !ks.isEmpty then (s, .invalid)
    else let r := Spec.step s.1 op; ((r.1, s.2), r.2)
  | .emit .all => let r := Spec.step s.1 op; ((r.1, s.2 || !s.1.isEmpty), r.2)
  | .emit _ => let r := Spec.step s.1 op; ((r.1, s.2), r.2)
  | .clear => (([], false), .unit)

def finish : Option (List String) → String
  | some ls => " ".intercalate ls
  | none => "unsupported"

def handle (op : String) (arg : Sexp) : String :=
  match op, arg with
  | "run", .list (.atom kind :: hm :: ops) =>
    match hm.asNat?, ops.mapM parseOp with
    | some hashmod, some os =>
      match kind with
      | "spec" => finish (runShow colStep (fun s => s.1.length) showRow (([] : List Row), false) os)
      | "unordered" => "unsupported"
      | "rows" => finish (runShow rowsStep (fun s => s.1.length) showRow (([] : List Row), false) os)
      | "prim" =>
        match os.mapM cellOp with
        | some cs => finish (runShow (Prim.step (fun v => if hashmod = 0 then v else v % hashmod) true)
                                Prim.len showCell Prim.init cs)
        | none => "bad-op"
      | "bytes" =>
        match os.mapM cellOp with
        | some cs => finish (runShow (Bytes.step true) Bytes.len showCell Bytes.init cs)
        | none => "bad-op"
      | "bool" =>
        match os.mapM cellOp with
        | some cs => finish (runShow Bool3.step Bool3.len showCell Bool3.init cs)
        | none => "bad-op"
      | _ => "bad-op"
    | _, _ => "bad-op"
  | _, _ => "bad-op"

end DfModel.Drv.C13
