import DfModel.Base.Sexp
import DfModel.Sm.Lru
namespace DfModel.Drv.C40
open DfModel DfModel.Sm.Lru

def parseKey : Sexp → Option Key
  | .list [i, sz, .atom "-"] => do some { id := ← i.asNat?, size := ← sz.asNat?, table := none }
  | .list [i, sz, t] => do some { id := ← i.asNat?, size := ← sz.asNat?, table := some (← t.asNat?) }
  | _ => none

def parseVal : Sexp → Option Val
  | .list [i, sz, fs, mt, fp] => do
    some { id := ← i.asNat?, size := ← sz.asNat?, fsize := ← fs.asNat?, mtime := ← mt.asNat?, fp := ← fp.asNat? }
  | _ => none

def parseOptNat : Sexp → Option (Option Nat)
  | .atom "none" => some none
  | s => s.asNat?.map some

def parseOp : Sexp → Option XOp
  | .list [.atom "put", k, v] => do some (.basic (.put (← parseKey k) (← parseVal v)))
  | .list [.atom "get", k] => do some (.basic (.get (← parseKey k)))
  | .list [.atom "has", k] => do some (.basic (.contains (← parseKey k)))
  | .list [.atom "rm", k] => do some (.basic (.remove (← parseKey k)))
  | .list [.atom "clear"] => some (.basic .clear)
  | .list [.atom "limit", n] => do some (.basic (.setLimit (← n.asNat?)))
  | .list [.atom "ttl", t] => do some (.basic (.setTtl (← parseOptNat t)))
  | .list [.atom "adv", d] => do some (.basic (.advance (← d.asNat?)))
  | .list [.atom "drop", t] => do some (.basic (.dropTable (← t.asNat?)))
  | .list [.atom "use", k, v, fp] => do some (.use (← parseKey k) (← parseVal v) (← fp.asBool?))
  | _ => none

def showOut : XOut → String
  | .basic .none => "none"
  | .basic (.some v) => s!"some:{v.id}"
  | .basic (.bool true) => "true"
  | .basic (.bool false) => "false"
  | .basic .unit => "unit"
  | .cached v => s!"cached:{v.id}"
  | .computed v => s!"computed:{v.id}"

def showOpt : Option Nat → String
  | none => "none"
  | some n => toString n

def showInfo (i : Info) : String :=
  s!"{i.key.id}={i.val.id},{i.sizeBytes},{i.hits},{showOpt i.expires}"

def showState (s : St) : String :=
  let es := (listEntries s).mergeSort (fun a b => a.key.id ≤ b.key.id)
  s!"{s.q.length}/{s.used}/{s.limit}/{showOpt s.ttl}/[{";".intercalate (es.map showInfo)}]" ++
    (if s.panicked then "/PANIC" else "")

/-- `run (limit ttl op*)` → per op `<out>/<len>/<memory_used>/<limit>/<ttl>/[entries sorted by key]` -/
def runShow (s : St) : List XOp → List String
  | [] => []
  | op :: ops =>
    let r := stepX s op
    s!"{showOut r.2}/{showState r.1}" :: runShow r.1 ops

def handle (op : String) (arg : Sexp) : String :=
  match op, arg with
  | "run", .list (lim :: ttl :: ops) =>
    match lim.asNat?, parseOptNat ttl, ops.mapM parseOp with
    | some l, some t, some os => " ".intercalate (runShow (init l t) os)
    | _, _, _ => "bad-op"
  | _, _ => "bad-op"

end DfModel.Drv.C40
