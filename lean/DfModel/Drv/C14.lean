import DfModel.Base.Sexp
import DfModel.Sm.Jhm
namespace DfModel.Drv.C14
open DfModel DfModel.Sm.Jhm

def parsePair : Sexp → Option (Nat × Nat)
  | .list [a, b] => do some (← a.asNat?, ← b.asNat?)
  | _ => none

def parseBatch : Sexp → Option (List (Nat × Nat))
  | .list (.atom "b" :: rows) => rows.mapM parsePair
  | _ => none

structure Query where
  hashes : List Nat
  valid : List Bool
  limit : Nat

def parseQuery : Sexp → Option Query
  | .list [.atom "q", hs, .list vs, lim] => do
    some { hashes := ← hs.natList?, valid := ← vs.mapM Sexp.asBool?, limit := ← lim.asNat? }
  | _ => none

def showPairs (ps : Pairs) : String := ",".intercalate (ps.map (fun p => s!"{p.1}-{p.2}"))

def showBools (bs : List Bool) : String := String.ofList (bs.map (fun b => if b then 't' else 'f'))

def build (m : Map) : List (List (Nat × Nat)) → Option Map
  | [] => some m
  | b :: rest => match updateFromIter m 0 b with
    | none => none
    | some m' => build m' rest

def answerQuery (m : Map) (q : Query) : String :=
  let probes := (List.range q.hashes.length).zip q.hashes
  let full := match getMatchedIndices m probes with
    | some ps => showPairs ps
    | none => "panic"
  let pgs :=
    if q.limit = 0 then "skipped"
    else
      -- generous bound on the number of calls: every non-final page is full or advances a probe row
      let fuel := (match getMatchedIndices m probes with | some ps => ps.length | none => 0) + q.hashes.length + 2
      match pages m q.hashes q.valid q.limit fuel (0, none) with
      | some ps => "/".intercalate (ps.map showPairs)
      | none => "panic"
  s!"full={full};pages={pgs};contain={showBools (containHashes m q.hashes)}"

/-- `run (cap (batches (b (row hash)…)…) (q (hash…) (valid…) limit)…)` -/
def handle (op : String) (arg : Sexp) : String :=
  match op, arg with
  | "run", .list (cap :: .list (.atom "batches" :: bs) :: qs) =>
    match cap.asNat?, bs.mapM parseBatch, qs.mapM parseQuery with
    | some c, some batches, some queries =>
      match build (withCapacity c) batches with
      | none => "unsupported"
      | some m =>
        " ".intercalate (s!"len={m.first.length};empty={if m.first.isEmpty then "t" else "f"}" ::
          queries.map (answerQuery m))
    | _, _, _ => "bad-op"
  | _, _ => "bad-op"

end DfModel.Drv.C14
