import DfModel.Base.Sexp
import DfModel.Mech.Streaming
/-!
  C50 driver.
    `judge (op rows slack checkpoints delivered)`            (refinement judge → `ok` / `bad:<why>`)
        op    := s | (f lo op) | (p add op) | (l n op) | (a op) | (u op op)
        rows  := ((k v)*)             the input fed so far (in order)
        slack := nat                  input rows the engine may lag behind (buffers)
        checkpoints := ((m c)*)       after feeding the first m rows, c rows had been delivered
        delivered := ((k v)*)         all rows delivered, in order of arrival
      checks: delivered is a prefix of `out op rows` (for shapes with UNION: a sub-bag);
              at every checkpoint c ≤ |out op (take m rows)|            — correct for the input seen;
              at every checkpoint c ≥ |out op (take (m - slack) rows)|  — progress.
      `unsupported` for shapes that are not `covered`.
    `held (bs lo rows)` → number of rows `FilterExec` (batch size bs, predicate v >= lo) has handed on
        after the input `rows` (only completed batches leave its output coalescer)
    `props plan` → pre-order list of declared `(boundedness:emission)` and the sanity verdict
        plan := (stream t|f) | (mem) | (pass plan) | (limit plan) | (sort sat fetch plan)
              | (agg linear plan) | (wagg plan) | (union plan*) | (cross plan plan)
-/
namespace DfModel.Drv.C50
open DfModel DfModel.Mech.Streaming

partial def op? : Sexp → Option Op
  | .atom "s" => some .source
  | .list [.atom "f", lo, o] => do some (.filter (← lo.asInt?) (← op? o))
  | .list [.atom "p", a, o] => do some (.project (← a.asInt?) (← op? o))
  | .list [.atom "l", n, o] => do some (.limit (← n.asNat?) (← op? o))
  | .list [.atom "a", o] => do some (.agg (← op? o))
  | .list [.atom "u", a, b] => do some (.union (← op? a) (← op? b))
  | _ => none

def row? : Sexp → Option Row
  | .list [k, v] => do some ⟨← k.asInt?, ← v.asInt?⟩
  | _ => none

def rows? : Sexp → Option (List Row)
  | .list xs => xs.mapM row?
  | _ => none

def cp? : Sexp → Option (Nat × Nat)
  | .list [m, c] => do some (← m.asNat?, ← c.asNat?)
  | _ => none

/-- remove one occurrence -/
def eraseOne (r : Row) : List Row → Option (List Row)
  | [] => none
  | x :: xs => if x = r then some xs else (eraseOne r xs).map (x :: ·)

def subBag : List Row → List Row → Bool
  | [], _ => true
  | r :: rs, ys => match eraseOne r ys with
    | some ys' => subBag rs ys'
    | none => false

def isPrefix : List Row → List Row → Bool
  | [], _ => true
  | _ :: _, [] => false
  | x :: xs, y :: ys => x = y && isPrefix xs ys

def judge (op : Op) (rows : List Row) (slack : Nat) (cps : List (Nat × Nat)) (delivered : List Row) : String :=
  let full := out op rows
  let shapeOk := if linear op then isPrefix delivered full else subBag delivered full
  if !shapeOk then "bad:delivered-rows-not-determined-by-input"
  else
    match cps.find? (fun p => decide ((out op (rows.take p.1)).length < p.2)) with
    | some p => s!"bad:more-than-input-determines@{p.1}"
    | none =>
      match cps.find? (fun p => decide (p.2 < (out op (rows.take (p.1 - slack))).length)) with
      | some p => s!"bad:no-progress@{p.1}"
      | none => "ok"

partial def plan? : Sexp → Option Plan
  | .list [.atom "stream", b] => b.asBool?.map .stream
  | .list [.atom "mem"] => some .mem
  | .list [.atom "pass", p] => (plan? p).map .pass
  | .list [.atom "limit", p] => (plan? p).map .limit
  | .list [.atom "sort", s, f, p] => do some (.sort (← s.asBool?) (← f.asBool?) (← plan? p))
  | .list [.atom "agg", l, p] => do some (.agg (← l.asBool?) (← plan? p))
  | .list [.atom "wagg", p] => (plan? p).map .windowAgg
  | .list (.atom "union" :: ps) => (ps.mapM plan?).map .union
  | .list [.atom "cross", l, r] => do some (.cross (← plan? l) (← plan? r))
  | _ => none

def showProps (p : Bnd × Emi) : String :=
  (match p.1 with | .bounded => "B" | .unbounded false => "U0" | .unbounded true => "U1") ++ ":" ++
  (match p.2 with | .incremental => "I" | .final => "F" | .both => "X")

partial def preorder : Plan → List String
  | .stream i => [showProps (props (.stream i))]
  | .mem => [showProps (props .mem)]
  | .pass i => showProps (props (.pass i)) :: preorder i
  | .limit i => showProps (props (.limit i)) :: preorder i
  | .sort s f i => showProps (props (.sort s f i)) :: preorder i
  | .agg l i => showProps (props (.agg l i)) :: preorder i
  | .windowAgg i => showProps (props (.windowAgg i)) :: preorder i
  | .union is => showProps (props (.union is)) :: is.flatMap preorder
  | .cross l r => showProps (props (.cross l r)) :: (preorder l ++ preorder r)

def handle (op : String) (arg : Sexp) : String :=
  match op, arg with
  | "judge", .list [o, rs, sl, .list cps, dl] =>
    match op? o, rows? rs, sl.asNat?, cps.mapM cp?, rows? dl with
    | some o, some rs, some sl, some cps, some dl =>
      if covered o then judge o rs sl cps dl else "unsupported"
    | _, _, _, _, _ => "bad-op"
  | "held", .list [bs, lo, rs] =>
    match bs.asNat?, lo.asInt?, rows? rs with
    | some bs, some lo, some rs => toString (filterDelivered bs lo rs).length
    | _, _, _ => "bad-op"
  | "props", p =>
    match plan? p with
    | some p => ",".intercalate (preorder p) ++ (if accepted p then "/acc" else "/rej")
    | none => "bad-op"
  | _, _ => "bad-op"

end DfModel.Drv.C50
