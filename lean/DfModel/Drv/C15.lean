import DfModel.Base.Sexp
import DfModel.Sm.Chan
namespace DfModel.Drv.C15
open DfModel DfModel.Sm.Chan

def parseOp : Sexp → Option Op
  | .list [.atom "s", c, t, v] => do some (.send (← c.asNat?) (← t.asNat?) (← v.asNat?))
  | .list [.atom "r", c, t] => do some (.recv (← c.asNat?) (← t.asNat?))
  | .list [.atom "c", c] => c.asNat?.map .clone
  | .list [.atom "dt", c] => c.asNat?.map .dropTx
  | .list [.atom "dr", c] => c.asNat?.map .dropRx
  | .list [.atom "x", t] => t.asNat?.map .cancel
  | _ => none

def showRes : Res → String
  | .sendOk => "ok"
  | .sendErr => "err"
  | .sendPending => "pend"
  | .recvSome v => s!"some:{v}"
  | .recvNone => "none"
  | .recvPending => "rpend"
  | .done => "done"
  | .invalid => "invalid"
  | .panic => "panic"

def showOut (o : Out) : String :=
  showRes o.res ++ "/" ++ ",".intercalate (o.wakes.map toString)

/-- waiters `t < nT` that are blocked and not woken, as `t>s<c>` / `t>r<c>` -/
def showBlocked (s : St) (nT : Nat) : String :=
  ",".intercalate ((List.range nT).filterMap (fun t =>
    if s.woken t then none else
    match s.blk t with
    | some (.send c) => some s!"{t}>s{c}"
    | some (.recv c) => some s!"{t}>r{c}"
    | none => none))

/-- `run (n nT op*)` → per op `<res>/<wakes>`, then `B:<blocked unwoken waiters>` and
    `E:<gate counter>/<gate closed?>/<queue lengths>` of the final state (the `E:` part is compared
    with what the harness derives from the implementation's answers alone). -/
def handle (op : String) (arg : Sexp) : String :=
  match op, arg with
  | "run", .list (n :: nT :: ops) =>
    match n.asNat?, nT.asNat?, ops.mapM parseOp with
    | some n, some nT, some os =>
      if n > 64 ∨ nT > 4096 then "unsupported" else
      let r := run (init n) os
      let outs := r.2.map (fun p => showOut p.2)
      let s := r.1
      let qs := (List.range n).map (fun c => toString (qlen s c))
      " ".intercalate (outs ++ [s!"B:{showBlocked s nT}",
        s!"E:{s.empty}/{if s.sendWakers.isSome then 1 else 0}/{",".intercalate qs}"])
    | _, _, _ => "bad-op"
  | _, _ => "bad-op"

end DfModel.Drv.C15
