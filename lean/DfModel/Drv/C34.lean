import DfModel.Base.Sexp
import DfModel.Base.ScalarModel
namespace DfModel.Drv.C34
open DfModel DfModel.ScalarModel

def parseTU : Sexp → Option TU
  | .atom "s" => some .s | .atom "ms" => some .ms | .atom "us" => some .us | .atom "ns" => some .ns
  | _ => none

def showTU : TU → String
  | .s => "s" | .ms => "ms" | .us => "us" | .ns => "ns"

def parsePTy : Sexp → Option PTy
  | .atom "null" => some .null
  | .atom "bool" => some .bool
  | .atom "i8" => some (.int true 8) | .atom "i16" => some (.int true 16)
  | .atom "i32" => some (.int true 32) | .atom "i64" => some (.int true 64)
  | .atom "u8" => some (.int false 8) | .atom "u16" => some (.int false 16)
  | .atom "u32" => some (.int false 32) | .atom "u64" => some (.int false 64)
  | .atom "utf8" => some (.str .norm) | .atom "lutf8" => some (.str .large) | .atom "utf8v" => some (.str .view)
  | .atom "bin" => some (.bin .norm) | .atom "lbin" => some (.bin .large) | .atom "binv" => some (.bin .view)
  | .atom "date32" => some .date32 | .atom "date64" => some .date64
  | .list [.atom "fsb", n] => n.asInt?.map .fsb
  | .list [.atom "time32", u] => (parseTU u).map .time32
  | .list [.atom "time64", u] => (parseTU u).map .time64
  | .list [.atom "dur", u] => (parseTU u).map .dur
  | .list [.atom "ts", u, .atom tz] => do
    let u ← parseTU u
    if tz == "-" then some (.ts u none) else
    let bs ← hexBytes? tz
    some (.ts u (some (String.ofList (bs.map Char.ofNat))))
  | .list [.atom "dec", w, p, s] => do some (.dec (← w.asNat?) (← p.asNat?) (← s.asInt?))
  | _ => none

def showEnc (pre : String) : Enc → String
  | .norm => pre | .large => "l" ++ pre | .view => pre ++ "v"

def showPTy : PTy → String
  | .null => "null" | .bool => "bool"
  | .int sg b => (if sg then "i" else "u") ++ toString b
  | .str e => showEnc "utf8" e | .bin e => showEnc "bin" e
  | .fsb n => s!"(fsb {n})"
  | .date32 => "date32" | .date64 => "date64"
  | .time32 u => s!"(time32 {showTU u})" | .time64 u => s!"(time64 {showTU u})"
  | .ts u tz => s!"(ts {showTU u} {match tz with | none => "-" | some t => bytesHex (t.toList.map Char.toNat)})"
  | .dur u => s!"(dur {showTU u})"
  | .dec w p s => s!"(dec {w} {p} {s})"

def parseFields : List Sexp → Option (List (String × PTy))
  | [] => some []
  | .list [.atom n, t] :: rest => do
    let t ← parsePTy t
    let r ← parseFields rest
    some ((n, t) :: r)
  | _ => none

def parseTy : Sexp → Option Ty
  | .list [.atom "dict", k, v] => do some (.dict (← parsePTy k) (← parsePTy v))
  | .list [.atom "list", e] => (parsePTy e).map .list
  | .list (.atom "struct" :: fs) => (parseFields fs).map .struct
  | s => (parsePTy s).map .prim

def showTy : Ty → String
  | .prim t => showPTy t
  | .dict k v => s!"(dict {showPTy k} {showPTy v})"
  | .list e => s!"(list {showPTy e})"
  | .struct fs => "(struct" ++ String.join (fs.map fun (n, t) => s!" ({n} {showPTy t})") ++ ")"

/-- payload kinds by type -/
def parsePVal (t : PTy) (s : Sexp) : Option (Option PVal) :=
  match s with
  | .atom "null" => some none
  | .atom a =>
    match t with
    | .null => none
    | .bool => if a == "t" then some (some (.b true)) else if a == "f" then some (some (.b false)) else none
    | .str _ | .bin _ | .fsb _ => (hexBytes? a).map (fun bs => some (.bytes bs))
    | _ => a.toInt?.map (fun n => some (.i n))
  | _ => none

def showPVal : Option PVal → String
  | none => "null"
  | some (.b true) => "t"
  | some (.b false) => "f"
  | some (.i n) => toString n
  | some (.bytes bs) => bytesHex bs

def parseElems : List PTy → List Sexp → Option (List PScalar)
  | [], [] => some []
  | t :: ts, v :: vs => do
    let x ← parsePVal t v
    let r ← parseElems ts vs
    some (⟨t, x⟩ :: r)
  | _, _ => none

def parseScalar : Sexp → Option Scalar
  | .list [t, v] => do
    match ← parseTy t with
    | .prim pt => (parsePVal pt v).map fun x => .prim ⟨pt, x⟩
    | .dict k pt => (parsePVal pt v).map fun x => .dict k ⟨pt, x⟩
    | .list e =>
      match v with
      | .atom "null" => some (.list e none)
      | .list vs => (parseElems (List.replicate vs.length e) vs).map fun xs => .list e (some xs)
      | _ => none
    | .struct fs =>
      match v with
      | .atom "null" => some (.struct fs none)
      | .list vs => (parseElems (fs.map (·.2)) vs).map fun xs => .struct fs (some xs)
      | _ => none
  | _ => none

def showRow : Option (List PScalar) → String
  | none => "null"
  | some xs => "(" ++ " ".intercalate (xs.map fun p => showPVal p.v) ++ ")"

def showScalar : Scalar → String
  | .prim p => s!"({showPTy p.ty} {showPVal p.v})"
  | .dict k p => s!"((dict {showPTy k} {showPTy p.ty}) {showPVal p.v})"
  | .list e v => s!"((list {showPTy e}) {showRow v})"
  | .struct fs v => s!"({showTy (.struct fs)} {showRow v})"

def showRes : Except Err Scalar → String
  | .ok s => showScalar s
  | .error .plain => "err"
  | .error .panic => "err:panic"
  | .error .unsup => "unsupported"

def joinRes (xs : List String) : String :=
  if xs.any (· == "unsupported") then "unsupported" else " ".intercalate xs

def showOrd : Option Ordering → String
  | none => "none" | some .lt => "lt" | some .eq => "eq" | some .gt => "gt"

def allPrim : List Scalar → Option (List PScalar)
  | [] => some []
  | .prim p :: r => (allPrim r).map (p :: ·)
  | _ => none

def handle (op : String) (arg : Sexp) : String :=
  match op, arg with
  | "rt", .list [s, n, .list is] =>
    match parseScalar s, n.asNat?, is.mapM Sexp.asNat? with
    | some s, some n, some is =>
      match toArrayOfSize s n with
      | .error e => showRes (.error e)
      | .ok a => joinRes (is.map fun i => showRes (tryFromArray a i))
    | _, _, _ => "bad-op"
  | "iter", .list xs =>
    match xs.mapM parseScalar with
    | some ss =>
      match iterToArray ss with
      | .error e => showRes (.error e)
      | .ok a => joinRes ((List.range a.len).map fun i => showRes (tryFromArray a i))
    | none => "bad-op"
  | "cmp", .list [a, b] =>
    match parseScalar a, parseScalar b with
    | some (.struct _ _), some _ => "unsupported"
    | some a, some b => showOrd (cmpScalar a b)
    | _, _ => "bad-op"
  | "eq", .list [a, b] =>
    match parseScalar a, parseScalar b with
    | some a, some b => if beqScalar a b then "t" else "f"
    | _, _ => "bad-op"
  | "sort", .list xs =>
    match xs.mapM parseScalar with
    | some ss =>
      match allPrim ss with
      | some ps => " ".intercalate ((sortAsc ps).map fun p => showScalar (.prim p))
      | none => "unsupported"
    | none => "bad-op"
  | "cast", .list [s, t, safe] =>
    match parseScalar s, parseTy t, safe.asBool? with
    | some s, some t, some safe => showRes (castScalar safe s t)
    | _, _, _ => "bad-op"
  | "casta", .list [s, t, safe] =>
    match parseScalar s, parseTy t, safe.asBool? with
    | some s, some t, some safe => showRes (castViaArray safe s t)
    | _, _, _ => "bad-op"
  | _, _ => "bad-op"

end DfModel.Drv.C34
