import DfModel.Base.Sexp
import DfModel.Mech.AggAcc
namespace DfModel.Drv.C07
open DfModel DfModel.Mech.AggAcc

def parseVal : Sexp → Option NV
  | .atom "n" => some none
  | .atom a => a.toInt?.map (fun i => some (BitVec.ofInt 64 i))
  | _ => none

def parseVals : Sexp → Option (List NV)
  | .list xs => xs.mapM parseVal
  | _ => none

def parseGRow : Sexp → Option GRow
  | .list [g, v, .atom k] => do
    let g ← g.asNat?
    let v ← parseVal v
    some ⟨g, v, k == "t"⟩
  | _ => none

def showI (v : Option V) : String := match v with | none => "n" | some x => toString x.toInt
def showB (v : Option V) : String := match v with | none => "n" | some x => if x == 0 then "f" else "t"
def showAvg (v : Option (Int × Nat)) : String := match v with | none => "n" | some (s, c) => s!"{s}/{c}"

/-- everything the ops need from one accumulator, with the state type hidden -/
structure Pack where
  split : List (List NV) → String
  merge : List (List NV) → String
  groups : Nat → List GRow → String
  retract : Option (List NV → List NV → String)

def pack {σ ρ : Type} (a : Acc σ ρ) (sh : ρ → String) (retr : Option (σ → NV → σ)) : Pack where
  split := fun parts => sh (a.eval (parts.foldl a.update a.init))
  merge := fun parts => sh (a.eval (mergeAll a parts))
  groups := fun n rows => ",".intercalate ((groupsUpdate a (List.replicate n a.init) rows).map (fun s => sh (a.eval s)))
  retract := retr.map (fun r => fun xs ys => sh (a.eval (xs.foldl r (a.update a.init (xs ++ ys)))))

def lookup : String → Option Pack
  | "count" => some (pack count toString (some countRetract))
  | "sum" => some (pack sum showI none)
  | "sum_sliding" => some (pack sumSliding showI (some sumSlidingRetract))
  | "min" => some (pack min showI none)
  | "max" => some (pack max showI none)
  | "min_sliding" => some (pack slidingMin showI (some slidingRetract))
  | "max_sliding" => some (pack slidingMax showI (some slidingRetract))
  | "avg" => some (pack avg showAvg (some avgRetract))
  | "bool_and" => some (pack boolAnd showB none)
  | "bool_or" => some (pack boolOr showB none)
  | "bit_and" => some (pack bitAnd showI none)
  | "bit_or" => some (pack bitOr showI none)
  | "bit_xor" => some (pack bitXor showI (some bitXorRetract))
  | "first_value" => some (pack first showI none)
  | "last_value" => some (pack last showI none)
  | "count_distinct" => some (pack countDistinct toString none)
  | "count_distinct_sliding" => some (pack countDistinctSliding toString (some bagRetract))
  | _ => none

def handle (op : String) (arg : Sexp) : String :=
  match op, arg with
  | "split", .list (.atom f :: parts) =>
    match lookup f, parts.mapM parseVals with
    | some p, some ps => p.split ps
    | none, _ => "unsupported"
    | _, _ => "bad-op"
  | "merge", .list (.atom f :: parts) =>
    match lookup f, parts.mapM parseVals with
    | some p, some ps => p.merge ps
    | none, _ => "unsupported"
    | _, _ => "bad-op"
  | "groups", .list [.atom f, n, .list rows] =>
    match lookup f, n.asNat?, rows.mapM parseGRow with
    | some p, some n, some rs => p.groups n rs
    | none, _, _ => "unsupported"
    | _, _, _ => "bad-op"
  | "retract", .list [.atom f, xs, ys] =>
    match lookup f, parseVals xs, parseVals ys with
    | some p, some xs, some ys =>
      match p.retract with
      | some r => r xs ys
      | none => "unsupported"
    | none, _, _ => "unsupported"
    | _, _, _ => "bad-op"
  | _, _ => "bad-op"

end DfModel.Drv.C07
