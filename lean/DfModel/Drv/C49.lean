import DfModel.Base.Sexp
import DfModel.Sm.Catalog
/-!
  C49 driver.   `run (stmt*)`  →  one block per statement, joined by " ; ":
      `<outcome>#T=<tables>#C=<columns>#V=<views>#S=<schemata>`
  outcome: `ok` | `ok:<col>,<col>…` (SELECT) | `err:<kind>`; listings are sorted, comma separated,
  rows of `information_schema` itself are only counted (`…|i=<n>`).

  stmt  := (ccat ident ine) | (cschema ref ine) | (dschema ref ifx cascade)
         | (ctable ref ine orr (cols col*)) | (ctable ref ine orr (as query))
         | (cview ref orr query x<hex text>) | (dtable ref ifx) | (dview ref ifx) | (select ref)
  ident := (q x<hex>) | (u x<hex>)       ref := (ident*)       col := (x<hex name> <type> t|f)
  query := (const col*) | (from ref) | (failing col*)
-/
namespace DfModel.Drv.C49
open DfModel DfModel.Sm.Catalog

def okChar (c : Char) : Bool := c.isAlphanum || c == '_'

def name? (s : Sexp) : Option (List Char) := do
  let a ← s.asAtom?
  let bs ← hexBytes? a
  let cs := bs.map Char.ofNat
  if cs.isEmpty || !cs.all okChar then none else some cs

def text? (s : Sexp) : Option (List Char) := do
  let a ← s.asAtom?
  let bs ← hexBytes? a
  some (bs.map Char.ofNat)

def ident? : Sexp → Option Ident
  | .list [.atom "q", n] => do some ⟨← name? n, true⟩
  | .list [.atom "u", n] => do some ⟨← name? n, false⟩
  | _ => none

def ref? : Sexp → Option (List Ident)
  | .list xs => xs.mapM ident?
  | _ => none

def col? : Sexp → Option Col
  | .list [n, .atom ty, b] => do some ⟨← name? n, ty.toList, ← b.asBool?⟩
  | _ => none

def cols? (xs : List Sexp) : Option (List Col) := do
  let cs ← xs.mapM col?
  if (cs.map (·.name)).eraseDups.length != cs.length then none else some cs

def query? : Sexp → Option Query
  | .list (.atom "const" :: cs) => do some (.const (← cols? cs))
  | .list (.atom "failing" :: cs) => do some (.failing (← cols? cs))
  | .list [.atom "from", r] => do some (.src (← ref? r))
  | _ => none

def stmt? : Sexp → Option Stmt
  | .list [.atom "ccat", n, ine] => do some (.createCatalog (← ident? n) (← ine.asBool?))
  | .list [.atom "cschema", r, ine] => do some (.createSchema (← ref? r) (← ine.asBool?))
  | .list [.atom "dschema", r, ifx, c] => do some (.dropSchema (← ref? r) (← ifx.asBool?) (← c.asBool?))
  | .list [.atom "ctable", r, ine, orr, .list (.atom "cols" :: cs)] => do
      some (.createTable (← ref? r) (← ine.asBool?) (← orr.asBool?) (.cols (← cols? cs)))
  | .list [.atom "ctable", r, ine, orr, .list [.atom "as", q]] => do
      some (.createTable (← ref? r) (← ine.asBool?) (← orr.asBool?) (.as (← query? q)))
  | .list [.atom "cview", r, orr, q, t] => do
      some (.createView (← ref? r) (← orr.asBool?) (← query? q) (← text? t))
  | .list [.atom "dtable", r, ifx] => do some (.dropTable (← ref? r) (← ifx.asBool?))
  | .list [.atom "dview", r, ifx] => do some (.dropView (← ref? r) (← ifx.asBool?))
  | .list [.atom "select", r] => do some (.select (← ref? r))
  | _ => none

def identsOf : Stmt → List Ident
  | .createCatalog n _ => [n]
  | .createSchema r _ => r
  | .dropSchema r _ _ => r
  | .createTable r _ _ (.as (.src r')) => r ++ r'
  | .createTable r _ _ _ => r
  | .createView r _ (.src r') _ => r ++ r'
  | .createView r _ _ _ => r
  | .dropTable r _ => r
  | .dropView r _ => r
  | .select r => r

/-- outside the model: the reserved schema name -/
def mentionsReserved (st : Stmt) : Bool := (identsOf st).any (fun i => normalize i == infoSch)

def str (n : List Char) : String := String.ofList n

def showErr : Err → String
  | .badName => "badname" | .unresolved => "unresolved" | .exists => "exists"
  | .missing => "missing" | .conflict => "conflict" | .nonEmpty => "nonempty"
  | .runtime => "runtime" | .noCatalog => "nocatalog"

def showCol (c : Col) : String := s!"{str c.name}:{str c.ty}:{if c.nullable then "Y" else "N"}"

def showOutcome : Outcome → String
  | .rows cs => "ok:" ++ ",".intercalate (cs.map showCol)
  | .err e => "err:" ++ showErr e
  | _ => "ok"

def showKey (k : Key) : String := s!"{str k.cat}.{str k.sch}.{str k.name}"

def sorted (xs : List String) : String := ",".intercalate (xs.toArray.qsort (· < ·)).toList

def showState (s : State) : String :=
  let ts := infoTables s
  let user := ts.filter (fun p => p.1.sch != infoSch)
  let t := sorted (user.map fun p => s!"{showKey p.1}:{match p.2 with | .base => "B" | .view => "V"}")
  let c := sorted ((infoColumns s).map fun p => s!"{showKey p.1}.{p.2.1}:{showCol p.2.2}")
  let v := sorted ((infoViews s).map fun p =>
    s!"{showKey p.1}={match p.2 with | none => "null" | some d => bytesHex (d.map Char.toNat)}")
  let sc := sorted ((infoSchemata s).map fun p => s!"{str p.1}.{str p.2}")
  s!"#T={t}|i={ts.length - user.length}#C={c}#V={v}#S={sc}"

def runShow (s : State) : List Stmt → List String
  | [] => []
  | st :: sts =>
    let r := step true s st   -- the code as it is now (/repo 5758ed9)
    (showOutcome r.2 ++ showState r.1) :: runShow r.1 sts

def handle (op : String) (arg : Sexp) : String :=
  match op, arg with
  | "run", .list xs =>
    match xs.mapM stmt? with
    | some sts => if sts.any mentionsReserved then "unsupported" else " ; ".intercalate (runShow init sts)
    | none => "unsupported"
  | _, _ => "bad-op"

end DfModel.Drv.C49
