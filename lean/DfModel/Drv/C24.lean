import DfModel.Base.Sexp
import DfModel.Mech.AccessPlan
namespace DfModel.Drv.C24
open DfModel DfModel.Mech.AccessPlan

def parseRun : Sexp → Option Run
  | .list [.atom "s", n] => n.asNat?.map select
  | .list [.atom "k", n] => n.asNat?.map skipRun
  | _ => none

def parseSel : Sexp → Option Sel
  | .list xs => xs.mapM parseRun
  | _ => none

def showSel (s : Sel) : String :=
  "(" ++ " ".intercalate (s.map (fun r => if r.skip then s!"(k {r.n})" else s!"(s {r.n})")) ++ ")"

def parseAccess : Sexp → Option Access
  | .atom "skip" => some .skip
  | .atom "scan" => some .scan
  | .list [.atom "sel", s] => (parseSel s).map .selection
  | _ => none

def showAccess : Access → String
  | .skip => "skip"
  | .scan => "scan"
  | .selection s => "(sel " ++ showSel s ++ ")"

def handle (op : String) (arg : Sexp) : String :=
  match op, arg with
  | "normalize", s =>
    match parseSel s with
    | some s => showSel (normalize s) ++ s!" rows={rowCount s} skipped={totalRows s - rowCount s}"
    | none => "bad-op"
  | "intersection", .list [a, b] =>
    match parseSel a, parseSel b with
    | some a, some b => showSel (intersection (normalize a) (normalize b))
    | _, _ => "bad-op"
  | "and_then", .list [a, b] =>
    match parseSel a, parseSel b with
    | some a, some b =>
      match andThen (normalize a) (normalize b) with
      | some c => showSel c
      | none => "panic"
    | _, _ => "bad-op"
  | "split_off", .list [a, n] =>
    match parseSel a, n.asNat? with
    | some a, some n =>
      let (h, t) := splitOff (normalize a) n
      showSel (normalize h) ++ " " ++ showSel (normalize t)
    | _, _ => "bad-op"
  | "scan_selection", .list [a, s] =>
    match parseAccess a, parseSel s with
    | some (.selection e), some s => showAccess (scanSelection (.selection (normalize e)) (normalize s))
    | some a, some s => showAccess (scanSelection a (normalize s))
    | _, _ => "bad-op"
  | _, _ => "bad-op"

end DfModel.Drv.C24
