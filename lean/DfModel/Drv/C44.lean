import DfModel.Base.Sexp
import DfModel.Base.ScalarModel
import DfModel.Mech.SchemaAdapt
import DfModel.Drv.C34
namespace DfModel.Drv.C44
open DfModel DfModel.ScalarModel DfModel.SchemaAdapt DfModel.Drv.C34

def parseFCol : Sexp → Option FCol
  | .list [.atom n, t, nl, v] => do
    let t ← parsePTy t
    let nl ← nl.asBool?
    let v ← parsePVal t v
    some ⟨n, t, nl, v⟩
  | _ => none

def parseTCol : Sexp → Option TCol
  | .list [.atom n, t, nl] => do some ⟨n, ← parsePTy t, ← nl.asBool?⟩
  | _ => none

partial def parseExpr : Sexp → Option Expr
  | .list [.atom "col", .atom n] => some (.col n)
  | .list [.atom "lit", t, v] => do
    let t ← parsePTy t
    let v ← parsePVal t v
    some (.lit v)
  | .list [.atom "eq", a, b] => do some (.eq (← parseExpr a) (← parseExpr b))
  | .list [.atom "lt", a, b] => do some (.lt (← parseExpr a) (← parseExpr b))
  | .list [.atom "and", a, b] => do some (.and (← parseExpr a) (← parseExpr b))
  | .list [.atom "or", a, b] => do some (.or (← parseExpr a) (← parseExpr b))
  | .list [.atom "not", a] => do some (.not (← parseExpr a))
  | .list [.atom "isnull", a] => do some (.isNull (← parseExpr a))
  | _ => none

def showErr : AErr → String
  | .unsup => "unsupported"
  | .panic => "err:panic"
  | _ => "err"

def showVals : Except AErr (List (Option PVal)) → String
  | .ok vs => "ok (" ++ " ".intercalate (vs.map showPVal) ++ ")"
  | .error e => showErr e

def showVal : Except AErr (Option PVal) → String
  | .ok v => showPVal v
  | .error e => showErr e

def handle (op : String) (arg : Sexp) : String :=
  match op, arg with
  | "adapt", .list [.list row, .list ts] =>
    match row.mapM parseFCol, ts.mapM parseTCol with
    | some row, some ts => showVals (adapt row ts)
    | _, _ => "bad-op"
  | "filter", .list [.list row, .list ts, f] =>
    match row.mapM parseFCol, ts.mapM parseTCol, parseExpr f with
    | some row, some ts, some f =>
      -- the rewritten predicate on the file row (what the scan evaluates)
      match rewriteFilter row ts f with
      | .error e => showErr e
      | .ok f' => showVal (evalFile row f')
    | _, _, _ => "bad-op"
  | "filtert", .list [.list row, .list ts, f] =>
    -- the predicate on the adapted row
    match row.mapM parseFCol, ts.mapM parseTCol, parseExpr f with
    | some row, some ts, some f => showVal (evalTable row ts f)
    | _, _, _ => "bad-op"
  | _, _ => "bad-op"

end DfModel.Drv.C44
