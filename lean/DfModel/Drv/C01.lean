/-
  C01 driver.  `query (<mode> <plan> <db> <impl>)`
     mode := bag | seq | (sorted (col desc nullsfirst)*)
     impl := (ok (row*)) | (err <class>)
  answers  `ok`            the engine's answer is the reference's answer
           `bad:<ref>`     it is not (the reference's own result follows)
           `unsupported`   outside the model, or the reference raises a run-time error while the
                           engine returned rows (the engine is allowed to skip the offending rows:
                           column-at-a-time evaluation with short circuits — not judged).
-/
import DfModel.Base.Sexp
import DfModel.Sql.Codec
namespace DfModel.Drv.C01
open DfModel DfModel.Codec

def parseSortedMode : Sexp → Option (List (Nat × SortOpt))
  | .list (.atom "sorted" :: ks) => ks.mapM (fun k => match k with
    | .list [c, d, nf] => do some ((← c.asNat?), ({ desc := (← d.asBool?), nullsFirst := (← nf.asBool?) } : SortOpt))
    | _ => none)
  | _ => none

def isSortedBy (ks : List (Nat × SortOpt)) : List Row → Bool
  | a :: b :: rest =>
    let key := fun (r : Row) => ks.map (fun k => r.getD k.1 .null)
    leRows (ks.map (·.2)) (key a) (key b) && isSortedBy ks (b :: rest)
  | _ => true

def judge (mode : Sexp) (want : List Row) (got : List Row) : Option Bool :=
  match mode with
  | .atom "bag" => some (showBag want == showBag got)
  | .atom "seq" => some (showRows want == showRows got)
  | m => match parseSortedMode m with
    | some ks => some (showBag want == showBag got && isSortedBy ks got)
    | none => none

def handle (op : String) (arg : Sexp) : String :=
  match op, arg with
  | "query", .list [mode, plan, db, impl] =>
    match parsePlan plan, parseDb db with
    | some p, some d =>
      let r := evalPlan p d
      match r, impl with
      | .error .type, _ => "unsupported"
      | .ok want, .list [.atom "ok", .list rows] =>
        match rows.mapM parseRow with
        | some got => match judge mode want got with
          | some true => "ok"
          | some false => "bad:ok " ++ showRows want
          | none => "bad-op"
        | none => "bad-op"
      | .ok want, .list [.atom "err", .atom c] => s!"bad:ok {showRows want} (engine: err {c})"
      | .error _, .list [.atom "err", .atom c] =>
        -- both fail; a planner rejection is not a run-time failure of the reference
        if c == "plan" || c == "notimpl" || c == "other" then s!"bad:{showErr (match r with | .error e => e | _ => .type)} (engine: err {c})" else "ok"
      | .error _, .list [.atom "ok", _] => "unsupported"
      | _, _ => "bad-op"
    | _, _ => "bad-op"
  | "eval", .list [plan, db] =>
    match parsePlan plan, parseDb db with
    | some p, some d =>
      match evalPlan p d with
      | .ok rows => "ok " ++ showRows rows
      | .error e => showErr e
    | _, _ => "bad-op"
  | _, _ => "bad-op"

end DfModel.Drv.C01
