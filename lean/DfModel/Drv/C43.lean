import DfModel.Base.Sexp
import DfModel.Text.Config
namespace DfModel.Drv.C43
open DfModel DfModel.Text.Config

def tableOf? : String → Option EnumTable
  | "dialect" => some dialectTable
  | "spill" => some spillCompressionTable
  | "mapkey" => some mapKeyDedupTable
  | "explain" => some explainFormatTable
  | "metric" => some metricTypeTable
  | "writer" => some writerVersionTable
  | "duration" => some durationFormatTable
  | _ => none

partial def kindOf? : Sexp → Option Kind
  | .atom "bool" => some .bool
  | .atom "sbool" => some .strictBool
  | .atom "sel" => some .selectivity
  | .atom "str" => some .str
  | .atom "lstr" => some .lowerStr
  | .atom "other" => some .unmodelled
  | .list [.atom "uint", m] => m.asNat?.map .uint
  | .list [.atom "int", lo, hi] => do some (.int (← lo.asInt?) (← hi.asInt?))
  | .list [.atom "umin", lo, m] => do some (.uintMin (← lo.asNat?) (← m.asNat?))
  | .list [.atom "par", c, m] => do some (.parallelism (← c.asNat?) (← m.asNat?))
  | .list [.atom "enum", .atom name, tr] => do some (.enum (← tableOf? name) (← tr.asBool?))
  | .list [.atom "opt", k] => (kindOf? k).map .opt
  | .list [.atom "opts", k] => (kindOf? k).map .optStrict
  | _ => none

def isUnmodelled : Kind → Bool
  | .unmodelled => true
  | .opt k => isUnmodelled k
  | .optStrict k => isUnmodelled k
  | _ => false

def showOpt : Option (List Char) → String
  | some t => charsSexp t
  | none => "n"

/-- current value from its reported text (`n` = NULL) -/
def curOf? (k : Kind) : Sexp → Option Val
  | .atom "n" => some .none
  | x => do parse k (← x.asChars?)

/-- ops
  `parse (<kind> <text>)`        → `ok <shown text>` | `err`
  `setx (<kind> <cur> <text>)`   one-entry configuration holding `cur`; `set` with `text`
                                 → `ok|err <reported text afterwards | n>`
  `fan (<m> <a> <b> <c> <text>)` enable_dynamic_filter_pushdown (m) with its three dependants and
                                 enable_aggregate_dynamic_filter_pushdown; `set` master with `text`
                                 → `ok|err m a b c` as t/f
  `cats <text>`                  analyze_categories: FromStr then Display → `ok <text>` | `err`
  `nat <n>` / `int <i>`          decimal rendering
-/
def handle (op : String) (arg : Sexp) : String :=
  match op, arg with
  | "parse", .list [k, t] =>
    match kindOf? k, t.asChars? with
    | some k, some t =>
      if isUnmodelled k then "unsupported" else
      match parse k t with
      | some v => s!"ok {showOpt («show» k v)}"
      | none => "err"
    | _, _ => "bad-op"
  | "setx", .list [k, cur, t] =>
    match kindOf? k, t.asChars? with
    | some k, some t =>
      if isUnmodelled k then "unsupported" else
      match curOf? k cur with
      | some v =>
        let (cfg, ok) := set true [⟨0, k, v, []⟩] 0 t
        let after := match entries cfg with
          | [(_, x)] => showOpt x
          | _ => "?"
        s!"{if ok then "ok" else "err"} {after}"
      | none => "bad-op"
    | _, _ => "bad-op"
  | "fan", .list [m, a, b, c, t] =>
    match m.asBool?, a.asBool?, b.asBool?, c.asBool?, t.asChars? with
    | some m, some a, some b, some c, some t =>
      let cfg : Config := [⟨0, .strictBool, .b m, [1, 2, 3]⟩, ⟨1, .bool, .b a, []⟩, ⟨2, .bool, .b b, []⟩,
        ⟨3, .bool, .b c, []⟩]
      let (cfg', ok) := set true cfg 0 t
      let bits := cfg'.map fun e => match e.val with | .b true => "t" | .b false => "f" | _ => "?"
      s!"{if ok then "ok" else "err"} {" ".intercalate bits}"
    | _, _, _, _, _ => "bad-op"
  | "cats", a => match a.asChars? with
    | some t => match parseCats t with
      | some v => s!"ok {charsSexp (showCats v)}"
      | none => "err"
    | none => "bad-op"
  | "nat", a => match a.asNat? with
    | some n => charsSexp (showNat n) | none => "bad-op"
  | "int", a => match a.asInt? with
    | some n => charsSexp (showInt n) | none => "bad-op"
  | _, _ => "bad-op"

end DfModel.Drv.C43
