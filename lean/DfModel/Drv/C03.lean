import DfModel.Base.Sexp
import DfModel.Sql.Join
import DfModel.Gen.PushDownFilterTbl
import DfModel.Gen.EliminateOuterTbl
namespace DfModel.Drv.C03
open DfModel DfModel.Gen.JoinTypeTbl DfModel.Sql.Join

def cell? : Sexp → Option (Option Int)
  | .atom "null" => some none
  | .atom a => a.toInt?.map some
  | _ => none

def row? : Sexp → Option Row
  | .list cs => cs.mapM cell?
  | _ => none

def rel? : Sexp → Option Rel
  | .list rs => rs.mapM row?
  | _ => none

def cellStr : Option Int → String
  | none => "null"
  | some v => toString v

def rowStr (r : Row) : String := "(" ++ " ".intercalate (r.map cellStr) ++ ")"

/-- insertion sort on the rendered rows (both sides print the bag sorted by the row text) -/
def sortStrs (xs : List String) : List String :=
  xs.foldr (fun x acc => (acc.takeWhile (· < x)) ++ [x] ++ (acc.dropWhile (· < x))) []

def relStr (r : Rel) : String := "(" ++ " ".intercalate (sortStrs (r.map rowStr)) ++ ")"

/-- the ON conditions the harness uses: `eq` = `l.a = r.a` (column 0 of both, SQL equality: NULL never
    matches); `eqlt` = `l.a = r.a AND l.b < r.b` (column 1); `lt` = `l.b < r.b`; `true` -/
def onOf (name : String) : Option (Row → Row → Bool) :=
  let eq0 : Row → Row → Bool := fun l r => match l[0]?, r[0]? with | some (some x), some (some y) => x == y | _, _ => false
  let lt1 : Row → Row → Bool := fun l r => match l[1]?, r[1]? with | some (some x), some (some y) => decide (x < y) | _, _ => false
  match name with
  | "eq" => some eq0
  | "eqlt" => some (fun l r => eq0 l r && lt1 l r)
  | "lt" => some lt1
  | "true" => some (fun _ _ => true)
  | _ => none

/-- mark columns print as `t` / `f` on the engine side -/
def markFix (jt : JoinType) (r : Rel) : List String :=
  match jt with
  | .LeftMark | .RightMark =>
    r.map (fun row => "(" ++ " ".intercalate ((row.dropLast.map cellStr) ++ [if row.getLast? == some (some 1) then "t" else "f"]) ++ ")")
  | _ => r.map rowStr

def handle (op : String) (arg : Sexp) : String :=
  match op, arg with
  | "tbl", .list (.atom fn :: args) =>
    match args.mapM Sexp.asAtom? with
    | some as =>
      let tries := [DfModel.Gen.JoinTypeTbl.eval fn as, DfModel.Gen.PushDownFilterTbl.eval fn as, DfModel.Gen.EliminateOuterTbl.eval fn as]
      match tries.filterMap id with
      | r :: _ => r
      | [] => "bad-op"
    | none => "bad-op"
  | "join", .list [.atom jt, .atom on, wl, wr, l, r] =>
    match JoinType.ofName? jt, onOf on, wl.asNat?, wr.asNat?, rel? l, rel? r with
    | some jt, some on, some wl, some wr, some l, some r =>
      "(" ++ " ".intercalate (sortStrs (markFix jt (join jt wl wr on l r))) ++ ")"
    | _, _, _, _, _, _ => "bad-op"
  | _, _ => "bad-op"

end DfModel.Drv.C03
