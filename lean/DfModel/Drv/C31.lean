import DfModel.Base.Sexp
import DfModel.Sm.DynFilter
import DfModel.Mech.DynSound
namespace DfModel.Drv.C31
open DfModel DfModel.Sm.DynFilter DfModel.Mech.Join DfModel.Mech.DynSound

/-! `dyn (e0 nHandles op*)` — drive the generation/cache machine sequentially; every handle is a
    derived filter (`with_new_children`) with its own cache and its own remap `e ↦ 1000*(h+1)+e`.
      (u e)    update                    → `u:<generation>`
      (c)      mark_complete             → `c`
      (cur h)  one whole `current()` on handle h (its four micro-steps, uninterrupted)
                                          → `<returned expr>@<generation at call start>` -/

structure DState where
  s : St Nat
  caches : List (Option (Nat × Nat))

def remapOf (h : Nat) (e : Nat) : Nat := 1000 * (h + 1) + e

/-- run reader micro-steps of handle `h` until the call is done (at most 4) -/
def currentOn (d : DState) (h : Nat) : DState × String :=
  let s0 : St Nat := { d.s with cache := (d.caches.getD h none), readers := [.idle] }
  let s1 := step (remapOf h) s0 (.read 0)
  let s2 := step (remapOf h) s1 (.read 0)
  let s3 := match s2.readers with
    | [.done _ _] => s2
    | _ => step (remapOf h) s2 (.read 0)
  let out := match s3.readers with
    | [.done g0 r] => s!"{r}@{g0}"
    | _ => "stuck"
  ({ s := { s3 with cache := none, readers := [] }, caches := d.caches.set h s3.cache }, out)

def runOps (d : DState) : List Sexp → List String
  | [] => []
  | .list [.atom "u", e] :: rest =>
    match e.asNat? with
    | some e =>
      let s' := step (remapOf 0) d.s (.update e)
      s!"u:{s'.gen}" :: runOps { d with s := s' } rest
    | none => ["bad-op"]
  | .list [.atom "c"] :: rest => "c" :: runOps { d with s := step (remapOf 0) d.s .markComplete } rest
  | .list [.atom "cur", h] :: rest =>
    match h.asNat? with
    | some h => let (d', o) := currentOn d h; o :: runOps d' rest
    | none => ["bad-op"]
  | _ => ["bad-op"]

def parseKey : Sexp → Option (List Val)
  | .list xs => xs.mapM fun
    | .atom "N" => some none
    | .atom a => a.toInt?.map some
    | _ => none
  | _ => none

def parseJt : String → Option JoinType
  | "Inner" => some .inner | "Left" => some .left | "Right" => some .right | "Full" => some .full
  | "LeftSemi" => some .leftSemi | "RightSemi" => some .rightSemi
  | "LeftAnti" => some .leftAnti | "RightAnti" => some .rightAnti
  | "LeftMark" => some .leftMark | "RightMark" => some .rightMark
  | _ => none

def bits (bs : List Bool) : String := String.ofList (bs.map fun b => if b then '1' else '0')

def handle (op : String) (arg : Sexp) : String :=
  match op, arg with
  | "dyn", .list (e0 :: nh :: ops) =>
    match e0.asNat?, nh.asNat? with
    | some e0, some nh =>
      " ".intercalate (runOps { s := init e0 0, caches := List.replicate nh none } ops)
    | _, _ => "bad-op"
  -- `gate JT` : may the join push its dynamic filter to the probe side?
  | "gate", .atom jt =>
    match parseJt jt with
    | some j => if gate j then "t" else "f"
    | none => "bad-op"
  -- `maskok (nullEq (build keys) (probe keys) mask)` : the judge of the soundness hypothesis —
  -- does the real filter's mask keep every probe key that is key-equal to a build key?
  | "maskok", .list [ne, .list bks, .list pks, .atom mask] =>
    match ne.asBool?, bks.mapM parseKey, pks.mapM parseKey with
    | some ne, some bks, some pks =>
      let ms := if mask == "-" then [] else mask.toList.map (· == '1')
      if ms.length != pks.length then "bad-op" else
      let bad := (pks.zip ms).zipIdx.filter fun ((k, m), _) => !m && bks.any fun b => keysEq ne b k
      match bad with
      | [] => "ok"
      | ((_, _), i) :: _ => s!"bad:row{i}"
    | _, _, _ => "bad-op"
  -- `pubfilter (nullEq (build keys) (probe keys))` : mask of the model's published filter
  | "pubfilter", .list [ne, .list bks, .list pks] =>
    match ne.asBool?, bks.mapM parseKey, pks.mapM parseKey with
    | some ne, some bks, some pks => bits (pks.map (publishedFilter ne bks))
    | _, _, _ => "bad-op"
  -- `topk (k (rows) (picks))` : heap of the filtered run; equals the plain run (theorem)
  | "topk", .list [k, rows, .list picks] =>
    match k.asNat?, rows.intList? with
    | some k, some rows =>
      let ps := picks.map fun p => p.asNat?
      let le := fun (a b : Int) => decide (a ≤ b)
      intsSexp (runFiltered le k [] [] rows ps)
    | _, _ => "bad-op"
  | _, _ => "bad-op"

end DfModel.Drv.C31
