import DfModel.Base.Sexp
import DfModel.Mech.ReserveOrSpill
namespace DfModel.Drv.C18
open DfModel DfModel.Mech.ReserveOrSpill

def showRows (xs : List Int) : String := "rows:" ++ intsSexp xs

/-- replay of the calls a memory pool saw (ghost ledger of `Mech.ReserveOrSpill`: `grow` adds,
    a granted `try_grow` adds, `shrink` subtracts and flags an underflow) -/
def replay : Nat → Nat → Bool → List Sexp → Option (Nat × Nat × Bool)
  | pool, peak, bad, [] => some (pool, peak, bad)
  | pool, peak, bad, .list [.atom "g", n] :: rest =>
    match n.asNat? with
    | some n => replay (pool + n) (max peak (pool + n)) bad rest
    | none => none
  | pool, peak, bad, .list [.atom "t", n, ok] :: rest =>
    match n.asNat?, ok.asBool? with
    | some n, some true => replay (pool + n) (max peak (pool + n)) bad rest
    | some _, some false => replay pool peak bad rest
    | _, _ => none
  | pool, peak, bad, .list [.atom "s", n] :: rest =>
    match n.asNat? with
    | some n =>
      let st : St := poolShrink n { pool := pool, bad := bad }
      replay st.pool peak st.bad rest
    | none => none
  | _, _, _, _ => none

def parseBatches (s : Sexp) : Option (List Batch) :=
  match s with
  | .list bs => bs.mapM Sexp.intList?
  | _ => none

def bitsFn (bits : List Nat) (dflt : Bool) : Nat → Bool := fun n =>
  match bits[n]? with
  | some b => b != 0
  | none => dflt

def handle (op : String) (arg : Sexp) : String :=
  match op, arg with
  -- reference result of `ORDER BY v` over one non-null integer column
  | "sort", xs =>
    match xs.intList? with
    | some l => showRows (sortRows l)
    | none => "bad-op"
  -- judge of an implementation outcome under some memory limit / pool oracle / disk limit:
  -- `(judge (input…) (rows …))` or `(judge (input…) resources)`
  | "judge", .list [inp, out] =>
    match inp.intList? with
    | none => "bad-op"
    | some l =>
      match out with
      | .atom "resources" => "ok"
      | .list (.atom "rows" :: xs) =>
        match xs.mapM Sexp.asInt? with
        | some got => if got = sortRows l then "ok" else "bad:rows-differ-from-sorted-input"
        | none => "bad-op"
      | .atom a => "bad:outcome-" ++ a
      | _ => "bad-op"
  -- the model itself on an explicit environment:
  -- `(extsort (batchSize spillReserve threshold fanIn diskEnabled szA szB) (grant bits) (disk bits) cancelAt (batches))`
  | "extsort", .list [.list [bs, sr, th, fi, de, za, zb], g, d, c, inp] =>
    match bs.asNat?, sr.asNat?, th.asNat?, fi.asNat?, de.asNat?, za.asNat?, zb.asNat?, g.natList?, d.natList?, c.asInt?,
          parseBatches inp with
    | some bs, some sr, some th, some fi, some de, some za, some zb, some g, some d, some c, some inp =>
      let cfg : Cfg := { sz := fun b => za + zb * b.length + zb * b.length, msz := fun b => za + zb * b.length,
                         batchSize := bs, spillReserve := sr, inPlaceThreshold := th, fanIn := fi,
                         diskEnabled := de != 0 }
      let env : Env := { grant := bitsFn g true, diskOk := bitsFn d true,
                         cancel := fun n => c ≥ 0 && n == c.toNat }
      let (o, s) := run cfg env inp
      let os := match o with
        | .rows xs => showRows xs
        | .err .resources => "err:resources"
        | .err .cancelled => "dropped"
        | .err .internal => "err:internal"
      let z := dropAll s
      s!"{os} spills={s.spills.length + s.reading} calls={s.calls} writes={s.writes} reserved={s.pool} files={s.disk} after-drop={z.pool}/{z.disk}/{z.bad}"
    | _, _, _, _, _, _, _, _, _, _, _ => "bad-op"
  | "ledger", .list ops =>
    match replay 0 0 false ops with
    | some (pool, peak, bad) => s!"reserved:{pool} peak:{peak} underflow:{bad}"
    | none => "bad-op"
  | _, _ => "bad-op"

end DfModel.Drv.C18
