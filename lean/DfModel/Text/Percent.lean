/-
  Percent-encoding as used for hive partition directories (C25, C27). Core Lean only.

  Bytes are `Nat`s (< 256).  Mirrors the `percent-encoding` crate:
    `utf8_percent_encode(s, SET)` / `percent_encode(bytes, SET)`: every byte that is non-ASCII (≥ 0x80) or
       in `SET` becomes `%XX` (UPPER-case hex); everything else is copied;
    `percent_decode`: `%` followed by two hex digits (either case) becomes that byte, consuming 3 bytes;
       any other `%` is copied and decoding continues with the NEXT byte.
-/
namespace DfModel.Text.Percent

abbrev Bytes := List Nat

def pct : Nat := 37   -- '%'

/-- upper-case hex digit (ASCII code) of `n < 16` -/
def hexUp (n : Nat) : Nat := if n < 10 then 48 + n else 55 + n      -- '0'+n | 'A'+(n-10)

/-- value of a hex digit in either case -/
def hexVal? (c : Nat) : Option Nat :=
  if 48 ≤ c ∧ c ≤ 57 then some (c - 48)
  else if 65 ≤ c ∧ c ≤ 70 then some (c - 55)
  else if 97 ≤ c ∧ c ≤ 102 then some (c - 87)
  else none

def encodeByte (set : Nat → Bool) (b : Nat) : Bytes :=
  if 128 ≤ b ∨ set b = true then [pct, hexUp (b / 16), hexUp (b % 16)] else [b]

def encode (set : Nat → Bool) (bs : Bytes) : Bytes := bs.flatMap (encodeByte set)

def decode : Bytes → Bytes
  | [] => []
  | [b] => [b]
  | [b, c] => [b, c]
  | b :: tl@(h :: l :: rest) =>
    if b = pct then
      match hexVal? h, hexVal? l with
      | some x, some y => (x * 16 + y) :: decode rest
      | _, _ => pct :: decode tl
    else b :: decode tl

/-- ASCII control characters (`percent_encoding::CONTROLS`): 0x00–0x1F and 0x7F -/
def isControl (b : Nat) : Bool := b < 32 || b == 127

/-- `PARTITION_VALUE_ENCODE_SET` of catalog-listing/src/helpers.rs: CONTROLS + ` % / ? #` -/
def partitionValueSet (b : Nat) : Bool :=
  isControl b || b == 32 || b == 37 || b == 47 || b == 63 || b == 35

/-- `INVALID` of object_store `path/parts.rs` (what `Path::join`/`Path::from_iter` encode):
    CONTROLS + `/ \ { ^ } % backtick ] " > [ ~ < # | \r \n * ?` -/
def pathPartSet (b : Nat) : Bool :=
  isControl b || b == 47 || b == 92 || b == 123 || b == 94 || b == 125 || b == 37 || b == 96 ||
    b == 93 || b == 34 || b == 62 || b == 91 || b == 126 || b == 60 || b == 35 || b == 124 ||
    b == 42 || b == 63

/-- bytes of a Lean string (UTF-8) -/
def bytesOf (s : String) : Bytes := s.toByteArray.data.toList.map UInt8.toNat

def toByteArray (bs : Bytes) : ByteArray := ByteArray.mk (bs.map UInt8.ofNat).toArray

/-- `percent_decode_str(val).decode_utf8().unwrap_or(Cow::Borrowed(val))` -/
def decodeStr (raw : Bytes) : Bytes :=
  let d := decode raw
  match String.fromUTF8? (toByteArray d) with
  | some _ => d
  | none => raw

end DfModel.Text.Percent
