/-
  C51 (c) — JSON string escaping as done by `arrow::json` writers (`ArrayWriter`,
  `LineDelimitedWriter`) through `serde_json`'s `format_escaped_str`, one NDJSON row of
  string / NULL cells, and a reference JSON string decoder.   Core Lean only.
-/
import DfModel.Base.Sexp
namespace DfModel.Text.Json
open DfModel

/-- serde_json `ESCAPE` table + `write_char_escape` -/
def escapeChar (c : Char) : List Char :=
  if c == '"' then ['\\', '"']
  else if c == '\\' then ['\\', '\\']
  else if c.toNat == 8 then ['\\', 'b']
  else if c.toNat == 9 then ['\\', 't']
  else if c.toNat == 10 then ['\\', 'n']
  else if c.toNat == 12 then ['\\', 'f']
  else if c.toNat == 13 then ['\\', 'r']
  else if c.toNat < 32 then ['\\', 'u', '0', '0', hexNibble (c.toNat / 16), hexNibble (c.toNat % 16)]
  else [c]

def escapeBody (s : List Char) : List Char := s.flatMap escapeChar

/-- `"…"` -/
def encodeString (s : List Char) : List Char := '"' :: (escapeBody s ++ ['"'])

/-- the single-character escapes `\" \\ \/ \b \f \n \r \t` -/
def unescape1 (e : Char) : Option Char :=
  if e == '"' then some '"' else if e == '\\' then some '\\' else if e == '/' then some '/'
  else if e == 'b' then some (Char.ofNat 8) else if e == 'f' then some (Char.ofNat 12)
  else if e == 'n' then some '\n' else if e == 'r' then some '\r'
  else if e == 't' then some '\t' else none

/-- reference decoder for the body of a JSON string, started after the opening quote:
    `some (value, input after the closing quote)`; `none` = malformed -/
def decodeBody : List Char → Option (List Char × List Char)
  | [] => none
  | c :: rest =>
    if c == '"' then some ([], rest)
    else if c == '\\' then
      match rest with
      | [] => none
      | e :: rest' =>
        if e == 'u' then
          match rest' with
          | a :: b :: x :: y :: rest'' =>
            match hexDigit? a, hexDigit? b, hexDigit? x, hexDigit? y, decodeBody rest'' with
            | some a, some b, some x, some y, some (v, r) =>
              some (Char.ofNat (((a * 16 + b) * 16 + x) * 16 + y) :: v, r)
            | _, _, _, _, _ => none
          | _ => none
        else
          match unescape1 e, decodeBody rest' with
          | some ch, some (v, r) => some (ch :: v, r)
          | _, _ => none
    else if c.toNat < 32 then none      -- raw control characters are not allowed in JSON strings
    else (decodeBody rest).map fun p => (c :: p.1, p.2)

def decodeString : List Char → Option (List Char × List Char)
  | [] => none
  | c :: rest => if c == '"' then decodeBody rest else none

end DfModel.Text.Json
