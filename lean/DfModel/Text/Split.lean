/-
  C51 (a) — `datafusion_cli::helper::split_from_semicolon`, exactly as coded (a quote-toggle
  automaton), and a *specification lexer* for SQL text (normal / inside '…' with '' / inside "…"
  with "") that says where statements end.   Core Lean only.
-/
namespace DfModel.Text.Split

/-- Rust `char::is_whitespace` = Unicode `White_Space` (what `str::trim` removes) -/
def isWhite (c : Char) : Bool :=
  let n := c.toNat
  (9 ≤ n && n ≤ 13) || n == 0x20 || n == 0x85 || n == 0xA0 || n == 0x1680
    || (0x2000 ≤ n && n ≤ 0x200A) || n == 0x2028 || n == 0x2029 || n == 0x202F || n == 0x205F
    || n == 0x3000

def trimStart (s : List Char) : List Char := s.dropWhile isWhite
def trimEnd (s : List Char) : List Char := (s.reverse.dropWhile isWhite).reverse
/-- `str::trim` -/
def trim (s : List Char) : List Char := trimEnd (trimStart s)

/-- `format!("{};", current_command.trim())` -/
def stmt (cur : List Char) : List Char := trim cur ++ [';']

/-- `in_single_quote` after the toggle step for character `c`:
    `if c == '\'' && !in_double_quote { in_single_quote = !in_single_quote } else if … {…}` -/
def nextS (inS inD : Bool) (c : Char) : Bool := if c == '\'' && !inD then !inS else inS
/-- `in_double_quote` after the toggle step (the `else if c == '"' && !in_single_quote` branch sees
    the *old* `in_single_quote`, the first branch not having been taken) -/
def nextD (inS inD : Bool) (c : Char) : Bool :=
  if c == '\'' && !inD then inD else if c == '"' && !inS then !inD else inD

/-- the loop body + tail of `split_from_semicolon`; state = (`in_single_quote`,
    `in_double_quote`, `current_command`), result = the commands pushed from here on -/
def go (inS inD : Bool) (cur : List Char) : List Char → List (List Char)
  | [] => if !(trim cur).isEmpty then [stmt cur] else []
  | c :: rest =>
    if c == ';' && !(nextS inS inD c) && !(nextD inS inD c) then
      if !(trim cur).isEmpty then stmt cur :: go (nextS inS inD c) (nextD inS inD c) [] rest
      -- NB: `current_command` is *not* cleared when it is blank
      else go (nextS inS inD c) (nextD inS inD c) cur rest
    else go (nextS inS inD c) (nextD inS inD c) (cur ++ [c]) rest

/-- `split_from_semicolon` -/
def splitFromSemicolon (s : List Char) : List (List Char) := go false false [] s

/-! ### the specification -/

inductive Mode where
  | normal
  /-- inside a string literal `'…'`; `''` is an escaped quote and does not end it -/
  | single
  /-- inside a quoted identifier `"…"`; `""` is an escaped quote and does not end it -/
  | double
  deriving DecidableEq, Repr

/-- what happens at a statement end (a semicolon in `normal` mode) / at end of input: a
    statement is its text trimmed plus `;`; blank statements are dropped -/
def spec (m : Mode) (cur : List Char) : List Char → List (List Char)
  | [] => if !(trim cur).isEmpty then [stmt cur] else []
  | c :: rest =>
    match m with
    | .normal =>
      if c == ';' then
        if !(trim cur).isEmpty then stmt cur :: spec .normal [] rest else spec .normal cur rest
      else if c == '\'' then spec .single (cur ++ [c]) rest
      else if c == '"' then spec .double (cur ++ [c]) rest
      else spec .normal (cur ++ [c]) rest
    | .single =>
      if c == '\'' then
        match hr : rest with
        | d :: rest' =>
          if d == '\'' then spec .single (cur ++ [c, d]) rest'      -- escaped quote
          else spec .normal (cur ++ [c]) rest                        -- literal ends
        | [] => spec .normal (cur ++ [c]) rest
      else spec .single (cur ++ [c]) rest
    | .double =>
      if c == '"' then
        match hr : rest with
        | d :: rest' =>
          if d == '"' then spec .double (cur ++ [c, d]) rest'
          else spec .normal (cur ++ [c]) rest
        | [] => spec .normal (cur ++ [c]) rest
      else spec .double (cur ++ [c]) rest
termination_by s => s.length
decreasing_by
  all_goals first
    | (simp only [List.length_cons]; omega)
    | (subst_vars; simp only [List.length_cons]; omega)

/-- statements of a script according to the SQL lexical structure -/
def specSplit (s : List Char) : List (List Char) := spec .normal [] s

/-- characters that carry statement content: not white space, not a semicolon -/
def significant (c : Char) : Bool := !isWhite c && c != ';'

end DfModel.Text.Split
