/-
  C52 — identifier quoting and multipart-identifier parsing.     (core Lean only)

  Mirrors, branch for branch:
    datafusion/common/src/utils/mod.rs      needs_quotes, quote_identifier,
                                            parse_identifiers(_normalized)        [feature "sql"]
    datafusion/common/src/table_reference.rs  to_quoted_string, Display, parse_str, from_vec
    datafusion/common/src/column.rs           flat_name, quoted_flat_name, from_idents,
                                              from_qualified_name(_ignore_case)
  and the fragment of sqlparser 0.62 (GenericDialect) that those functions exercise:
    Tokenizer::next_token          arms: whitespace, b/B/r/R + '"' (byte / raw string literal),
                                   '"' (delimited identifier, `parse_quoted_ident` with unescape),
                                   digits and '.', (`._` special case, `.5` numbers),
                                   identifier start (`tokenize_word`)
    Parser::parse_multipart_identifier

  Characters are Unicode scalar values (`Char`), strings are `List Char`.
  Alphabet of the tokenizer model *outside* double quotes: ASCII letters, ASCII digits, `_`, `.`,
  `"`, blank/tab/LF/CR.  Anything else outside quotes makes the model answer `unsup`
  (inside quotes every character is modelled).  Every string produced by `quote_identifier`
  stays inside the alphabet, so the round-trip theorems need no side condition on characters.
-/
namespace DfModel.Text.Ident

/-! ### quoting (datafusion_common::utils) -/

/-- first-character class of `needs_quotes`: `is_ascii_lowercase() || == '_'` -/
def bareStart (c : Char) : Bool := c.isLower || c == '_'
/-- other-character class of `needs_quotes`: `is_ascii_lowercase() || is_ascii_digit() || == '_'` -/
def barePart (c : Char) : Bool := c.isLower || c.isDigit || c == '_'

/-- `needs_quotes`.  NB: the empty identifier does *not* need quotes in the code. -/
def needsQuotes : List Char → Bool
  | [] => false
  | c :: cs => !bareStart c || !cs.all barePart

/-- `s.replace('"', "\"\"")` -/
def escapeQuotes : List Char → List Char
  | [] => []
  | c :: cs => if c == '"' then '"' :: '"' :: escapeQuotes cs else c :: escapeQuotes cs

/-- `quote_identifier` -/
def quoteIdentifier (s : List Char) : List Char :=
  if needsQuotes s then '"' :: (escapeQuotes s ++ ['"']) else s

/-! ### sqlparser tokenizer fragment -/

inductive Tok where
  | word (v : List Char) (quoted : Bool)
  | period
  | ws
  deriving DecidableEq, Repr

inductive LexRes where
  /-- the token list (whitespace tokens included, as in `tokenize_with_location`) -/
  | ok (ts : List Tok)
  /-- a tokenizer error, or a token (number, string literal) that makes
      `parse_multipart_identifier` fail wherever it stands: `parse_identifiers` returns `Err` -/
  | err
  /-- a character outside the modelled alphabet occurred outside quotes -/
  | unsup
  deriving DecidableEq, Repr

def LexRes.cons (t : Tok) : LexRes → LexRes
  | .ok ts => .ok (t :: ts)
  | .err => .err
  | .unsup => .unsup

def isWs (c : Char) : Bool := c == ' ' || c == '\t' || c == '\n' || c == '\r'

/-- GenericDialect `is_identifier_part`, restricted to the alphabet (`@ $ #` are `unsup`) -/
def identPart (c : Char) : Bool := c.isAlpha || c.isDigit || c == '_'
/-- GenericDialect `is_identifier_start`, restricted to the alphabet (`# @` are `unsup`) -/
def identStart (c : Char) : Bool := c.isAlpha || c == '_'

/-- `Tokenizer::parse_quoted_ident` (unescape = true) started after the opening quote:
    `some (value, input after the closing quote)`, or `none` when EOF comes first
    ("Expected close delimiter '\"' before EOF"). -/
def scanQuoted : List Char → Option (List Char × List Char)
  | [] => none
  | c :: rest =>
    if c == '"' then
      match rest with
      | [] => some ([], [])
      | d :: rest' =>
        if d == '"' then (scanQuoted rest').map (fun p => ('"' :: p.1, p.2))
        else some ([], d :: rest')
    else (scanQuoted rest).map (fun p => (c :: p.1, p.2))

theorem scanQuoted_length : ∀ (cs : List Char) (v r : List Char),
    scanQuoted cs = some (v, r) → r.length < cs.length + 1
  | [], _, _, h => by simp [scanQuoted] at h
  | [c], v, r, h => by
    simp only [scanQuoted] at h
    split at h
    · simp only [Option.some.injEq, Prod.mk.injEq] at h
      obtain ⟨_, rfl⟩ := h; simp
    · simp [scanQuoted] at h
  | c :: d :: rest', v, r, h => by
    simp only [scanQuoted] at h
    split at h
    · split at h
      · simp only [Option.map_eq_some_iff] at h
        obtain ⟨p, hp, hpe⟩ := h
        have := scanQuoted_length rest' p.1 p.2 hp
        simp only [Prod.mk.injEq] at hpe
        rw [← hpe.2]; simp only [List.length_cons]; omega
      · simp only [Option.some.injEq, Prod.mk.injEq] at h
        rw [← h.2]; simp
    · simp only [Option.map_eq_some_iff] at h
      obtain ⟨p, hp, hpe⟩ := h
      have := scanQuoted_length (d :: rest') p.1 p.2 hp
      simp only [Prod.mk.injEq] at hpe
      rw [← hpe.2]; simp only [List.length_cons] at *; omega

/-- `Tokenizer::next_token` iterated over the whole input (`tokenize_with_location`).
    `pw` = "the previously emitted token (whitespace counts) is a `Token::Word`" — the only
    thing `prev_token` is used for in this fragment (the `._` special case). -/
def lex (pw : Bool) : List Char → LexRes
  | [] => .ok []
  | c :: rest =>
    if isWs c then (lex false rest).cons .ws
    else if c == '.' then
      match rest.head? with
      | none => (lex false rest).cons .period
      | some d =>
        -- `ch == '.' && nth(1) == Some('_')`: Period after a word, otherwise "Unexpected character '_'"
        if d == '_' then (if pw then (lex false rest).cons .period else .err)
        -- fractional digits follow: `Token::Number(".5…")`
        else if d.isDigit then .err
        else (lex false rest).cons .period
    else if c == '"' then
      -- delimited identifier
      match h : scanQuoted rest with
      | none => .err
      | some (v, rest') =>
        have : rest'.length < rest.length + 1 := scanQuoted_length rest v rest' h
        (lex true rest').cons (.word v true)
    -- a number (or 0x… literal): never accepted by parse_multipart_identifier
    else if c.isDigit then .err
    else if identStart c then
      -- b"…" / B"…" / r"…" / R"…": byte / raw string literal (or an unterminated-literal error)
      if (c == 'b' || c == 'B' || c == 'r' || c == 'R') && rest.head? == some '"' then .err
      else
        have : (rest.dropWhile identPart).length ≤ rest.length := (List.dropWhile_sublist _).length_le
        (lex true (rest.dropWhile identPart)).cons (.word (c :: rest.takeWhile identPart) false)
    else .unsup
termination_by cs => cs.length
decreasing_by all_goals (simp only [List.length_cons]; omega)

/-! ### Parser::parse_multipart_identifier -/

structure Ident where
  value : List Char
  quoted : Bool
  deriving DecidableEq, Repr

/-- the loop after the first word: `(Period Word)* EOF`, anything else is an error -/
def parseTail : List Tok → Option (List Ident)
  | [] => some []
  | .period :: .word v q :: rest => (parseTail rest).map (fun ids => ⟨v, q⟩ :: ids)
  | _ => none

/-- on the token list with whitespace skipped (`next_token` skips `Token::Whitespace`) -/
def parseMultipart : List Tok → Option (List Ident)
  | .word v q :: rest => (parseTail rest).map (fun ids => ⟨v, q⟩ :: ids)
  | _ => none

def dropWs (ts : List Tok) : List Tok := ts.filter (fun t => t != .ws)

def lower (s : List Char) : List Char := s.map Char.toLower

/-- `parse_identifiers_normalized` (feature "sql"); `none` = outside the model's alphabet.
    `parse_identifiers(s).unwrap_or_default()`: every error yields the empty vector. -/
def parseIdentifiersNormalized (s : List Char) (ignoreCase : Bool) : Option (List (List Char)) :=
  match lex false s with
  | .unsup => none
  | .err => some []
  | .ok ts =>
    match parseMultipart (dropWs ts) with
    | none => some []
    | some ids =>
      some (ids.map fun id => if id.quoted then id.value else if ignoreCase then id.value else lower id.value)

/-! ### TableReference -/

inductive TableRef where
  | bare (table : List Char)
  | part (schema table : List Char)
  | full (catalog schema table : List Char)
  deriving DecidableEq, Repr

def dot (a b : List Char) : List Char := a ++ '.' :: b

/-- `TableReference::to_quoted_string` -/
def TableRef.toQuotedString : TableRef → List Char
  | .bare t => quoteIdentifier t
  | .part s t => dot (quoteIdentifier s) (quoteIdentifier t)
  | .full c s t => dot (quoteIdentifier c) (dot (quoteIdentifier s) (quoteIdentifier t))

/-- `impl Display for TableReference` (no quoting) -/
def TableRef.display : TableRef → List Char
  | .bare t => t
  | .part s t => dot s t
  | .full c s t => dot c (dot s t)

/-- `TableReference::from_vec` -/
def fromVec : List (List Char) → Option TableRef
  | [t] => some (.bare t)
  | [s, t] => some (.part s t)
  | [c, s, t] => some (.full c s t)
  | _ => none

/-- `TableReference::parse_str_normalized`: `from_vec(parts).unwrap_or_else(|| Bare{table: s})`;
    outer `none` = input outside the model's alphabet -/
def parseStrNormalized (s : List Char) (ignoreCase : Bool) : Option TableRef :=
  (parseIdentifiersNormalized s ignoreCase).map fun parts =>
    match fromVec parts with
    | some r => r
    | none => .bare s

/-- `TableReference::parse_str` -/
def parseStr (s : List Char) : Option TableRef := parseStrNormalized s false

def TableRef.parts : TableRef → List (List Char)
  | .bare t => [t]
  | .part s t => [s, t]
  | .full c s t => [c, s, t]

/-! ### Column -/

structure Column where
  relation : Option TableRef
  name : List Char
  deriving DecidableEq, Repr

/-- `Column::flat_name` -/
def Column.flatName (c : Column) : List Char :=
  match c.relation with
  | some r => dot r.display c.name
  | none => c.name

/-- `Column::quoted_flat_name` -/
def Column.quotedFlatName (c : Column) : List Char :=
  match c.relation with
  | some r => dot r.toQuotedString (quoteIdentifier c.name)
  | none => quoteIdentifier c.name

/-- `Column::from_idents` -/
def fromIdents : List (List Char) → Option Column
  | [n] => some ⟨none, n⟩
  | [t, n] => some ⟨some (.bare t), n⟩
  | [s, t, n] => some ⟨some (.part s t), n⟩
  | [c, s, t, n] => some ⟨some (.full c s t), n⟩
  | _ => none

/-- `Column::from_qualified_name` (`ignoreCase = false`) / `from_qualified_name_ignore_case` -/
def fromQualifiedName (s : List Char) (ignoreCase : Bool := false) : Option Column :=
  (parseIdentifiersNormalized s ignoreCase).map fun parts =>
    match fromIdents parts with
    | some c => c
    | none => ⟨none, s⟩

def Column.parts (c : Column) : List (List Char) :=
  match c.relation with
  | some r => r.parts ++ [c.name]
  | none => [c.name]

end DfModel.Text.Ident
