/-
  C51 (b) — the delimiter-separated output of `datafusion-cli` (`PrintFormat::Csv` = ',' and
  `PrintFormat::Tsv` = '\t'): `arrow::csv::Writer` → crate `csv` / `csv-core` writer with
  `QuoteStyle::Necessary`, quote `"`, `double_quote = true`, terminator `\n`; plus a reference
  decoder (RFC-4180 reader: quoted fields, `""`, LF / CR terminators, blank lines skipped).
  Core Lean only.

  csv-core works on bytes; every special byte is ASCII, and UTF-8 never uses ASCII bytes inside a
  multi-byte sequence, so the model on `Char`s is the same function.
-/
namespace DfModel.Text.Csv

/-- `requires_quotes[b]` after `WriterBuilder::build`: delimiter, quote, CR, LF -/
def special (d c : Char) : Bool := c == d || c == '"' || c == '\r' || c == '\n'

/-- `Writer::needs_quotes` (= `should_quote` for `QuoteStyle::Necessary`) -/
def needsQuotes (d : Char) (f : List Char) : Bool := f.any (special d)

/-- `quote(input, …, double_quote = true)`: every `"` doubled -/
def quoteBody : List Char → List Char
  | [] => []
  | c :: cs => if c == '"' then '"' :: '"' :: quoteBody cs else c :: quoteBody cs

/-- `Writer::field` followed by the closing quote written by `delimiter`/`terminator` -/
def encodeField (d : Char) (f : List Char) : List Char :=
  if needsQuotes d f then '"' :: (quoteBody f ++ ['"']) else f

def joinFields (d : Char) : List (List Char) → List Char
  | [] => []
  | [f] => f
  | f :: fs => f ++ d :: joinFields d fs

/-- one record: fields, delimiters, terminator `\n`.  `Writer::terminator`: when no byte was
    written for the record (a single empty field) the field is written as `""`. -/
def encodeRecord (d : Char) (fs : List (List Char)) : List Char :=
  let body := joinFields d (fs.map (encodeField d))
  (if fs == [[]] then ['"', '"'] else body) ++ ['\n']

def encodeRecords (d : Char) (rows : List (List (List Char))) : List Char :=
  (rows.map (encodeRecord d)).flatten

/-- a result cell: SQL NULL or a string.  `arrow::csv::Writer` renders NULL as the empty field
    (`WriterBuilder::null` defaults to ""). -/
def cellText : Option (List Char) → List Char
  | none => []
  | some s => s

def encodeCells (d : Char) (rows : List (List (Option (List Char)))) : List Char :=
  encodeRecords d (rows.map (·.map cellText))

/-! ### reference decoder -/

inductive DSt where
  | start   -- at the start of a field
  | unq     -- inside an unquoted field
  | q       -- inside a quoted field
  | qq      -- inside a quoted field, just after a `"` (closing quote or first half of `""`)
  deriving DecidableEq, Repr

def isTerm (c : Char) : Bool := c == '\n' || c == '\r'

/-- `decode d st field record input`: the records of `input`; `field` / `record` are the
    characters / fields collected so far for the current field / record -/
def decode (d : Char) : DSt → List Char → List (List Char) → List Char → List (List (List Char))
  | st, f, r, [] =>
    match st with
    | .start => if r.isEmpty then [] else [r ++ [f]]
    | _ => [r ++ [f]]
  | .start, _, r, c :: rest =>
    if c == '"' then decode d .q [] r rest
    else if c == d then decode d .start [] (r ++ [[]]) rest
    else if isTerm c then
      -- a blank line is skipped; otherwise the record ends with an empty last field
      if r.isEmpty then decode d .start [] [] rest else (r ++ [[]]) :: decode d .start [] [] rest
    else decode d .unq [c] r rest
  | .unq, f, r, c :: rest =>
    if c == d then decode d .start [] (r ++ [f]) rest
    else if isTerm c then (r ++ [f]) :: decode d .start [] [] rest
    else decode d .unq (f ++ [c]) r rest
  | .q, f, r, c :: rest =>
    if c == '"' then decode d .qq f r rest else decode d .q (f ++ [c]) r rest
  | .qq, f, r, c :: rest =>
    if c == '"' then decode d .q (f ++ ['"']) r rest
    else if c == d then decode d .start [] (r ++ [f]) rest
    else if isTerm c then (r ++ [f]) :: decode d .start [] [] rest
    else decode d .unq (f ++ [c]) r rest

def decodeRecords (d : Char) (s : List Char) : List (List (List Char)) := decode d .start [] [] s

end DfModel.Text.Csv
