/-
  C46 — benchmark result validation (benchmarks/src/sql_benchmark.rs).   Core Lean only.

    compare_results          row count, per-row column count, the first `column_count` cells of every
                             row, the three documented cell equivalences;
    format_record_batches    NULL ↦ "NULL";
    persist                  DataFrame::write_csv with delimiter '|' and a header row (arrow-csv
                             writer = csv-core writer model of `Text.Csv`; NULL ↦ empty field);
    read_query_from_file     CSV reader with header, delimiter '|', all columns Utf8
                             (`schema_infer_max_records(0)`), `null_regex = "NULL"`;
    process_replacements     `${VAR}`, `${VAR:-default}`, `${VAR:-default|true|false}`; explicit map
                             (lower-cased key) before environment (upper-cased key) before default.
-/
import DfModel.Text.Csv
namespace DfModel.Text.Bench
open DfModel.Text

abbrev Str := List Char
/-- a result cell of a Utf8 column -/
abbrev Cell := Option Str

def sNULL : Str := "NULL".toList
def sEmpty : Str := "(empty)".toList

/-! ### compare_results -/

/-- the cell test of `compare_results` (`expected_val`, `actual_val`) -/
def cellOk (ev av : Str) : Bool :=
  (ev == sNULL && av.isEmpty) || ev == av || (ev == sEmpty && (av.isEmpty || av == sNULL))

inductive CmpErr where
  /-- "expected {} rows but got {}" -/
  | rows
  /-- "expected {} columns but got {}" (the message does not name the row) -/
  | cols
  /-- "Error in result on row {r}, column {c}" (1-based) -/
  | cell (row col : Nat)
  deriving DecidableEq, Repr

/-- `for (col_idx, expected_val) in expected.iter().enumerate().take(column_count)`: first failing
    column index (0-based) -/
def firstBadCell : Nat → Nat → List Str → List Str → Option Nat
  | 0, _, _, _ => none
  | _, _, [], _ => none
  | _, _, _ :: _, [] => none      -- unreachable: the widths are equal
  | cc + 1, j, ev :: es, av :: as_ => if cellOk ev av then firstBadCell cc (j + 1) es as_ else some j

def compareRows (cc : Nat) : Nat → List (List Str) → List (List Str) → Except CmpErr Unit
  | _, [], _ => .ok ()
  | _, _, [] => .ok ()
  | i, a :: as_, e :: es =>
    if a.length != e.length then .error .cols
    else match firstBadCell cc 0 e a with
      | some j => .error (.cell (i + 1) (j + 1))
      | none => compareRows cc (i + 1) as_ es

/-- `SqlBenchmark::compare_results(query{column_count}, actual, expected)` -/
def compareResults (cc : Nat) (actual expected : List (List Str)) : Except CmpErr Unit :=
  if actual.isEmpty && expected.isEmpty then .ok ()
  else if actual.length != expected.length then .error .rows
  else compareRows cc 0 actual expected

/-! ### format / persist / read back -/

/-- `format_record_batches` on a Utf8 cell (`with_null("NULL")`) -/
def formatCell : Cell → Str
  | none => sNULL
  | some s => s

def formatRows (rows : List (List Cell)) : List (List Str) := rows.map (·.map formatCell)

/-- the persisted file: header row, then the rows; NULL and '' are both the empty field -/
def persist (header : List Str) (rows : List (List Cell)) : Str :=
  Csv.encodeCells '|' (header.map some :: rows)

/-- one field of the persisted file as read back into a Utf8 column.  `null_regex` is only used by
    DataFusion's CSV *schema inference* (datasource-csv/src/file_format.rs); the scan itself builds
    the arrow-csv reader without it, so arrow's default applies: the empty field is NULL and the
    text `NULL` stays a string (pinned down by the correspondence on real persisted files). -/
def readCell (field : Str) : Cell := if field.isEmpty then none else some field

/-- `read_query_from_file` → the table of cells (header dropped) -/
def readBack (text : Str) : List (List Cell) :=
  ((Csv.decodeRecords '|' text).drop 1).map (·.map readCell)

/-- `expected_result` of `verify` after `persist` -/
def expectedOf (header : List Str) (rows : List (List Cell)) : List (List Str) :=
  formatRows (readBack (persist header rows))

/-! ### process_replacements -/

def isWord (c : Char) : Bool := c.isAlphanum || c == '_'

def lookupAssoc (k : Str) : List (Str × Str) → Option Str
  | [] => none
  | (k', v) :: rest => if k' == k then some v else lookupAssoc k rest

/-- `lookup_replacement_value`: the map under the lower-cased key, else the environment under the
    upper-cased key -/
def lookupValue (map env : List (Str × Str)) (key : Str) : Option Str :=
  match lookupAssoc (key.map Char.toLower) map with
  | some v => some v
  | none => lookupAssoc (key.map Char.toUpper) env

/-- value of `${key}` / `${key:-default}`; `none` = "Missing value for key" -/
def resolveVar (map env : List (Str × Str)) (key : Str) (default : Option Str) : Option Str :=
  match lookupValue map env key with
  | some v => some v
  | none => default

def eqIgnoreCase (a b : Str) : Bool := a.map Char.toLower == b.map Char.toLower

/-- value of `${key[:-default]|t|f}` -/
def resolveBranch (map env : List (Str × Str)) (key : Str) (default : Option Str) (t f : Str) :
    Option Str :=
  match (lookupValue map env key).orElse (fun _ => default) with
  | some v => if eqIgnoreCase v "true".toList then some t else some f
  | none => none

/-- a match of `\$\{(\w+)(?::-([^}]+))?}` at the head of the input: (key, default, rest) -/
def matchVar (s : Str) : Option (Str × Option Str × Str) :=
  match s with
  | '$' :: '{' :: r =>
    let key := r.takeWhile isWord
    let r1 := r.dropWhile isWord
    if key.isEmpty then none else
    match r1 with
    | '}' :: rest => some (key, none, rest)
    | ':' :: '-' :: r2 =>
      let d := r2.takeWhile (· != '}')
      match r2.dropWhile (· != '}') with
      | '}' :: rest => if d.isEmpty then none else some (key, some d, rest)
      | _ => none
    | _ => none
  | _ => none

/-- a match of `\$\{(\w+)(?::-([^|}]+))?\|([^|]+)\|([^}]+)}` at the head: (key, default, t, f, rest) -/
def matchBranch (s : Str) : Option (Str × Option Str × Str × Str × Str) :=
  match s with
  | '$' :: '{' :: r =>
    let key := r.takeWhile isWord
    let r1 := r.dropWhile isWord
    if key.isEmpty then none else
    let afterDefault : Option (Option Str × Str) :=
      match r1 with
      | ':' :: '-' :: r2 =>
        let d := r2.takeWhile (fun c => c != '|' && c != '}')
        if d.isEmpty then none else some (some d, r2.dropWhile (fun c => c != '|' && c != '}'))
      | _ => some (none, r1)
    match afterDefault with
    | some (d, '|' :: r3) =>
      let t := r3.takeWhile (· != '|')
      match r3.dropWhile (· != '|') with
      | '|' :: r4 =>
        let f := r4.takeWhile (· != '}')
        match r4.dropWhile (· != '}') with
        | '}' :: rest => if t.isEmpty || f.isEmpty then none else some (key, d, t, f, rest)
        | _ => none
      | _ => none
    | _ => none
  | _ => none

/-- `replace_all` with the true/false regex; fuel = remaining length (each step consumes ≥ 1 char) -/
def passBranch (map env : List (Str × Str)) : Nat → Str → Option Str
  | _, [] => some []
  | 0, _ => none
  | fuel + 1, c :: cs =>
    match matchBranch (c :: cs) with
    | some (key, d, t, f, rest) =>
      match resolveBranch map env key d t f, passBranch map env fuel rest with
      | some v, some out => some (v ++ out)
      | _, _ => none
    | none => (passBranch map env fuel cs).map (c :: ·)

def passVar (map env : List (Str × Str)) : Nat → Str → Option Str
  | _, [] => some []
  | 0, _ => none
  | fuel + 1, c :: cs =>
    match matchVar (c :: cs) with
    | some (key, d, rest) =>
      match resolveVar map env key d, passVar map env fuel rest with
      | some v, some out => some (v ++ out)
      | _, _ => none
    | none => (passVar map env fuel cs).map (c :: ·)

/-- `process_replacements_with_env`; `none` = Err("Missing value for key …").  NB the first error in
    the true/false pass wins over anything in the second pass, as in the code (`?`). -/
def processReplacements (map env : List (Str × Str)) (input : Str) : Option Str :=
  match passBranch map env input.length input with
  | some s => passVar map env s.length s
  | none => none

end DfModel.Text.Bench
