/-
  C43 — configuration values and their text form.   Core Lean only.

  Mirrors datafusion/common/src/config.rs:
    * `config_field!` scalars: `bool` (`value.to_lowercase()` then `str::parse::<bool>`), `usize` / `u64`
      / `u32` / `i32` (`str::parse`, i.e. `from_str_radix(_, 10)`: optional `+` (and `-` for signed),
      one or more ASCII digits, range check), `String`;
    * wrappers `ConfigNonZeroUsize` (≥ 1), `ConfigMinTwoUsize` (≥ 2), `ConfigFilterSelectivity`
      (`i64` in 0..=100), `MaxRowGroupBytes` (≥ 1);
    * fields with `transform = str::to_lowercase`, `transform = normalized_parallelism` ("0" ↦ #cpus);
    * enums whose `FromStr` matches a name table ignoring ASCII case (Dialect with aliases,
      SpillCompression with the alias "", MapKeyDedupPolicy, ExplainFormat, MetricType (trims),
      DFParquetWriterVersion, ConfigDurationFormat) and whose `Display` is the canonical name;
    * `impl ConfigField for Option<F>`: `get_or_insert_with(Default::default).set(..)`; in the pinned
      upstream code a failed `set` on a `None` option therefore left `Some(default)`; /repo commit
      32d6403 ("fix: keep an unset optional config value unset when setting it fails") restores
      `None` in that case.  `set true` is the repaired code (what /repo contains now), `set false`
      the upstream code (kept only for the witness).  `Option<MaxRowGroupBytes>` has its own impl
      that never had the effect;
    * `ConfigOptions::set`'s special case `datafusion.optimizer.enable_dynamic_filter_pushdown`:
      strict `str::parse::<bool>` (no lower-casing) and the value is written to four options.
  Decimal rendering (`Display` for integers) is `showNat` / `showInt`.
  `f64` fields and `ExplainAnalyzeCategories` are outside the model (`Kind.unmodelled`).
-/
namespace DfModel.Text.Config

/-! ### decimal text -/

def digitChar (d : Nat) : Char := Char.ofNat (48 + d)

/-- `Display for u64/usize/…` -/
def showNat (n : Nat) : List Char :=
  if h : n < 10 then [digitChar n] else showNat (n / 10) ++ [digitChar (n % 10)]
termination_by n
decreasing_by omega

/-- `Display for i32/i64` -/
def showInt : Int → List Char
  | .ofNat n => showNat n
  | .negSucc n => '-' :: showNat (n + 1)

/-- left fold over ASCII digits; `none` on any other character -/
def foldDigits (acc : Nat) : List Char → Option Nat
  | [] => some acc
  | c :: r => if c.isDigit then foldDigits (acc * 10 + (c.toNat - 48)) r else none

/-- one or more digits (an empty digit string is `IntErrorKind::Empty` / `InvalidDigit`) -/
def parseDigits (s : List Char) : Option Nat :=
  match s with
  | [] => none
  | _ => foldDigits 0 s

/-- `str::parse::<uN>()`: optional `+`, digits, `≤ max` (`PosOverflow` otherwise) -/
def parseUnsigned (max : Nat) (s : List Char) : Option Nat :=
  let body := match s with
    | c :: r => if c == '+' then r else s
    | [] => s
  match parseDigits body with
  | some n => if n ≤ max then some n else none
  | none => none

/-- `str::parse::<iN>()`: optional `+` / `-`, digits, range check -/
def parseSigned (min max : Int) (s : List Char) : Option Int :=
  match s with
  | c :: r =>
    if c == '-' then
      match parseDigits r with
      | some n => if min ≤ -(n : Int) then some (-(n : Int)) else none
      | none => none
    else
      match parseDigits (if c == '+' then r else s) with
      | some n => if (n : Int) ≤ max then some (n : Int) else none
      | none => none
  | [] => none

/-! ### ASCII case -/

def lowerAscii (s : List Char) : List Char := s.map Char.toLower

def eqIgnoreAsciiCase (a b : List Char) : Bool := lowerAscii a == lowerAscii b

/-- Rust `str::trim` on the ASCII blanks (the harness only sends ASCII blanks around enum names) -/
def isBlank (c : Char) : Bool := c == ' ' || c == '\t' || c == '\n' || c == '\r'
def trimBlanks (s : List Char) : List Char :=
  ((s.dropWhile isBlank).reverse.dropWhile isBlank).reverse

/-! ### kinds and values -/

/-- an enum's name table: per variant the canonical (displayed) name followed by its aliases -/
abbrev EnumTable := List (List (List Char))

inductive Kind where
  | bool
  /-- the master switch `enable_dynamic_filter_pushdown`: `str::parse::<bool>` without lower-casing -/
  | strictBool
  | uint (max : Nat)
  | int (min max : Int)
  /-- unsigned with a lower bound (`ConfigNonZeroUsize`, `ConfigMinTwoUsize`, `MaxRowGroupBytes`) -/
  | uintMin (lo max : Nat)
  /-- `ConfigFilterSelectivity`: parsed as `i64`, accepted in `0..=100` -/
  | selectivity
  /-- `usize` with `transform = normalized_parallelism`: any text that parses to 0 ("0", "+0",
      "00", …) is replaced by the number of CPUs -/
  | parallelism (ncpu max : Nat)
  | str
  /-- `String` with `transform = str::to_lowercase` (ASCII model) -/
  | lowerStr
  | enum (table : EnumTable) (trim : Bool)
  /-- `Option<F>` through the blanket impl -/
  | opt (inner : Kind)
  /-- `Option<MaxRowGroupBytes>`: own impl, no intermediate state -/
  | optStrict (inner : Kind)
  /-- not modelled (`f64`, `ExplainAnalyzeCategories`) -/
  | unmodelled
  deriving Repr

inductive Val where
  | b (v : Bool)
  | n (v : Nat)
  | i (v : Int)
  | s (v : List Char)
  | e (idx : Nat)
  | none
  deriving DecidableEq, Repr

def showBool (b : Bool) : List Char := if b then "true".toList else "false".toList

def parseStrictBool (s : List Char) : Option Bool :=
  if s == "true".toList then some true else if s == "false".toList then some false else none

/-- index of the first variant one of whose names equals `s` ignoring ASCII case -/
def enumFind (s : List Char) : EnumTable → Nat → Option Nat
  | [], _ => none
  | names :: rest, i => if names.any (eqIgnoreAsciiCase s) then some i else enumFind s rest (i + 1)

def enumShow (t : EnumTable) (i : Nat) : Option (List Char) :=
  match t[i]? with
  | some (canon :: _) => some canon
  | _ => none

/-- `F::default()` for the inner type of an `Option<F>` field -/
def defaultOf : Kind → Val
  | .bool | .strictBool => .b false
  | .uint _ | .uintMin _ _ | .parallelism _ _ | .selectivity => .n 0
  | .int _ _ => .i 0
  | .str | .lowerStr => .s []
  | .enum _ _ => .e 0
  | .opt _ | .optStrict _ | .unmodelled => .none

/-- text → value (`ConfigField::set` up to the assignment); `none` = rejected -/
def parse : Kind → List Char → Option Val
  | .bool, s => (parseStrictBool (lowerAscii s)).map .b
  | .strictBool, s => (parseStrictBool s).map .b
  | .uint max, s => (parseUnsigned max s).map .n
  | .int lo hi, s => (parseSigned lo hi s).map .i
  | .uintMin lo max, s =>
    match parseUnsigned max s with
    | some n => if lo ≤ n then some (.n n) else none
    | none => none
  | .selectivity, s =>
    match parseSigned (-(2 ^ 63 : Int)) (2 ^ 63 - 1) s with
    | some v => if 0 ≤ v ∧ v ≤ 100 then some (.n v.toNat) else none
    | none => none
  | .parallelism ncpu max, s =>
    -- `if value.parse::<usize>() == Ok(0) { get_available_parallelism().to_string() } else { value }`
    match parseUnsigned max s with
    | some 0 => some (.n ncpu)
    | some n => some (.n n)
    | none => none
  | .str, s => some (.s s)
  | .lowerStr, s => some (.s (lowerAscii s))
  | .enum t tr, s => (enumFind (if tr then trimBlanks s else s) t 0).map .e
  | .opt k, s => parse k s
  | .optStrict k, s => parse k s
  | .unmodelled, _ => none

/-- value → reported text (`Display`); `none` = the entry's value is NULL / not modelled -/
def «show» : Kind → Val → Option (List Char)
  | .bool, .b v | .strictBool, .b v => some (showBool v)
  | .uint _, .n v | .uintMin _ _, .n v | .selectivity, .n v | .parallelism _ _, .n v => some (showNat v)
  | .int _ _, .i v => some (showInt v)
  | .str, .s v | .lowerStr, .s v => some v
  | .enum t _, .e i => enumShow t i
  | .opt _, .none | .optStrict _, .none => none
  | .opt k, v => «show» k v
  | .optStrict k, v => «show» k v
  | _, _ => none

/-- the values a field of this kind can hold -/
def Valid : Kind → Val → Prop
  | .bool, .b _ | .strictBool, .b _ => True
  | .uint max, .n v => v ≤ max
  | .int lo hi, .i v => lo ≤ v ∧ v ≤ hi
  | .uintMin lo max, .n v => lo ≤ v ∧ v ≤ max
  | .selectivity, .n v => v ≤ 100
  | .parallelism _ max, .n v => 1 ≤ v ∧ v ≤ max
  | .str, .s _ => True
  | .lowerStr, .s v => lowerAscii v = v
  | .enum t _, .e i => ∃ c, enumShow t i = some c ∧ enumFind c t 0 = some i ∧ (trimBlanks c = c)
  | .opt _, .none | .optStrict _, .none => True
  | .opt k, v => Valid k v
  | .optStrict k, v => Valid k v
  | _, _ => False

/-! ### the configuration: keyed entries, `set`, `entries` -/

structure Entry where
  key : Nat
  kind : Kind
  val : Val
  /-- keys that receive the same value when this entry is set (`enable_dynamic_filter_pushdown`) -/
  fanout : List Nat := []
  deriving Repr

abbrev Config := List Entry

def assign (cfg : Config) (keys : List Nat) (v : Val) : Config :=
  cfg.map fun e => if keys.contains e.key then { e with val := v } else e

/-- `ConfigOptions::set(key, text)`: new configuration and whether the call returned `Ok`.
    `repaired = true`: the code after /repo 32d6403 — a failed `set` leaves everything as it was
    (`if result.is_err() && was_none { *self = None }`).
    `repaired = false`: the pinned upstream code — a failed `set` on an `Option<F>` field that is
    `None` leaves `Some(F::default())` behind (`get_or_insert_with(Default::default)` ran before
    the inner `set` failed). -/
def set (repaired : Bool) (cfg : Config) (key : Nat) (text : List Char) : Config × Bool :=
  match cfg.find? (fun e => e.key == key) with
  | none => (cfg, false)
  | some e =>
    match parse e.kind text with
    | some v => (assign cfg (key :: e.fanout) v, true)
    | none =>
      if repaired then (cfg, false) else
      match e.kind, e.val with
      | .opt k, .none => (assign cfg [key] (defaultOf k), false)
      | _, _ => (cfg, false)

/-- `ConfigOptions::entries()`: key and reported text -/
def entries (cfg : Config) : List (Nat × Option (List Char)) :=
  cfg.map fun e => (e.key, «show» e.kind e.val)

/-! ### the name tables (display name first, then aliases) -/

def tbl (xs : List (List String)) : EnumTable := xs.map (·.map String.toList)

def dialectTable : EnumTable := tbl
  [["generic"], ["mysql"], ["postgresql", "postgres"], ["hive"], ["sqlite"], ["snowflake"],
   ["redshift"], ["mssql"], ["clickhouse"], ["bigquery"], ["ansi"], ["duckdb"], ["databricks"],
   ["spark", "sparksql"]]
def spillCompressionTable : EnumTable := tbl [["zstd"], ["lz4_frame"], ["uncompressed", ""]]
def mapKeyDedupTable : EnumTable := tbl [["EXCEPTION"], ["LAST_WIN"]]
def explainFormatTable : EnumTable := tbl [["indent"], ["tree"], ["pgjson"], ["graphviz"]]
def metricTypeTable : EnumTable := tbl [["summary"], ["dev"]]
def writerVersionTable : EnumTable := tbl [["1.0"], ["2.0"]]
def durationFormatTable : EnumTable := tbl [["pretty"], ["iso8601"]]

/-! ### `ExplainAnalyzeCategories` (datafusion/common/src/format.rs) -/

def categoryTable : EnumTable := tbl [["rows"], ["bytes"], ["timing"], ["uncategorized"]]

/-- `All` | `Only(categories)`; categories as indices into `categoryTable` -/
inductive Cats where
  | all
  | only (l : List Nat)
  deriving DecidableEq, Repr

/-- `str::split(',')` -/
def splitComma : List Char → List (List Char)
  | [] => [[]]
  | c :: r =>
    match splitComma r with
    | [] => [[]]          -- unreachable
    | p :: ps => if c == ',' then [] :: p :: ps else (c :: p) :: ps

/-- `Vec::dedup`: consecutive repeats removed -/
def dedupAdj : List Nat → List Nat
  | [] => []
  | [a] => [a]
  | a :: b :: r => if a == b then dedupAdj (b :: r) else a :: dedupAdj (b :: r)

/-- `impl FromStr for ExplainAnalyzeCategories`: trim + lower-case; `all`; `none`; otherwise every
    comma-separated part must be a `MetricCategory` (each trimmed and lower-cased again), then `dedup` -/
def parseCats (s : List Char) : Option Cats :=
  let s := lowerAscii (trimBlanks s)
  if s == "all".toList then some .all
  else if s == "none".toList then some (.only [])
  else ((splitComma s).mapM fun p => enumFind (trimBlanks p) categoryTable 0).map fun l => .only (dedupAdj l)

def joinComma : List (List Char) → List Char
  | [] => []
  | [a] => a
  | a :: r => a ++ ',' :: joinComma r

/-- `impl Display for ExplainAnalyzeCategories` -/
def showCats : Cats → List Char
  | .all => "all".toList
  | .only [] => "none".toList
  | .only l => joinComma (l.map fun i => (enumShow categoryTable i).getD [])

/-- every ordered selection of distinct categories out of `pool` (the empty one included) -/
def selections : Nat → List Nat → List (List Nat)
  | 0, _ => [[]]
  | fuel + 1, pool => [] :: pool.flatMap fun i => (selections fuel (pool.filter (· != i))).map (i :: ·)

/-- `All`, `Only([])`, and `Only(l)` for all 64 ordered selections of 1..4 distinct categories -/
def allCats : List Cats := .all :: ((selections 4 [0, 1, 2, 3]).eraseDups.map .only)

end DfModel.Text.Config
