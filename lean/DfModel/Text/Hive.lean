/-
  Hive-style partition directories (C25 write side, C25/C27 read side). Core Lean only.

  write:  datasource/src/write/demux.rs `compute_hive_style_file_path`:
            `file_path = file_path.join(format!("{name}={value}"))`  → object_store `PathPart::from`
  read:   catalog-listing/src/helpers.rs `parse_partitions_for_path`
-/
import DfModel.Text.Percent
namespace DfModel.Text.Hive
open DfModel.Text.Percent

def eqB : Nat := 61    -- '='
def dotB : Nat := 46   -- '.'

/-- object_store `PathPart::from(&[u8])`: `.` ↦ `%2E`, `..` ↦ `%2E%2E`, else percent-encode INVALID -/
def pathPart (bs : Bytes) : Bytes :=
  if bs = [dotB] then [37, 50, 69]
  else if bs = [dotB, dotB] then [37, 50, 69, 37, 50, 69]
  else encode pathPartSet bs

/-- the directory segment written for one partition column -/
def buildSeg (name val : Bytes) : Bytes := pathPart (name ++ eqB :: val)

/-- `str::split_once('=')` -/
def splitOnceEq : Bytes → Option (Bytes × Bytes)
  | [] => none
  | b :: rest =>
    if b = eqB then some ([], rest)
    else match splitOnceEq rest with
      | some (n, v) => some (b :: n, v)
      | none => none

/-- one iteration of `parse_partitions_for_path`: `Some((name, val)) if name == expected` → decoded value -/
def parseSeg (expected seg : Bytes) : Option Bytes :=
  match splitOnceEq seg with
  | some (n, v) => if n = expected then some (decodeStr v) else none
  | none => none

/-- `parse_partitions_for_path` over the path segments below the table prefix (`subpath.zip(cols)`):
    stops at the shorter of the two; the first mismatch gives `None` (file ignored). -/
def parsePartitions : List Bytes → List Bytes → Option (List Bytes)
  | _, [] => some []
  | [], _ :: _ => some []
  | seg :: segs, col :: cols =>
    match parseSeg col seg with
    | none => none
    | some v =>
      match parsePartitions segs cols with
      | none => none
      | some vs => some (v :: vs)

/-- segments (below the table prefix) of the file written for partition key `kvs` -/
def buildPath (kvs : List (Bytes × Bytes)) (file : Bytes) : List Bytes :=
  kvs.map (fun kv => buildSeg kv.1 kv.2) ++ [pathPart file]

/-- a column name that `PathPart::from` leaves untouched and that contains no `=` -/
def PlainName (n : Bytes) : Prop := ∀ b ∈ n, b < 128 ∧ pathPartSet b = false ∧ b ≠ eqB

end DfModel.Text.Hive
