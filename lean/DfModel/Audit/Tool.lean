/-
  `#audit_ns Foo.Bar` prints, for every theorem declared in namespace `Foo.Bar` (in any imported
  module or this one), one line
      AUDIT <name> axioms=[a, b, c]
  using the kernel-level axiom collector (the same one behind `#print axioms`), so that `sorry`
  (`sorryAx`), `native_decide` (`Lean.ofReduceBool`, `Lean.trustCompiler`), `bv_decide` axioms and
  user axioms are all visible to the `check` script.
-/
import Lean
open Lean Elab Command

elab "#audit_ns " ns:ident : command => do
  let env ← getEnv
  let nsName := ns.getId
  let mut names : Array Name := #[]
  for (n, ci) in env.constants.toList do
    if nsName.isPrefixOf n && !n.isInternal then
      match ci with
      | .thmInfo _ => names := names.push n
      | _ => pure ()
  let sorted := names.qsort (fun a b => a.toString < b.toString)
  for n in sorted do
    let axs ← Lean.collectAxioms n
    let axs := axs.qsort (fun a b => a.toString < b.toString)
    logInfo m!"AUDIT {n} axioms={axs.toList}"
