/-
  C07 — aggregate function state can be split, merged and retracted exactly.

  `Acc = (State, init, step, merge, eval)`, `update s xs = foldl step s xs`; the accumulators are
  the models in Mech/AggAcc.lean of count, sum (wrapping i64), sliding sum, min, max, sliding
  min/max, avg, bool_and/or, bit_and/or/xor, first/last_value, count(distinct) and its sliding
  variant.  All theorems quantify over ALL inputs (lists of nullable 64-bit integers), all splits
  and all merge shapes.
-/
import DfModel.Mech.AggAcc
import DfModel.Proofs.C07d
namespace DfModel.Props.C07
open DfModel.Mech.AggAcc DfModel.Proofs.C07

/-- **any split into batches**: feeding `xs` then `ys` = feeding `xs ++ ys` — for every accumulator -/
theorem update_append {σ ρ : Type} (a : Acc σ ρ) (s : σ) (xs ys : List NV) :
    a.update (a.update s xs) ys = a.update s (xs ++ ys) :=
  DfModel.Proofs.C07.update_append a s xs ys

/-- the state-level homomorphism law -/
abbrev MergeHom {σ ρ : Type} (a : Acc σ ρ) : Prop :=
  ∀ xs ys : List NV, a.merge (a.update a.init xs) (a.update a.init ys) = a.update a.init (xs ++ ys)

/-- **merge_hom**: converting partial accumulations to state and merging them = accumulating the
    concatenated input; holds as an equality of STATES for every modelled function -/
theorem merge_hom :
    MergeHom count ∧ MergeHom sum ∧ MergeHom sumSliding ∧ MergeHom min ∧ MergeHom max ∧ MergeHom avg ∧
    MergeHom boolAnd ∧ MergeHom boolOr ∧ MergeHom bitAnd ∧ MergeHom bitOr ∧ MergeHom bitXor ∧
    MergeHom first ∧ MergeHom last ∧ MergeHom countDistinct :=
  ⟨DfModel.Proofs.C07.merge_hom count_laws, DfModel.Proofs.C07.merge_hom sum_laws,
   DfModel.Proofs.C07.merge_hom sumSliding_laws, DfModel.Proofs.C07.merge_hom min_laws,
   DfModel.Proofs.C07.merge_hom max_laws, DfModel.Proofs.C07.merge_hom avg_laws,
   DfModel.Proofs.C07.merge_hom bitAnd_laws, DfModel.Proofs.C07.merge_hom bitOr_laws,
   DfModel.Proofs.C07.merge_hom bitAnd_laws, DfModel.Proofs.C07.merge_hom bitOr_laws,
   DfModel.Proofs.C07.merge_hom bitXor_laws, DfModel.Proofs.C07.merge_hom first_laws,
   DfModel.Proofs.C07.merge_hom last_laws, DfModel.Proofs.C07.merge_hom countDistinct_laws⟩

/-- sliding min / max ship only their current extremum as state: the law holds for the value -/
theorem merge_hom_sliding_minmax (xs ys : List NV) :
    slidingMax.eval (slidingMax.merge (slidingMax.update slidingMax.init xs) (slidingMax.update slidingMax.init ys))
      = slidingMax.eval (slidingMax.update slidingMax.init (xs ++ ys)) ∧
    slidingMin.eval (slidingMin.merge (slidingMin.update slidingMin.init xs) (slidingMin.update slidingMin.init ys))
      = slidingMin.eval (slidingMin.update slidingMin.init (xs ++ ys)) :=
  ⟨slidingMax_merge_hom xs ys, slidingMin_merge_hom xs ys⟩

abbrev MergeComm {σ ρ : Type} (a : Acc σ ρ) : Prop :=
  ∀ xs ys : List NV, a.merge (a.update a.init xs) (a.update a.init ys) = a.merge (a.update a.init ys) (a.update a.init xs)
abbrev MergeAssoc {σ ρ : Type} (a : Acc σ ρ) : Prop :=
  ∀ xs ys zs : List NV, a.merge (a.merge (a.update a.init xs) (a.update a.init ys)) (a.update a.init zs)
      = a.merge (a.update a.init xs) (a.merge (a.update a.init ys) (a.update a.init zs))

/-- **merge_comm** for the order-insensitive functions -/
theorem merge_comm :
    MergeComm count ∧ MergeComm sum ∧ MergeComm sumSliding ∧ MergeComm min ∧ MergeComm max ∧ MergeComm avg ∧
    MergeComm boolAnd ∧ MergeComm boolOr ∧ MergeComm bitAnd ∧ MergeComm bitOr ∧ MergeComm bitXor :=
  ⟨DfModel.Proofs.C07.merge_comm count_laws count_comm, DfModel.Proofs.C07.merge_comm sum_laws sum_comm,
   DfModel.Proofs.C07.merge_comm sumSliding_laws sumSliding_comm, DfModel.Proofs.C07.merge_comm min_laws min_comm,
   DfModel.Proofs.C07.merge_comm max_laws max_comm, DfModel.Proofs.C07.merge_comm avg_laws avg_comm,
   DfModel.Proofs.C07.merge_comm bitAnd_laws bitAnd_comm, DfModel.Proofs.C07.merge_comm bitOr_laws bitOr_comm,
   DfModel.Proofs.C07.merge_comm bitAnd_laws bitAnd_comm, DfModel.Proofs.C07.merge_comm bitOr_laws bitOr_comm,
   DfModel.Proofs.C07.merge_comm bitXor_laws bitXor_comm⟩

/-- **merge_assoc** (every function, order-sensitive ones included) -/
theorem merge_assoc :
    MergeAssoc count ∧ MergeAssoc sum ∧ MergeAssoc sumSliding ∧ MergeAssoc min ∧ MergeAssoc max ∧ MergeAssoc avg ∧
    MergeAssoc bitAnd ∧ MergeAssoc bitOr ∧ MergeAssoc bitXor ∧ MergeAssoc first ∧ MergeAssoc last ∧
    MergeAssoc countDistinct :=
  ⟨DfModel.Proofs.C07.merge_assoc count_laws, DfModel.Proofs.C07.merge_assoc sum_laws,
   DfModel.Proofs.C07.merge_assoc sumSliding_laws, DfModel.Proofs.C07.merge_assoc min_laws,
   DfModel.Proofs.C07.merge_assoc max_laws, DfModel.Proofs.C07.merge_assoc avg_laws,
   DfModel.Proofs.C07.merge_assoc bitAnd_laws, DfModel.Proofs.C07.merge_assoc bitOr_laws,
   DfModel.Proofs.C07.merge_assoc bitXor_laws, DfModel.Proofs.C07.merge_assoc first_laws,
   DfModel.Proofs.C07.merge_assoc last_laws, DfModel.Proofs.C07.merge_assoc countDistinct_laws⟩

/-- count(distinct): the VALUE does not depend on row order / merge order (the state, a list standing
    for a hash set, does) -/
theorem countDistinct_order_free {xs ys : List NV} (p : xs.Perm ys) :
    countDistinct.eval (countDistinct.update countDistinct.init xs)
      = countDistinct.eval (countDistinct.update countDistinct.init ys) := countDistinct_perm p

/-- **any number of partials, merged in any order**: for an order-insensitive function, merging the
    partial states of the parts in ANY permutation gives the state of the whole input -/
theorem merge_any_order {σ ρ : Type} {I : σ → Prop} (a : Acc σ ρ) (h : MergeLaws a I) (hc : StepComm a)
    (parts parts' : List (List NV)) (p : parts'.Perm parts) :
    mergeAll a parts' = a.update a.init parts.flatten := by
  rw [mergeAll_eq h]
  exact update_perm hc _ (List.Perm.flatten p)

example : mergeAll sum [[some 5#64, none], [], [some 7#64]] = some 12#64 := by decide
-- sum wraps (add_wrapping): i64::MAX + 1 = i64::MIN
example : (sum.update sum.init [some (BitVec.ofInt 64 9223372036854775807), some 1#64]).map BitVec.toInt
    = some (-9223372036854775808) := by decide
-- first_value is order-sensitive: merge is not commutative (so it is rightly absent from `merge_comm`)
example : first.merge (first.update first.init [some 1#64]) (first.update first.init [some 2#64])
    ≠ first.merge (first.update first.init [some 2#64]) (first.update first.init [some 1#64]) := by decide

/-! ### retraction -/

/-- **retract_prefix**: retracting the rows that left the window (a prefix, FIFO) gives the state —
    for avg the value — of recomputing over the remaining rows. -/
theorem retract_prefix (xs ys : List NV) :
    xs.foldl countRetract (count.update count.init (xs ++ ys)) = count.update count.init ys ∧
    xs.foldl sumSlidingRetract (sumSliding.update sumSliding.init (xs ++ ys)) = sumSliding.update sumSliding.init ys ∧
    avg.eval (xs.foldl avgRetract (avg.update avg.init (xs ++ ys))) = avg.eval (avg.update avg.init ys) ∧
    xs.foldl slidingRetract (slidingMax.update slidingMax.init (xs ++ ys)) = slidingMax.update slidingMax.init ys ∧
    xs.foldl slidingRetract (slidingMin.update slidingMin.init (xs ++ ys)) = slidingMin.update slidingMin.init ys ∧
    xs.foldl bagRetract (countDistinctSliding.update countDistinctSliding.init (xs ++ ys))
      = countDistinctSliding.update countDistinctSliding.init ys :=
  ⟨count_retract_prefix xs ys, sumSliding_retract_prefix xs ys, avg_retract_prefix xs ys,
   slidingMax_retract_prefix xs ys, slidingMin_retract_prefix xs ys, bag_retract_prefix xs ys⟩

/-- the accumulators created for sliding windows compute the same value as the plain ones -/
theorem sliding_eq_plain (xs : List NV) :
    sumSliding.eval (sumSliding.update sumSliding.init xs) = sum.eval (sum.update sum.init xs) ∧
    slidingMax.eval (slidingMax.update slidingMax.init xs) = max.eval (max.update max.init xs) ∧
    slidingMin.eval (slidingMin.update slidingMin.init xs) = min.eval (min.update min.init xs) :=
  ⟨sumSliding_eq_sum xs, slidingMax_eq_max xs, slidingMin_eq_min xs⟩

example : sumSliding.eval ([some 3#64].foldl sumSlidingRetract (sumSliding.update sumSliding.init [some 3#64, none])) = none := by
  decide

/-- the property for `bit_xor` (its accumulator advertises `supports_retract_batch`) -/
def bitXor_retract_prefix_statement : Prop :=
  ∀ xs ys : List NV,
    bitXor.eval (xs.foldl bitXorRetract (bitXor.update bitXor.init (xs ++ ys))) = bitXor.eval (bitXor.update bitXor.init ys)

/-- **it is FALSE for the code as it is**: `retract_batch = update_batch` never resets `value` to
    `None`, so once the only non-NULL value has left the window the accumulator answers `0`, while
    recomputing over the remaining rows (none, or only NULLs) answers NULL. -/
theorem bitXor_retract_not_null : ¬ bitXor_retract_prefix_statement := by
  intro h
  have := h [some 5#64] [none]
  revert this
  decide

/-- what does hold: the values agree whenever NULL is read as 0 — in particular whenever the
    remaining window contains a non-NULL value the defect is invisible -/
theorem bitXor_retract_prefix_partial (xs ys : List NV) :
    (bitXor.eval (xs.foldl bitXorRetract (bitXor.update bitXor.init (xs ++ ys)))).getD 0
      = (bitXor.eval (bitXor.update bitXor.init ys)).getD 0 :=
  bitXor_retract_partial xs ys

/-! ### vectorised accumulation -/

/-- **groups_eq_scalar**: after any sequence of `(group, value, filter)` rows the state of group `g` is
    the scalar accumulator's state over exactly the rows of group `g` that pass the filter, in order -/
theorem groups_eq_scalar {σ ρ : Type} (a : Acc σ ρ) (sts : List σ) (rows : List GRow) (g : Nat) :
    (groupsUpdate a sts rows)[g]? =
      sts[g]?.map (fun s => a.update s ((rows.filter (fun r => r.keep && r.g == g)).map (·.v))) :=
  groupsUpdate_get a sts rows g

/-- `EmitTo::First(n)`: the emitted states are those of groups `0..n`, and old group `n + i` becomes group `i` -/
theorem emit_first_shift {σ : Type} (n : Nat) (sts : List σ) (i : Nat) :
    (emitFirst n sts).1 = sts.take n ∧ (emitFirst n sts).2[i]? = sts[n + i]? := by
  simp [emitFirst]

/-- **emit_first_then_update**: a history that CONTINUES after `EmitTo::First(n)` — the surviving groups are
    renumbered `id - n`, and after any further batch the state of (new) group `i` is the scalar state of old group
    `n + i` fed exactly the later rows of group `i` that pass the filter -/
theorem emit_first_then_update {σ ρ : Type} (a : Acc σ ρ) (n : Nat) (sts : List σ) (rows : List GRow) (i : Nat) :
    (groupsUpdate a (emitFirst n sts).2 rows)[i]? =
      sts[n + i]?.map (fun s => a.update s ((rows.filter (fun r => r.keep && r.g == i)).map (·.v))) := by
  rw [groups_eq_scalar, (emit_first_shift n sts i).2]

/-- the null-tracking state survives an emit correctly: after `build(First(n))` the tracker answers for new
    group `i` what it answered for old group `n + i` — in the bitmap form and in the fast-path counter form
    (where the counter must be decreased by `n`) — and the emitted validity is that of the first `n` groups -/
theorem seen_build_first (s : Seen) (n i : Nat) :
    (s.buildFirst n).2.get i = s.get (n + i) ∧
    (i < n → (∀ k, s = .all k → n ≤ k) → (s.buildFirst n).1.getD i false = s.get i) := by
  cases s with
  | all k =>
    refine ⟨by simp only [Seen.buildFirst, Seen.get, decide_eq_decide]; omega, ?_⟩
    intro hi hk
    have := hk k rfl
    simp only [Seen.buildFirst, Seen.get]
    have h1 : i < k := by omega
    simp [List.getD_eq_getElem?_getD, List.getElem?_replicate, hi, h1]
  | some b =>
    refine ⟨by simp [Seen.buildFirst, Seen.get, List.getD_eq_getElem?_getD, List.getElem?_drop], ?_⟩
    intro hi _
    simp [Seen.buildFirst, Seen.get, List.getD_eq_getElem?_getD, List.getElem?_take, hi]

/-- materialising the fast-path counter gives the same answers -/
theorem seen_builder_get (s : Seen) (total i : Nat) : (Seen.some (s.builder total)).get i = s.get i := by
  cases s with
  | all k =>
    simp only [Seen.builder, Seen.get, List.getD_eq_getElem?_getD]
    by_cases h : i < k
    · simp [List.getElem?_append_left, h]
    · have : k ≤ i := by omega
      simp [List.getElem?_append_right, this, List.getElem?_replicate, h]
      split <;> rfl
  | some b =>
    simp only [Seen.builder, Seen.get, List.getD_eq_getElem?_getD]
    by_cases h : i < b.length
    · simp [List.getElem?_append_left, h]
    · have : b.length ≤ i := by omega
      simp [List.getElem?_append_right, this, List.getElem?_replicate]
      split <;> rfl

-- a counter that is NOT decreased (the seeded defect) claims that the new group 1 has seen a value
example : (Seen.all 3).buildFirst 2 = ([true, true], Seen.all 1) ∧ (Seen.all 1).get 1 = false ∧ (Seen.all 3).get 1 = true := by
  decide

example : (groupsUpdate sum [none, none, none]
    [⟨0, some 1#64, true⟩, ⟨2, some 5#64, true⟩, ⟨0, some 2#64, false⟩, ⟨0, none, true⟩, ⟨2, some 1#64, true⟩])
    = [some 1#64, none, some 6#64] := by decide

end DfModel.Props.C07
