/-
  C41 — bound query parameters behave like the equivalent literals.

  `bindPlan ps p` is `LogicalPlan::with_param_values` on the reference AST (every `$n` in every
  expression of every node, sub-query plans included, replaced by the literal of the n-th value);
  `evalPlanP ps p db` evaluates the parameterised plan with the values in the environment.
  `bind_eval` is the substitution lemma: both give the same rows (or the same error) for EVERY plan,
  database and parameter vector — including unbound / out-of-range placeholders (both sides reject),
  placeholders inside IN lists, CASE arms, join conditions, aggregate arguments and FILTERs, sort
  keys, and inside correlated sub-queries (the sub-plan is evaluated with the outer row in the
  environment, the parameters stay visible).  `bind_query_eval` adds the outermost
  `LIMIT $n OFFSET $m`.
-/
import DfModel.Sql.Bind
import DfModel.Proofs.C41
namespace DfModel.Props.C41
open DfModel DfModel.Proofs.C41

/-- substitution lemma for expressions: whatever the row, the outer row and the values -/
theorem bind_eval_expr (ps : Params) (e : Expr) (ρ o : Row) :
    eval (bindExpr ps e) ρ { params := [], outer := o } = eval e ρ { params := ps, outer := o } :=
  bindExpr_eval ps o e ρ

/-- **bind_eval** (substitution lemma for plans), stated for every enclosing outer row so that it
    goes through dependent joins (sub-queries) -/
theorem bind_eval_outer (ps : Params) (db : Db) (p : Plan) :
    ∀ o : Row, evalPlan (bindPlan ps p) db { params := [], outer := o } = evalPlanP ps p db o := by
  induction p with
  | scan n => intro o; rfl
  | values w rows => intro o; rfl
  | filter e p ih => intro o; simp only [bindPlan, evalPlanP, evalPlan, ih o, evalFilter_bind]
  | project es p ih => intro o; simp only [bindPlan, evalPlanP, evalPlan, ih o, evalProject_bind]
  | join jt ne on f l r ihl ihr =>
    intro o
    simp only [bindPlan, evalPlanP, evalPlan, ihl o, ihr o, bindPlan_arity, evalJoin_bind]
  | aggregate ks as p ih => intro o; simp only [bindPlan, evalPlanP, evalPlan, ih o, evalAggregate_bind]
  | sort ks p ih => intro o; simp only [bindPlan, evalPlanP, evalPlan, ih o, evalSort_bind]
  | limit s f p ih => intro o; simp only [bindPlan, evalPlanP, evalPlan, ih o]
  | setop k all l r ihl ihr => intro o; simp only [bindPlan, evalPlanP, evalPlan, ihl o, ihr o]
  | distinct p ih => intro o; simp only [bindPlan, evalPlanP, evalPlan, ih o]
  | apply k x i sub ihi ihs =>
    intro o
    simp only [bindPlan, evalPlanP, evalPlan, ihi o]
    congr 1; funext rows
    congr 1; funext ρ
    have hs := ihs ρ
    simp only [evalPlanP] at hs
    rw [hs]
    cases x with
    | none => rfl
    | some e => simp only [bindOpt, bindExpr_eval]

/-- **bind_eval**: the bound query, evaluated with no parameters, = the parameterised query
    evaluated with the parameters -/
theorem bind_eval (ps : Params) (p : Plan) (db : Db) :
    evalPlan (bindPlan ps p) db = evalPlanP ps p db :=
  bind_eval_outer ps db p []

theorem bind_lim (ps : Params) (a : LimArg) : limArgVal [] (bindLimArg ps a) = limArgVal ps a := by
  cases a with
  | num n => rfl
  | null => rfl
  | ph i =>
    simp only [bindLimArg, limArgVal]
    cases h : ps[i]? with
    | none => simp [limArgVal]
    | some v =>
      simp only []
      generalize limOfVal v = lv
      cases lv <;> simp [limArgVal]

/-- the same with a parameterised outermost `LIMIT $n OFFSET $m`: also a NULL value (no limit), a
    negative or non-integer value (rejected) behave like the corresponding text -/
theorem bind_query_eval (ps : Params) (q : PQuery) (db : Db) :
    evalQueryP [] (bindQuery ps q) db = evalQueryP ps q db := by
  have hp : evalPlanP [] (bindPlan ps q.plan) db = evalPlanP ps q.plan db := bind_eval ps q.plan db
  simp only [evalQueryP, bindQuery, hp, Option.map_map]
  have hf : (limArgVal [] ∘ bindLimArg ps) = limArgVal ps := by funext a; exact bind_lim ps a
  rw [hf]

/-- binding twice is binding once (a bound plan has no placeholder a second vector could fill,
    provided the first vector covers them): idempotence on the value level -/
theorem bind_eval_idem (ps : Params) (p : Plan) (db : Db) :
    evalPlan (bindPlan [] (bindPlan ps p)) db = evalPlanP ps p db := by
  rw [bind_eval [] (bindPlan ps p) db]
  exact bind_eval ps p db

/-! ### non-vacuity -/

private def db1 : Db := { tables := [("t", 2, [[.int 64 true 1, .str ['a']], [.int 64 true 2, .null], [.int 64 true 3, .str ['b']]])] }

-- `SELECT c0 + $1 FROM t WHERE c0 IN ($2, 3) AND c1 IS DISTINCT FROM $3` with (10, 1, NULL)
example :
    evalPlanP [.int 64 true 10, .int 64 true 1, .null]
      (.project [.bin .add (.col 0) (.ph 0)]
        (.filter (.bin .and (.inList false (.col 0) [.ph 1, .lit (.int 64 true 3)]) (.bin .distinct (.col 1) (.ph 2)))
          (.scan "t"))) db1
    = .ok [[.int 64 true 11], [.int 64 true 13]] := by decide

-- the bound plan really is the literal plan
example :
    bindPlan [.int 64 true 10] (.filter (.bin .lt (.col 0) (.ph 0)) (.scan "t"))
      = .filter (.bin .lt (.col 0) (.lit (.int 64 true 10))) (.scan "t") := by simp [bindPlan, bindExpr]

-- placeholder inside a correlated sub-query: `EXISTS (SELECT … FROM t u WHERE u.c0 = t.c0 + $1)`
example :
    evalPlanP [.int 64 true 1]
      (.apply .exists none (.scan "t") (.filter (.bin .eq (.col 0) (.bin .add (.outer 0) (.ph 0))) (.scan "t"))) db1
    = .ok [[.int 64 true 1, .str ['a'], .bool true], [.int 64 true 2, .null, .bool true],
           [.int 64 true 3, .str ['b'], .bool false]] := by decide

-- `LIMIT $1` with NULL = no limit; with -1 = rejected
example : evalQueryP [.null] { plan := .scan "t", fetch := some (.ph 0) } db1
    = .ok (some [[.int 64 true 1, .str ['a']], [.int 64 true 2, .null], [.int 64 true 3, .str ['b']]]) := by decide
example : evalQueryP [.int 64 true (-1)] { plan := .scan "t", fetch := some (.ph 0) } db1 = .ok none := by decide

end DfModel.Props.C41
