/-
  C31 — dynamic filters never remove rows that contribute to the result.

  (a) `DynamicFilterPhysicalExpr`: generation / cache state machine, all interleavings of the
      writer with the micro-steps of concurrent `current()` calls        (Sm/DynFilter.lean)
  (b) the filter a hash join publishes for its probe side is sound for exactly the gated join types
  (c) the TopK threshold filter is sound, also for stale reads            (Mech/DynSound.lean)
-/
import DfModel.Sm.DynFilter
import DfModel.Mech.DynSound
import DfModel.Proofs.C31
import DfModel.Proofs.C31b
namespace DfModel.Props.C31
open DfModel.Sm.DynFilter DfModel.Mech.Join DfModel.Mech.DynSound DfModel.Proofs.C31
open List

/-! ### (a) generation / cache -/

/-- **Every `current()` returns the (remapped) expression of exactly one published generation `g`,
    and `g` is not older than the generation visible when the call started** — for every history of
    updates and every interleaving of reader micro-steps, any number of concurrent readers. -/
theorem current_returns_one_generation {E : Type} (remap : E → E) (e0 : E) (n : Nat)
    (ops : List (Op E)) (i g0 : Nat) (r : E)
    (h : (run remap (init e0 n) ops).readers[i]? = some (.done g0 r)) :
    ∃ g, g0 ≤ g ∧ g ≤ (run remap (init e0 n) ops).gen ∧
      ∃ e, exprAt (run remap (init e0 n) ops).hist g = some e ∧ r = remap e := by
  have hinv := inv_run remap ops _ (inv_init remap e0 n)
  exact hinv.readers _ (mem_of_getElem? h)

/-- the generation only grows, and what was published stays published -/
theorem generation_monotone {E : Type} (remap : E → E) (s : St E) (op : Op E) :
    s.gen ≤ (step remap s op).gen ∧ s.hist <+: (step remap s op).hist :=
  gen_step remap s op

/-- the cache never goes back to an older generation (nor from filled to empty) -/
theorem cache_never_regresses {E : Type} (remap : E → E) (s : St E) (op : Op E) :
    cacheGen s ≤ cacheGen (step remap s op) :=
  cacheGen_step remap s op

/-- whatever the cache holds is the remap of the generation it is labelled with -/
theorem cache_consistent {E : Type} (remap : E → E) (e0 : E) (n : Nat) (ops : List (Op E))
    (cg : Nat) (ce : E) (h : (run remap (init e0 n) ops).cache = some (cg, ce)) :
    cg ≤ (run remap (init e0 n) ops).gen ∧
      ∃ e, exprAt (run remap (init e0 n) ops).hist cg = some e ∧ ce = remap e :=
  (inv_run remap ops _ (inv_init remap e0 n)).cache cg ce h

/-- the `generation > cached generation` guard of R4 is needed: with `≥`/unconditional writes a
    slow reader would put an older generation over a newer one.  Witness schedule (2 readers):
    reader 0 reads generation 1, the writer updates, reader 1 runs to completion (caches
    generation 2), reader 0 finishes — the cache still holds generation 2. -/
example :
    (run (· + 1) (init 10 2)
        ([.read 0, .update 20, .read 1, .read 1, .read 1, .read 0, .read 0] : List (Op Nat))).cache
      = some (2, 21) ∧
    (run (· + 1) (init 10 2)
        ([.read 0, .update 20, .read 1, .read 1, .read 1, .read 0, .read 0] : List (Op Nat))).readers
      = [.done 1 11, .done 2 21] := by decide

/-! ### (b) join build-side filter -/

/-- **Soundness for the gated join types.** If the join type passes
    `allow_join_dynamic_filter_pushdown` (probe side preserved for ON filters) then ANY
    probe-side filter that keeps every row having a key-equal build row leaves the join result
    unchanged — as a list, not merely as a bag. -/
theorem join_filter_sound (c : Cfg) (hg : gate c.jt = true) (L R : List Row) (f : Row → Bool)
    (hf : ∀ r ∈ R, (∃ l ∈ L, keysEq c.nullEq (c.kl l) (c.kr r) = true) → f r = true) :
    join c.jt c.matches c.wl c.wr L (R.filter f) = join c.jt c.matches c.wl c.wr L R := by
  apply join_filter_eq c.jt hg
  intro r hr ⟨l, hl, hm⟩
  simp only [Cfg.matches, Bool.and_eq_true] at hm
  exact hf r hr ⟨l, hl, hm.1⟩

/-- the filter actually published (bounds AND membership, widened for NULL keys of null-equal
    joins) has that property … -/
theorem published_filter_keeps_matches (c : Cfg) (L : List Row) (r : Row)
    (h : ∃ l ∈ L, keysEq c.nullEq (c.kl l) (c.kr r) = true) :
    publishedFilter c.nullEq (L.map c.kl) (c.kr r) = true := by
  obtain ⟨l, hl, hk⟩ := h
  exact publishedFilter_keeps c.nullEq _ _ ⟨c.kl l, mem_map_of_mem hl, hk⟩

/-- … and so does the partitioned `CASE route(key)` dispatch, for any routing function of the key -/
theorem routed_filter_keeps_matches (c : Cfg) (route : List Val → Nat) (L : List Row) (r : Row)
    (h : ∃ l ∈ L, keysEq c.nullEq (c.kl l) (c.kr r) = true) :
    routedFilter c.nullEq route (L.map c.kl) (c.kr r) = true := by
  obtain ⟨l, hl, hk⟩ := h
  exact routedFilter_keeps c.nullEq route _ _ ⟨c.kl l, mem_map_of_mem hl, hk⟩

/-- hence: at every publication stage (the placeholder `true`, or the completed filter) pushing
    the join's dynamic filter into the probe side does not change the result -/
theorem join_dynamic_filter_sound (c : Cfg) (hg : gate c.jt = true) (L R : List Row) (stage : Bool) :
    let f := fun r => if stage then publishedFilter c.nullEq (L.map c.kl) (c.kr r) else true
    join c.jt c.matches c.wl c.wr L (R.filter f) = join c.jt c.matches c.wl c.wr L R := by
  intro f
  apply join_filter_sound c hg
  intro r _ h
  cases stage
  · rfl
  · exact published_filter_keeps_matches c L r h

/-- **The gate is exact**: for every join type outside it there is a 1-row input on which a
    perfectly admissible filter (it keeps every row that has a key-equal build row — there is no
    build row) changes the result. -/
theorem join_filter_unsound_witness (jt : JoinType) (hg : gate jt = false) :
    ∃ (L R : List Row) (f : Row → Bool),
      (∀ r ∈ R, (∃ l ∈ L, keysEq false [l.headD none] [r.headD none] = true) → f r = true) ∧
      ¬ (join jt (fun l r => keysEq false [l.headD none] [r.headD none]) 1 1 L (R.filter f) ~
         join jt (fun l r => keysEq false [l.headD none] [r.headD none]) 1 1 L R) := by
  refine ⟨[], [[some 1]], fun _ => false, ?_, ?_⟩
  · intro r _ ⟨l, hl, _⟩; cases hl
  · intro hp
    have := hp.length_eq
    cases jt <;> simp [gate, JoinType.onLrIsPreserved] at hg <;>
      simp [join, innerPart, leftPart, unmatchedRight] at this

/-- the gate table itself: probe-side pushdown is allowed exactly for these six types -/
theorem gate_table : JoinType.all.filter gate =
    [.inner, .left, .leftSemi, .rightSemi, .leftAnti, .leftMark] := by decide

/-! ### (c) TopK threshold filter -/

/-- **A TopK fed through its own dynamic filter ends with the same heap as one fed everything** —
    for every total preorder (any sort options / NULL ordering / lexicographic keys), every `k`,
    every input order, and every choice, per row, of WHICH previously published threshold the
    scan happened to see (stale reads included, or none at all). -/
theorem topk_threshold_sound {α : Type} (le : α → α → Bool)
    (total : ∀ a b, le a b = true ∨ le b a = true)
    (trans : ∀ a b c, le a b = true → le b c = true → le a c = true)
    (k : Nat) (rows : List α) (picks : List (Option Nat)) :
    runFiltered le k [] [] rows picks = runPlain le k [] rows := by
  apply runFiltered_eq_runPlain le total trans k rows [] [] picks
  exact ⟨Pairwise.nil, Nat.zero_le _, fun h => absurd rfl h, fun t ht => by cases ht⟩

/-- the threshold only tightens: every element of the heap — in particular the next threshold —
    is at or before every threshold published earlier -/
theorem threshold_monotone {α : Type} (le : α → α → Bool)
    (total : ∀ a b, le a b = true ∨ le b a = true)
    (trans : ∀ a b c, le a b = true → le b c = true → le a c = true)
    (k : Nat) (heap pubs : List α) (h : HeapInv le k heap pubs) (x t' : α)
    (ht' : threshold k (heapStep le k heap x) = some t') : ∀ t ∈ pubs, le t' t = true := by
  intro t ht
  have hinv := heapStep_inv le total trans k heap pubs x h
  have hmem : t' ∈ heapStep le k heap x := by
    simp only [threshold] at ht'
    split at ht'
    · exact mem_of_getLast? ht'
    · cases ht'
  exact hinv.below t ht t' hmem

/-- a row rejected by any published threshold would not have entered the heap -/
theorem rejected_row_is_not_in_topk {α : Type} (le : α → α → Bool)
    (total : ∀ a b, le a b = true ∨ le b a = true)
    (trans : ∀ a b c, le a b = true → le b c = true → le a c = true)
    (k : Nat) (heap pubs : List α) (h : HeapInv le k heap pubs) (t x : α)
    (ht : t ∈ pubs) (hrej : passes le t x = false) : heapStep le k heap x = heap :=
  rejected_noop le total trans k heap pubs h t x ht hrej

/-! ### non-vacuity (tests) -/

/-- ORDER BY x LIMIT 2 over 5,3,9,1,3,0 where the scan sees: nothing, nothing, threshold #0 (=5),
    stale threshold #0 again, the newest one, a stale one -/
example :
    runFiltered (fun a b : Int => decide (a ≤ b)) 2 [] [] [5, 3, 9, 1, 3, 0]
        [none, none, some 0, some 0, some 2, some 1]
      = [0, 1] ∧ runPlain (fun a b : Int => decide (a ≤ b)) 2 [] [5, 3, 9, 1, 3, 0] = [0, 1] := by decide

/-- NULL = NULL join, build keys {NULL, 3}: probe keys NULL and 3 are kept, 4 and 2 are filtered -/
example : [[none], [some 3], [some 4], [some 2]].map (publishedFilter true [[none], [some 3]])
    = [true, true, false, false] := by decide

/-- under NullEqualsNothing a NULL probe key is filtered (it can never match) -/
example : publishedFilter false [[none], [some 3]] [none] = false := by decide

end DfModel.Props.C31
