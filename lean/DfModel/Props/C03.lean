/-
  C03 — Logical optimisation preserves results and schema: the table-driven core.

  `JoinType`, `lr_is_preserved`, `JoinType::on_lr_is_preserved`, `eliminate_outer`,
  `JoinType::empty_build_side_produces_empty_result`, … are `DfModel.Gen.*` definitions REGENERATED
  by translator T2 from datafusion/common/src/join_type.rs, optimizer/src/push_down_filter.rs and
  optimizer/src/eliminate_outer_join.rs on every run; the relational semantics (`join` for the ten
  join types by nested loops, filters) is the hand model `DfModel.Sql.Join`.  ON conditions and
  filter predicates are ARBITRARY functions; relations are arbitrary lists of rows.
-/
import DfModel.Sql.Join
import DfModel.Sql.Project
import DfModel.Gen.PushDownFilterTbl
import DfModel.Gen.EliminateOuterTbl
import DfModel.Proofs.C03
namespace DfModel.Props.C03
open DfModel.Gen.JoinTypeTbl DfModel.Gen.PushDownFilterTbl DfModel.Gen.EliminateOuterTbl
open DfModel.Sql.Join DfModel.Proofs.C03

/-- **A post-join filter may be pushed below every side the generated `lr_is_preserved` table marks
    preserved — LEFT side.**  For all ten join types, every ON condition, every predicate that reads
    only left columns, all inputs: `σ_p (L ⋈ R) = (σ_pl L) ⋈ R` (as lists).  The hypothesis
    `hasLeftCols jt` makes the entries the source calls "doesn't matter" (right semi/anti/mark: no
    left column can be referenced) vacuous, so they are not pinned. -/
theorem filter_below_preserved_side_left (jt : JoinType) (wl wr : Nat) (on : Row → Row → Bool)
    (p pl : Row → Bool) (L R : Rel)
    (hpres : (lr_is_preserved jt).1 = true) (hcols : hasLeftCols jt = true)
    (hp : RefsLeft wl p pl) (hL : WidthIs wl L) :
    (join jt wl wr on L R).filter p = join jt wl wr on (L.filter pl) R := by
  cases jt <;> simp [lr_is_preserved, hasLeftCols] at hpres hcols <;> simp only [join]
  · -- Inner
    exact filter_flatMap_const p pl _ L (fun l hl o ho => by
      obtain ⟨r, _, rfl⟩ := List.mem_map.mp ho; exact hp l r (hL l hl))
  · -- Left
    exact filter_flatMap_const p pl _ L (fun l hl o ho => by
      by_cases h : R.any (on l) = true
      · rw [if_pos h] at ho; obtain ⟨r, _, rfl⟩ := List.mem_map.mp ho; exact hp l r (hL l hl)
      · rw [if_neg h] at ho; rw [List.mem_singleton.mp ho]; exact hp l _ (hL l hl))
  · -- LeftSemi
    rw [filter_comm']
    congr 1
    exact filter_congr' p pl L (fun l hl => by have := hp l [] (hL l hl); rwa [List.append_nil] at this)
  · -- LeftAnti
    rw [filter_comm']
    congr 1
    exact filter_congr' p pl L (fun l hl => by have := hp l [] (hL l hl); rwa [List.append_nil] at this)
  · -- LeftMark
    exact filter_map_const p pl _ L (fun l hl => hp l _ (hL l hl))

/-- **… RIGHT side.**  `σ_p (L ⋈ R) = L ⋈ (σ_pr R)` for every join type whose right side the table
    marks preserved and whose output has right columns. -/
theorem filter_below_preserved_side_right (jt : JoinType) (wl wr : Nat) (on : Row → Row → Bool)
    (p pr : Row → Bool) (L R : Rel)
    (hpres : (lr_is_preserved jt).2 = true) (hcols : hasRightCols jt = true)
    (hp : RefsRight jt wl p pr) (hL : WidthIs wl L) :
    (join jt wl wr on L R).filter p = join jt wl wr on L (R.filter pr) := by
  have inner : ∀ (hp' : ∀ (x r : Row), x.length = wl → p (x ++ r) = pr r),
      (innerPart on L R).filter p = innerPart on L (R.filter pr) := by
    intro hp'
    unfold innerPart
    rw [List.filter_flatMap]
    apply flatMap_congr'
    intro l hl
    rw [filter_map_const p pr (l ++ ·) _ (fun r _ => hp' l r (hL l hl)), filter_comm']
  cases jt <;> simp [lr_is_preserved, hasRightCols] at hpres hcols <;> simp only [join, RefsRight] at hp ⊢
  · exact inner hp
  · -- Right
    rw [List.filter_append, inner hp]
    congr 1
    rw [filter_map_const p pr (nulls wl ++ ·) _ (fun r _ => hp _ r (length_nulls wl))]
    unfold unmatchedRight
    rw [filter_comm']
  · -- RightSemi
    rw [filter_comm']; congr 1; exact filter_congr' p pr R (fun r _ => hp r)
  · -- RightAnti
    rw [filter_comm']; congr 1; exact filter_congr' p pr R (fun r _ => hp r)
  · -- RightMark
    exact filter_map_const p pr _ R (fun r _ => hp r _ (by simp [mark]))

private def eqOn : Row → Row → Bool := fun l r => l == r
private def notNullAt (k : Nat) : Row → Bool := fun o => (o.drop k).head? != some none

/-- **The entries marked `false` are really unsound to push below** (for the sides whose columns exist
    in the output): a concrete 1-row × 1-row counter-example each — `L = [(1)]`, `R = [(2)]`,
    `ON l = r`, predicate `<column of that side> IS NOT NULL`.  A table entry flipped from `true` to
    `false` in the Rust source makes this fail (no counter-example exists), one flipped from `false` to
    `true` makes `filter_below_preserved_side_*` fail; the witness is the replay. -/
theorem filter_below_nonpreserved_unsound_witness (jt : JoinType) :
    (hasLeftCols jt = true → (lr_is_preserved jt).1 = false →
      ∃ (p pl : Row → Bool), RefsLeft 1 p pl ∧
        (join jt 1 1 eqOn [[some 1]] [[some 2]]).filter p ≠ join jt 1 1 eqOn ([[some 1]].filter pl) [[some 2]]) ∧
    (hasRightCols jt = true → (lr_is_preserved jt).2 = false →
      ∃ (p pr : Row → Bool), RefsRight jt 1 p pr ∧
        (join jt 1 1 eqOn [[some 1]] [[some 2]]).filter p ≠ join jt 1 1 eqOn [[some 1]] ([[some 2]].filter pr)) := by
  have hl : RefsLeft 1 (fun o => notNullAt 0 (o.take 1)) (notNullAt 0) := by
    intro l x h; simp only; rw [List.take_left' h]
  have hr : ∀ jt', (jt' = .Inner ∨ jt' = .Left ∨ jt' = .Right ∨ jt' = .Full) →
      RefsRight jt' 1 (fun o => notNullAt 0 (o.drop 1)) (notNullAt 0) := by
    intro jt' h
    rcases h with h | h | h | h <;> subst h <;> intro x r hx <;> simp only <;> rw [List.drop_left' hx]
  cases jt <;> refine ⟨?_, ?_⟩ <;> intro hc hp <;>
    first
      | (simp [lr_is_preserved] at hp; done)
      | (simp [hasLeftCols] at hc; done)
      | (simp [hasRightCols] at hc; done)
      | exact ⟨_, _, hl, by decide⟩
      | exact ⟨_, _, hr _ (by simp), by decide⟩

/-- **ON-clause conjuncts may be pushed into every input the generated `JoinType::on_lr_is_preserved`
    marks preserved** — all ten join types, arbitrary ON condition and inputs. -/
theorem on_filter_below_preserved_side (jt : JoinType) (wl wr : Nat) (on : Row → Row → Bool) (pl pr : Row → Bool) (L R : Rel) :
    ((jt.on_lr_is_preserved).1 = true →
      join jt wl wr (fun l r => on l r && pl l) L R = join jt wl wr on (L.filter pl) R) ∧
    ((jt.on_lr_is_preserved).2 = true →
      join jt wl wr (fun l r => on l r && pr r) L R = join jt wl wr on L (R.filter pr)) := by
  cases jt <;> refine ⟨?_, ?_⟩ <;> intro h <;> (first | exact absurd h (by decide) | skip)
  all_goals simp only [join]
  all_goals first
    | exact innerPart_on_left on pl L R
    | exact innerPart_on_right on pr L R
    | exact leftPart_on_right wr on pr L R
    | (rw [innerPart_on_left, unmatchedRight_on_left])
    | (simp only [any_and_const, any_filter', List.filter_filter]; congr 1; funext x; simp [Bool.and_comm])
    | (rw [List.map_filter]; simp [any_and_const])
    | (simp only [any_filter']; done)
    | (rw [List.filter_filter]; congr 1; funext l; exact any_and_const _ _ _)

/-- **… and the entries marked `false` are unsound to push**: with `L = R = [(1)]`, `ON l = r` and the
    conjunct `FALSE`, pushing the conjunct into that input changes the result — for every one of the
    eight `false` entries of `on_lr_is_preserved` (all twenty entries are semantically relevant here). -/
theorem on_filter_nonpreserved_unsound_witness (jt : JoinType) :
    ((jt.on_lr_is_preserved).1 = false →
      join jt 1 1 (fun l r => eqOn l r && false) [[some 1]] [[some 1]] ≠
        join jt 1 1 eqOn ([[some 1]].filter (fun _ => false)) [[some 1]]) ∧
    ((jt.on_lr_is_preserved).2 = false →
      join jt 1 1 (fun l r => eqOn l r && false) [[some 1]] [[some 1]] ≠
        join jt 1 1 eqOn [[some 1]] ([[some 1]].filter (fun _ => false))) := by
  cases jt <;> decide

/-- **`eliminate_outer` is sound**: under a filter that is null-rejecting on the sides the flags name
    (it rejects every row whose columns of that side are all-NULL padding), the outer join may be
    replaced by the join type the GENERATED `eliminate_outer` table returns — all ten types, all flag
    combinations, arbitrary ON and inputs. -/
theorem eliminate_outer_sound (jt : JoinType) (lnn rnn : Bool) (wl wr : Nat) (on : Row → Row → Bool)
    (p : Row → Bool) (L R : Rel)
    (hl : lnn = true → ∀ r, p (nulls wl ++ r) = false)
    (hr : rnn = true → ∀ l, p (l ++ nulls wr) = false) :
    (join jt wl wr on L R).filter p = (join (eliminate_outer jt lnn rnn) wl wr on L R).filter p := by
  have leftToInner : (∀ l, p (l ++ nulls wr) = false) → (leftPart wr on L R).filter p = (innerPart on L R).filter p := by
    intro h
    unfold leftPart innerPart
    rw [List.filter_flatMap, List.filter_flatMap]
    apply flatMap_congr'
    intro l _
    by_cases ha : R.any (on l) = true
    · rw [if_pos ha]
    · rw [if_neg ha]
      have : R.filter (on l) = [] := by
        rw [List.filter_eq_nil_iff]; intro r hr' hon
        exact ha (List.any_eq_true.mpr ⟨r, hr', hon⟩)
      simp [this, h l]
  have dropUnmatched : (∀ r, p (nulls wl ++ r) = false) →
      ((unmatchedRight on L R).map (nulls wl ++ ·)).filter p = [] := by
    intro h
    rw [List.filter_eq_nil_iff]
    intro o ho
    obtain ⟨r, _, rfl⟩ := List.mem_map.mp ho
    simp [h r]
  cases jt <;> cases lnn <;> cases rnn <;> simp only [eliminate_outer, join] <;>
    first
      | rfl
      | exact leftToInner (hr rfl)
      | (rw [List.filter_append, dropUnmatched (hl rfl), List.append_nil, leftToInner (hr rfl)]; done)
      | (rw [List.filter_append, dropUnmatched (hl rfl), List.append_nil]; done)
      | (rw [List.filter_append, List.filter_append, leftToInner (hr rfl)]; done)

/-- **`JoinType::empty_build_side_produces_empty_result` lists exactly the join types whose result is
    empty for an empty left (build) input** — both directions, so adding or removing a variant in the
    `matches!` breaks the proof. -/
theorem empty_build_side_iff (jt : JoinType) (wl wr : Nat) :
    (∀ (on : Row → Row → Bool) (R : Rel), join jt wl wr on [] R = []) ↔
      jt.empty_build_side_produces_empty_result = true := by
  cases jt <;> simp only [JoinType.empty_build_side_produces_empty_result] <;> constructor <;> intro h <;>
    first
      | trivial
      | rfl
      | (intro on R; simp [join, innerPart, leftPart, unmatchedRight]; done)
      | (exact absurd h (by decide))
      | (have := h (fun _ _ => true) [[]]; simp [join, innerPart, leftPart, unmatchedRight, mark] at this)

/-- `JoinType::swap` really swaps the roles of the inputs for the semi/anti/mark and inner types:
    `join jt on L R = join (swap jt) (flip on) R L` (these are list equalities; for Left/Right/Full the
    column order of the output changes, which this model does not normalise). -/
theorem swap_semantics (jt : JoinType) (wl wr : Nat) (on : Row → Row → Bool) (L R : Rel)
    (h : jt = .LeftSemi ∨ jt = .RightSemi ∨ jt = .LeftAnti ∨ jt = .RightAnti ∨ jt = .LeftMark ∨ jt = .RightMark) :
    join jt wl wr on L R = join jt.swap wr wl (fun r l => on l r) R L := by
  rcases h with h | h | h | h | h | h <;> subst h <;> rfl


/-! ### Stacked equal projections (the `optimize_projections` fast path; /repo fix d3a6a65)

  `merge_consecutive_projections_one_level` used to drop the outer of two consecutive projections
  whenever their expression lists were structurally equal.  That is the law
  `project items ∘ project items = project items`, which holds for plain column lists and fails for
  computed items — the repaired code only takes the fast path for plain columns. -/
section Projections
open DfModel.Sql.Project

/-- **A projection made of plain column references is idempotent**: applying the same column list
    twice is applying it once — on every row, for every list (duplicates, any order). -/
theorem project_idempotent_of_columns (items : List Item)
    (hcols : ∀ it ∈ items, ∃ c, it = col c) (env : Env) :
    project items (project items env) = project items env := by
  funext n
  show (match items.find? (fun it => it.name == n) with
        | some it => it.expr (project items env)
        | none => none) = project items env n
  cases h : items.find? (fun it => it.name == n) with
  | none => simp [project, h]
  | some it =>
    obtain ⟨c, rfl⟩ := hcols it (List.mem_of_find?_eq_some h)
    have hn : c = n := by
      have := List.find?_some h
      simpa [col] using this
    subst hn
    simp only [col, project, h]

/-- … hence the fast path is sound on whole relations when every item is a plain column. -/
theorem fast_path_sound_for_columns (items : List Item) (hcols : ∀ it ∈ items, ∃ c, it = col c) (rows : List Env) :
    (rows.map (project items)).map (project items) = rows.map (project items) := by
  rw [List.map_map]
  apply List.map_congr_left
  intro env _
  exact project_idempotent_of_columns items hcols env

/-- **It is NOT sound for computed items**: `s + 4 AS s` over `s + 4 AS s` on the one row `s = 1`
    is `9`, a single application is `5` (the defect fixed by /repo d3a6a65: the engine returned
    `sum + 4` instead of `sum + 8`). -/
theorem fast_path_unsound_witness :
    project [col "a", plusAs "s" 4] (project [col "a", plusAs "s" 4] (fun n => if n = "s" then some 1 else some 0)) "s" = some 9 ∧
    project [col "a", plusAs "s" 4] (fun n => if n = "s" then some 1 else some 0) "s" = some 5 := by
  decide

end Projections

-- non-vacuity / tests
example : join .Left 1 1 eqOn [[some 1], [some 2]] [[some 2]] = [[some 1, none], [some 2, some 2]] := by decide
example : join .Full 1 1 eqOn [[some 1]] [[some 2]] = [[some 1, none], [none, some 2]] := by decide
example : join .RightAnti 1 1 eqOn [[some 1]] [[some 2]] = [[some 2]] := by decide
example : join .LeftMark 1 1 eqOn [[some 1], [some 2]] [[some 2]] = [[some 1, some 0], [some 2, some 1]] := by decide
example : lr_is_preserved .Left = (true, false) := rfl
example : eliminate_outer .Full true false = .Left := rfl

end DfModel.Props.C03
