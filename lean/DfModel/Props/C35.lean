/-
  C35 — logical plans, expressions and scalar values survive protobuf serialisation.

  The encoders/decoders themselves (proto/src/logical_plan/{to,from}_proto.rs, ~25 k lines with the
  prost-generated code) are NOT modelled.  What is proved here:

  (1) THE JUDGE IS SOUND.  The correspondence harness exports the real plan BEFORE and AFTER the real
      round trip (field by field) into the `Plan` AST of Sql/Rel.lean and asks the driver whether
      they are the `same` = structurally equal after `normPlan`.  `judge_sound` says that this answer
      can be trusted for every database and environment: equal normal forms ⇒ equal `evalPlan`
      (same rows in the same order, or the same error).  `same_decides` ties the executable check
      (`Judge.same`, a hand-written structural equality on the nested ASTs) to that hypothesis.
  (2) THE WIRE LAYER round-trips for ALL values (no size bound; explicit width hypotheses where
      prost has a width): varint, zigzag, fixed32/64, field keys, length-delimited fields,
      int32/int64 fields, and the `ScalarValue` message for the primitive variants
      (`scalar_msg_roundtrip`), whose bytes are compared with real prost output on every run.

  "For all plans" is SAMPLED by the harness (translation validation); see props/C35.json.
-/
import DfModel.Sql.Judge
import DfModel.Base.Wire
import DfModel.Proofs.C35Beq
import DfModel.Proofs.C35Plan
import DfModel.Proofs.C35Scalar
namespace DfModel.Props.C35
open DfModel DfModel.Judge DfModel.Wire

/-! ## (1) the judge -/

/-- normalisation is exact: same rows in the same order, or the same error, on every database and
    in every environment (parameters, outer row) -/
theorem normalise_exact (p : Plan) (db : Db) (env : Env) : evalPlan (normPlan p) db env = evalPlan p db env :=
  Proofs.C35Plan.normPlan_eval db p env

/-- expression-level rewrites are exact on every row -/
theorem normExpr_exact (e : Expr) (ρ : Row) (env : Env) : eval (normExpr e) ρ env = eval e ρ env :=
  Proofs.C35Norm.normExpr_eval e ρ env

/-- THE JUDGE IS SOUND: plans with equal normal forms return the same result on every database -/
theorem judge_sound (p q : Plan) (h : normPlan p = normPlan q) :
    ∀ (db : Db) (env : Env), evalPlan p db env = evalPlan q db env := by
  intro db env
  rw [← normalise_exact p db env, ← normalise_exact q db env, h]

/-- the executable check used by the driver implies the hypothesis of `judge_sound` -/
theorem same_decides (p q : Plan) (h : same p q = true) : normPlan p = normPlan q :=
  Proofs.C35Beq.beqPlan_sound _ _ h

/-- the driver's answer `same` is sound -/
theorem same_sound (p q : Plan) (h : same p q = true) (db : Db) (env : Env) :
    evalPlan p db env = evalPlan q db env :=
  judge_sound p q (same_decides p q h) db env

/-- the arity is preserved too -/
theorem normalise_arity (p : Plan) (db : Db) : (normPlan p).arity db = p.arity db :=
  Proofs.C35Plan.arity_norm db p

section nonvacuity
set_option linter.unusedSimpArgs false
private def t : Plan := .scan "t"
private def one : Expr := .lit (.int 64 true 1)
/-- evaluates `same` on concrete plans by rewriting with the defining equations -/
local macro "judge_eval" : tactic =>
  `(tactic| simp [same, normPlan, mkLimit, normExpr, normExprs, mkNot, normAgg, beqPlan, beqExpr, beqExprs, beqList,
      beqSortKey, beqOn, beqOpt, beqAgg, t, one])
/-- `same` identifies re-spellings … -/
example : same (.filter (.inList true (.col 0) [one]) t) (.filter (.not (.inList false (.col 0) [one])) t) = true := by judge_eval
example : same (.limit 0 none (.project [.bin .ne (.col 0) one] t)) (.project [.not (.bin .eq (.col 0) one)] t) = true := by judge_eval
/-- … and only those: a changed join type, fetch, sort direction, NULL-equality flag, DISTINCT flag
    or comparison operator is NOT `same` -/
example : same (.join .left false [(.col 0, .col 0)] none t t) (.join .inner false [(.col 0, .col 0)] none t t) = false := by judge_eval
example : same (.join .inner true [(.col 0, .col 0)] none t t) (.join .inner false [(.col 0, .col 0)] none t t) = false := by judge_eval
example : same (.limit 1 (some 2) t) (.limit 1 (some 3) t) = false := by judge_eval
example : same (.limit 0 (some 2) t) (.limit 0 none t) = false := by judge_eval
example : same (.sort [(.col 0, { desc := true, nullsFirst := false })] t) (.sort [(.col 0, { desc := false, nullsFirst := false })] t) = false := by judge_eval
example : same (.setop .union true t t) (.setop .union false t t) = false := by judge_eval
example : same (.aggregate [] [{ fn := .count, distinct := true, arg := .col 0 }] t) (.aggregate [] [{ fn := .count, arg := .col 0 }] t) = false := by judge_eval
example : same (.filter (.bin .lt (.col 0) one) t) (.filter (.bin .le (.col 0) one) t) = false := by judge_eval
/-- and the semantics does distinguish such plans (the judge's conclusion is not vacuous) -/
example : evalPlan (.limit 0 (some 1) (.values 1 [[.null], [.null]])) {}
    ≠ evalPlan (.limit 0 none (.values 1 [[.null], [.null]])) {} := by decide
end nonvacuity

/-! ## (2) wire primitives — universal round trips -/

/-- varint: every natural number, any trailing bytes, any byte budget that covers the encoding -/
theorem varint_roundtrip (n : Nat) (rest : List Nat) (fuel : Nat) (h : (encodeVarint n).length ≤ fuel) :
    decodeVarint fuel (encodeVarint n ++ rest) = some (n, rest) :=
  Proofs.C35Wire.decode_encode_varint n fuel rest h

/-- with prost's limits (≤ 10 bytes, value < 2^64): every `u64` -/
theorem varint64_roundtrip (n : Nat) (h : n < 2 ^ 64) (rest : List Nat) :
    decodeVarint64 (encodeVarint n ++ rest) = some (n, rest) :=
  Proofs.C35Wire.varint64_roundtrip n (by unfold two64; omega) rest

theorem varint64_length (n : Nat) (h : n < 2 ^ 64) : (encodeVarint n).length ≤ 10 :=
  Proofs.C35Wire.encodeVarint_length_le_ten n (by unfold two64; omega)

theorem varint_bytes (n : Nat) : ∀ b ∈ encodeVarint n, b < 256 := Proofs.C35Wire.encodeVarint_bytes n

/-- zigzag: a bijection between all integers and all naturals … -/
theorem zigzag_roundtrip (i : Int) : unzigzag (zigzag i) = i := Proofs.C35Wire.unzigzag_zigzag i
theorem zigzag_surjective (n : Nat) : zigzag (unzigzag n) = n := Proofs.C35Wire.zigzag_unzigzag n
/-- … that maps `w`-bit signed integers into `w`-bit unsigned ones -/
theorem zigzag_width (w : Nat) (i : Int) (hw : 0 < w) (lo : -(2 ^ (w - 1) : Int) ≤ i) (hi : i < (2 ^ (w - 1) : Int)) :
    zigzag i < 2 ^ w := Proofs.C35Wire.zigzag_lt w i hw lo hi

theorem fixed32_roundtrip (n : Nat) (h : n < 2 ^ 32) (rest : List Nat) :
    decodeFixed 4 (encodeFixed 4 n ++ rest) = some (n, rest) :=
  Proofs.C35Wire.fixed_roundtrip 4 n rest (by omega)

theorem fixed64_roundtrip (n : Nat) (h : n < 2 ^ 64) (rest : List Nat) :
    decodeFixed 8 (encodeFixed 8 n ++ rest) = some (n, rest) :=
  Proofs.C35Wire.fixed_roundtrip 8 n rest (by omega)

/-- any width -/
theorem fixed_roundtrip (k n : Nat) (h : n < 256 ^ k) (rest : List Nat) :
    decodeFixed k (encodeFixed k n ++ rest) = some (n, rest) :=
  Proofs.C35Wire.fixed_roundtrip k n rest h

/-- field keys: every legal field number (1 … 2^29-1) and wire type (0 … 5) -/
theorem tag_roundtrip (field wt : Nat) (hf1 : 1 ≤ field) (hf2 : field < 2 ^ 29) (hw : wt ≤ 5) (rest : List Nat) :
    decodeKey (encodeKey field wt ++ rest) = some ((field, wt), rest) :=
  Proofs.C35Wire.key_roundtrip field wt hf1 hf2 hw rest

/-- length-delimited fields: every payload (shorter than 2^64 bytes), any trailing bytes -/
theorem len_delim_roundtrip (payload rest : List Nat) (h : payload.length < 2 ^ 64) :
    decodeLenDelim (encodeLenDelim payload ++ rest) = some (payload, rest) :=
  Proofs.C35Wire.len_delim_roundtrip payload rest (by unfold two64; omega)

/-- `int32` / `int64` fields (sign-extended to 64 bits): every value of the width -/
theorem int_field_roundtrip (w : Nat) (hw : w = 8 ∨ w = 16 ∨ w = 32 ∨ w = 64) (v : Int)
    (lo : -(2 ^ (w - 1) : Int) ≤ v) (hi : v < (2 ^ (w - 1) : Int)) (rest : List Nat) :
    (decodeVarint64 (encodeInt v ++ rest)).map (fun r => (toSigned w r.1, r.2)) = some (v, rest) := by
  unfold encodeInt
  rw [Proofs.C35Wire.varint64_roundtrip _ (Proofs.C35Wire.toU64_lt v)]
  simp [Proofs.C35Wire.toSigned_toU64 w hw v lo hi]

/-- the `ScalarValue` message: every value of every modelled variant (incl. typed NULLs) -/
theorem scalar_msg_roundtrip (s : Scalar) (h : s.valid) : decodeScalar (encodeScalar s) = some s :=
  Proofs.C35Scalar.scalar_roundtrip s h

section nonvacuity
example : encodeVarint 300 = [172, 2] := by simp [encodeVarint]
example : (Scalar.sint .i8 (-128)).valid := ⟨8, rfl, by decide, by decide⟩
example : (Scalar.uint .u64 (2 ^ 64 - 1)).valid := ⟨64, rfl, by decide⟩
example : (Scalar.str .utf8View [104, 105]).valid := ⟨by simp, by simp [two64]⟩
/-- a negative `int32` takes ten bytes (sign extension) -/
example : (encodeInt (-1)).length = 10 := by simp [encodeInt, toU64, two64, encodeVarint]
/-- the width hypothesis of `varint64_roundtrip` is needed: 2^64 is rejected -/
example : decodeVarint64 (encodeVarint (2 ^ 64)) = none := by simp [encodeVarint, decodeVarint64, decodeVarint, two64]
/-- out-of-range values would NOT survive the narrowing casts (the `valid` hypothesis matters):
    200 sent as an Int8 comes back as -56 -/
example : toSigned 8 (toSigned 32 (toU64 200) % 256).toNat = -56 := by decide
end nonvacuity

end DfModel.Props.C35
