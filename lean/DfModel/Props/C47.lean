/-
  C47 — Mixed-type comparisons are order-independent and exact for integers (and decimals).

  `numerical_coercion`, `coerce_numeric_type_to_decimal128` are `DfModel.Gen.CoercionTbl.*` and
  `Operator.swap` / `Operator.negate` are `DfModel.Gen.OperatorTbl.*`: REGENERATED from
  expr-common/src/type_coercion/binary.rs and expr-common/src/operator.rs by translator T2 on every
  run.  The dispatch around them (`cmpCoerce` = `binary_numeric_coercion`, `decimalCoercion`,
  `castVal`, `engineCmp`) is the hand model `DfModel.Sql.Coerce`.
-/
import DfModel.Sql.Coerce
import DfModel.Proofs.C47
namespace DfModel.Props.C47
open DfModel.Gen.CoercionTbl DfModel.Gen.OperatorTbl DfModel.Sql.Coerce DfModel.Proofs.C47

/-- **The generated `numerical_coercion` table is symmetric** — over the whole covered universe
    (15 field-less types and `Decimal128 p s`), so the coerced type of a comparison does not depend on
    operand order.  A table entry changed on one side only makes this fail. -/
theorem coercion_symmetric (a b : DataType) : numerical_coercion a b = numerical_coercion b a := by
  cases a <;> cases b <;> rfl

/-- the decimal dispatch is symmetric too -/
theorem decimal_coercion_symmetric (a b : DataType) : decimalCoercion a b = decimalCoercion b a := by
  cases a <;> cases b <;> simp [decimalCoercion, isDecimal, getWiderDecimal, Int.max_comm]

/-- … hence `comparison_coercion` on numeric types is order-independent. -/
theorem cmp_coercion_symmetric (a b : DataType) : cmpCoerce a b = cmpCoerce b a := by
  unfold cmpCoerce
  rw [decimal_coercion_symmetric a b, coercion_symmetric a b, Bool.or_comm]
  by_cases h : a = b
  · subst h; rfl
  · have h' : ¬ b = a := fun e => h e.symm
    simp [h, h']

/-- **The coerced type covers both operand ranges**: for any two integer types the comparison is
    accepted, and every value of either operand type casts to the common type without error and
    without changing its value (`UInt64` with a signed type goes to `Decimal128(20, 0)`, an exact
    embedding: `|v| < 10^20`). -/
theorem coercion_covers (a b : DataType) (x : Int) (ha : inRange a x) (hb : (intRange b).isSome) :
    ∃ c, cmpCoerce a b = some c ∧ castVal c ⟨x, 0⟩ = some ⟨x, 0⟩ ∧ cmpCoerce b a = some c := by
  cases a <;> simp [inRange, intRange] at ha <;>
  cases b <;> simp [intRange] at hb <;>
  refine ⟨_, rfl, ?_, rfl⟩ <;>
  simp [castVal, intRange] <;> omega

/-- **Integer comparisons are exact.**  For any two integer types, any in-range values and each of the
    six comparison operators, what the engine computes (coerce → cast both → compare) is defined and
    equals the mathematical comparison of the two integers. -/
theorem int_compare_exact (op : Operator) (a b : DataType) (x y : Int)
    (hop : op ∈ cmpOps) (ha : inRange a x) (hb : inRange b y) :
    engineCmp op a b ⟨x, 0⟩ ⟨y, 0⟩ = evalOp op x y ∧ (evalOp op x y).isSome := by
  have hbs : (intRange b).isSome := by
    unfold inRange at hb; cases h : intRange b <;> simp_all
  have has : (intRange a).isSome := by
    unfold inRange at ha; cases h : intRange a <;> simp_all
  obtain ⟨c, hc, hx, hc'⟩ := coercion_covers a b x ha hbs
  obtain ⟨c2, hc2, hy, hc2'⟩ := coercion_covers b a y hb has
  have : c2 = c := by rw [hc'] at hc2; exact (Option.some.inj hc2).symm
  subst this
  refine ⟨by simp [engineCmp, hc, hx, hy], ?_⟩
  simp only [cmpOps, List.mem_cons, List.mem_nil_iff, or_false] at hop
  rcases hop with h | h | h | h | h | h <;> subst h <;> rfl

/-- **Whenever the engine model produces an answer it is the mathematical one** — for every pair of
    types in the universe (integers, `Decimal128(p, s)` with any precision/scale, and mixed), all exact
    values and all operators: a successful cast only multiplies by a positive power of ten. -/
theorem compare_exact_when_defined (op : Operator) (l r : DataType) (x y : Num) (b : Bool)
    (h : engineCmp op l r x y = some b) : mathCmp op x y = some b := by
  unfold engineCmp at h
  cases hc : cmpCoerce l r with
  | none => simp [hc] at h
  | some t =>
    simp only [hc] at h
    cases hx : castVal t x with
    | none => simp [hx] at h
    | some x' =>
      cases hy : castVal t y with
      | none => simp [hx, hy] at h
      | some y' =>
        simp only [hx, hy] at h
        rw [← h]
        unfold mathCmp
        cases t
        case Decimal128 p s =>
          simp only [castVal] at hx hy
          split at hx
          · simp at hx
          · split at hx
            · split at hy
              · simp at hy
              · split at hy
                · simp only [Option.some.injEq] at hx hy
                  subst hx hy
                  rename_i h1 _ h2 _
                  simp only [not_or, Int.not_lt, Nat.not_lt] at h1 h2
                  exact (evalOp_rescale op x.u y.u x.s y.s s.toNat h1.2 h2.2).symm
                · simp at hy
            · simp at hx
        all_goals
          simp only [castVal, intRange] at hx hy
          first
            | (simp at hx; done)
            | (split at hx <;> split at hy <;> simp_all)

/-- **Mirroring.**  For each of the six comparison operators the GENERATED `Operator::swap` yields a
    comparison operator with `x op y = y (swap op) x` on all values … -/
theorem mirror (op : Operator) (hop : op ∈ cmpOps) :
    ∃ op', Operator.swap op = some op' ∧ op' ∈ cmpOps ∧ ∀ a b : Int, evalOp op a b = evalOp op' b a := by
  simp only [cmpOps, List.mem_cons, List.mem_nil_iff, or_false] at hop
  rcases hop with h | h | h | h | h | h <;> subst h <;>
    refine ⟨_, rfl, by simp [cmpOps], fun a b => ?_⟩ <;>
    simp only [evalOp, Option.some.injEq, decide_eq_decide, GT.gt, GE.ge] <;>
    first | exact eq_comm | exact ne_comm | exact Iff.rfl

/-- … and the whole engine comparison is order-independent: swapping the operands (types and values)
    and mirroring the operator gives the same answer or the same rejection. -/
theorem mirror_engine (op op' : Operator) (hop : op ∈ cmpOps) (hs : Operator.swap op = some op')
    (l r : DataType) (x y : Num) : engineCmp op l r x y = engineCmp op' r l y x := by
  obtain ⟨op2, h2, _, hm⟩ := mirror op hop
  rw [hs] at h2; cases h2
  unfold engineCmp
  rw [cmp_coercion_symmetric r l]
  cases cmpCoerce l r with
  | none => rfl
  | some t =>
    show (match castVal t x, castVal t y with
        | some x', some y' => evalOp op x'.u y'.u
        | _, _ => none) =
      (match castVal t y, castVal t x with
        | some x', some y' => evalOp op' x'.u y'.u
        | _, _ => none)
    generalize castVal t x = cx
    generalize castVal t y = cy
    cases cx <;> cases cy <;> simp [hm]

private theorem dn {p q : Prop} [Decidable p] [Decidable q] (h : p ↔ ¬ q) : decide p = !decide q := by
  by_cases hq : q <;> simp [hq, h]

/-- The GENERATED `Operator::negate` is the logical complement on the six comparison operators. -/
theorem negate_complements (op : Operator) (hop : op ∈ cmpOps) :
    ∃ op', Operator.negate op = some op' ∧ op' ∈ cmpOps ∧ ∀ a b : Int, evalOp op' a b = (evalOp op a b).map (!·) := by
  simp only [cmpOps, List.mem_cons, List.mem_nil_iff, or_false] at hop
  rcases hop with h | h | h | h | h | h <;> subst h <;>
    refine ⟨_, rfl, by simp [cmpOps], fun a b => ?_⟩ <;>
    simp only [evalOp, Option.map_some, Option.some.injEq, GT.gt, GE.ge] <;>
    exact dn (by omega)

-- non-vacuity / tests
example : cmpCoerce .UInt64 .Int8 = some (.Decimal128 20 0) := by decide
example : engineCmp .Lt .UInt64 .Int64 ⟨18446744073709551615, 0⟩ ⟨-1, 0⟩ = some false := by decide
example : engineCmp .Gt .Int64 .UInt64 ⟨-1, 0⟩ ⟨18446744073709551615, 0⟩ = some false := by decide
example : cmpCoerce (.Decimal128 10 2) .Int64 = some (.Decimal128 22 2) := by decide
example : engineCmp .Lt (.Decimal128 10 2) .Int64 ⟨12345, 2⟩ ⟨124, 0⟩ = some true := by decide
example : mathCmp .Lt ⟨12345, 2⟩ ⟨124, 0⟩ = some true := by decide
-- a cast that does not fit is an error, never a wrong answer
example : engineCmp .Lt (.Decimal128 38 30) .Int64 ⟨1, 30⟩ ⟨1000000000, 0⟩ = none := by decide

end DfModel.Props.C47
