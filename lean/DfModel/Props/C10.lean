/-
  C10 — repartitioning delivers every row exactly once, to the right partition.

  Theorems about the routing functions of `BatchPartitioner` (model `Mech/Repart.lean`, hand-written
  branch for branch from `repartition/mod.rs` and `common/src/utils/mod.rs::compare_rows`):
    * range: the binary search of `range_partition_id` returns the number of split points `≤ key`
      whenever the split points pass `validate_range_split_points` (strictly increasing);
    * hash / range batch splitting (`indices` fill + `partition_grouped_take`): every row index lands
      in exactly one output slice, the one labelled with its route, in input order;
    * round robin: start `(i*n)/m < n`, then `+1 mod n`;
    * hash: the route is `hash % n` (C11, regenerated model) — equal hashes ⇒ same partition.
  The exchange itself (channels, spill, coalescing, early drop) is covered by the implementation-
  level oracle of `harness/hplan/src/c10.rs` (unique row ids end to end) and by C15/C16 — see
  notes/C10.md.
-/
import DfModel.Mech.Repart
import DfModel.Proofs.C10b
import DfModel.Gen.SR
import DfModel.Props.C11
import DfModel.Mech.Exchange
namespace DfModel.Props.C10
open DfModel.Mech.Repart DfModel.Proofs.C10

/-! ## range partitioning -/

/-- the abstract binary-search theorem: for ANY monotone probe (`key < split i` implies
    `key < split j` for `j ≥ i`) the loop returns the number of indices whose probe is false -/
theorem bsearch_eq_count (lt : Nat → Bool) (hm : Mono lt) (n : Nat) :
    bsearch lt 0 n = (List.range n).countP (fun i => !lt i) := by
  obtain ⟨_, h2, h3, h4⟩ := bsearch_spec lt hm 0 n (Nat.zero_le _)
  symm
  apply countP_prefix
  · simpa using h2
  · intro i hi hlt
    simp only [List.getElem_range]
    rw [h3 i (Nat.zero_le _) hlt]; rfl
  · intro i hi hle
    simp only [List.getElem_range]
    rw [h4 i hle (by simpa using hi)]; rfl

/-- `compare_rows` restricted to `Less` is transitive (it is the strict part of a lexicographic
    total preorder) — this is what makes pairwise validation of adjacent split points enough -/
theorem compare_rows_lt_trans (opts : List SortOpt) (a b c : List (Option Int))
    (h1 : cmpRows a b opts = .lt) (h2 : cmpRows b c opts = .lt) : cmpRows a c opts = .lt :=
  cmpRows_lt_trans opts a b c h1 h2

/-- **range_id_eq_count_le.** For split points accepted by `validate_range_split_points`
    (sorted, strict), `range_partition_id(key) = #{ split points s | s ≤ key }`
    (`compare_rows(key, s) ≠ Less`), for every key, every sort-option vector, NULLs included. -/
theorem range_id_eq_count_le (key : List (Option Int)) (splits : List (List (Option Int)))
    (opts : List SortOpt) (hv : validSplits splits opts = true) :
    rangeId key splits opts = splits.countP (fun s => cmpRows key s opts != .lt) := by
  unfold rangeId
  rw [rangeIdAux_eq_bsearch]
  have hm := probe_mono key splits opts (validSplits_pairwise splits opts hv)
  obtain ⟨_, h2, h3, h4⟩ := bsearch_spec _ hm 0 splits.length (Nat.zero_le _)
  symm
  apply countP_prefix _ _ _ h2
  · intro i hi hlt
    have := h3 i (Nat.zero_le _) hlt
    simp only [probe, List.getElem?_eq_getElem hi] at this
    simpa using this
  · intro i hi hle
    have := h4 i hle hi
    simp only [probe, List.getElem?_eq_getElem hi] at this
    simp only [beq_iff_eq] at this
    simp [this]

/-- the id always addresses one of the `split_points.len() + 1` partitions — sorted or not -/
theorem range_id_le (key : List (Option Int)) (splits : List (List (Option Int)))
    (opts : List SortOpt) : rangeId key splits opts ≤ splits.length := by
  unfold rangeId
  rw [rangeIdAux_eq_bsearch]
  generalize probe key splits opts = lt
  have : ∀ low high, low ≤ high → low ≤ bsearch lt low high ∧ bsearch lt low high ≤ high := by
    intro low high
    fun_induction bsearch lt low high with
    | case1 low high hlt mid hmid ih => intro _; have := ih (by omega); omega
    | case2 low high hlt mid hmid ih => intro _; have := ih (by omega); omega
    | case3 low high hlt => intro _; omega
  exact (this 0 _ (Nat.zero_le _)).2

/-- rows with equal keys get the same range partition (the id is a function of the key) and rows
    are ordered across partitions: a smaller key never gets a larger id -/
theorem range_id_monotone (k1 k2 : List (Option Int)) (splits : List (List (Option Int)))
    (opts : List SortOpt) (hv : validSplits splits opts = true)
    (hk : ∀ s, s ∈ splits → cmpRows k1 s opts ≠ .lt → cmpRows k2 s opts ≠ .lt) :
    rangeId k1 splits opts ≤ rangeId k2 splits opts := by
  rw [range_id_eq_count_le k1 splits opts hv, range_id_eq_count_le k2 splits opts hv]
  apply List.countP_mono_left
  intro s hs h
  simp only [bne_iff_ne, ne_eq] at h ⊢
  exact hk s hs h

-- non-vacuity / documentation of the boundary rule "values equal to split point i go to i+1":
-- ASC NULLS LAST, split points 10 and 20
example : validSplits [[some 10], [some 20]] [⟨false, false⟩] = true := by decide
example : rangeId [some 9] [[some 10], [some 20]] [⟨false, false⟩] = 0 := by
  rw [range_id_eq_count_le _ _ _ (by decide)]; decide
example : rangeId [some 10] [[some 10], [some 20]] [⟨false, false⟩] = 1 := by
  rw [range_id_eq_count_le _ _ _ (by decide)]; decide
example : rangeId [some 20] [[some 10], [some 20]] [⟨false, false⟩] = 2 := by
  rw [range_id_eq_count_le _ _ _ (by decide)]; decide
example : rangeId [none] [[some 10], [some 20]] [⟨false, false⟩] = 2 := by
  rw [range_id_eq_count_le _ _ _ (by decide)]; decide
-- DESC NULLS FIRST, compound key
example : validSplits [[some 5, some 1], [some 5, none], [some 3, some 0]]
    [⟨true, false⟩, ⟨false, false⟩] = true := by decide
example : rangeId [some 5, some 7] [[some 5, some 1], [some 5, none], [some 3, some 0]]
    [⟨true, false⟩, ⟨false, false⟩] = 1 := by
  rw [range_id_eq_count_le _ _ _ (by decide)]; decide
-- unsorted split points are rejected by the validator (the theorem's hypothesis is not vacuous)
example : validSplits [[some 20], [some 10]] [⟨false, false⟩] = false := by decide

/-! ## splitting a batch by route (hash and range arms of `partition_iter`) -/

theorem nodup_flatten_map (f : Nat → List Nat) (l : List Nat) (hl : l.Nodup)
    (h1 : ∀ p, (f p).Nodup) (h2 : ∀ p q i, i ∈ f p → i ∈ f q → p = q) :
    ((l.map f).flatten).Nodup := by
  induction l with
  | nil => simp
  | cons a l ih =>
    simp only [List.map_cons, List.flatten_cons]
    rw [List.nodup_append]
    simp only [List.nodup_cons] at hl
    refine ⟨h1 a, ih hl.2, ?_⟩
    intro x hx y hy e
    subst e
    obtain ⟨l', hl', hxl'⟩ := List.mem_flatten.mp hy
    obtain ⟨q, hq, rfl⟩ := List.mem_map.mp hl'
    have := h2 a q x hx hxl'
    subst this
    exact hl.1 hq

theorem lab_flatten (bs : List (List Nat)) (p : Nat) :
    ((lab bs p).map (·.2)).flatten = bs.flatten := by
  induction bs generalizing p with
  | nil => rfl
  | cons b bs ih =>
    simp only [lab]
    split
    · rename_i hb
      have : b = [] := by simpa using hb
      rw [ih, this]; rfl
    · simp [ih]

/-- **the batch splitter is the specification**: with every route `< n` it never indexes out of
    bounds, and its output is exactly the list of non-empty partitions `p` (ascending), each with
    the row indices whose route is `p`, in input order -/
theorem partitionBatch_eq (routes : List Nat) (n : Nat) (hr : ∀ r, r ∈ routes → r < n) :
    partitionBatch routes n = some (lab ((List.range n).map (idxs routes 0)) 0) := by
  unfold partitionBatch
  rw [routeLoop_fresh routes n hr]
  simp [groupedTake_eq_lab]

/-- **buckets_partition_indices / exactly once, right partition.** For a batch whose rows have
    routes `routes[j] < n`: the output slices together contain every row index `0..len` exactly
    once (a permutation), row `j` is in the slice labelled `p` iff `p = routes[j]`, each partition
    occurs at most once, no slice is empty, and rows keep their input order inside a slice. -/
theorem buckets_partition_indices (routes : List Nat) (n : Nat) (hr : ∀ r, r ∈ routes → r < n) :
    ∃ out, partitionBatch routes n = some out ∧
      ((out.map (·.2)).flatten).Perm (List.range routes.length) ∧
      (∀ p rows j, (p, rows) ∈ out → (j ∈ rows ↔ routes[j]? = some p)) ∧
      (∀ j (hj : j < routes.length), ∃ rows, (routes[j], rows) ∈ out ∧ j ∈ rows) ∧
      List.Pairwise (· < ·) (out.map (·.1)) ∧
      (∀ p rows, (p, rows) ∈ out → p < n ∧ rows ≠ [] ∧ List.Pairwise (· < ·) rows) := by
  refine ⟨_, partitionBatch_eq routes n hr, ?_, ?_, ?_, lab_fst_sorted _ 0, ?_⟩
  · rw [lab_flatten]
    rw [List.perm_ext_iff_of_nodup]
    · intro i
      simp only [List.mem_flatten, List.mem_map, List.mem_range]
      constructor
      · rintro ⟨l, ⟨p, hp, rfl⟩, hi⟩
        obtain ⟨j, rfl, hj⟩ := (mem_idxs routes 0 p i).mp hi
        have : j < routes.length := by
          false_or_by_contra; rename_i hne
          rw [List.getElem?_eq_none (by omega)] at hj; cases hj
        omega
      · intro hi
        refine ⟨_, ⟨routes[i], hr _ (List.getElem_mem hi), rfl⟩, ?_⟩
        exact (mem_idxs routes 0 _ i).mpr ⟨i, by omega, by simp [hi]⟩
    · apply nodup_flatten_map _ _ List.nodup_range (fun p => idxs_nodup routes 0 p)
      intro p q i hp hq
      obtain ⟨j, rfl, hj⟩ := (mem_idxs routes 0 p _).mp hp
      obtain ⟨j', e, hj'⟩ := (mem_idxs routes 0 q _).mp hq
      have : j = j' := by omega
      subst this
      rw [hj] at hj'; cases hj'; rfl
    · exact List.nodup_range
  · intro p rows j hm
    obtain ⟨k, rfl, hk, _⟩ := (mem_lab _ 0 p rows).mp hm
    have hkn : k < n := by
      false_or_by_contra; rename_i hne
      rw [List.getElem?_eq_none (by simp; omega)] at hk; cases hk
    simp only [List.getElem?_map, List.getElem?_range hkn, Option.map_some,
      Option.some.injEq] at hk
    subst hk
    rw [mem_idxs]
    simp only [Nat.zero_add]
    constructor
    · rintro ⟨j', rfl, h⟩; exact h
    · intro h; exact ⟨j, by omega, h⟩
  · intro j hj
    have hlt := hr _ (List.getElem_mem hj)
    have hmem : j ∈ idxs routes 0 routes[j] :=
      (mem_idxs routes 0 _ j).mpr ⟨j, by omega, by simp [hj]⟩
    refine ⟨idxs routes 0 routes[j], ?_, hmem⟩
    rw [mem_lab]
    refine ⟨routes[j], by omega, ?_, fun e => by rw [e] at hmem; cases hmem⟩
    simp [hlt]
  · intro p rows hm
    obtain ⟨k, rfl, hk, hne⟩ := (mem_lab _ 0 p rows).mp hm
    have hkn : k < n := by
      false_or_by_contra; rename_i hne'
      rw [List.getElem?_eq_none (by simp; omega)] at hk; cases hk
    simp only [List.getElem?_map, List.getElem?_range hkn, Option.map_some,
      Option.some.injEq] at hk
    subst hk
    exact ⟨by omega, hne, idxs_sorted routes 0 k⟩

example : partitionBatch [2, 0, 2, 2, 0] 4 = some [(0, [1, 4]), (2, [0, 2, 3])] := by decide
-- a route outside the partition count is an index-out-of-bounds panic in the code
example : partitionBatch [0, 3] 3 = none := by decide

/-! ## hash partitioning: the route is `hash % n` (C11) -/

/-- rows with equal hashes (in particular rows with equal keys — `create_hashes` is a function of
    the key values, C12) go to the same output, which is `hash % n` -/
theorem hash_equal_keys_same_partition (h1 h2 n : Nat) (hn : 0 < n) (hn' : n < 2 ^ 64)
    (hh1 : h1 < 2 ^ 64) (heq : h1 = h2) :
    DfModel.Gen.SR.partition_indices_bucket (DfModel.Gen.SR.new' n) h1
      = DfModel.Gen.SR.partition_indices_bucket (DfModel.Gen.SR.new' n) h2 ∧
    DfModel.Gen.SR.partition_indices_bucket (DfModel.Gen.SR.new' n) h1 = h1 % n := by
  subst heq
  exact ⟨rfl, (DfModel.Props.C11.c11_bucket h1 n hh1 hn hn').1⟩

/-! ## round robin -/

/-- the start output of input partition `i` of `m` is a valid output index -/
theorem rr_start_lt (i n m : Nat) (hi : i < m) (hn : 0 < n) : rrStart i n m < n := by
  unfold rrStart
  apply Nat.div_lt_of_lt_mul
  exact Nat.mul_lt_mul_of_lt_of_le hi (Nat.le_refl n) hn

/-- the `j`-th batch of a round-robin partitioner started at `idx` goes to `(idx + j) % n` -/
theorem rr_seq_get (idx n k j : Nat) (hidx : idx < n) (hj : j < k) :
    (rrSeq idx n k)[j]? = some ((idx + j) % n) := by
  induction k generalizing idx j with
  | zero => omega
  | succ k ih =>
    simp only [rrSeq]
    cases j with
    | zero => simp [Nat.mod_eq_of_lt hidx]
    | succ j =>
      simp only [List.getElem?_cons_succ]
      have hn : 0 < n := by omega
      rw [ih (rrNext idx n) j (Nat.mod_lt _ hn) (by omega)]
      simp only [rrNext, Nat.mod_add_mod]
      congr 2; omega

/-- consecutive batches of one input go to consecutive outputs: any `n` successive batches cover
    every output exactly once -/
theorem rr_window_covers (idx n : Nat) (hidx : idx < n) (p : Nat) (hp : p < n) :
    ∃ j, j < n ∧ (rrSeq idx n n)[j]? = some p := by
  refine ⟨(p + n - idx) % n, Nat.mod_lt _ (by omega), ?_⟩
  rw [rr_seq_get idx n n _ hidx (Nat.mod_lt _ (by omega))]
  congr 1
  by_cases h : idx ≤ p
  · have : (p + n - idx) % n = p - idx := by
      have : p + n - idx = (p - idx) + n := by omega
      rw [this, Nat.add_mod_right, Nat.mod_eq_of_lt (by omega)]
    rw [this, Nat.mod_eq_of_lt (by omega)]; omega
  · have : (p + n - idx) % n = p + n - idx := Nat.mod_eq_of_lt (by omega)
    rw [this]
    have : idx + (p + n - idx) = p + n := by omega
    rw [this, Nat.add_mod_right, Nat.mod_eq_of_lt hp]

example : rrSeq (rrStart 1 3 2) 3 5 = [1, 2, 0, 1, 2] := by decide

/-! ## the exchange: memory-or-spill marker protocol (model `Mech/Exchange.lean`)

  **The pinned code violates C10's liveness claim** ("delivers each input row … under any thread
  schedule and any memory budget"): in non-preserve-order mode all inputs of one output share ONE
  multi-producer spill pool. Two overlapping `push_batch` calls create two open files; the reader
  (`PerPartitionStream` in `ReadingSpilled`) waits on the exhausted-but-unfinished FIRST file while
  the batch its marker stands for sits in the second one, and it does not poll the channel while
  it waits; the channel fills up (one element with one output), the gate closes, every input task
  blocks in `send` holding its sink, so no file is ever finished: deadlock. Reproduced on the real
  code (notes/C10.md; harness oracle `hang exchange non-preserve-order multi-input spilled`). -/
section exchange
open DfModel.Mech.Exchange

/-- the schedule of the witness: two inputs, one output -/
def deadlockSchedule : List Op :=
  [.pushBegin 1, .pushBegin 2,                 -- both `push_batch` calls overlap: files F0 and F1
   .pushEnd 2 20 false, .pushEnd 1 10 false,   -- F0 = [10], F1 = [20]; open queue = [F1, F0]
   .send 1 .spilled, .poll, .poll,             -- marker 1 → reader reads 10 from the front file F0
   .send 2 .spilled, .poll,                    -- marker 2 → reader now waits on F0 (empty, unfinished)
   .send 1 (.mem 30)]                          -- next batch of input 1 fits in memory: channel full

/-- **negation witness (deadlock).** After `deadlockSchedule` — a legal execution of the protocol —
    batch 20 is stored in the pool and batch 30 sits in the channel, the reader's poll is blocked,
    and both input tasks are blocked in `send` (each still holding its sink, so `dropSink` — which
    would finish the files — is not reachable): nothing can ever move again. -/
theorem exchange_deadlock_witness :
    let s := run (init 2) deadlockSchedule
    s.out = [10] ∧ stored s = [20] ∧ s.chan = [.mem 30] ∧ s.rstate = .readingSpilled ∧
    step s .poll = none ∧ step s (.send 2 (.mem 40)) = none ∧ step s (.send 1 (.mem 50)) = none ∧
    s.sinks = 2 ∧ s.held = [] := by decide

/-- every action of the schedule was enabled when it was taken (the witness is a real execution) -/
theorem exchange_deadlock_schedule_legal :
    ∀ k, k < deadlockSchedule.length →
      (step (run (init 2) (deadlockSchedule.take k)) (deadlockSchedule.getD k .poll)).isSome = true := by
  decide

/-- the same two batches pushed WITHOUT overlap (one open file) are all delivered -/
example :
    (run (init 2) [.pushBegin 1, .pushEnd 1 10 false, .pushBegin 2, .pushEnd 2 20 false,
      .send 1 .spilled, .poll, .poll, .send 2 .spilled, .poll, .poll, .send 1 (.mem 30), .poll]).out
      = [10, 20, 30] := by decide

/-- the full liveness statement for the shared pool — FALSE for the pinned code by the witness -/
def exchange_never_parks_statement : Prop :=
  ∀ (ops : List Op), let s := run (init 2) ops
    s.rstate = .readingSpilled → stored s ≠ [] → (step s .poll).isSome = true

theorem exchange_never_parks_statement_false : ¬ exchange_never_parks_statement := by
  intro h
  have := h deadlockSchedule
  revert this
  decide

/-- the repair candidate of notes/C10_fix.patch on the witness schedule: input 1's file is finished
    when it is handed back (a newer file exists), the reader moves on, everything is delivered.
    (A test of the candidate on the model, not a proof of the repair.) -/
theorem fix_candidate_unblocks_witness :
    (runFix (init 2) (deadlockSchedule ++ [.poll, .poll, .poll])).out = [10, 20, 30] ∧
    (run (init 2) (deadlockSchedule ++ [.poll, .poll, .poll])).out = [10] := by decide

open DfModel.Mech.Exchange.Spsc

/-- single-producer pool: stored batches = markers in flight + batch owed a marker + the one the
    reader is fetching -/
def Inv1 (s : St1) : Prop :=
  stored1 s = markers s.chan + s.owed + (if s.rstate = .readingSpilled then 1 else 0)

theorem inv1_step (s s' : St1) (op : Op1) (h : Inv1 s) (hs : step1 s op = some s') : Inv1 s' := by
  unfold Inv1 at *
  cases op with
  | spill v full =>
    simp only [step1] at hs
    split at hs
    · cases hs
    · rename_i hc
      have ho : s.owed = 0 := by
        false_or_by_contra; rename_i hne; exact hc (Or.inr hne)
      split at hs <;> cases hs <;>
        simp only [stored1, List.map_append, List.sum_append, List.map_cons, List.map_nil,
          List.sum_cons, List.sum_nil, List.length_append, List.length_cons, List.length_nil,
          Option.getD_some, Option.getD_none] at h ⊢ <;> omega
  | sendSpilled =>
    simp only [step1] at hs
    split at hs
    · cases hs
    · split at hs
      · rename_i ho hc
        cases hs
        have : s.chan = [] := by simpa using hc
        simp only [stored1, markers, this] at h ⊢
        simp at h ⊢
        omega
      · cases hs
  | sendMem v =>
    simp only [step1] at hs
    split at hs
    · cases hs
    · split at hs
      · rename_i ho hc
        cases hs
        have : s.chan = [] := by simpa using hc
        simp only [stored1, markers, this] at h ⊢
        simp at h ⊢
        omega
      · cases hs
  | sendDone =>
    simp only [step1] at hs
    split at hs
    · cases hs
    · split at hs
      · rename_i ho hc
        cases hs
        have : s.chan = [] := by simpa using hc
        simp only [stored1, markers, this] at h ⊢
        simp at h ⊢
        omega
      · cases hs
  | dropSink =>
    simp only [step1] at hs
    split at hs
    · cases hs
    · cases hs
      cases hc : s.cur with
      | none => simp only [stored1, hc] at h ⊢; exact h
      | some f =>
        simp only [stored1, hc, List.map_append, List.sum_append, List.map_cons, List.map_nil,
          List.sum_cons, List.sum_nil, Option.getD_some, Option.getD_none, List.length_nil] at h ⊢
        omega
  | poll =>
    simp only [step1] at hs
    cases hr : s.rstate with
    | readingMemory =>
      rw [hr] at hs h
      simp only at hs
      cases hc : s.chan with
      | nil => rw [hc] at hs; cases hs
      | cons m r =>
        rw [hc] at hs h
        cases m <;> simp only at hs <;> cases hs <;>
          simp [stored1, markers] at h ⊢ <;> omega
    | readingSpilled =>
      rw [hr] at hs h
      simp only at hs
      cases hf : s.finishedFiles with
      | nil =>
        rw [hf] at hs
        simp only at hs
        cases hc : s.cur with
        | none => rw [hc] at hs; cases hs
        | some f =>
          rw [hc] at hs
          cases f with
          | nil => cases hs
          | cons b bs =>
            cases hs
            simp [stored1, hf, hc] at h ⊢
            omega
      | cons f fs =>
        rw [hf] at hs
        cases f with
        | nil =>
          cases hs
          simp [stored1, hf] at h ⊢
          exact h
        | cons b bs =>
          cases hs
          simp [stored1, hf] at h ⊢
          omega

theorem inv1_run (s : St1) (ops : List Op1) (h : Inv1 s) : Inv1 (run1 s ops) := by
  induction ops generalizing s with
  | nil => exact h
  | cons op ops ih =>
    simp only [run1]
    cases hs : step1 s op with
    | none => exact ih s h
    | some s' => exact ih s' (inv1_step s s' op h hs)

/-- **partial (what does hold): with ONE producer per pool** — `spsc_channel`, i.e. preserve-order
    mode and single-input exchanges — after ANY schedule, a reader waiting for a spilled batch is
    never parked: its next poll delivers a batch or advances to the next file. -/
theorem marker_protocol_spsc_never_parks (ops : List Op1)
    (h : (run1 init1 ops).rstate = .readingSpilled) :
    (step1 (run1 init1 ops) .poll).isSome = true := by
  have hI : Inv1 (run1 init1 ops) := inv1_run init1 ops (by simp [Inv1, init1, stored1, markers])
  generalize run1 init1 ops = s at *
  unfold Inv1 at hI
  simp only [h, if_true] at hI
  simp only [step1, h]
  cases hf : s.finishedFiles with
  | cons f fs => cases f <;> simp
  | nil =>
    simp only
    cases hc : s.cur with
    | none => simp [stored1, hf, hc] at hI
    | some f =>
      cases f with
      | nil => simp [stored1, hf, hc] at hI
      | cons b bs => simp

example : (run1 init1 [.spill 10 false, .sendSpilled, .poll, .spill 20 true, .poll, .sendSpilled,
    .poll, .poll, .poll, .sendMem 30, .poll]).out = [10, 20, 30] := by decide

/-! #### every `Spilled` marker has exactly one pushed batch behind it (and what happens otherwise) -/

theorem step1_poll_owed (s s' : St1) (hs : step1 s .poll = some s') : s'.owed = s.owed := by
  simp only [step1] at hs
  cases hr : s.rstate with
  | readingMemory =>
    rw [hr] at hs
    simp only at hs
    cases hc : s.chan with
    | nil => rw [hc] at hs; cases hs
    | cons m r => rw [hc] at hs; cases m <;> simp only at hs <;> cases hs <;> rfl
  | readingSpilled =>
    rw [hr] at hs
    simp only at hs
    cases hf : s.finishedFiles with
    | nil =>
      rw [hf] at hs
      simp only at hs
      cases hc : s.cur with
      | none => rw [hc] at hs; cases hs
      | some f =>
        rw [hc] at hs
        cases f with
        | nil => cases hs
        | cons b bs => cases hs; rfl
    | cons f fs =>
      rw [hf] at hs
      cases f with
      | nil => cases hs; rfl
      | cons b bs => cases hs; rfl

/-- pushed batches = accepted markers + the one batch whose marker is being sent -/
def InvG (s : St1) (g : Ghost) : Prop := g.pushed = g.markersSent + s.owed ∧ s.owed ≤ 1

theorem invG_step (s s' : St1) (g : Ghost) (op : Op1) (h : InvG s g) (hs : step1 s op = some s') :
    InvG s' (ghostStep g op) := by
  unfold InvG at *
  cases op with
  | spill v full =>
    simp only [step1] at hs
    split at hs
    · cases hs
    · rename_i hc
      have ho : s.owed = 0 := by
        false_or_by_contra; rename_i hne; exact hc (Or.inr hne)
      split at hs <;> cases hs <;> simp only [ghostStep] <;> omega
  | sendSpilled =>
    simp only [step1] at hs
    split at hs
    · cases hs
    · split at hs
      · cases hs; simp only [ghostStep]; omega
      · cases hs
  | sendMem v =>
    simp only [step1] at hs
    split at hs
    · cases hs
    · split at hs
      · cases hs; simp only [ghostStep]; omega
      · cases hs
  | sendDone =>
    simp only [step1] at hs
    split at hs
    · cases hs
    · split at hs
      · cases hs; simp only [ghostStep]; omega
      · cases hs
  | dropSink =>
    simp only [step1] at hs
    split at hs
    · cases hs
    · cases hs; simp only [ghostStep]; omega
  | poll =>
    have := step1_poll_owed s s' hs
    simp only [ghostStep]; omega

theorem invG_run (s : St1) (g : Ghost) (ops : List Op1) (h : InvG s g) :
    InvG (run1g s g ops).1 (run1g s g ops).2 := by
  induction ops generalizing s g with
  | nil => exact h
  | cons op ops ih =>
    simp only [run1g]
    cases hs : step1 s op with
    | none => exact ih s g h
    | some s' => exact ih s' (ghostStep g op) (invG_step s s' g op h hs)

theorem run1g_fst (s : St1) (g : Ghost) (ops : List Op1) : (run1g s g ops).1 = run1 s ops := by
  induction ops generalizing s g with
  | nil => rfl
  | cons op ops ih =>
    simp only [run1g, run1]
    cases hs : step1 s op with
    | none => exact ih s g
    | some s' => exact ih s' (ghostStep g op)

/-- **every `Spilled` marker sent corresponds to exactly one batch pushed to the pool** (single
    producer pool, code WITH the zero-row guard): after any schedule the number of pushed batches is
    the number of accepted markers plus the at most one batch whose marker is being sent; between
    two `send` calls (`owed = 0`) the two numbers are equal; and (Inv1) the batches still stored are
    exactly the markers in flight + that batch + the one the reader is fetching. -/
theorem spilled_markers_eq_pushed_batches (ops : List Op1) :
    let r := run1g init1 ghost0 ops
    r.2.pushed = r.2.markersSent + r.1.owed ∧ r.1.owed ≤ 1 ∧ r.2.markersSent ≤ r.2.pushed ∧
    (r.1.owed = 0 → r.2.markersSent = r.2.pushed) ∧
    stored1 r.1 = markers r.1.chan + r.1.owed + (if r.1.rstate = .readingSpilled then 1 else 0) := by
  intro r
  have hG : InvG r.1 r.2 := invG_run init1 ghost0 ops (by simp [InvG, init1, ghost0])
  have hI : Inv1 r.1 := by
    show Inv1 (run1g init1 ghost0 ops).1
    rw [run1g_fst]
    exact inv1_run init1 ops (by simp [Inv1, init1, stored1, markers])
  unfold InvG at hG
  unfold Inv1 at hI
  refine ⟨hG.1, hG.2, by omega, by omega, hI⟩

/-- the schedule of seeded defect C10-2 on the protocol WITHOUT the guard: a zero-row batch takes the
    spill path (`spillEmpty`: nothing stored, marker owed and sent); the reader takes the marker and
    waits for the pool; the producer sends the in-memory batch 1, then spills batch 2; the reader
    returns 2 for the phantom marker, then 1. -/
def phantomSchedule : List OpP :=
  [.spillEmpty, .base .sendSpilled, .base .poll, .base (.sendMem 1), .base (.spill 2 false),
   .base .poll, .base .poll]

/-- **a marker without a batch breaks FIFO**: on `phantomSchedule` the values were sent in the order
    1, 2 and are delivered in the order 2, 1; already after the first two steps one marker has been
    sent with no batch pushed (`spilled_markers_eq_pushed_batches` fails), and the reader is in
    `ReadingSpilled` with nothing stored. -/
theorem phantom_marker_breaks_fifo :
    (runPg init1 ghost0 phantomSchedule).2.sent = [1, 2] ∧
    (runPg init1 ghost0 phantomSchedule).1.out = [2, 1] ∧
    ((runPg init1 ghost0 phantomSchedule).1.out).isPrefixOf (runPg init1 ghost0 phantomSchedule).2.sent = false ∧
    (runPg init1 ghost0 (phantomSchedule.take 2)).2.markersSent = 1 ∧
    (runPg init1 ghost0 (phantomSchedule.take 2)).2.pushed = 0 ∧
    (runPg init1 ghost0 (phantomSchedule.take 3)).1.rstate = .readingSpilled ∧
    stored1 (runPg init1 ghost0 (phantomSchedule.take 3)).1 = 0 := by decide

/-- the same producer program WITH the guard (the zero-row batch never reaches `send`) delivers in
    sending order -/
example : (run1g init1 ghost0 [.sendMem 1, .poll, .spill 2 false, .sendSpilled, .poll, .poll]).1.out = [1, 2] := by
  decide

/-! #### FIFO of the single-producer protocol (code WITH the zero-row guard) -/

theorem storedL_length (s : St1) : (storedL s).length = stored1 s := by
  simp [stored1, storedL, List.length_flatten]

theorem inflightOf_snoc (rs : Bool) (chan : List Msg) (st : List Nat) (v : Nat)
    (h : rs = true → st ≠ []) : inflightOf rs chan (st ++ [v]) = inflightOf rs chan st ++ [v] := by
  cases rs with
  | false => unfold inflightOf; split <;> simp
  | true =>
    have hne := h rfl
    cases st with
    | nil => exact absurd rfl hne
    | cons x xs => unfold inflightOf; split <;> simp

def InvF (s : St1) (g : Ghost) : Prop :=
  Inv1 s ∧ s.chan.length ≤ 1 ∧ g.sent = s.out ++ inflight s

theorem invF_step (s s' : St1) (g : Ghost) (op : Op1) (h : InvF s g) (hs : step1 s op = some s') :
    InvF s' (ghostStep g op) := by
  obtain ⟨hI, hc, hS⟩ := h
  have hI' := inv1_step s s' op hI hs
  have hlen := storedL_length s
  unfold Inv1 at hI
  refine ⟨hI', ?_⟩
  cases op with
  | spill v full =>
    simp only [step1] at hs
    split at hs
    · cases hs
    · rename_i hcnd
      have ho : s.owed = 0 := by
        false_or_by_contra; rename_i hne; exact hcnd (Or.inr hne)
      have hne : (s.rstate == RState.readingSpilled) = true → storedL s ≠ [] := by
        intro hr h0
        have hr' : s.rstate = .readingSpilled := by simpa using hr
        rw [h0] at hlen
        simp [hr', ho] at hI
        simp at hlen
        omega
      split at hs <;> cases hs
      · refine ⟨hc, ?_⟩
        have hst : storedL { s with finishedFiles := s.finishedFiles ++ [s.cur.getD [] ++ [v]], cur := none, owed := 1 } = storedL s ++ [v] := by
          simp [storedL]
        simp only [ghostStep, inflight, hst, hS]
        rw [inflightOf_snoc _ _ _ _ hne]
        simp
      · refine ⟨hc, ?_⟩
        have hst : storedL { s with cur := some (s.cur.getD [] ++ [v]), owed := 1 } = storedL s ++ [v] := by
          simp [storedL]
        simp only [ghostStep, inflight, hst, hS]
        rw [inflightOf_snoc _ _ _ _ hne]
        simp
  | sendSpilled =>
    simp only [step1] at hs
    split at hs
    · cases hs
    · split at hs
      · rename_i ho hce
        cases hs
        have hch : s.chan = [] := by simpa using hce
        refine ⟨by simp, ?_⟩
        simp [ghostStep, hS, inflight, inflightOf, storedL, hch]
      · cases hs
  | sendMem v =>
    simp only [step1] at hs
    split at hs
    · cases hs
    · split at hs
      · rename_i ho hce
        cases hs
        have hch : s.chan = [] := by simpa using hce
        have ho' : s.owed = 0 := by
          false_or_by_contra; rename_i hne; exact ho hne
        refine ⟨by simp, ?_⟩
        cases hr : s.rstate with
        | readingMemory =>
          have h0 : storedL s = [] := by
            simp [hr, ho', hch, markers] at hI
            rw [hI] at hlen
            exact List.eq_nil_of_length_eq_zero hlen
          simp only [storedL] at h0
          simp [ghostStep, hS, inflight, inflightOf, storedL, hch, hr, h0]
        | readingSpilled =>
          have h1 : (storedL s).length = 1 := by
            simp [hr, ho', hch, markers] at hI
            rw [hI] at hlen
            exact hlen
          have hd : (storedL s).drop 1 = [] := by
            apply List.eq_nil_of_length_eq_zero
            simp [h1]
          simp only [storedL] at hd
          simp [ghostStep, hS, inflight, inflightOf, storedL, hch, hr, hd]
      · cases hs
  | sendDone =>
    simp only [step1] at hs
    split at hs
    · cases hs
    · split at hs
      · rename_i ho hce
        cases hs
        have hch : s.chan = [] := by simpa using hce
        refine ⟨by simp, ?_⟩
        simp [ghostStep, hS, inflight, inflightOf, storedL, hch]
      · cases hs
  | dropSink =>
    simp only [step1] at hs
    split at hs
    · cases hs
    · cases hs
      refine ⟨hc, ?_⟩
      cases hcur : s.cur with
      | none => simp [ghostStep, hS, inflight, storedL, hcur]
      | some f => simp [ghostStep, hS, inflight, storedL, hcur]
  | poll =>
    simp only [step1] at hs
    cases hr : s.rstate with
    | readingMemory =>
      rw [hr] at hs
      simp only at hs
      cases hch : s.chan with
      | nil => rw [hch] at hs; cases hs
      | cons m r =>
        rw [hch] at hs hc
        have hr0 : r = [] := by
          cases r with
          | nil => rfl
          | cons a b => simp at hc
        subst hr0
        cases m <;> simp only at hs <;> cases hs <;>
          simp [ghostStep, hS, inflight, inflightOf, hch, hr, storedL]
        generalize s.finishedFiles.flatten ++ s.cur.getD [] = l
        cases l <;> simp
    | readingSpilled =>
      rw [hr] at hs
      simp only at hs
      cases hf : s.finishedFiles with
      | nil =>
        rw [hf] at hs
        simp only at hs
        cases hcur : s.cur with
        | none => rw [hcur] at hs; cases hs
        | some f =>
          rw [hcur] at hs
          cases f with
          | nil => cases hs
          | cons b bs =>
            cases hs
            refine ⟨hc, ?_⟩
            simp only [ghostStep, hS, inflight, inflightOf, storedL, hf, hcur, hr]
            split <;> simp
      | cons f fs =>
        rw [hf] at hs
        cases f with
        | nil =>
          cases hs
          refine ⟨hc, ?_⟩
          simp [ghostStep, hS, inflight, inflightOf, storedL, hf, hr]
        | cons b bs =>
          cases hs
          refine ⟨hc, ?_⟩
          simp only [ghostStep, hS, inflight, inflightOf, storedL, hf, hr]
          split <;> simp

theorem invF_run (s : St1) (g : Ghost) (ops : List Op1) (h : InvF s g) :
    InvF (run1g s g ops).1 (run1g s g ops).2 := by
  induction ops generalizing s g with
  | nil => exact h
  | cons op ops ih =>
    simp only [run1g]
    cases hs : step1 s op with
    | none => exact ih s g h
    | some s' => exact ih s' (ghostStep g op) (invF_step s s' g op h hs)

/-- **per-(input, output) FIFO of the marker protocol** (single-producer pool = order-preserving mode
    and single-input exchanges; code WITH the zero-row guard): after ANY schedule, what was delivered
    followed by what is in flight (in the reader's order) is exactly what was sent, in sending order.
    In particular the delivered sequence is a prefix of the sent sequence. -/
theorem marker_protocol_spsc_fifo (ops : List Op1) :
    (run1g init1 ghost0 ops).2.sent = (run1g init1 ghost0 ops).1.out ++ inflight (run1g init1 ghost0 ops).1 ∧
    (run1g init1 ghost0 ops).1.out <+: (run1g init1 ghost0 ops).2.sent := by
  have h := invF_run init1 ghost0 ops
    (by simp [InvF, Inv1, init1, ghost0, stored1, markers, inflight, inflightOf, storedL])
  exact ⟨h.2.2, by rw [h.2.2]; exact List.prefix_append _ _⟩

end exchange

end DfModel.Props.C10
