/-
  C37 — Substrait round trip preserves query results.

  The producer / consumer (datafusion/substrait/src/logical_plan, ~15 k lines plus the generated
  substrait crate) are NOT modelled; the property is checked on the real code by translation
  validation (harness: to_substrait_plan → bytes → from_substrait_plan in a fresh session → both
  plans executed, rows and types compared).  What Lean carries:

  * the judge that compares the exported plan BEFORE and AFTER is sound (`judge_sound`, from C35):
    the answer `same` means equal results on EVERY database, not only on the case's data;
  * the re-spellings the Substrait producer is known to perform are covered by the judge's
    normal form (`NOT IN`, `NOT LIKE`, `IS NOT NULL`, `<>` become `NOT (…)`), each exact;
  * `between_expansion`: the producer rewrites `x BETWEEN lo AND hi` to `x >= lo AND x <= hi`
    (producer/expr/scalar_function.rs `from_between`); whenever either form yields a value, the
    other yields the same value (they can differ only in WHICH error is reported when several
    operands fail) — so the rewrite never changes a returned row.

  "For all plans the producer accepts" is SAMPLED by the harness.
-/
import DfModel.Sql.Judge
import DfModel.Proofs.C35Beq
import DfModel.Proofs.C35Plan
namespace DfModel.Props.C37
open DfModel DfModel.Judge

theorem judge_sound (p q : Plan) (h : normPlan p = normPlan q) (db : Db) (env : Env) :
    evalPlan p db env = evalPlan q db env := by
  rw [← Proofs.C35Plan.normPlan_eval db p env, ← Proofs.C35Plan.normPlan_eval db q env, h]

theorem same_sound (p q : Plan) (h : same p q = true) (db : Db) (env : Env) :
    evalPlan p db env = evalPlan q db env :=
  judge_sound p q (Proofs.C35Beq.beqPlan_sound _ _ h) db env

/-- the producer's re-spellings of negated predicates are exact on every row -/
theorem negated_respellings_exact (a p : Expr) (l : List Expr) (ci : Bool) (esc : Option Char) (ρ : Row) (env : Env) :
    eval (.inList true a l) ρ env = eval (.not (.inList false a l)) ρ env
    ∧ eval (.like true ci a p esc) ρ env = eval (.not (.like false ci a p esc)) ρ env
    ∧ eval (.is .null true a) ρ env = eval (.not (.is .null false a)) ρ env
    ∧ eval (.bin .ne a p) ρ env = eval (.not (.bin .eq a p)) ρ env := by
  have h := Proofs.C35Norm.normExpr_eval
  refine ⟨?_, ?_, ?_, ?_⟩
  · have h1 := h (.inList true a l) ρ env
    have h2 := h (.not (.inList false a l)) ρ env
    simp only [normExpr] at h1 h2
    exact h1.symm.trans h2
  · have h1 := h (.like true ci a p esc) ρ env
    have h2 := h (.not (.like false ci a p esc)) ρ env
    simp only [normExpr] at h1 h2
    exact h1.symm.trans h2
  · have h1 := h (.is .null true a) ρ env
    have h2 := h (.not (.is .null false a)) ρ env
    simp only [normExpr] at h1 h2
    exact h1.symm.trans h2
  · have h1 := h (.bin .ne a p) ρ env
    have h2 := h (.not (.bin .eq a p)) ρ env
    simp only [normExpr] at h1 h2
    exact h1.symm.trans h2

/-- `x BETWEEN lo AND hi` and the producer's `x >= lo AND x <= hi` return the same value whenever
    either of them returns a value -/
theorem between_expansion (a lo hi : Expr) (ρ : Row) (env : Env) (v : Val) :
    eval (.between false a lo hi) ρ env = .ok v
      ↔ eval (.bin .and (.bin .ge a lo) (.bin .le a hi)) ρ env = .ok v := by
  simp only [eval]
  cases eval a ρ env with
  | error e => simp [bind, Except.bind]
  | ok x =>
    cases eval lo ρ env with
    | error e => simp [bind, Except.bind]
    | ok l =>
      cases eval hi ρ env with
      | error e =>
        simp only [bind, Except.bind]
        cases evalBin .ge x l <;> simp
      | ok h =>
        simp only [bind, Except.bind]
        cases evalBin .ge x l with
        | error e => simp
        | ok c1 =>
          cases evalBin .le x h with
          | error e => simp
          | ok c2 =>
            simp only [pure, Except.pure]
            split <;> simp_all

/-- non-vacuity: on a real row the two forms do produce a value, and it depends on the bounds -/
example : eval (.between false (.col 0) (.lit (.int 32 true 1)) (.lit (.int 32 true 3))) [.int 32 true 2] = .ok (.bool true) := by decide
example : eval (.bin .and (.bin .ge (.col 0) (.lit (.int 32 true 1))) (.bin .le (.col 0) (.lit (.int 32 true 3)))) [.int 32 true 5] = .ok (.bool false) := by decide

end DfModel.Props.C37
