/-
  C30 — produced values and rows conform to the declared schema.

  `typeOf` / `schemaOf` (Sql/Typing.lean) are the declared types and nullability of expressions and
  plans, following `ExprSchemable::{get_type,nullable}` and the logical-plan schema rules.
  `type_sound` : whatever an expression evaluates to has the declared type, and is not NULL when the
  expression is declared NOT NULL — for every expression of the reference AST (three-valued logic,
  CASE with and without ELSE, COALESCE, NULLIF, CAST/TRY_CAST, IN lists, BETWEEN, LIKE, parameters,
  outer references), every row and every environment that conform to the typing context.
  `plan_schema_sound_partial` lifts this to every row produced by a plan built from scan, filter,
  project, sort, limit, distinct and the six set operations; the full statement (joins with the
  null-supplying side, aggregates, sub-query columns) is kept as `plan_schema_sound_statement`.
-/
import DfModel.Sql.Typing
import DfModel.Proofs.C30c
namespace DfModel.Props.C30
open DfModel DfModel.Proofs.C30

/-- **type soundness** -/
theorem type_sound (e : Expr) (Γ : TEnv) (ρ : Row) (env : Env) (τ : Ty) (nullable : Bool) (v : Val)
    (hρ : rowConforms ρ Γ.cols = true) (ho : rowConforms env.outer Γ.outer = true)
    (hp : rowConforms env.params Γ.params = true)
    (ht : typeOf e Γ = .ok (τ, nullable)) (hv : eval e ρ env = .ok v) :
    v.hasTy τ = true ∧ (nullable = false → v ≠ .null) := by
  obtain ⟨h1, h2⟩ := type_sound_expr Γ ρ env ⟨hρ, ho, hp⟩ e (τ, nullable) v ht hv
  refine ⟨h1, fun hn hnull => ?_⟩
  have := h2 hn
  rw [hnull] at this
  cases this

/-- every function-like construct yields exactly one value per input row (the reference evaluator is
    a function of the row): two evaluations on the same row agree -/
theorem function_one_value_per_row (e : Expr) (ρ : Row) (env : Env) (v w : Val)
    (h1 : eval e ρ env = .ok v) (h2 : eval e ρ env = .ok w) : v = w := by
  rw [h1] at h2
  cases h2
  rfl

/-- a projection produces rows of the declared arity, types and nullability -/
theorem project_row_sound (es : List Expr) (Γ : TEnv) (ρ : Row) (env : Env) (S : Schema) (r' : Row)
    (hρ : rowConforms ρ Γ.cols = true) (ho : rowConforms env.outer Γ.outer = true)
    (hp : rowConforms env.params Γ.params = true)
    (ht : typeExprs es Γ = .ok S) (hv : evalExprs es ρ env = .ok r') : rowConforms r' S = true :=
  evalExprs_sound Γ ρ env ⟨hρ, ho, hp⟩ es S r' ht hv

/-- the stored tables conform to their declared schemas -/
def DbOk (db : Db) (Δ : TDb) : Prop :=
  ∀ n Γ w rows, tdbFind Δ n = some Γ → db.find? n = some (w, rows) → ∀ r ∈ rows, rowConforms r Γ = true

/-- the fragment covered by the proved part -/
def simplePlan : Plan → Bool
  | .scan _ => true
  | .filter _ p | .project _ p | .sort _ p | .limit _ _ p | .distinct p => simplePlan p
  | .setop _ _ l r => simplePlan l && simplePlan r
  | _ => false

/-- full statement: every row of `evalPlan p db` conforms to `schemaOf p` -/
def plan_schema_sound_statement : Prop :=
  ∀ (db : Db) (Δ : TDb) (p : Plan) (env : Env) (outer params Γ : Schema) (rows : List Row),
    DbOk db Δ → rowConforms env.outer outer = true → rowConforms env.params params = true →
    schemaOf p Δ outer params = .ok Γ → evalPlan p db env = .ok rows → ∀ r ∈ rows, rowConforms r Γ = true

/-- **plan_schema_sound**, proved for plans made of scan / filter / project / sort / limit / distinct /
    UNION, INTERSECT, EXCEPT [ALL].  Missing for the full statement: the join cases (they need
    `arity = |schema|` to place the NULL padding of the null-supplying side), `aggregate` (group
    construction and the accumulator types) and `apply`; those nodes are covered on every run by the
    implementation-level oracle and by the correspondence on `schemaOf`. -/
theorem plan_schema_sound_partial (db : Db) (Δ : TDb) (hdb : DbOk db Δ) (p : Plan) (hs : simplePlan p = true) :
    ∀ (env : Env) (outer params Γ : Schema) (rows : List Row),
      rowConforms env.outer outer = true → rowConforms env.params params = true →
      schemaOf p Δ outer params = .ok Γ → evalPlan p db env = .ok rows → ∀ r ∈ rows, rowConforms r Γ = true := by
  induction p with
  | scan n =>
    intro env outer params Γ rows _ _ ht hv r hr
    simp only [schemaOf] at ht
    simp only [evalPlan] at hv
    cases hf : tdbFind Δ n with
    | none => simp [hf] at ht
    | some Γ' =>
      simp only [hf, Except.ok.injEq] at ht
      subst ht
      cases hd : db.find? n with
      | none => simp [hd] at hv
      | some wr =>
        obtain ⟨w, rs⟩ := wr
        simp only [hd, Except.ok.injEq] at hv
        subst hv
        exact hdb n Γ' w rs hf hd r hr
  | filter e p ih =>
    intro env outer params Γ rows ho hp ht hv r hr
    simp only [simplePlan] at hs
    simp only [schemaOf] at ht
    simp only [evalPlan] at hv
    obtain ⟨Γp, hΓp, ht⟩ := bind_ok ht
    obtain ⟨te, _, ht⟩ := bind_ok ht
    obtain ⟨rs, hrs, hv⟩ := bind_ok hv
    split at ht
    · have := pure_ok ht
      subst this
      exact ih hs env outer params Γp rs ho hp hΓp hrs r (evalFilter_mem e env rs rows hv r hr)
    · cases ht
  | project es p ih =>
    intro env outer params Γ rows ho hp ht hv r hr
    simp only [simplePlan] at hs
    simp only [schemaOf] at ht
    simp only [evalPlan] at hv
    obtain ⟨Γp, hΓp, ht⟩ := bind_ok ht
    obtain ⟨rs, hrs, hv⟩ := bind_ok hv
    simp only [evalProject] at hv
    obtain ⟨ρ, hρ, hρv⟩ := mapM_ok_mem _ rs rows hv r hr
    have hc := ih hs env outer params Γp rs ho hp hΓp hrs ρ hρ
    exact evalExprs_sound { cols := Γp, outer := outer, params := params } ρ env ⟨hc, ho, hp⟩ es Γ r ht hρv
  | sort ks p ih =>
    intro env outer params Γ rows ho hp ht hv r hr
    simp only [simplePlan] at hs
    simp only [schemaOf] at ht
    simp only [evalPlan] at hv
    obtain ⟨Γp, hΓp, ht⟩ := bind_ok ht
    obtain ⟨_, _, ht⟩ := bind_ok ht
    have := pure_ok ht
    subst this
    obtain ⟨rs, hrs, hv⟩ := bind_ok hv
    exact ih hs env outer params Γp rs ho hp hΓp hrs r (evalSort_mem ks env rs rows hv r hr)
  | limit s f p ih =>
    intro env outer params Γ rows ho hp ht hv r hr
    simp only [simplePlan] at hs
    simp only [schemaOf] at ht
    simp only [evalPlan] at hv
    obtain ⟨rs, hrs, hv⟩ := bind_ok hv
    have := pure_ok hv
    subst this
    exact ih hs env outer params Γ rs ho hp ht hrs r (limitRows_mem s f rs r hr)
  | distinct p ih =>
    intro env outer params Γ rows ho hp ht hv r hr
    simp only [simplePlan] at hs
    simp only [schemaOf] at ht
    simp only [evalPlan] at hv
    obtain ⟨rs, hrs, hv⟩ := bind_ok hv
    have := pure_ok hv
    subst this
    exact ih hs env outer params Γ rs ho hp ht hrs r (dedup_mem rs r hr)
  | setop k all l r ihl ihr =>
    intro env outer params Γ rows ho hp ht hv row hrow
    simp only [simplePlan, Bool.and_eq_true] at hs
    simp only [schemaOf] at ht
    simp only [evalPlan] at hv
    obtain ⟨L, hL, ht⟩ := bind_ok ht
    obtain ⟨R, hR, ht⟩ := bind_ok ht
    obtain ⟨A, hA, hv⟩ := bind_ok hv
    obtain ⟨B, hB, hv⟩ := bind_ok hv
    have := pure_ok hv
    subst this
    rcases setOp_mem k all A B row hrow with hmem | ⟨hk, hmem⟩
    · have hc := ihl hs.1 env outer params L A ho hp hL hA row hmem
      cases k
      · exact unifySchemas_left L R Γ _ (fun a b h => by simp [h]) ht row hc
      · exact unifySchemas_left L R Γ _ (fun a b h => h) ht row hc
      · exact unifySchemas_left L R Γ _ (fun a b h => h) ht row hc
    · subst hk
      have hc := ihr hs.2 env outer params R B ho hp hR hB row hmem
      exact unifySchemas_right L R Γ _ (fun a b h => by simp [h]) ht row hc
  | values w rows => intro env outer params Γ rs _ _ _ _; simp [simplePlan] at hs
  | join jt ne on f l r _ _ => intro env outer params Γ rs _ _ _ _; simp [simplePlan] at hs
  | aggregate ks as p _ => intro env outer params Γ rs _ _ _ _; simp [simplePlan] at hs
  | apply k x i sub _ _ => intro env outer params Γ rs _ _ _ _; simp [simplePlan] at hs

/-! ### non-vacuity -/

private def Γ1 : TEnv := { cols := [(.int 64 true, false), (.int 64 true, true), (.str, true)] }

-- `c0 + 1` over a NOT NULL column is NOT NULL; `c0 + c1` is nullable
example : typeOf (.bin .add (.col 0) (.lit (.int 64 true 1))) Γ1 = .ok (.int 64 true, false) := by decide
example : typeOf (.bin .add (.col 0) (.col 1)) Γ1 = .ok (.int 64 true, true) := by decide
-- CASE without ELSE is nullable even over NOT NULL branches; COALESCE with a NOT NULL argument is NOT NULL
example : typeOf (.case none [(.bin .gt (.col 0) (.lit (.int 64 true 0)), .col 0)] none) Γ1 = .ok (.int 64 true, true) := by decide
example : typeOf (.coalesce [.col 1, .col 0]) Γ1 = .ok (.int 64 true, false) := by decide
-- ill-typed expressions are rejected
example : typeOf (.bin .add (.col 0) (.col 2)) Γ1 = .error .mismatch := by decide
-- outer join: the null-supplying side becomes nullable; COUNT is NOT NULL, SUM nullable
example : joinSchema .left [(.int 64 true, false)] [(.str, false)] = [(.int 64 true, false), (.str, true)] := by decide
example : schemaOf (.aggregate [.col 0] [{ fn := .countStar }, { fn := .sum, arg := .col 0 }] (.scan "t"))
    [("t", [(.int 32 true, false)])] = .ok [(.int 32 true, false), (.int 64 true, false), (.int 64 true, true)] := by decide

end DfModel.Props.C30
