/-
  C49 — catalog changes are applied exactly and reflected in information_schema.

  `step true`  = the code as it is now: /repo commit 5758ed9 ("fix: evaluate the query of CREATE
                 OR REPLACE TABLE ... AS before dropping the old table") — evaluate first, swap after;
  `step false` = the pinned upstream code, for which "a failed statement changes nothing" is
                 FALSE (witness `or_replace_failing_ctas_drops_table`).
  Every theorem that does not mention the flag holds for both.
-/
import DfModel.Sm.Catalog
import DfModel.Proofs.C49
namespace DfModel.Props.C49
open DfModel.Sm.Catalog DfModel.Proofs.C49

/-! ## 1. The invariant holds after every DDL history -/

theorem inv_execCreateTable (a : Bool) (s : State) (k : Key) (ine orr : Bool) (cols : List Col)
    (runs : Bool) (h : Wf s) : Wf (execCreateTable a s k ine orr cols runs).1 := by
  simp only [execCreateTable]
  split
  · exact h
  · split
    · exact h
    · exact inv_createFresh (inv_removeObj h k) (lookup_removeObj_self s k) runs
  · exact h
  · rename_i hn; exact inv_createFresh h hn runs
  · exact h

theorem inv_execCreateView (s : State) (k : Key) (orr : Bool) (cols : List Col) (runs : Bool)
    (text : List Char) (h : Wf s) : Wf (execCreateView s k orr cols runs text).1 := by
  simp only [execCreateView]
  split
  · exact inv_createFresh (inv_removeObj h k) (lookup_removeObj_self s k) true
  · rename_i hn; exact inv_createFresh h hn true
  · exact h

theorem inv_execDrop (s : State) (r : List Ident) (kind : Kind) (ifx : Bool) (h : Wf s) :
    Wf (execDrop s r kind ifx).1 := by
  simp only [execDrop]
  split
  · exact h
  · split
    · split
      · exact inv_removeObj h _
      · split <;> exact h
    · split <;> exact h

theorem inv_execCreateSchema (s : State) (c sc : Name) (ine : Bool) (h : Wf s) (hc : c ∈ s.cats) :
    Wf (execCreateSchema s c sc ine).1 := by
  simp only [execCreateSchema]
  split
  · split <;> exact h
  · rename_i hs
    exact inv_addSchema h hc (by simpa [hasSchema] using hs)

theorem inv_execDropSchema (s : State) (c sc : Name) (ifx cascade : Bool) (h : Wf s) :
    Wf (execDropSchema s c sc ifx cascade).1 := by
  simp only [execDropSchema]
  split
  · split
    · split
      · exact inv_delSchema h c sc
      · exact h
    · split <;> exact h
  · split <;> exact h

/-- one statement — any statement, in any state satisfying the invariant — preserves it -/
theorem inv_step (a : Bool) (s : State) (st : Stmt) (h : Wf s) : Wf (step a s st).1 := by
  cases st with
  | createCatalog n ine =>
    simp only [step]
    split
    · split <;> exact h
    · rename_i hc; exact inv_addCat h (by simpa using hc)
  | createSchema r ine =>
    simp only [step]
    cases schemaTarget (r.map normalize) with
    | none => exact h
    | some p =>
      simp only
      split
      · rename_i hc; exact inv_execCreateSchema s _ _ ine h (by simpa using hc)
      · exact h
  | dropSchema r ifx cascade =>
    simp only [step]
    cases schemaTarget (r.map normalize) with
    | none => exact h
    | some p => exact inv_execDropSchema s _ _ ifx cascade h
  | createTable r ine orr b =>
    simp only [step]
    cases resolveRef r with
    | none => exact h
    | some k =>
      cases planBody s b with
      | error e => exact h
      | ok pr => exact inv_execCreateTable a s _ ine orr _ _ h
  | createView r orr q text =>
    simp only [step]
    cases planQuery s q with
    | error e => exact h
    | ok pr =>
      cases resolveRef r with
      | none => exact h
      | some k => exact inv_execCreateView s _ orr _ _ text h
  | dropTable r ifx => exact inv_execDrop s r .base ifx h
  | dropView r ifx => exact inv_execDrop s r .view ifx h
  | select r =>
    simp only [step]
    cases planQuery s (.src r) with
    | error e => exact h
    | ok pr => simp only; split <;> exact h

theorem run_fst_cons (a : Bool) (s : State) (st : Stmt) (sts : List Stmt) :
    (run a s (st :: sts)).1 = (run a (step a s st).1 sts).1 := by
  simp [run]

theorem inv_run_from (a : Bool) (sts : List Stmt) : ∀ s, Wf s → Wf (run a s sts).1 := by
  induction sts with
  | nil => intro s h; exact h
  | cons st sts ih =>
    intro s h
    rw [run_fst_cons]
    exact ih _ (inv_step a s st h)

/-- **C49 (well-formedness).** After ANY history of CREATE/DROP CATALOG|SCHEMA|TABLE|VIEW
    statements (all IF [NOT] EXISTS / OR REPLACE / CASCADE / CTAS variants, succeeding or failing,
    any quoting and qualification) the catalog is well-formed: names are unique per level, no
    schema without its catalog, no table or view without its schema. -/
theorem inv_run (a : Bool) (sts : List Stmt) : Wf (run a init sts).1 :=
  inv_run_from a sts init inv_init

/-! ## 2. Name resolution -/

theorem quoted_verbatim (t : List Char) : normalize ⟨t, true⟩ = t := rfl

theorem unquoted_case_insensitive (a b : List Char) (h : lower a = lower b) :
    normalize ⟨a, false⟩ = normalize ⟨b, false⟩ := by simp [normalize, h]

theorem resolve_bare (t : Ident) : resolveRef [t] = some ⟨defaultCat, defaultSch, normalize t⟩ := rfl
theorem resolve_partial (sc t : Ident) :
    resolveRef [sc, t] = some ⟨defaultCat, normalize sc, normalize t⟩ := rfl
theorem resolve_full (c sc t : Ident) :
    resolveRef [c, sc, t] = some ⟨normalize c, normalize sc, normalize t⟩ := rfl
theorem resolve_too_long (a b c d : Ident) (r : List Ident) : resolveRef (a :: b :: c :: d :: r) = none := rfl

/-- a bare name, the name qualified with the default schema, and the fully qualified name denote
    the same key -/
theorem qualification_irrelevant (t : Ident) :
    resolveRef [t] = resolveRef [⟨defaultSch, true⟩, t] ∧
    resolveRef [t] = resolveRef [⟨defaultCat, true⟩, ⟨defaultSch, true⟩, t] := ⟨rfl, rfl⟩

/-- **resolution_spec.** Two references that resolve denote the same catalog object iff their
    normalised full names (catalog, schema, table after applying the defaults) agree — in every
    state; and what a query sees through either of them is the same. -/
theorem resolution_spec (s : State) (r1 r2 : List Ident) (k1 k2 : Key)
    (h1 : resolveRef r1 = some k1) (h2 : resolveRef r2 = some k2) :
    (k1 = k2 → ∀ a, step a s (.select r1) = step a s (.select r2)) ∧
    (∀ e1 e2, lookup s k1 = some e1 → lookup s k2 = some e2 → (e1 = e2 ↔ k1 = k2)) := by
  constructor
  · intro hk a
    subst hk
    simp only [step, planQuery, h1, h2]
  · intro e1 e2 he1 he2
    constructor
    · intro he
      have := (lookup_some_mem he1).2
      have := (lookup_some_mem he2).2
      subst he; simp_all
    · intro hk
      subst hk
      rw [he1] at he2
      exact Option.some.inj he2

-- non-vacuity / tests: unquoted names fold to lower case, quoted ones do not; qualification
example : resolveRef [⟨['T','a','B'], false⟩] = resolveRef [⟨['t','A','b'], false⟩] := by decide
example : resolveRef [⟨['T'], true⟩] ≠ resolveRef [⟨['T'], false⟩] := by decide
example : resolveRef [⟨['P','U','B','L','I','C'], false⟩, ⟨['t'], false⟩] = resolveRef [⟨['t'], true⟩] := by decide

/-! ## 3. Statements touch exactly the object they name -/

/-- CREATE/DROP TABLE|VIEW leave every other name, every schema and every catalog as they were -/
theorem table_stmt_touches_only_named (a : Bool) (s : State) (st : Stmt) (r : List Ident) (k : Key)
    (hk : resolveRef r = some k)
    (hst : (∃ ine orr b, st = .createTable r ine orr b) ∨ (∃ orr q t, st = .createView r orr q t) ∨
           (∃ ifx, st = .dropTable r ifx) ∨ (∃ ifx, st = .dropView r ifx)) :
    (step a s st).1.cats = s.cats ∧ (step a s st).1.schemas = s.schemas ∧
    ∀ k', k' ≠ k → lookup (step a s st).1 k' = lookup s k' := by
  have fresh : ∀ (s0 : State) (e : Entry) (b : Bool), e.key = k →
      (createFresh s0 e b).1.cats = s0.cats ∧ (createFresh s0 e b).1.schemas = s0.schemas ∧
      ∀ k', k' ≠ k → lookup (createFresh s0 e b).1 k' = lookup s0 k' := by
    intro s0 e b hek
    simp only [createFresh]
    split
    · exact ⟨rfl, rfl, fun _ _ => rfl⟩
    · split
      · refine ⟨rfl, rfl, fun k' hk' => lookup_insertObj_ne s0 e k' ?_⟩
        rw [hek]; exact fun h => hk' h.symm
      · exact ⟨rfl, rfl, fun _ _ => rfl⟩
  have rem : (removeObj s k).cats = s.cats ∧ (removeObj s k).schemas = s.schemas ∧
      ∀ k', k' ≠ k → lookup (removeObj s k) k' = lookup s k' :=
    ⟨rfl, rfl, fun k' hk' => lookup_removeObj_ne s k k' hk'⟩
  have remfresh : ∀ (e : Entry) (b : Bool), e.key = k →
      (createFresh (removeObj s k) e b).1.cats = s.cats ∧
      (createFresh (removeObj s k) e b).1.schemas = s.schemas ∧
      ∀ k', k' ≠ k → lookup (createFresh (removeObj s k) e b).1 k' = lookup s k' := by
    intro e b hek
    obtain ⟨h1, h2, h3⟩ := fresh (removeObj s k) e b hek
    exact ⟨h1, h2, fun k' hk' => (h3 k' hk').trans (rem.2.2 k' hk')⟩
  have same : s.cats = s.cats ∧ s.schemas = s.schemas ∧ ∀ k', k' ≠ k → lookup s k' = lookup s k' :=
    ⟨rfl, rfl, fun _ _ => rfl⟩
  have drop : ∀ kind ifx, (execDrop s r kind ifx).1.cats = s.cats ∧
      (execDrop s r kind ifx).1.schemas = s.schemas ∧
      ∀ k', k' ≠ k → lookup (execDrop s r kind ifx).1 k' = lookup s k' := by
    intro kind ifx
    simp only [execDrop, hk]
    split
    · split
      · exact rem
      · split <;> exact same
    · split <;> exact same
  rcases hst with ⟨ine, orr, b, rfl⟩ | ⟨orr, q, t, rfl⟩ | ⟨ifx, rfl⟩ | ⟨ifx, rfl⟩
  · simp only [step, hk]
    cases planBody s b with
    | error e => exact same
    | ok pr =>
      simp only [execCreateTable]
      split
      · exact same
      · split
        · exact same
        · exact remfresh _ _ rfl
      · exact same
      · exact fresh s _ _ rfl
      · exact same
  · simp only [step]
    cases planQuery s q with
    | error e => exact same
    | ok pr =>
      simp only [hk, execCreateView]
      split
      · exact remfresh _ _ rfl
      · exact fresh s _ _ rfl
      · exact same
  · exact drop .base ifx
  · exact drop .view ifx

/-! ## 4. IF NOT EXISTS / IF EXISTS / OR REPLACE -/

def isCreateIfNotExists : Stmt → Bool
  | .createCatalog _ true => true
  | .createSchema _ true => true
  | .createTable _ true false _ => true
  | _ => false

/-- **create_if_not_exists_idempotent.** A `CREATE … IF NOT EXISTS` (catalog, schema, table incl.
    CTAS) that did not fail can be repeated: the second execution reports success and changes
    nothing. -/
theorem create_if_not_exists_idempotent (a : Bool) (s : State) (st : Stmt)
    (hst : isCreateIfNotExists st = true) (hok : (step a s st).2.isErr = false) :
    step a (step a s st).1 st = ((step a s st).1, .skipped) := by
  cases st with
  | createCatalog n ine =>
    cases ine <;> simp only [isCreateIfNotExists] at hst
    · exact absurd hst (by decide)
    · simp only [step, if_true]
      by_cases hc : normalize n ∈ s.cats
      · simp [hc]
      · simp [hc, addCat]
  | createSchema r ine =>
    cases ine <;> simp only [isCreateIfNotExists] at hst
    · exact absurd hst (by decide)
    · obtain ht | ⟨p, ht⟩ : schemaTarget (r.map normalize) = none ∨
          ∃ p, schemaTarget (r.map normalize) = some p := by
        cases schemaTarget (r.map normalize) <;> simp
      · simp [step, ht, Outcome.isErr] at hok
      · simp only [step, ht] at hok ⊢
        by_cases hc : p.1 ∈ s.cats
        · simp only [hc, decide_true, if_true, execCreateSchema] at hok ⊢
          by_cases hs : hasSchema s p.1 p.2 = true
          · simp [hs, hc]
          · have hs' : (p.1, p.2) ∉ s.schemas := by simpa [hasSchema] using hs
            simp [hasSchema, hs', hc, addSchema]
        · simp [hc, Outcome.isErr] at hok
  | createTable r ine orr b =>
    cases ine <;> cases orr <;> simp only [isCreateIfNotExists] at hst
    all_goals first | exact absurd hst (by decide) | skip
    simp only [step] at hok ⊢
    -- the name is well-formed and planning succeeded …
    cases hr : resolveRef r with
    | none => simp [hr, Outcome.isErr] at hok
    | some k =>
      simp only [hr] at hok ⊢
      cases hp : planBody s b with
      | error e => simp [hp, Outcome.isErr] at hok
      | ok pr =>
        obtain ⟨cols, runs⟩ := pr
        simp only [hp] at hok ⊢
        cases hl : lookup s k with
        | some e0 =>
          -- already there: skipped, state unchanged, and again
          simp only [execCreateTable, hl, hp, hr]
        | none =>
          simp only [execCreateTable, hl, createFresh] at hok ⊢
          cases runs with
          | false => simp [Outcome.isErr] at hok
          | true =>
            simp only [Bool.not_true, Bool.false_eq_true, if_false] at hok ⊢
            by_cases hs : hasSchema s k.cat k.sch = true
            · simp only [hs, if_true] at hok ⊢
              -- planning in the new state gives the same result
              have hp' : planBody (insertObj s ⟨k, .base, cols, none, true⟩) b = .ok (cols, true) := by
                cases b with
                | cols cs => simpa [planBody] using hp
                | as q =>
                  cases q with
                  | const cs => simpa [planBody, planQuery] using hp
                  | failing cs => simp [planBody, planQuery] at hp
                  | src r' =>
                    simp only [planBody, planQuery] at hp ⊢
                    cases hr' : resolveRef r' with
                    | none => simp [hr'] at hp
                    | some k' =>
                      simp only [hr'] at hp ⊢
                      cases hl' : lookup s k' with
                      | none => simp [hl'] at hp
                      | some e' =>
                        have hne : (⟨k, .base, cols, none, true⟩ : Entry).key ≠ k' := by
                          intro h; simp only at h; subst h; rw [hl] at hl'; cases hl'
                        rw [lookup_insertObj_ne _ _ _ hne, hl']
                        simpa [hl'] using hp
              have hl' := lookup_insertObj_self s ⟨k, .base, cols, none, true⟩ hl
              simp only at hl'
              simp only [hp', execCreateTable, hl']
            · simp [hs, Outcome.isErr] at hok
  | _ => simp [isCreateIfNotExists] at hst

/-- **drop_if_exists_total.** `DROP TABLE|VIEW IF EXISTS r` with a 1–3 part name never fails,
    and afterwards `r` does not denote an object of that kind; `DROP SCHEMA IF EXISTS` fails only
    for a non-empty schema without CASCADE (or a malformed name). -/
theorem drop_if_exists_total (a : Bool) (s : State) (r : List Ident) (k : Key)
    (hk : resolveRef r = some k) :
    ((step a s (.dropTable r true)).2.isErr = false ∧
      ∀ e, lookup (step a s (.dropTable r true)).1 k = some e → e.kind ≠ .base) ∧
    ((step a s (.dropView r true)).2.isErr = false ∧
      ∀ e, lookup (step a s (.dropView r true)).1 k = some e → e.kind ≠ .view) := by
  have key : ∀ kind, (execDrop s r kind true).2.isErr = false ∧
      ∀ e, lookup (execDrop s r kind true).1 k = some e → e.kind ≠ kind := by
    intro kind
    simp only [execDrop, hk]
    cases hl : lookup s k with
    | none => simp [Outcome.isErr, hl]
    | some e0 =>
      by_cases hkind : e0.kind = kind
      · simp [hkind, Outcome.isErr, lookup_removeObj_self]
      · simp only [hkind, if_false, if_true, Outcome.isErr, true_and]
        intro e he; rw [hl] at he; cases he; exact hkind
  exact ⟨key .base, key .view⟩

theorem schemaTarget_none_iff (l : List Name) :
    schemaTarget l = none ↔ ¬ (l.length = 1 ∨ l.length = 2) := by
  match l with
  | [] => simp [schemaTarget]
  | [_] => simp [schemaTarget]
  | [_, _] => simp [schemaTarget]
  | _ :: _ :: _ :: _ => simp [schemaTarget]

theorem drop_schema_if_exists_total (a : Bool) (s : State) (r : List Ident) (cascade : Bool)
    (e : Err) (h : (step a s (.dropSchema r true cascade)).2 = .err e) :
    (e = .badName ∧ ¬ (r.length = 1 ∨ r.length = 2)) ∨ (e = .nonEmpty ∧ cascade = false) := by
  simp only [step] at h
  cases ht : schemaTarget (r.map normalize) with
  | none =>
    simp only [ht] at h
    cases h
    exact Or.inl ⟨rfl, by simpa using (schemaTarget_none_iff _).mp ht⟩
  | some p =>
    simp only [ht, execDropSchema, if_true] at h
    refine Or.inr ?_
    split at h
    · split at h
      · split at h
        · cases h
        · rename_i hc
          simp only [Bool.or_eq_true, not_or] at hc
          cases h
          exact ⟨rfl, by simpa using hc.2⟩
      · cases h
    · cases h

/-- bodies that do not read the catalog -/
def bodyClosed : TBody → Bool
  | .as (.src _) => false
  | _ => true

def dropOfKind (r : List Ident) : Kind → Stmt
  | .base => .dropTable r false
  | .view => .dropView r false

/-- bodies that do not read the catalog and do not fail at run time -/
def bodyRuns : TBody → Bool
  | .cols _ => true
  | .as (.const _) => true
  | _ => false

/-- **or_replace_eq_drop_create.** On an existing name, `CREATE OR REPLACE TABLE r <body>` whose
    body evaluates does exactly what `DROP TABLE r` (or `DROP VIEW r`, whichever the object is)
    followed by `CREATE TABLE r <body>` does — the same final catalog and the same outcome. -/
theorem or_replace_eq_drop_create (a : Bool) (s : State) (r : List Ident) (b : TBody) (k : Key)
    (e : Entry) (hb : bodyRuns b = true) (hk : resolveRef r = some k) (he : lookup s k = some e) :
    (step a s (dropOfKind r e.kind)).2 = .dropped ∧
    (step a s (.createTable r false true b)).1
      = (step a (step a s (dropOfKind r e.kind)).1 (.createTable r false false b)).1 ∧
    (step a s (.createTable r false true b)).2
      = relabel (step a (step a s (dropOfKind r e.kind)).1 (.createTable r false false b)).2 := by
  have hdrop : step a s (dropOfKind r e.kind) = (removeObj s k, .dropped) := by
    cases hkind : e.kind <;> simp [dropOfKind, step, execDrop, hk, he, hkind]
  obtain ⟨cs, hp⟩ : ∃ cs, ∀ s', planBody s' b = .ok (cs, true) := by
    cases b with
    | cols cs => exact ⟨cs, fun _ => rfl⟩
    | as q => cases q with
      | const cs => exact ⟨cs, fun _ => rfl⟩
      | src r' => simp [bodyRuns] at hb
      | failing cs => simp [bodyRuns] at hb
  rw [hdrop]
  refine ⟨rfl, ?_, ?_⟩
  all_goals
    simp only [step, hk, hp, execCreateTable, he, lookup_removeObj_self, Bool.not_true,
      Bool.and_false, Bool.false_eq_true, if_false]
    try (cases (createFresh (removeObj s k) ⟨k, .base, cs, none, true⟩ true).2 <;> rfl)

/-- … and when the body fails at run time the current handler reports the failure and keeps the
    old object (evaluate first, swap after) -/
theorem or_replace_failing_keeps_old (s : State) (r : List Ident) (cs : List Col) (k : Key)
    (e : Entry) (hk : resolveRef r = some k) (he : lookup s k = some e) :
    step true s (.createTable r false true (.as (.failing cs))) = (s, .err .runtime) := by
  simp [step, hk, planBody, planQuery, execCreateTable, he]

/-- the pinned UPSTREAM handler (`step false`) is DROP-then-CREATE even when the body fails at run
    time: then the name stays dropped (see §5) -/
theorem or_replace_eq_drop_create_upstream (s : State) (r : List Ident) (b : TBody) (k : Key) (e : Entry)
    (hb : bodyClosed b = true) (hk : resolveRef r = some k) (he : lookup s k = some e) :
    (step false s (dropOfKind r e.kind)).2 = .dropped ∧
    (step false s (.createTable r false true b)).1
      = (step false (step false s (dropOfKind r e.kind)).1 (.createTable r false false b)).1 ∧
    (step false s (.createTable r false true b)).2
      = relabel (step false (step false s (dropOfKind r e.kind)).1 (.createTable r false false b)).2 := by
  have hdrop : step false s (dropOfKind r e.kind) = (removeObj s k, .dropped) := by
    cases hkind : e.kind <;> simp [dropOfKind, step, execDrop, hk, he, hkind]
  have hpl : ∀ s', planBody s' b = planBody s b := by
    intro s'
    cases b with
    | cols cs => rfl
    | as q => cases q <;> first | rfl | simp [bodyClosed] at hb
  rw [hdrop]
  refine ⟨rfl, ?_, ?_⟩
  all_goals
    simp only [step, hk, hpl (removeObj s k)]
    cases hp : planBody s b with
    | error e' => cases b with
      | cols cs => simp [planBody] at hp
      | as q => cases q <;> simp [planBody, planQuery, bodyClosed] at hp hb
    | ok pr =>
      simp only [execCreateTable, he, lookup_removeObj_self, Bool.false_and,
        Bool.false_eq_true, if_false]
      try (cases (createFresh (removeObj s k) ⟨k, .base, pr.1, none, true⟩ pr.2).2 <;> rfl)

/-- the same for views -/
theorem or_replace_view_eq_drop_create (a : Bool) (s : State) (r : List Ident) (cs : List Col)
    (t : List Char) (k : Key) (e : Entry) (hk : resolveRef r = some k) (he : lookup s k = some e) :
    (step a s (.createView r true (.const cs) t)).1
      = (step a (step a s (dropOfKind r e.kind)).1 (.createView r false (.const cs) t)).1 := by
  have hdrop : step a s (dropOfKind r e.kind) = (removeObj s k, .dropped) := by
    cases hkind : e.kind <;> simp [dropOfKind, step, execDrop, hk, he, hkind]
  rw [hdrop]
  simp only [step, planQuery, hk, execCreateView, he, lookup_removeObj_self]

/-! ## 5. A failed statement must not change the catalog — TRUE for the code as it is now
       (`step true`, /repo 5758ed9), FALSE for the pinned upstream handler (one arm) -/

theorem createFresh_err (s : State) (e : Entry) (b : Bool)
    (h : (createFresh s e b).2.isErr = true) : (createFresh s e b).1 = s := by
  simp only [createFresh] at h ⊢
  split
  · rfl
  · split
    · rename_i h1 h2; simp [h1, h2, Outcome.isErr] at h
    · rfl

theorem execDrop_err (s : State) (r : List Ident) (kind : Kind) (ifx : Bool)
    (h : (execDrop s r kind ifx).2.isErr = true) : (execDrop s r kind ifx).1 = s := by
  simp only [execDrop] at h ⊢
  cases hr : resolveRef r with
  | none => rfl
  | some k =>
    simp only [hr] at h ⊢
    cases hl : lookup s k with
    | none => simp only; split <;> rfl
    | some e =>
      simp only [hl] at h ⊢
      split
      · rename_i hk; simp [hk, Outcome.isErr] at h
      · split <;> rfl

theorem execCreateSchema_err (s : State) (c sc : Name) (ine : Bool)
    (h : (execCreateSchema s c sc ine).2.isErr = true) : (execCreateSchema s c sc ine).1 = s := by
  simp only [execCreateSchema] at h ⊢
  split
  · split <;> rfl
  · rename_i hs; simp [hs, Outcome.isErr] at h

theorem execDropSchema_err (s : State) (c sc : Name) (ifx cascade : Bool)
    (h : (execDropSchema s c sc ifx cascade).2.isErr = true) :
    (execDropSchema s c sc ifx cascade).1 = s := by
  simp only [execDropSchema] at h ⊢
  split
  · split
    · split
      · rename_i h1 h2 h3; simp [h1, h2, h3, Outcome.isErr] at h
      · rfl
    · split <;> rfl
  · split <;> rfl

theorem execCreateView_err (s : State) (k : Key) (orr : Bool) (cols : List Col) (runs : Bool)
    (t : List Char) (hw : Wf s) (h : (execCreateView s k orr cols runs t).2.isErr = true) :
    (execCreateView s k orr cols runs t).1 = s := by
  simp only [execCreateView] at h ⊢
  split
  · -- replace arm: the schema of an existing object exists, so registering cannot fail
    rename_i e hl
    have hm := lookup_some_mem hl
    have hs : hasSchema (removeObj s k) k.cat k.sch = true := by
      have := hw.obj_schema e hm.1
      rw [hm.2] at this
      simp [hasSchema, removeObj, this]
    simp [hl, createFresh, hs, relabel, Outcome.isErr] at h
  · rename_i hl; simp only [hl] at h; exact createFresh_err s _ _ h
  · rfl

theorem execCreateTable_err_repaired (s : State) (k : Key) (ine orr : Bool) (cols : List Col)
    (runs : Bool) (hw : Wf s) (h : (execCreateTable true s k ine orr cols runs).2.isErr = true) :
    (execCreateTable true s k ine orr cols runs).1 = s := by
  simp only [execCreateTable] at h ⊢
  split
  · rfl
  · rename_i e hl
    cases runs with
    | false => simp
    | true =>
      have hm := lookup_some_mem hl
      have hs : hasSchema (removeObj s k) k.cat k.sch = true := by
        have := hw.obj_schema e hm.1
        rw [hm.2] at this
        simp [hasSchema, removeObj, this]
      simp [hl, createFresh, hs, relabel, Outcome.isErr] at h
  · rfl
  · rename_i hl; simp only [hl] at h; exact createFresh_err s _ _ h
  · rfl

/-- the failing-statement law for every statement; the CREATE TABLE case is a parameter -/
theorem failed_stmt_aux (a : Bool) (s : State) (st : Stmt) (hw : Wf s)
    (hct : ∀ r ine orr b, st = .createTable r ine orr b → (step a s st).1 = s)
    (h : (step a s st).2.isErr = true) : (step a s st).1 = s := by
  cases st with
  | createCatalog n ine =>
    simp only [step] at h ⊢
    split
    · split <;> rfl
    · rename_i hc; simp [hc, Outcome.isErr] at h
  | createSchema r ine =>
    simp only [step] at h ⊢
    cases ht : schemaTarget (r.map normalize) with
    | none => rfl
    | some p =>
      simp only [ht] at h ⊢
      split
      · rename_i hc; simp only [hc, if_true] at h; exact execCreateSchema_err _ _ _ _ h
      · rfl
  | dropSchema r ifx cascade =>
    simp only [step] at h ⊢
    cases ht : schemaTarget (r.map normalize) with
    | none => rfl
    | some p => simp only [ht] at h ⊢; exact execDropSchema_err _ _ _ _ _ h
  | createTable r ine orr b => exact hct r ine orr b rfl
  | createView r orr q text =>
    simp only [step] at h ⊢
    cases hp : planQuery s q with
    | error e => rfl
    | ok pr =>
      simp only [hp] at h ⊢
      cases hr : resolveRef r with
      | none => rfl
      | some k => simp only [hr] at h ⊢; exact execCreateView_err _ _ _ _ _ _ hw h
  | dropTable r ifx => exact execDrop_err s r .base ifx h
  | dropView r ifx => exact execDrop_err s r .view ifx h
  | select r =>
    simp only [step]
    cases planQuery s (.src r) with
    | error e => rfl
    | ok pr => simp only; split <;> rfl

/-- what the property demands: a statement that reports failure has not changed the catalog -/
def failed_stmt_changes_nothing_statement (atomic : Bool) : Prop :=
  ∀ (s : State) (st : Stmt), Wf s → (step atomic s st).2.isErr = true → (step atomic s st).1 = s

/-- **failed_stmt_changes_nothing.** In the code as it is now every statement that reports
    failure — any statement, any well-formed state — has left the catalog untouched. -/
theorem failed_stmt_changes_nothing : failed_stmt_changes_nothing_statement true := by
  intro s st hw h
  refine failed_stmt_aux true s st hw ?_ h
  rintro r ine orr b rfl
  simp only [step] at h ⊢
  cases hr : resolveRef r with
  | none => rfl
  | some k =>
    simp only [hr] at h ⊢
    cases hp : planBody s b with
    | error e => rfl
    | ok pr =>
      simp only [hp] at h ⊢
      exact execCreateTable_err_repaired s k ine orr _ _ hw h

def isOrReplaceTable : Stmt → Bool
  | .createTable _ false true _ => true
  | _ => false

/-- the pinned upstream code: every failing statement other than `CREATE OR REPLACE TABLE` leaves
    the catalog untouched … -/
theorem failed_stmt_changes_nothing_partial (s : State) (st : Stmt) (hw : Wf s)
    (hst : isOrReplaceTable st = false) (h : (step false s st).2.isErr = true) :
    (step false s st).1 = s := by
  cases st with
  | createTable r ine orr b =>
    simp only [step] at h ⊢
    cases hr : resolveRef r with
    | none => rfl
    | some k =>
      simp only [hr] at h ⊢
      cases hp : planBody s b with
      | error e => rfl
      | ok pr =>
        simp only [hp, execCreateTable] at h ⊢
        split
        · rfl
        · simp [isOrReplaceTable] at hst
        · rfl
        · rename_i hl; simp only [hl] at h; exact createFresh_err s _ _ h
        · rfl
  | _ => exact failed_stmt_aux false s _ hw (by intro _ _ _ _ heq; cases heq) h

/-- … and that arm really changes the catalog while reporting failure: after
    `CREATE TABLE t(a INT)`, the statement `CREATE OR REPLACE TABLE t AS <query failing at run
    time>` returns an error AND `t` is gone.  So the property's "a failed statement changes
    nothing" was FALSE for the upstream code (kernel-checked witness; repaired by 5758ed9). -/
theorem or_replace_failing_ctas_drops_table : ¬ failed_stmt_changes_nothing_statement false := by
  intro h
  let t : List Ident := [⟨['t'], false⟩]
  let c : List Col := [⟨['a'], ['I','n','t','3','2'], true⟩]
  let s := (step false init (.createTable t false false (.cols c))).1
  have hw : Wf s := inv_step false init _ inv_init
  have := h s (.createTable t false true (.as (.failing c))) hw (by decide)
  revert this
  decide

/-- the witness spelled out: outcome and resulting catalog -/
theorem or_replace_failing_ctas_witness :
    let t : List Ident := [⟨['t'], false⟩]
    let c : List Col := [⟨['a'], ['I','n','t','3','2'], true⟩]
    (run false init [.createTable t false false (.cols c),
                     .createTable t false true (.as (.failing c)),
                     .select t]).2 = [.created, .err .runtime, .err .unresolved] ∧
    (run true init [.createTable t false false (.cols c),
                    .createTable t false true (.as (.failing c)),
                    .select t]).2 = [.created, .err .runtime, .rows c] := by decide

/-! ## 6. information_schema lists exactly the existing objects

The listings enumerate catalog → schema → table like `InformationSchemaConfig::make_*`.  That
every object is reached (and reached under its own names) is where `Wf` ("no dangling schema")
is used.  Exception written into the statement, because the code has it: objects of a user schema
that is itself called `information_schema` are skipped (such a schema can be created with
`CREATE SCHEMA information_schema`; no table can be put into it through SQL). -/

theorem mem_objsOf (s : State) (c sc : Name) (e : Entry) :
    e ∈ objsOf s c sc ↔ e ∈ s.objs ∧ e.key.cat = c ∧ e.key.sch = sc := by
  simp [objsOf, inSchema]

theorem mem_userSchemasOf (s : State) (c sc : Name) :
    sc ∈ userSchemasOf s c ↔ (c, sc) ∈ s.schemas ∧ sc ≠ infoSch := by
  simp only [userSchemasOf, schemasOf, List.mem_filter, List.mem_map, decide_eq_true_eq,
    Bool.not_eq_true', decide_eq_false_iff_not]
  constructor
  · rintro ⟨⟨p, ⟨hp, hc⟩, rfl⟩, hne⟩
    exact ⟨by rw [← hc]; exact hp, hne⟩
  · rintro ⟨hp, hne⟩
    exact ⟨⟨(c, sc), ⟨hp, rfl⟩, rfl⟩, hne⟩

/-- `information_schema.tables` -/
theorem mem_infoTables_iff (s : State) (hw : Wf s) (k : Key) (kind : Kind) :
    (k, kind) ∈ infoTables s ↔
      (∃ e ∈ s.objs, e.key = k ∧ e.kind = kind ∧ k.sch ≠ infoSch) ∨
      (k.cat ∈ s.cats ∧ k.sch = infoSch ∧ k.name ∈ infoNames ∧ kind = .view) := by
  simp only [infoTables, List.mem_flatMap, List.mem_append, List.mem_map, mem_userSchemasOf,
    mem_objsOf, Prod.mk.injEq]
  constructor
  · rintro ⟨c, hc, (⟨sc, ⟨hsc, hne⟩, e, ⟨he, hec, hes⟩, rfl, rfl⟩ | ⟨n, hn, rfl, rfl⟩)⟩
    · exact Or.inl ⟨e, he, rfl, rfl, by rw [hes]; exact hne⟩
    · exact Or.inr ⟨hc, rfl, hn, rfl⟩
  · rintro (⟨e, he, rfl, rfl, hne⟩ | ⟨hc, hs, hn, rfl⟩)
    · have hsch := hw.obj_schema e he
      exact ⟨e.key.cat, hw.schema_cat _ hsch,
        Or.inl ⟨e.key.sch, ⟨hsch, hne⟩, e, ⟨he, rfl, rfl⟩, rfl, rfl⟩⟩
    · refine ⟨k.cat, hc, Or.inr ⟨k.name, hn, ?_, rfl⟩⟩
      cases k; simp_all

/-- `information_schema.columns`: exactly the columns of the existing objects, by position -/
theorem mem_infoColumns_iff (s : State) (hw : Wf s) (k : Key) (i : Nat) (col : Col) :
    (k, i, col) ∈ infoColumns s ↔
      ∃ e ∈ s.objs, e.key = k ∧ k.sch ≠ infoSch ∧ e.cols[i]? = some col := by
  simp only [infoColumns, List.mem_flatMap, List.mem_map, mem_userSchemasOf, mem_objsOf,
    Prod.mk.injEq]
  constructor
  · rintro ⟨c, hc, sc, ⟨hsc, hne⟩, e, ⟨he, hec, hes⟩, ⟨col', i'⟩, hp, rfl, rfl, rfl⟩
    exact ⟨e, he, rfl, by rw [hes]; exact hne, List.mem_zipIdx_iff_getElem?.mp hp⟩
  · rintro ⟨e, he, rfl, hne, hcol⟩
    have hsch := hw.obj_schema e he
    exact ⟨e.key.cat, hw.schema_cat _ hsch, e.key.sch, ⟨hsch, hne⟩, e, ⟨he, rfl, rfl⟩,
      (col, i), List.mem_zipIdx_iff_getElem?.mpr hcol, rfl, rfl, rfl⟩

/-- `information_schema.views` (the code lists base tables too, with a NULL definition) -/
theorem mem_infoViews_iff (s : State) (hw : Wf s) (k : Key) (d : Option (List Char)) :
    (k, d) ∈ infoViews s ↔ ∃ e ∈ s.objs, e.key = k ∧ e.defn = d ∧ k.sch ≠ infoSch := by
  simp only [infoViews, List.mem_flatMap, List.mem_map, mem_userSchemasOf, mem_objsOf,
    Prod.mk.injEq]
  constructor
  · rintro ⟨c, hc, sc, ⟨hsc, hne⟩, e, ⟨he, hec, hes⟩, rfl, rfl⟩
    exact ⟨e, he, rfl, rfl, by rw [hes]; exact hne⟩
  · rintro ⟨e, he, rfl, rfl, hne⟩
    have hsch := hw.obj_schema e he
    exact ⟨e.key.cat, hw.schema_cat _ hsch, e.key.sch, ⟨hsch, hne⟩, e, ⟨he, rfl, rfl⟩, rfl, rfl⟩

/-- `information_schema.schemata` -/
theorem mem_infoSchemata_iff (s : State) (hw : Wf s) (c sc : Name) :
    (c, sc) ∈ infoSchemata s ↔ (c, sc) ∈ s.schemas ∧ sc ≠ infoSch := by
  simp only [infoSchemata, List.mem_flatMap, List.mem_map, mem_userSchemasOf, Prod.mk.injEq]
  constructor
  · rintro ⟨c', hc, sc', ⟨hsc, hne⟩, rfl, rfl⟩
    exact ⟨hsc, hne⟩
  · rintro ⟨hsc, hne⟩
    exact ⟨c, hw.schema_cat _ hsc, sc, ⟨hsc, hne⟩, rfl, rfl⟩

theorem entry_unique_list (l : List Entry) (hn : (l.map (·.key)).Nodup) (e1 e2 : Entry)
    (h1 : e1 ∈ l) (h2 : e2 ∈ l) (hk : e1.key = e2.key) : e1 = e2 := by
  induction l with
  | nil => cases h1
  | cons x xs ih =>
    simp only [List.map_cons, List.nodup_cons, List.mem_map, not_exists, not_and] at hn
    simp only [List.mem_cons] at h1 h2
    rcases h1 with rfl | h1 <;> rcases h2 with rfl | h2
    · rfl
    · exact absurd hk.symm (hn.1 e2 h2)
    · exact absurd hk (hn.1 e1 h1)
    · exact ih hn.2 h1 h2

/-- in a well-formed catalog a key determines its entry -/
theorem entry_unique (s : State) (hw : Wf s) (e1 e2 : Entry) (h1 : e1 ∈ s.objs) (h2 : e2 ∈ s.objs)
    (hk : e1.key = e2.key) : e1 = e2 :=
  entry_unique_list s.objs hw.keys_nodup e1 e2 h1 h2 hk

/-- **info_schema_lists_exactly_state.** After ANY DDL history, for every key outside a schema
    named `information_schema`: `information_schema.tables` shows the key with kind `K` iff the
    catalog holds an object with that key and kind; `columns` shows column `col` at position `i`
    iff that object's `i`-th column is `col`; `views` shows the key with definition `d` iff the
    object's definition is `d`; `schemata` shows exactly the schemas; and what a query sees
    (`lookup`, used by `SELECT`) is that same object. -/
theorem info_schema_lists_exactly_state (a : Bool) (sts : List Stmt) (k : Key)
    (hk : k.sch ≠ infoSch) :
    let s := (run a init sts).1
    (∀ kind, (k, kind) ∈ infoTables s ↔ ∃ e, lookup s k = some e ∧ e.kind = kind) ∧
    (∀ i col, (k, i, col) ∈ infoColumns s ↔ ∃ e, lookup s k = some e ∧ e.cols[i]? = some col) ∧
    (∀ d, (k, d) ∈ infoViews s ↔ ∃ e, lookup s k = some e ∧ e.defn = d) ∧
    (∀ c sc, sc ≠ infoSch → ((c, sc) ∈ infoSchemata s ↔ (c, sc) ∈ s.schemas)) := by
  intro s
  have hw : Wf s := inv_run a sts
  have look : ∀ e, (e ∈ s.objs ∧ e.key = k) ↔ lookup s k = some e := by
    intro e
    constructor
    · rintro ⟨he, hek⟩
      cases hl : lookup s k with
      | none =>
        exact absurd (List.mem_map.mpr ⟨e, he, hek⟩) ((lookup_eq_none_iff s k).mp hl)
      | some e' =>
        have hm := lookup_some_mem hl
        rw [entry_unique s hw e e' he hm.1 (hek.trans hm.2.symm)]
    · exact lookup_some_mem
  refine ⟨?_, ?_, ?_, ?_⟩
  · intro kind
    rw [mem_infoTables_iff s hw]
    constructor
    · rintro (⟨e, he, hek, hkind, _⟩ | ⟨_, hs, _, _⟩)
      · exact ⟨e, (look e).mp ⟨he, hek⟩, hkind⟩
      · exact absurd hs hk
    · rintro ⟨e, hl, hkind⟩
      obtain ⟨he, hek⟩ := (look e).mpr hl
      exact Or.inl ⟨e, he, hek, hkind, hk⟩
  · intro i col
    rw [mem_infoColumns_iff s hw]
    constructor
    · rintro ⟨e, he, hek, _, hc⟩
      exact ⟨e, (look e).mp ⟨he, hek⟩, hc⟩
    · rintro ⟨e, hl, hc⟩
      obtain ⟨he, hek⟩ := (look e).mpr hl
      exact ⟨e, he, hek, hk, hc⟩
  · intro d
    rw [mem_infoViews_iff s hw]
    constructor
    · rintro ⟨e, he, hek, hd, _⟩
      exact ⟨e, (look e).mp ⟨he, hek⟩, hd⟩
    · rintro ⟨e, hl, hd⟩
      obtain ⟨he, hek⟩ := (look e).mpr hl
      exact ⟨e, he, hek, hd, hk⟩
  · intro c sc hne
    rw [mem_infoSchemata_iff s hw]
    exact ⟨fun h => h.1, fun h => ⟨h, hne⟩⟩

/-- without the invariant the listing would miss objects: a table whose schema is not
    registered ("dangling") is invisible — so `Wf` is not decoration -/
example :
    let s : State := { cats := [defaultCat], schemas := [], objs := [⟨⟨defaultCat, defaultSch, ['t']⟩, .base, [], none, true⟩] }
    infoTables s = infoNames.map (fun n => (⟨defaultCat, infoSch, n⟩, Kind.view)) := by decide

/-! ### … and exactly once -/

theorem nodup_flatMap' {α β} {l : List α} {f : α → List β} (hl : l.Nodup)
    (h1 : ∀ a ∈ l, (f a).Nodup)
    (h2 : ∀ a ∈ l, ∀ b ∈ l, a ≠ b → ∀ x ∈ f a, ∀ y ∈ f b, x ≠ y) : (l.flatMap f).Nodup := by
  rw [List.Nodup, List.pairwise_flatMap]
  refine ⟨h1, ?_⟩
  have : List.Pairwise (fun a b => a ≠ b) l := hl
  exact List.Pairwise.imp_of_mem (fun {a b} ha hb hab => h2 a ha b hb hab) this

theorem nodup_map_of_inj {α β} {l : List α} (f : α → β) (hl : l.Nodup)
    (hinj : ∀ a ∈ l, ∀ b ∈ l, f a = f b → a = b) : (l.map f).Nodup := by
  induction l with
  | nil => simp
  | cons x xs ih =>
    simp only [List.nodup_cons] at hl
    simp only [List.map_cons, List.nodup_cons, List.mem_map, not_exists, not_and]
    refine ⟨?_, ih hl.2 (fun a ha b hb => hinj a (List.mem_cons_of_mem _ ha) b (List.mem_cons_of_mem _ hb))⟩
    intro y hy hxy
    have := hinj y (List.mem_cons_of_mem _ hy) x (List.mem_cons_self) hxy
    subst this
    exact hl.1 hy

/-- every key appears at most once in `information_schema.tables`: no object is listed twice -/
theorem infoTables_keys_nodup (s : State) (hw : Wf s) : ((infoTables s).map (·.1)).Nodup := by
  simp only [infoTables, List.map_flatMap, List.map_append, List.map_map]
  refine nodup_flatMap' hw.cats_nodup ?_ ?_
  · intro c hc
    rw [List.nodup_append]
    refine ⟨?_, ?_, ?_⟩
    · -- user rows of catalog c
      refine nodup_flatMap' ?_ ?_ ?_
      · -- schema names of c are distinct
        have : (schemasOf s c).Nodup := by
          simp only [schemasOf]
          refine nodup_map_of_inj _ (List.Nodup.sublist List.filter_sublist hw.schemas_nodup) ?_
          intro a ha b hb hab
          simp only [List.mem_filter, decide_eq_true_eq] at ha hb
          exact Prod.ext (ha.2.trans hb.2.symm) hab
        exact List.Nodup.sublist List.filter_sublist this
      · intro sc _
        have : ((objsOf s c sc).map (·.key)).Nodup := nodup_map_filter _ _ hw.keys_nodup
        simpa [Function.comp_def] using this
      · intro a _ b _ hab x hx y hy
        simp only [List.mem_map, Function.comp_apply, mem_objsOf] at hx hy
        obtain ⟨e1, ⟨_, _, h1⟩, rfl⟩ := hx
        obtain ⟨e2, ⟨_, _, h2⟩, rfl⟩ := hy
        intro h
        exact hab (h1.symm.trans ((congrArg Key.sch h).trans h2))
    · refine nodup_map_of_inj _ (by decide) ?_
      intro a _ b _ h
      simpa using h
    · intro x hx y hy
      simp only [List.mem_flatMap, List.mem_map, Function.comp_apply, mem_objsOf, mem_userSchemasOf] at hx hy
      obtain ⟨sc, ⟨_, hne⟩, e, ⟨_, _, hes⟩, rfl⟩ := hx
      obtain ⟨n, _, rfl⟩ := hy
      intro h
      exact hne (hes.symm.trans (congrArg Key.sch h))
  · intro a _ b _ hab x hx y hy
    have cat_of : ∀ c z, z ∈ ((userSchemasOf s c).flatMap fun sc => (objsOf s c sc).map ((fun p : Key × Kind => p.1) ∘ fun e => (e.key, e.kind)))
        ++ infoNames.map ((fun p : Key × Kind => p.1) ∘ fun n => ((⟨c, infoSch, n⟩ : Key), Kind.view)) → z.cat = c := by
      intro c z hz
      simp only [List.mem_append, List.mem_flatMap, List.mem_map, Function.comp_apply, mem_objsOf] at hz
      rcases hz with ⟨sc, _, e, ⟨_, hc, _⟩, rfl⟩ | ⟨n, _, rfl⟩
      · exact hc
      · rfl
    intro h
    exact hab ((cat_of a x hx).symm.trans ((congrArg Key.cat h).trans (cat_of b y hy)))

/-- only the exact lower-case name `information_schema` is the virtual schema: a QUOTED user schema
    that differs from it in case ("INFORMATION_SCHEMA") is an ordinary schema — it and its tables
    are listed, resolvable and droppable (test; the general statement is
    `info_schema_lists_exactly_state`, whose only exception is `k.sch = infoSch`) -/
example :
    let IS : Ident := ⟨['I','N','F','O','R','M','A','T','I','O','N','_','S','C','H','E','M','A'], true⟩
    let tt : Ident := ⟨['T','a','b','l','e','s'], true⟩
    let c : List Col := [⟨['a'], ['I','n','t','3','2'], true⟩]
    let s := (run true init [.createSchema [IS] false, .createTable [IS, tt] false false (.cols c)]).1
    (defaultCat, normalize IS) ∈ infoSchemata s ∧
    ((⟨defaultCat, normalize IS, normalize tt⟩ : Key), Kind.base) ∈ infoTables s ∧
    (step true s (.select [IS, tt])).2 = .rows c ∧
    (step true s (.dropTable [IS, tt] false)).2 = .dropped := by decide

/-! ## 7. Non-vacuity: one history exercising every statement kind, quoting, qualification,
       IF [NOT] EXISTS, OR REPLACE, CASCADE, views over tables, and failures -/

private def t (s : List Char) : Ident := ⟨s, false⟩
private def q (s : List Char) : Ident := ⟨s, true⟩
private def cA : List Col := [⟨['a'], ['I','n','t','3','2'], true⟩]
private def cB : List Col := [⟨['b'], ['I','n','t','6','4'], false⟩]

example :
    (run true init
      [ .createTable [t ['T']] false false (.cols cA),                       -- created (as `t`)
        .createTable [q ['t']] false false (.cols cA),                       -- exists
        .createTable [q ['T']] true false (.cols cB),                        -- created: "T" ≠ t
        .createTable [t ['p','u','b','l','i','c'], t ['t']] true false (.cols cB),  -- skipped
        .createSchema [t ['S']] false,                                       -- created
        .createTable [t ['s'], t ['x']] false false (.as (.src [t ['t']])),  -- CTAS from t
        .createView [t ['v']] false (.src [t ['s'], t ['x']]) ['d'],         -- view
        .dropTable [t ['v']] false,                                          -- a view is no table
        .dropSchema [t ['s']] true false,                                    -- non-empty
        .createTable [t ['v']] false true (.as (.const cB)),                 -- replaces the view
        .dropSchema [t ['s']] false true,                                    -- cascade
        .select [t ['s'], t ['x']],                                          -- gone
        .select [t ['v']],
        .createCatalog (t ['c']) false,
        .createTable [t ['c'], t ['s'], t ['y']] false false (.cols cA),     -- no such schema
        .createSchema [t ['c'], t ['s']] true,
        .createTable [t ['c'], t ['s'], t ['y']] true true (.cols cA),       -- (true,true,absent) creates
        .createTable [t ['c'], t ['s'], t ['y']] true true (.cols cA),       -- conflict
        .dropView [t ['a'], t ['b'], t ['c'], t ['d']] true ]).2
      = [ .created, .err .exists, .created, .skipped, .created, .created, .created,
          .err .missing, .err .nonEmpty, .replaced, .dropped, .err .unresolved, .rows cB,
          .created, .err .unresolved, .created, .created, .err .conflict, .err .badName ] := by
  decide

end DfModel.Props.C49
