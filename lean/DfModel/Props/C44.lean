/-
  C44 — files with a differing schema are read faithfully into the table schema.

  Theorems about `DfModel.SchemaAdapt` (model of `DefaultPhysicalExprAdapter` / `BatchAdapter`,
  tied to the code by `./check C44`).
-/
import DfModel.Mech.SchemaAdapt
namespace DfModel.Props.C44
open DfModel.ScalarModel DfModel.SchemaAdapt

deriving instance DecidableEq for Except

/-! ## columns are resolved by name -/

/-- closed form of one adapted column -/
theorem adaptCol_eq (row : FileRow) (c : TCol) :
    adaptCol row c =
      match lookup row c.name with
      | none => if c.nullable then .ok none else .error .missingNonNull
      | some f =>
        if f.ty = c.ty && f.nullable = c.nullable then .ok f.v
        else if canCast f.ty c.ty then castVal f.ty f.v c.ty else .error .incompatible := by
  unfold adaptCol planColumn
  cases hl : lookup row c.name with
  | none =>
    simp only
    cases c.nullable <;> simp [runPlan]
  | some f =>
    simp only
    by_cases h1 : (decide (f.ty = c.ty) && decide (f.nullable = c.nullable)) = true
    · simp only [h1, ite_true, runPlan, hl]
    · by_cases h2 : canCast f.ty c.ty = true
      · simp only [h1, h2, ite_true, ite_false, runPlan, hl, Bool.false_eq_true]
      · simp only [h1, h2, ite_false, Bool.false_eq_true]

/-- the adapted row depends on the file row only through the by-name lookups of the table's columns -/
theorem adapt_congr (row row' : FileRow) (ts : TableSchema)
    (h : ∀ c ∈ ts, lookup row' c.name = lookup row c.name) : adapt row' ts = adapt row ts := by
  induction ts with
  | nil => rfl
  | cons c cs ih =>
    have hc : adaptCol row' c = adaptCol row c := by
      rw [adaptCol_eq, adaptCol_eq, h c (by simp)]
    simp only [adapt, hc, ih (fun c hc' => h c (by simp [hc']))]

theorem lookup_perm (row row' : FileRow) (hp : row.Perm row') (hnd : (row.map (·.name)).Nodup)
    (n : String) : lookup row' n = lookup row n := by
  induction hp with
  | nil => rfl
  | cons x _ ih =>
    simp only [List.map_cons, List.nodup_cons] at hnd
    simp only [lookup, List.find?_cons]
    split
    · rfl
    · exact ih hnd.2
  | swap x y l =>
    simp only [List.map_cons, List.nodup_cons, List.mem_cons, not_or] at hnd
    simp only [lookup, List.find?_cons]
    by_cases hx : (x.name == n) = true <;> by_cases hy : (y.name == n) = true
    · have h1 : x.name = n := by simpa using hx
      have h2 : y.name = n := by simpa using hy
      exact absurd (h2.trans h1.symm) hnd.1.1
    · simp [hx, hy]
    · simp [hx, hy]
    · simp [hx, hy]
  | trans h1 _ ih1 ih2 =>
    have hnd2 := (h1.map (·.name)).nodup_iff.mp hnd
    rw [ih2 hnd2, ih1 hnd]

/-- **Order invariance**: permuting the file's columns (values travelling with them) does not
    change the adapted row, as long as the file's column names are distinct. -/
theorem adapt_order_invariant (row row' : FileRow) (ts : TableSchema) (hp : row.Perm row')
    (hnd : (row.map (·.name)).Nodup) : adapt row' ts = adapt row ts :=
  adapt_congr row row' ts (fun c _ => lookup_perm row row' hp hnd c.name)

/-- **Missing columns read as NULL** (when the table column is nullable; otherwise the scan fails
    with the dedicated error) -/
theorem adapt_missing_is_null (row : FileRow) (c : TCol) (h : lookup row c.name = none) :
    adaptCol row c = if c.nullable then .ok none else .error .missingNonNull := by
  rw [adaptCol_eq, h]

theorem lookup_append_of_not_mem (row : FileRow) (e : FCol) (n : String) (h : e.name ≠ n) :
    lookup (row ++ [e]) n = lookup row n := by
  simp only [lookup, List.find?_append]
  cases List.find? (fun c => c.name == n) row with
  | some x => rfl
  | none => simp [List.find?_cons, h]

/-- **Extra file columns are ignored**: a file column whose name no table column carries does not
    influence the adapted row, wherever it sits … -/
theorem adapt_extra_ignored (row : FileRow) (e : FCol) (ts : TableSchema)
    (h : ∀ c ∈ ts, c.name ≠ e.name) :
    adapt (row ++ [e]) ts = adapt row ts ∧ adapt (e :: row) ts = adapt row ts := by
  constructor
  · exact adapt_congr row _ ts (fun c hc => lookup_append_of_not_mem row e c.name (fun h' => h c hc h'.symm))
  · refine adapt_congr row _ ts (fun c hc => ?_)
    have : (e.name == c.name) = false := by simpa using fun h' => h c hc h'.symm
    simp [lookup, List.find?_cons, this]

/-- … and a DUPLICATE name later in the file is shadowed by the first occurrence (`index_of`). -/
theorem adapt_first_match_wins (row : FileRow) (e : FCol) (ts : TableSchema)
    (h : ∃ f, lookup row e.name = some f) : adapt (row ++ [e]) ts = adapt row ts := by
  refine adapt_congr row _ ts (fun c _ => ?_)
  by_cases hn : e.name = c.name
  · obtain ⟨f, hf⟩ := h
    rw [hn] at hf
    simp only [lookup] at hf ⊢
    rw [List.find?_append, hf]; rfl
  · exact lookup_append_of_not_mem row e c.name hn

/-- positional reading of the adapted row -/
theorem adapt_get (row : FileRow) : ∀ (ts : TableSchema) (vals : List (Option PVal)),
    adapt row ts = .ok vals → vals.length = ts.length ∧
    ∀ (i : Nat) (hi : i < ts.length), ∃ v, adaptCol row ts[i] = .ok v ∧ vals[i]? = some v := by
  intro ts
  induction ts with
  | nil => intro vals h; simp [adapt] at h; subst h; simp
  | cons c cs ih =>
    intro vals h
    simp only [adapt] at h
    cases hc : adaptCol row c with
    | error e => rw [hc] at h; simp at h
    | ok v =>
      cases hr : adapt row cs with
      | error e => rw [hc, hr] at h; simp at h
      | ok vs =>
        rw [hc, hr] at h
        simp only [Except.ok.injEq] at h
        subst h
        obtain ⟨hl, hg⟩ := ih vs hr
        refine ⟨by simp [hl], ?_⟩
        intro i hi
        cases i with
        | zero => exact ⟨v, hc, rfl⟩
        | succ j =>
          obtain ⟨w, hw1, hw2⟩ := hg j (by simpa using hi)
          exact ⟨w, by simpa using hw1, by simpa using hw2⟩

/-! ## the rewritten filter selects the same rows -/

/-- **`filter_rewrite_commutes`**: for every table-level predicate `f` over the modelled operators,
    whenever the adapter can rewrite it against the file schema, evaluating the REWRITTEN predicate
    on the raw file row gives exactly what evaluating `f` on the ADAPTED row gives — value for value,
    NULL for NULL and failure for failure (a cast that fails in one fails in the other). -/
theorem filter_rewrite_commutes (row : FileRow) (ts : TableSchema) :
    ∀ (f f' : Expr), f.plain = true → rewriteFilter row ts f = .ok f' →
      evalFile row f' = evalTable row ts f := by
  intro f
  unfold evalFile evalTable
  induction f with
  | col n =>
    intro f' _ h
    simp only [rewriteFilter] at h
    cases hf : ts.find? (fun c => c.name == n) with
    | none => rw [hf] at h; cases h
    | some c =>
      rw [hf] at h
      simp only at h
      have hcn : c.name = n := by
        have := List.find?_some hf
        simpa using this
      simp only [eval, tableEnv, hf, adaptCol]
      cases hp : planColumn row c with
      | error e => rw [hp] at h; cases h
      | ok p =>
        rw [hp] at h
        cases p with
        | nullLit t => simp only [Except.ok.injEq] at h; subst h; simp [eval, runPlan]
        | direct m =>
          simp only [Except.ok.injEq] at h; subst h
          simp [eval, runPlan, fileEnv]
        | cast m s t =>
          simp only [Except.ok.injEq] at h; subst h
          simp [eval, runPlan, fileCastEnv]
  | lit v => intro f' _ h; simp only [rewriteFilter, Except.ok.injEq] at h; subst h; rfl
  | castCol n s t => intro f' hp _; simp [Expr.plain] at hp
  | eq a b iha ihb =>
    intro f' hp h
    simp only [Expr.plain, Bool.and_eq_true] at hp
    simp only [rewriteFilter, bind, Except.bind, pure, Except.pure] at h
    cases ha : rewriteFilter row ts a with
    | error e => rw [ha] at h; cases h
    | ok a' =>
      cases hb : rewriteFilter row ts b with
      | error e => rw [ha, hb] at h; cases h
      | ok b' =>
        rw [ha, hb] at h
        simp only [Except.ok.injEq] at h; subst h
        simp only [eval, iha a' hp.1 ha, ihb b' hp.2 hb]
  | lt a b iha ihb =>
    intro f' hp h
    simp only [Expr.plain, Bool.and_eq_true] at hp
    simp only [rewriteFilter, bind, Except.bind, pure, Except.pure] at h
    cases ha : rewriteFilter row ts a with
    | error e => rw [ha] at h; cases h
    | ok a' =>
      cases hb : rewriteFilter row ts b with
      | error e => rw [ha, hb] at h; cases h
      | ok b' =>
        rw [ha, hb] at h
        simp only [Except.ok.injEq] at h; subst h
        simp only [eval, iha a' hp.1 ha, ihb b' hp.2 hb]
  | and a b iha ihb =>
    intro f' hp h
    simp only [Expr.plain, Bool.and_eq_true] at hp
    simp only [rewriteFilter, bind, Except.bind, pure, Except.pure] at h
    cases ha : rewriteFilter row ts a with
    | error e => rw [ha] at h; cases h
    | ok a' =>
      cases hb : rewriteFilter row ts b with
      | error e => rw [ha, hb] at h; cases h
      | ok b' =>
        rw [ha, hb] at h
        simp only [Except.ok.injEq] at h; subst h
        simp only [eval, iha a' hp.1 ha, ihb b' hp.2 hb]
  | or a b iha ihb =>
    intro f' hp h
    simp only [Expr.plain, Bool.and_eq_true] at hp
    simp only [rewriteFilter, bind, Except.bind, pure, Except.pure] at h
    cases ha : rewriteFilter row ts a with
    | error e => rw [ha] at h; cases h
    | ok a' =>
      cases hb : rewriteFilter row ts b with
      | error e => rw [ha, hb] at h; cases h
      | ok b' =>
        rw [ha, hb] at h
        simp only [Except.ok.injEq] at h; subst h
        simp only [eval, iha a' hp.1 ha, ihb b' hp.2 hb]
  | not a iha =>
    intro f' hp h
    simp only [Expr.plain] at hp
    simp only [rewriteFilter, bind, Except.bind, pure, Except.pure] at h
    cases ha : rewriteFilter row ts a with
    | error e => rw [ha] at h; cases h
    | ok a' =>
      rw [ha] at h
      simp only [Except.ok.injEq] at h; subst h
      simp only [eval, iha a' hp ha]
  | isNull a iha =>
    intro f' hp h
    simp only [Expr.plain] at hp
    simp only [rewriteFilter, bind, Except.bind, pure, Except.pure] at h
    cases ha : rewriteFilter row ts a with
    | error e => rw [ha] at h; cases h
    | ok a' =>
      rw [ha] at h
      simp only [Except.ok.injEq] at h; subst h
      simp only [eval, iha a' hp ha]

-- non-vacuity: an Int32 file column read as Int64 + a missing column + an extra column, and a
-- filter over both table columns
def exRow : FileRow := [⟨"b", .int true 32, true, some (.i 7)⟩, ⟨"zz", .str .norm, true, none⟩]
def exTable : TableSchema := [⟨"a", .str .norm, true⟩, ⟨"b", .int true 64, true⟩]
example : adapt exRow exTable = .ok [none, some (.i 7)] := by decide
example : rewriteFilter exRow exTable (.and (.isNull (.col "a")) (.lt (.col "b") (.lit (some (.i 9)))))
    = .ok (.and (.isNull (.lit none)) (.lt (.castCol "b" (.int true 32) (.int true 64)) (.lit (some (.i 9))))) := by
  rfl
example : evalTable exRow exTable (.and (.isNull (.col "a")) (.lt (.col "b") (.lit (some (.i 9)))))
    = .ok (some (.b true)) := by decide
-- a failing cast fails on both sides: Int64 300 read into an Int8 table column
example : adapt [⟨"b", .int true 64, true, some (.i 300)⟩] [⟨"b", .int true 8, true⟩] = .error .cast := by decide

end DfModel.Props.C44
