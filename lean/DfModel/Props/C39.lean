/-
  C39 — DML on memory tables follows SQL semantics.

  `Sm.MemTable.step` is the batch-wise / column-major model of the code (`delete_from_inner`,
  `update_inner`, `evaluate_filters_to_mask`, `evaluate_selection`, `MemSink::write_all`);
  `specStmt` is the row-by-row SQL reading.  The theorems say that for EVERY layout (any number of
  partitions, any batching, empty batches anywhere), every WHERE and every assignment list the code
  model reports the specified count and leaves the specified rows, and fails exactly when the
  specification is undefined (some conjunct, or an assignment of a selected row, raises a run-time
  error).  What is NOT SQL-like in the code is stated too: a failing UPDATE/DELETE is not atomic
  (`failed_update_not_atomic`).
-/
import DfModel.Sm.MemTable
import DfModel.Proofs.C39d
namespace DfModel.Props.C39
open DfModel DfModel.Sm.MemTable DfModel.Proofs.C39

/-! ### WHERE: the split conjuncts mean the SQL predicate -/

theorem toOption_bind {ε α β : Type} (x : Except ε α) (f : α → Except ε β) :
    (x >>= f).toOption = x.toOption.bind (fun a => (f a).toOption) := by
  cases x <;> rfl

/-- `extract_dml_filters` hands the top-level conjuncts of WHERE to the table one by one; a row is
    selected (all conjuncts TRUE) exactly when the SQL predicate `holds` on it, and the evaluation
    fails on a row exactly when the predicate's evaluation fails (AND evaluates both operands). -/
theorem pred_conjuncts (e : Expr) (r : Row) : predRow (conjuncts e) r = (holds e r).toOption := by
  have single : ∀ e : Expr, predRow [e] r = (holds e r).toOption := by
    intro e
    simp only [predRow, List.mapM_cons, List.mapM_nil, tv, holds]
    cases evalTri e r with
    | error _ => rfl
    | ok x => cases x <;> rfl
  have key : ∀ (a b : Expr), predRow (conjuncts a) r = (holds a r).toOption →
      predRow (conjuncts b) r = (holds b r).toOption →
      predRow (conjuncts a ++ conjuncts b) r = (holds (.bin .and a b) r).toOption := by
    intro a b ha hb
    have happ : predRow (conjuncts a ++ conjuncts b) r
        = (predRow (conjuncts a) r).bind (fun p => (predRow (conjuncts b) r).map (fun q => p && q)) := by
      simp only [predRow, mapM_append']
      cases (conjuncts a).mapM (fun f => tv f r) <;> cases (conjuncts b).mapM (fun f => tv f r) <;>
        simp [List.all_append]
    rw [happ, ha, hb]
    simp only [holds, evalTri, eval]
    cases eval a r with
    | error _ => rfl
    | ok x =>
      cases eval b r with
      | error _ =>
        cases x with
        | bool bx => cases bx <;> rfl
        | null => rfl
        | int _ _ _ => rfl
        | str _ => rfl
      | ok y =>
        cases x with
        | bool bx =>
          cases y with
          | bool by' => cases bx <;> cases by' <;> rfl
          | null => cases bx <;> rfl
          | int _ _ _ => cases bx <;> rfl
          | str _ => cases bx <;> rfl
        | null =>
          cases y with
          | bool by' => cases by' <;> rfl
          | null => rfl
          | int _ _ _ => rfl
          | str _ => rfl
        | int _ _ _ => cases y <;> rfl
        | str _ => cases y <;> rfl
  fun_induction conjuncts e with
  | case1 a b iha ihb => exact key a b iha ihb
  | case2 e _ => exact single e

/-! ### statement-level refinement -/

/-- **DELETE**: for every layout the batch-wise code model reports the row-wise count, leaves the
    row-wise rows, and fails iff the row-wise specification is undefined. -/
theorem step_delete_refines (w : Nat) (l : Layout) (wh : Option Expr) :
    (step w l (.delete wh)).2 = (specStmt w (rows l) (.delete wh)).map (·.1) ∧
    ∀ x, specStmt w (rows l) (.delete wh) = some x → rows (step w l (.delete wh)).1 = x.2 := by
  have h := runParts_spec (deletePart (filtersOf wh)) (delRow (filtersOf wh))
    (deletePart_spec (filtersOf wh)) l 0
  simp only [step, specStmt]
  refine ⟨?_, h.2⟩
  rw [h.1]
  cases specRows (delRow (filtersOf wh)) (rows l) <;> simp

/-- **UPDATE**: the same for UPDATE (column-major `evaluate_selection`/`zip` over the ORIGINAL
    batch = row by row, every assignment evaluated on the pre-update row). -/
theorem step_update_refines (w : Nat) (l : Layout) (asg : List (Nat × Expr)) (wh : Option Expr) :
    (step w l (.update asg wh)).2 = (specStmt w (rows l) (.update asg wh)).map (·.1) ∧
    ∀ x, specStmt w (rows l) (.update asg wh) = some x → rows (step w l (.update asg wh)).1 = x.2 := by
  simp only [step, specStmt]
  split
  · simp
  · have h := runParts_spec (updatePart w asg (filtersOf wh)) (updRow w asg (filtersOf wh))
      (updatePart_spec w asg (filtersOf wh)) l 0
    refine ⟨?_, h.2⟩
    rw [h.1]
    cases specRows (updRow w asg (filtersOf wh)) (rows l) <;> simp

/-- **delete_spec.**  A successful DELETE leaves exactly the rows whose WHERE is not TRUE (FALSE and
    NULL rows stay), in their old order, and reports the number of rows whose WHERE is TRUE. -/
theorem delete_spec (w : Nat) (l l' : Layout) (wh : Option Expr) (n : Nat)
    (h : step w l (.delete wh) = (l', some n)) :
    rows l' = (rows l).filter (fun r => predRow (filtersOf wh) r != some true) ∧
    n = (rows l).countP (fun r => predRow (filtersOf wh) r == some true) ∧
    ∀ r ∈ rows l, (predRow (filtersOf wh) r).isSome = true := by
  obtain ⟨h1, h2⟩ := step_delete_refines w l wh
  rw [h] at h1 h2
  simp only [specStmt, specRows_delRow] at h1 h2
  cases hp : (rows l).mapM (predRow (filtersOf wh)) with
  | none => simp [hp] at h1
  | some ps =>
    simp only [hp, Option.map_some, Option.some.injEq] at h1 h2
    obtain ⟨f1, f2, f3⟩ := mapM_pred_filter _ _ _ hp
    have := h2 _ rfl
    simp only at this
    exact ⟨by rw [this, f1], by rw [h1, f2], f3⟩

/-- **update_spec.**  A successful UPDATE maps every row through `updRow`: the reported count is
    the number of rows whose WHERE is TRUE, the table keeps its number of rows and their order. -/
theorem update_spec (w : Nat) (l l' : Layout) (asg : List (Nat × Expr)) (wh : Option Expr) (n : Nat)
    (h : step w l (.update asg wh) = (l', some n)) :
    ∃ us, (rows l).mapM (updRow w asg (filtersOf wh)) = some us ∧
      rows l' = (us.map (·.2)).flatten ∧ n = us.countP (·.1) ∧
      n = (rows l).countP (fun r => predRow (filtersOf wh) r == some true) ∧
      (rows l').length = (rows l).length := by
  obtain ⟨h1, h2⟩ := step_update_refines w l asg wh
  rw [h] at h1 h2
  simp only [specStmt] at h1 h2
  by_cases hv : (asg.any fun a => decide (w ≤ a.1)) = true
  · simp [hv] at h1
  · simp only [hv, if_false, Bool.false_eq_true, specRows] at h1 h2
    cases hu : (rows l).mapM (updRow w asg (filtersOf wh)) with
    | none => simp [hu] at h1
    | some us =>
      simp only [hu, Option.map_some, Option.some.injEq] at h1 h2
      have hr := h2 _ rfl
      simp only at hr
      obtain ⟨c1, c2⟩ := updRow_counts w asg (filtersOf wh) (rows l) us hu
      exact ⟨us, rfl, hr, h1, by rw [h1, c1], by rw [hr, c2]⟩

/-- rows whose WHERE is FALSE or NULL are untouched -/
theorem update_untouched (w : Nat) (asg : List (Nat × Expr)) (fs : List Expr) (r : Row)
    (h : predRow fs r = some false) : updRow w asg fs r = some (false, [r]) := by
  simp [updRow, h]

/-- **all assignments read the PRE-update row**: in the new row of a selected row of full width,
    every assigned column `j` holds the value of its expression evaluated on the OLD row `r` (so
    `SET a = b, b = a` swaps), every other column is unchanged, the width is kept. -/
theorem update_reads_pre_row (w : Nat) (asg : List (Nat × Expr)) (fs : List Expr) (r r' : Row)
    (hw : r.length = w) (hsel : predRow fs r = some true) (h : updRow w asg fs r = some (true, [r'])) :
    r'.length = w ∧ ∀ j, j < w →
      r'[j]? = match asg.lookup j with
        | some e => ev e r
        | none => r[j]? := by
  simp only [updRow, hsel, Option.bind_eq_bind, Option.bind_some, if_true, Option.map_eq_some_iff,
    Prod.mk.injEq, true_and, List.cons.injEq, and_true, exists_eq_right] at h
  obtain ⟨hl, hin, hout⟩ := assign_get r (ordered w asg) r r' (ordered_nodup w asg) h
  refine ⟨by omega, ?_⟩
  intro j hj
  cases hlk : asg.lookup j with
  | some e => exact hin j e ((ordered_mem w asg j e).mpr ⟨hj, hlk⟩) (by omega)
  | none =>
    apply hout j
    intro e hm
    have := ((ordered_mem w asg j e).mp hm).2
    rw [hlk] at this
    cases this

/-- **batchwise_eq_rowwise.**  The outcome of DELETE / UPDATE does not depend on how the rows are
    split into partitions and batches: two layouts holding the same rows report the same count (or
    both fail), and after success hold the same rows. -/
theorem batchwise_eq_rowwise (w : Nat) (l₁ l₂ : Layout) (s : Stmt) (hrows : rows l₁ = rows l₂)
    (hs : ∀ bs, s ≠ .insert bs) :
    (step w l₁ s).2 = (step w l₂ s).2 ∧
    ((step w l₁ s).2.isSome → rows (step w l₁ s).1 = rows (step w l₂ s).1) := by
  cases s with
  | insert bs => exact absurd rfl (hs bs)
  | delete wh =>
    obtain ⟨a1, a2⟩ := step_delete_refines w l₁ wh
    obtain ⟨b1, b2⟩ := step_delete_refines w l₂ wh
    rw [hrows] at a1 a2
    refine ⟨by rw [a1, b1], ?_⟩
    intro hsome
    cases hx : specStmt w (rows l₂) (.delete wh) with
    | none => rw [a1, hx] at hsome; simp at hsome
    | some x => rw [a2 x hx, b2 x hx]
  | update asg wh =>
    obtain ⟨a1, a2⟩ := step_update_refines w l₁ asg wh
    obtain ⟨b1, b2⟩ := step_update_refines w l₂ asg wh
    rw [hrows] at a1 a2
    refine ⟨by rw [a1, b1], ?_⟩
    intro hsome
    cases hx : specStmt w (rows l₂) (.update asg wh) with
    | none => rw [a1, hx] at hsome; simp at hsome
    | some x => rw [a2 x hx, b2 x hx]

/-! ### INSERT -/

/-- **INSERT** (`MemSink::write_all`): with at least one partition (`MemTable::try_new` requires it) the
    table afterwards holds the old rows plus the rows of the arriving batches, as a bag — the
    round-robin distribution loses and duplicates nothing, for any number of partitions and any
    batching of the input — and the reported count is the number of arriving rows. -/
theorem insert_spec (w : Nat) (l : Layout) (bs : List Batch) (hl : l ≠ []) :
    (step w l (.insert bs)).2 = some (bs.map List.length).sum ∧
    (rows (step w l (.insert bs)).1).Perm (rows l ++ bs.flatten) :=
  ⟨rfl, insertBatches_perm l bs hl⟩

/-- existing data is never touched: the number of partitions is kept and every partition keeps its
    batches as a prefix -/
theorem insert_keeps_existing (w : Nat) (l : Layout) (bs : List Batch) :
    (step w l (.insert bs)).1.length = l.length ∧
    ∀ i (h : i < l.length), ∃ tail, (step w l (.insert bs)).1[i]? = some (l[i] ++ tail) := by
  refine ⟨by simp [step, insertBatches], ?_⟩
  intro i h
  refine ⟨rrTail l.length i bs, ?_⟩
  simp [step, insertBatches, h]

/-! ### what is NOT SQL-like: a failing statement is not atomic -/

/-- Partitions are committed one at a time.  Two partitions, `UPDATE t SET c0 = 10 / c1`: the first
    partition is updated, the second one hits a division by zero — the statement fails, yet the
    first partition stays modified (a kernel-checked run of the code model; reproduced on the real
    engine, notes/C39.md). -/
theorem failed_update_not_atomic :
    let l : Layout := [[[[.int 64 true 1, .int 64 true 5]]], [[[.int 64 true 2, .int 64 true 0]]]]
    let s : Stmt := .update [(0, .bin .div (.lit (.int 64 true 10)) (.col 1))] none
    step 2 l s = ([[[[.int 64 true 2, .int 64 true 5]]], [[[.int 64 true 2, .int 64 true 0]]]], none) := by
  decide

/-! ### non-vacuity -/

-- DELETE with a three-valued WHERE over two partitions, an empty batch, NULLs: `c0 > 1` is TRUE for 2
-- and 3, NULL for the NULL row (kept), FALSE for 1 (kept); the emptied batch disappears.
example :
    step 1 [[[[.int 64 true 1], [.null]], [], [[.int 64 true 2]]], [[[.int 64 true 3]]]]
      (.delete (some (.bin .gt (.col 0) (.lit (.int 64 true 1)))))
    = ([[[[.int 64 true 1], [.null]]], []], some 2) := by decide

-- UPDATE `SET c0 = c1, c1 = c0 WHERE c0 < c1`: a swap, both assignments read the old row
example :
    step 2 [[[[.int 64 true 1, .int 64 true 2], [.int 64 true 5, .int 64 true 3]]]]
      (.update [(0, .col 1), (1, .col 0)] (some (.bin .lt (.col 0) (.col 1))))
    = ([[[[.int 64 true 2, .int 64 true 1], [.int 64 true 5, .int 64 true 3]]]], some 1) := by decide

-- an assignment that would fail on an UNSELECTED row does not fail the statement
example :
    step 2 [[[[.int 64 true 1, .int 64 true 0], [.int 64 true 7, .int 64 true 2]]]]
      (.update [(0, .bin .div (.col 0) (.col 1))] (some (.bin .ne (.col 1) (.lit (.int 64 true 0)))))
    = ([[[[.int 64 true 1, .int 64 true 0], [.int 64 true 3, .int 64 true 2]]]], some 1) := by decide

-- INSERT: three arriving batches over two partitions go 0, 1, 0
example :
    step 1 [[[[.null]]], []] (.insert [[[.int 64 true 1]], [[.int 64 true 2]], [[.int 64 true 3]]])
    = ([[[[.null]], [[.int 64 true 1]], [[.int 64 true 3]]], [[[.int 64 true 2]]]], some 3) := by decide

end DfModel.Props.C39
