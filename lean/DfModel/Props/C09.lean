/-
  C09 — window functions match their frame definitions.

  One partition, rows in ORDER BY order, one nullable integer order key with `{descending, nulls_first}`.
  The declarative frame of row `i` is a predicate on row indices (`rowsLowerOk/UpperOk`, `rangeLowerOk/UpperOk`,
  peer-group offsets for GROUPS — `Mech/WindowFrame.lean`).
-/
import DfModel.Mech.WindowFrame
import DfModel.Proofs.C09
import DfModel.Proofs.C07d
import DfModel.Proofs.C08Order
namespace DfModel.Props.C09
open DfModel.RowOrd DfModel.Mech.AggAcc DfModel.Mech.WindowFrame DfModel.Proofs.C09 DfModel.Proofs.C07
open DfModel.Proofs.C08Order

/-- **rows_range_eq_spec** (ROWS): for every pair of bounds accepted by `calculate_range_rows` and every
    row `i` of a partition of `len` rows, the half-open index range it returns contains exactly the rows of
    the declarative frame — including saturation at both partition ends and empty frames. -/
theorem rows_range_eq_spec (s e : Bound) (len i lo hi : Nat) (hi_lt : i < len)
    (hs : rowsStart s len i = some lo) (he : rowsEnd e len i = some hi) (j : Nat) :
    (lo ≤ j ∧ j < hi) ↔ (j < len ∧ rowsLowerOk s i j ∧ rowsUpperOk e i j) :=
  rows_frame s e len i lo hi hi_lt hs he j

/-- the erroneous frames are exactly those rejected -/
theorem rows_invalid_iff (s e : Bound) (len i : Nat) :
    (rowsStart s len i = none ↔ s = .unbFoll) ∧ (rowsEnd e len i = none ↔ e = .unbPrec) := by
  cases s <;> cases e <;> simp [rowsStart, rowsEnd]

-- saturation and an empty frame: 3 rows, row 0, `2 PRECEDING .. 1 PRECEDING` is empty; row 2 sees [0,2)
example : rowsStart (.prec 2) 3 0 = some 0 ∧ rowsEnd (.prec 1) 3 0 = some 0 ∧
    rowsStart (.prec 2) 3 2 = some 0 ∧ rowsEnd (.prec 1) 3 2 = some 2 ∧
    rowsStart (.foll 5) 3 1 = some 3 ∧ rowsEnd (.foll 7) 3 1 = some 3 := by decide

/-- the comparison used by the RANGE searches is monotone along a sorted key column -/
theorem lt_mono (o : SortOpt) (a b t : NVal) (hab : cmpVal o a b ≠ .gt) (hb : cmpVal o b t = .lt) :
    cmpVal o a t = .lt := by
  cases h : cmpVal o a b with
  | lt => exact cmpVal_lt_trans o a b t h hb
  | eq => rw [(cmpVal_eq_iff o a b).mp h]; exact hb
  | gt => exact absurd h hab

theorem le_mono (o : SortOpt) (a b t : NVal) (hab : cmpVal o a b ≠ .gt) (hb : cmpVal o b t ≠ .gt) :
    cmpVal o a t ≠ .gt := by
  have key : ∀ x y : NVal, cmpRows [o] [x] [y] = cmpVal o x y := by
    intro x y; simp only [cmpRows]; cases cmpVal o x y <;> rfl
  have := cmpRows_trans [o] [a] [b] [t] rfl rfl
  rw [key, key, key] at this
  exact this hab hb

/-- **range_search_eq_spec** (RANGE, offsets that stay in the i64 range): on a key column sorted by the
    ORDER BY option, the memoised linear scan `calculate_index_of_row` started at a position before which
    every row satisfies the search predicate (the previous frame's bound, by monotonicity of frames) returns
    the boundary of the declarative frame: row `j` is below the returned index iff it is before the target
    (start bound) / not after the target (end bound). -/
theorem range_search_eq_spec (o : SortOpt) (keys : List NVal) (side searchSide : Bool) (delta : Option Nat)
    (searchStart i : Nat) (t : NVal)
    (ht : target o (keys.getD i none) searchSide delta = some t)
    (hsorted : ∀ j, j + 1 < keys.length → cmpVal o (keys[j]!) (keys[j + 1]!) ≠ .gt)
    (hs : searchStart ≤ keys.length)
    (hmemo : ∀ j, j < searchStart →
      (if side then cmpVal o (keys[j]!) t == .lt else cmpVal o (keys[j]!) t != .gt) = true)
    (j : Nat) (hj : j < keys.length) :
    j < rangeBound o keys side searchSide delta searchStart i ↔
      (if side then cmpVal o (keys[j]!) t == .lt else cmpVal o (keys[j]!) t != .gt) = true := by
  simp only [rangeBound, ht]
  apply searchFrom_spec _ keys searchStart hs hmemo _ j hj
  intro m hm hp
  cases side with
  | true =>
    simp only [if_true, beq_iff_eq] at hp ⊢
    exact lt_mono o _ _ t (hsorted m hm) hp
  | false =>
    simp only [Bool.false_eq_true, if_false, bne_iff_ne, ne_eq] at hp ⊢
    exact le_mono o _ _ t (hsorted m hm) hp

/-- full statement for RANGE including offsets that overflow: the mechanism's frame is the declarative one -/
def range_overflow_statement : Prop :=
  ∀ (o : SortOpt) (keys : List NVal) (e : Bound) (i j : Nat) (lo hi : Nat),
    (∀ m, m + 1 < keys.length → cmpVal o (keys[m]!) (keys[m + 1]!) ≠ .gt) → i < keys.length → j < keys.length →
    rangeRange o keys .cur e (0, 0) i = some (lo, hi) →
    ((lo ≤ j ∧ j < hi) ↔ (rangeLowerOk o .cur (keys.getD i none) (keys.getD j none) &&
                          rangeUpperOk o e (keys.getD i none) (keys.getD j none)) = true)

/-- **the RANGE frame is wrong when `key ± offset` leaves the i64 range** (code as written): the bound
    collapses to the partition edge (`length` / `search_start`), which puts NULL rows sorted on that side
    inside the frame of a non-NULL row.  Witness: `ORDER BY x ASC NULLS LAST RANGE BETWEEN CURRENT ROW AND
    10 FOLLOWING` over `[i64::MAX - 5, NULL]`, row 0: frame `[0, 2)` although the NULL row is outside for
    every representable bound.  What does hold is `range_search_eq_spec`. -/
theorem range_overflow_not_spec : ¬ range_overflow_statement := by
  intro h
  have hs : ∀ m, m + 1 < ([some (i64Max - 5), none] : List NVal).length →
      cmpVal ⟨false, false⟩ (([some (i64Max - 5), none] : List NVal)[m]!) (([some (i64Max - 5), none] : List NVal)[m + 1]!) ≠ .gt := by
    intro m hm
    have : m = 0 := by simp at hm; omega
    subst this; decide
  have := h ⟨false, false⟩ [some (i64Max - 5), none] (.foll 10) 0 1 0 2 hs (by decide) (by decide) (by decide)
  revert this
  decide

-- what the modelled code does when `key + offset` overflows (asc, NULLS LAST, keys [MAX-5, NULL],
-- `CURRENT ROW .. 10 FOLLOWING`): the end collapses to the partition length, so the trailing NULL row is
-- inside the frame of the non-NULL row, although for every representable offset it is outside.
example : rangeRange ⟨false, false⟩ [some (i64Max - 5), none] .cur (.foll 10) (0, 0) 0 = some (0, 2) ∧
    inFrame .range ⟨false, false⟩ .cur (.foll 10) [some (i64Max - 5), none] 0 1 = false ∧
    rangeRange ⟨false, false⟩ [some 5, none] .cur (.foll 10) (0, 0) 0 = some (0, 1) := by decide

/-- **sliding_eq_recompute**: for the accumulators that are created for sliding frames, moving from a frame
    to any later frame by "update entered rows, retract left rows" (or "retract everything" for an empty
    frame) yields the state of recomputing the new frame from scratch.  (`avg` satisfies the same law at the
    level of values — C07 `retract_prefix`; `bit_xor` does not — C07 `bitXor_retract_not_null`.) -/
theorem sliding_eq_recompute (vals : List NV) (last cur : Nat × Nat) (hl : last.1 ≤ last.2) (hc : cur.1 ≤ cur.2)
    (h1 : last.1 ≤ cur.1) (h2 : last.2 ≤ cur.2) :
    slideStep count countRetract vals (count.update count.init (slice vals last.1 last.2)) last cur
      = count.update count.init (slice vals cur.1 cur.2) ∧
    slideStep sumSliding sumSlidingRetract vals (sumSliding.update sumSliding.init (slice vals last.1 last.2)) last cur
      = sumSliding.update sumSliding.init (slice vals cur.1 cur.2) ∧
    slideStep slidingMax slidingRetract vals (slidingMax.update slidingMax.init (slice vals last.1 last.2)) last cur
      = slidingMax.update slidingMax.init (slice vals cur.1 cur.2) ∧
    slideStep slidingMin slidingRetract vals (slidingMin.update slidingMin.init (slice vals last.1 last.2)) last cur
      = slidingMin.update slidingMin.init (slice vals cur.1 cur.2) ∧
    slideStep countDistinctSliding bagRetract vals
        (countDistinctSliding.update countDistinctSliding.init (slice vals last.1 last.2)) last cur
      = countDistinctSliding.update countDistinctSliding.init (slice vals cur.1 cur.2) :=
  ⟨slideStep_eq_recompute count countRetract vals count_retract_prefix last cur hl hc h1 h2 _ rfl,
   slideStep_eq_recompute sumSliding sumSlidingRetract vals sumSliding_retract_prefix last cur hl hc h1 h2 _ rfl,
   slideStep_eq_recompute slidingMax slidingRetract vals slidingMax_retract_prefix last cur hl hc h1 h2 _ rfl,
   slideStep_eq_recompute slidingMin slidingRetract vals slidingMin_retract_prefix last cur hl hc h1 h2 _ rfl,
   slideStep_eq_recompute countDistinctSliding bagRetract vals bag_retract_prefix last cur hl hc h1 h2 _ rfl⟩

example : sumSliding.eval (slideStep sumSliding sumSlidingRetract [some 1#64, none, some 5#64, some 7#64]
    (sumSliding.update sumSliding.init (slice [some 1#64, none, some 5#64, some 7#64] 0 2)) (0, 2) (1, 4))
    = some 12#64 := by decide

/-- **streaming_eq_whole** (ROWS frames with a bounded end): the frame of row `i` computed when only a
    prefix of `len'` rows of the partition has arrived is already the final frame as soon as the prefix
    reaches the frame's end — so emitting row `i` then (bounded-memory executor) gives the same column as
    evaluating the whole partition, for every chunking of the input. -/
theorem streaming_eq_whole (s e : Bound) (len len' i : Nat) (hi : i < len') (hle : len' ≤ len)
    (hend : ∀ n, e = .foll n → i + n + 1 ≤ len') (hunb : e ≠ .unbFoll)
    (hstart : ∀ n, s = .foll n → i + n ≤ len') :
    rowsStart s len' i = rowsStart s len i ∧ rowsEnd e len' i = rowsEnd e len i := by
  constructor
  · cases s <;> simp only [rowsStart]
    rename_i n
    have := hstart n rfl
    simp only [Nat.min_def]; congr 1; split <;> split <;> omega
  · cases e <;> simp only [rowsEnd]
    · rename_i n
      have := hend n rfl
      simp only [Nat.min_def]; congr 1; split <;> split <;> omega
    · exact absurd rfl hunb

/-- full statement of the ranking definitions: on a sorted key column `rank` counts the rows strictly
    before the current row's key, `cume_dist` the rows not after it -/
def rank_defs_statement : Prop :=
  ∀ (o : SortOpt) (keys : List NVal) (i : Nat),
    (∀ m, m + 1 < keys.length → cmpVal o (keys[m]!) (keys[m + 1]!) ≠ .gt) → i < keys.length →
    rank keys i = 1 + ((List.range keys.length).filter (fun j => cmpVal o (keys.getD j none) (keys.getD i none) == .lt)).length ∧
    (cumeDist keys i).1 = ((List.range keys.length).filter (fun j => cmpVal o (keys.getD j none) (keys.getD i none) != .gt)).length

/-- **rank_defs** (proved part): `row_number` is the position; peers (equal ORDER BY keys) receive the same
    `rank`, `percent_rank` and `cume_dist`.  Missing: the counting characterisation `rank_defs_statement`. -/
theorem rank_defs_partial (keys : List NVal) (i j : Nat) (hi : i < keys.length)
    (hpeer : keys.getD i none = keys.getD j none) :
    rowNumber i = i + 1 ∧ rank keys i = rank keys j ∧ percentRank keys i = percentRank keys j ∧
    cumeDist keys i = cumeDist keys j := by
  have hps : peerStart keys i = peerStart keys j := by
    simp only [peerStart, hpeer]
    have : ((List.range keys.length).find? (fun m => keys.getD m none == keys.getD j none)).isSome = true := by
      rw [List.find?_isSome]
      exact ⟨i, List.mem_range.mpr hi, by rw [hpeer]; simp⟩
    obtain ⟨x, hx⟩ := Option.isSome_iff_exists.mp this
    rw [hx]; rfl
  have hpe : peerEnd keys i = peerEnd keys j := by
    simp only [peerEnd, hpeer]
    have hmem : i ∈ (List.range keys.length).filter (fun m => keys.getD m none == keys.getD j none) := by
      rw [List.mem_filter]; exact ⟨List.mem_range.mpr hi, by rw [hpeer]; simp⟩
    cases h : ((List.range keys.length).filter (fun m => keys.getD m none == keys.getD j none)).getLast? with
    | none => rw [List.getLast?_eq_none_iff] at h; rw [h] at hmem; simp at hmem
    | some x => rfl
  refine ⟨rfl, ?_, ?_, ?_⟩
  · simp only [rank, hps]
  · simp only [percentRank, rank, hps]
  · simp only [cumeDist, hpe]

example : let keys : List NVal := [none, some 1, some 1, some 4]
    (List.range 4).map (rank keys) = [1, 2, 2, 4] ∧ (List.range 4).map (denseRank keys) = [1, 2, 2, 3] ∧
    (List.range 4).map (cumeDist keys) = [(1, 4), (3, 4), (3, 4), (4, 4)] ∧
    (List.range 4).map (percentRank keys) = [(0, 3), (1, 3), (1, 3), (3, 3)] := by decide

end DfModel.Props.C09
