/-
  C08 — Sorting, merging and TopK return correctly ordered results.

  Rows are lists of nullable integers; the first `|os|` columns are the sort keys with options `os`
  (`{descending, nulls_first}` per key), the remaining columns are payload.  `Wf n rows` = every row
  has the schema's arity `n`.  All theorems are universal in the options, the rows, the number of
  streams, the tie oracle of the merge, the spill schedule, the grouping used by in-memory sorts
  and the merge fan-ins.
-/
import DfModel.Base.Order
import DfModel.Mech.SortMerge
import DfModel.Proofs.C08Order
import DfModel.Proofs.C08c
namespace DfModel.Props.C08
open DfModel.RowOrd DfModel.Mech.SortMerge DfModel.Proofs.C08 DfModel.Proofs.C08Order

abbrev Arity (n : Nat) : NRow → Prop := fun r => r.length = n
/-- sorted by `cmpRows os`: every earlier row is not greater than every later row -/
abbrev SortedBy (os : List SortOpt) (l : List NRow) : Prop := Sorted (leRows os) l
abbrev Wf (n : Nat) (l : List NRow) : Prop := ∀ r ∈ l, r.length = n
abbrev WfS (n : Nat) (ss : List (List NRow)) : Prop := ∀ s ∈ ss, ∀ r ∈ s, r.length = n

/-- **`compare_rows` is a total preorder** for every option vector: reflexive, total (indeed
    `cmp b a = (cmp a b).swap`), and transitive on rows of one arity. -/
theorem cmpRows_total_preorder (os : List SortOpt) (n : Nat) :
    (∀ a, cmpRows os a a = .eq) ∧
    (∀ a b, cmpRows os b a = (cmpRows os a b).swap) ∧
    (∀ a b, leRows os a b = true ∨ leRows os b a = true) ∧
    (∀ a b c : NRow, a.length = n → b.length = n → c.length = n →
      leRows os a b = true → leRows os b c = true → leRows os a c = true) :=
  ⟨cmpRows_refl os, cmpRows_swap os, leRows_total os,
   fun a b c ha hb hc => leRows_trans os a b c (ha.trans hb.symm) (hb.trans hc.symm)⟩

theorem tpo (os : List SortOpt) (n : Nat) : TotalPreorderOn (leRows os) (Arity n) :=
  ⟨leRows_total os, (cmpRows_total_preorder os n).2.2.2⟩

/-- transitivity genuinely needs the common arity: the `zip` truncation breaks it on ragged rows -/
example : let os := [⟨false, false⟩, ⟨false, false⟩]
    leRows os [some 1, some 5] [some 1] = true ∧ leRows os [some 1] [some 1, some 3] = true ∧
    leRows os [some 1, some 5] [some 1, some 3] = false := by decide
-- NULL placement follows `nulls_first` only, not `descending`
example : cmpRows [⟨true, false⟩] [none] [some 3] = .gt ∧ cmpRows [⟨true, true⟩] [none] [some 3] = .lt ∧
    cmpRows [⟨true, false⟩] [some 1] [some 3] = .gt ∧ cmpRows [⟨false, false⟩] [some 1] [some 3] = .lt := by decide

/-- the sort model returns a sorted permutation -/
theorem sort_sorted_perm (os : List SortOpt) (n : Nat) (xs : List NRow) (hw : Wf n xs) :
    SortedBy os (isort (leRows os) xs) ∧ (isort (leRows os) xs).Perm xs :=
  ⟨isort_sorted (tpo os n) xs hw, isort_perm xs⟩

/-- two-way merge of sorted streams: sorted, and a permutation of both inputs -/
theorem merge_sorted_perm (os : List SortOpt) (n : Nat) (xs ys : List NRow)
    (hx : SortedBy os xs) (hy : SortedBy os ys) (hwx : Wf n xs) (hwy : Wf n ys) :
    SortedBy os (merge2 (leRows os) xs ys) ∧ (merge2 (leRows os) xs ys).Perm (xs ++ ys) :=
  ⟨merge2_sorted (tpo os n) xs ys hx hy hwx hwy, merge2_perm xs ys⟩

/-- **k-way merge** (`SortPreservingMergeStream`): for any number of sorted streams and EVERY
    tie-breaking oracle `pol` (lowest index, round robin, …) the output is sorted and is a
    permutation of all rows of all streams. -/
theorem kMerge_sorted_perm (os : List SortOpt) (n : Nat) (pol : Nat → Option Nat)
    (ss : List (List NRow)) (hs : ∀ s ∈ ss, SortedBy os s) (hw : WfS n ss) :
    SortedBy os (kMergeBy (leRows os) pol ss) ∧ (kMergeBy (leRows os) pol ss).Perm ss.flatten :=
  kMergeBy_spec (tpo os n) pol ss hs hw

example : kMerge (leRows [⟨false, true⟩])
    [[[none, some 0], [some 1, some 1], [some 1, some 2]], [], [[none, some 3], [some 1, some 4]]]
    = [[none, some 0], [none, some 3], [some 1, some 1], [some 1, some 2], [some 1, some 4]] := by decide
-- a round-robin style oracle picks the other tied stream; still sorted, same bag
example : kMergeBy (leRows [⟨false, true⟩]) (fun _ => some 2)
    [[[none, some 0], [some 1, some 1], [some 1, some 2]], [], [[none, some 3], [some 1, some 4]]]
    = [[none, some 3], [none, some 0], [some 1, some 4], [some 1, some 1], [some 1, some 2]] := by decide

/-- sorted permutations of the same rows have the same key sequence ("equal up to ties") -/
theorem sorted_perm_same_keys (os : List SortOpt) (n : Nat) (hn : os.length ≤ n)
    (l₁ l₂ : List NRow) (hw : Wf n l₁) (h₁ : SortedBy os l₁) (h₂ : SortedBy os l₂)
    (hp : l₁.Perm l₂) : l₁.map (keyOf os) = l₂.map (keyOf os) := by
  have hw2 : Wf n l₂ := fun r hr => hw r (hp.symm.subset hr)
  refine sorted_perm_keys_eq (keyOf os) (leRows os) (fun a b => (leRows_keyOf os a b).symm)
    l₁ l₂ ?_ h₁ h₂ hp
  intro a ha b hb hab hba
  exact leRows_antisymm_key os _ _ (keyOf_length os a (by rw [hw a ha]; exact hn))
    (keyOf_length os b (by rw [hw2 b hb]; exact hn)) hab hba

/-- **multi-level merge = flat merge**: for every sequence of fan-ins, merging prefixes of the run
    queue and re-queueing the result yields a sorted permutation of all runs, with exactly the key
    sequence of the one-pass k-way merge. -/
theorem multilevel_eq_flat (os : List SortOpt) (n : Nat) (hn : os.length ≤ n) (fanin : List Nat)
    (runs : List (List NRow)) (hs : ∀ s ∈ runs, SortedBy os s) (hw : WfS n runs) :
    SortedBy os (multiLevel (leRows os) fanin runs) ∧
    (multiLevel (leRows os) fanin runs).Perm runs.flatten ∧
    (multiLevel (leRows os) fanin runs).map (keyOf os) = (kMerge (leRows os) runs).map (keyOf os) := by
  obtain ⟨m1, m2⟩ := multiLevel_spec (tpo os n) fanin runs hs hw
  obtain ⟨k1, k2⟩ := kMerge_spec (tpo os n) runs hs hw
  refine ⟨m1, m2, sorted_perm_same_keys os n hn _ _ ?_ m1 k1 (m2.trans k2.symm)⟩
  exact fun r hr => allPP_flatten.mp hw r (m2.subset hr)

/-- **external sort = sort**, for every spill schedule, every in-memory grouping and every merge
    fan-in sequence: sorted, a permutation of the inserted rows, and key-for-key equal to the
    reference sort of the concatenated input. -/
theorem extSort_eq_sort (os : List SortOpt) (n : Nat) (hn : os.length ≤ n)
    (batches : List (List NRow)) (sch : SpillSched) (finalGrp fanin : List Nat) (hw : WfS n batches) :
    SortedBy os (extSort (leRows os) batches sch finalGrp fanin) ∧
    (extSort (leRows os) batches sch finalGrp fanin).Perm batches.flatten ∧
    (extSort (leRows os) batches sch finalGrp fanin).map (keyOf os)
      = (isort (leRows os) batches.flatten).map (keyOf os) := by
  obtain ⟨e1, e2⟩ := extSort_spec (tpo os n) batches sch finalGrp fanin hw
  have hwf : Wf n batches.flatten := allPP_flatten.mp hw
  obtain ⟨s1, s2⟩ := sort_sorted_perm os n batches.flatten hwf
  exact ⟨e1, e2, sorted_perm_same_keys os n hn _ _ (fun r hr => hwf r (e2.subset hr)) e1 s1
    (e2.trans s2.symm)⟩

-- two spills (the second with the sort-each-batch path), then a 2-way pass and a final pass
example : extSort (leRows [⟨true, false⟩])
    [[[some 1], [none]], [], [[some 3]], [[some 2], [some 3]], [[none], [some 0]], [[some 5]]]
    [(false, []), (true, []), (false, []), (true, [0, 0]), (true, [])] [] [2]
    = [[some 5], [some 3], [some 3], [some 2], [some 1], [some 0], [none], [none]] := by decide

/-- **TopK**: the bounded heap returns a sorted list of `min k n` rows that is a sub-bag of the input,
    and every row it dropped is not smaller than any row it kept. -/
theorem topK_spec (os : List SortOpt) (n k : Nat) (xs : List NRow) (hw : Wf n xs) :
    SortedBy os (topK (leRows os) k xs) ∧ (topK (leRows os) k xs).length = min k xs.length ∧
    ∃ dropped, (topK (leRows os) k xs ++ dropped).Perm xs ∧
      ∀ t ∈ topK (leRows os) k xs, ∀ d ∈ dropped, leRows os t d = true := by
  have inv := topKGo_inv (tpo os n) k xs [] ([], []) (by simpa using hw)
    ⟨by simp, by simp, by simp, by simp⟩
  simp only [List.nil_append] at inv
  exact ⟨inv.sorted, inv.len, (topKGo (leRows os) k xs).2, inv.perm, inv.dom⟩

/-- `SortExec` with `fetch = k` returns the first `k` rows of the sorted input, up to ties -/
theorem topK_eq_take_sort (os : List SortOpt) (n k : Nat) (hn : os.length ≤ n) (xs : List NRow)
    (hw : Wf n xs) :
    (topK (leRows os) k xs).map (keyOf os) = ((isort (leRows os) xs).take k).map (keyOf os) := by
  obtain ⟨t1, t2, dropped, t3, t4⟩ := topK_spec os n k xs hw
  have hwd : Wf n dropped := fun r hr => hw r (t3.subset (List.mem_append_right _ hr))
  obtain ⟨d1, d2⟩ := sort_sorted_perm os n dropped hwd
  obtain ⟨s1, s2⟩ := sort_sorted_perm os n xs hw
  have hs : SortedBy os (topK (leRows os) k xs ++ isort (leRows os) dropped) :=
    List.pairwise_append.mpr ⟨t1, d1, fun a ha b hb => t4 a ha b (d2.subset hb)⟩
  have hp : (topK (leRows os) k xs ++ isort (leRows os) dropped).Perm (isort (leRows os) xs) :=
    ((List.Perm.append_left _ d2).trans t3).trans s2.symm
  have hk := sorted_perm_same_keys os n hn _ _
    (fun r hr => hw r (s2.subset (hp.subset hr))) hs s1 hp
  have hlen : (topK (leRows os) k xs).length + dropped.length = xs.length := by
    simpa using t3.length_eq
  have hd : (isort (leRows os) dropped).take (k - (topK (leRows os) k xs).length) = [] := by
    rcases Nat.lt_or_ge xs.length k with hlt | hge
    · have : dropped = [] := List.eq_nil_of_length_eq_zero (by omega)
      simp [this, isort]
    · have : k - (topK (leRows os) k xs).length = 0 := by omega
      simp [this]
  have htk : (topK (leRows os) k xs ++ isort (leRows os) dropped).take k = topK (leRows os) k xs := by
    rw [List.take_append, hd, List.take_of_length_le (by omega), List.append_nil]
  have := congrArg (List.take k) hk
  rw [← List.map_take, ← List.map_take, htk] at this
  exact this

example : topK (leRows [⟨false, false⟩]) 3
    [[some 4, some 0], [some 1, some 1], [none, some 2], [some 1, some 3], [some 0, some 4], [some 1, some 5]]
    = [[some 0, some 4], [some 1, some 3], [some 1, some 1]] := by decide

/-- full statement for `PartialSortExec`: input sorted on a prefix `pre` of the keys `pre ++ rest`;
    sorting each maximal run of prefix-equal rows sorts the whole input. -/
def partialSort_statement : Prop :=
  ∀ (pre rest : List SortOpt) (n : Nat) (xs : List NRow), Wf n xs → SortedBy pre xs →
    SortedBy (pre ++ rest) (partialSort (leRows (pre ++ rest)) (fun a b => cmpRows pre a b == .eq) xs) ∧
    (partialSort (leRows (pre ++ rest)) (fun a b => cmpRows pre a b == .eq) xs).Perm xs

/-- proved part: the output is always a permutation of the input, and it is sorted whenever the
    chunks are ordered across chunk boundaries (what is missing: deriving that cross-chunk order
    from `SortedBy pre xs`, i.e. that rows of different prefix runs compare strictly on `pre`). -/
theorem partialSort_partial (os : List SortOpt) (n : Nat) (eqv : NRow → NRow → Bool) (xs : List NRow)
    (hw : Wf n xs) :
    (partialSort (leRows os) eqv xs).Perm xs ∧
    ((runsBy eqv xs).Pairwise (fun c d => ∀ a ∈ c, ∀ b ∈ d, leRows os a b = true) →
      SortedBy os (partialSort (leRows os) eqv xs)) := by
  have hwc : WfS n (runsBy eqv xs) := allPP_flatten.mpr (by rw [runsBy_flatten]; exact hw)
  constructor
  · have : ((runsBy eqv xs).map (isort (leRows os))).flatten.Perm (runsBy eqv xs).flatten := by
      generalize runsBy eqv xs = cs
      induction cs with
      | nil => simp
      | cons c cs ih => simpa using List.Perm.append (isort_perm (le := leRows os) c) ih
    rw [runsBy_flatten] at this
    exact this
  · intro hc
    exact (chunks_sorted_perm (tpo os n) _ hwc hc).1

example : partialSort (leRows [⟨false, false⟩, ⟨true, false⟩]) (fun a b => cmpRows [⟨false, false⟩] a b == .eq)
    [[some 1, some 1], [some 1, some 7], [some 2, none], [some 2, some 0], [none, some 3]]
    = [[some 1, some 7], [some 1, some 1], [some 2, some 0], [some 2, none], [none, some 3]] := by decide

/-- canonical order used by the judge to compare multisets -/
def fullLe (a b : NRow) : Bool := leRows (List.replicate (max a.length b.length) ⟨false, true⟩) a b

/-- **the judges used on the real operators' outputs are sound** -/
theorem judge_sort_sound (os : List SortOpt) (n : Nat) (inp out : List NRow) (hw : Wf n out)
    (hj : judgeSort (leRows os) fullLe inp out = .ok) : SortedBy os out ∧ out.Perm inp :=
  judgeSort_sound (tpo os n) fullLe inp out hw hj

theorem judge_topk_sound (os : List SortOpt) (n k : Nat) (inp out : List NRow) (hw : Wf n out)
    (hj : judgeTopK (leRows os) k inp out = .ok) :
    SortedBy os out ∧ out.length = min k inp.length ∧
    ∃ dropped, (out ++ dropped).Perm inp ∧ ∀ t ∈ out, ∀ d ∈ dropped, leRows os t d = true :=
  judgeTopK_sound (tpo os n) k inp out hw hj

-- the judges do reject: unsorted, lost row, a dropped row below a kept one (tests)
example : judgeSort (leRows [⟨false, false⟩]) fullLe [[some 1], [some 0]] [[some 1], [some 0]] = .unsorted ∧
    judgeSort (leRows [⟨false, false⟩]) fullLe [[some 1], [some 0]] [[some 0]] = .count ∧
    judgeTopK (leRows [⟨false, false⟩]) 1 [[some 1], [some 0]] [[some 1]] = .droppedSmaller ∧
    judgeTopK (leRows [⟨false, false⟩]) 1 [[some 1], [some 0]] [[some 0]] = .ok ∧
    judgeTopK (leRows [⟨false, false⟩]) 1 [[some 1], [some 0]] [[some 2]] = .notsubbag := by decide
-- … and a duplicated row (same count, different multiset)
example : judgeSort (leRows [⟨false, false⟩]) fullLe [[some 1], [some 0]] [[some 0], [some 0]] = .notperm ∧
    judgeSort (leRows [⟨false, false⟩]) fullLe [[some 1], [some 0]] [[some 0], [some 1]] = .ok := by
  simp [judgeSort, sortedB, leRows, cmpRows, cmpVal, fullLe, List.mergeSort,
    List.MergeSort.Internal.splitInTwo, (by decide : compare (1:Int) 0 = Ordering.gt),
    (by decide : compare (0:Int) 1 = Ordering.lt)]
-- two-way merge: ties go to the left stream
example : merge2 (leRows [⟨false, false⟩]) [[some 1, some 10], [some 1, some 11]] [[some 0, some 20], [some 1, some 21]]
    = [[some 0, some 20], [some 1, some 10], [some 1, some 11], [some 1, some 21]] := by
  simp [merge2, leRows, cmpRows, cmpVal, (by decide : compare (1:Int) 0 = Ordering.gt)]

end DfModel.Props.C08
