/-
  C05 — every join operator computes its join type's result.

  Spec: `Mech.Join.join` (nested loops, ten join types, NULL-equality flag, residual filter).
  Mechanism proved here: `Mech.HashJoin.hashJoin` (build map / probe in chunks with the
  alignment-range protocol / `adjust_indices_by_join_type` / visited bitmap / final emission).
  The other operators (nested-loop, sort-merge, cross, symmetric hash, piecewise merge) are tied
  to the same spec by the correspondence harness only (see notes/C05.md).
-/
import DfModel.Mech.HashJoin
import DfModel.Proofs.C05d
import DfModel.Proofs.C05e
import DfModel.Proofs.C05f
namespace DfModel.Props.C05
open DfModel.Mech.Join DfModel.Mech.HashJoin DfModel.Mech.Nlj DfModel.Proofs.C05
open List

/-- **Hash join refines the nested-loop spec** — for every join type, NULL-equality mode,
    key extractors, residual filter, hash function (arbitrary collisions) or the dense
    array map, build input, probe batching, and *every* way of cutting each batch's candidate
    list into `process_probe_batch` chunks (hence every output-batch limit).  Bag equality. -/
theorem hashJoin_refines (mk : MapKind) (c : Cfg) (L : List Row) (he : Eligible mk c L)
    (batches : List Batch) :
    hashJoin mk c L batches ~ join c.jt c.matches c.wl c.wr L (batches.flatMap (·.rows)) :=
  hashJoin_perm mk c L he batches

/-- the instance named in the property: chunks of `limit` candidates (`batch_size`), any limit. -/
theorem hashJoin_limit_refines (mk : MapKind) (c : Cfg) (L : List Row) (he : Eligible mk c L)
    (probeBatching : List (List Row)) (limit : Nat) :
    hashJoin mk c L (probeBatching.map fun B =>
        { rows := B, cuts := limitCuts limit (allCands mk c L.zipIdx B.zipIdx).length }) ~
      join c.jt c.matches c.wl c.wr L probeBatching.flatten := by
  have := hashJoin_perm mk c L he (probeBatching.map fun B =>
        { rows := B, cuts := limitCuts limit (allCands mk c L.zipIdx B.zipIdx).length })
  rw [flatMap_map] at this
  simpa [flatMap_id'] using this

/-- **The visited bitmap is exact**: after the probe side is exhausted, build row `i` is marked
    iff the join type needs the final pass and some probe row matched it *after* key
    comparison and the residual filter. -/
theorem visited_exactly_matched (mk : MapKind) (c : Cfg) (L : List Row) (he : Eligible mk c L)
    (batches : List Batch) (l : Row) (i : Nat) (hl : (l, i) ∈ L.zipIdx) :
    i ∈ visitedAll mk c L batches ↔
      (c.jt.needFinal = true ∧ ∃ r ∈ batches.flatMap (·.rows), c.matches l r = true) := by
  rw [visitedAll_iff mk c L he batches (l, i) hl, any_eq_true]

/-- **Partitioned mode** (`PartitionMode::Partitioned`): both inputs are split by ANY function of
    the key (matching rows have equal keys, hence the same partition), every partition is joined by
    its own hash join (own map, own bitmap, own final emission) and the outputs are concatenated —
    still the spec, for all ten join types. -/
theorem partitionedHashJoin_refines (mk : MapKind) (c : Cfg) (nparts : Nat) (part : List Val → Nat)
    (hpart : ∀ k, part k < nparts) (L R : List Row) (he : Eligible mk c L)
    (batchesOf : Nat → List Batch)
    (hR : ∀ k, (batchesOf k).flatMap (·.rows) = R.filter fun r => part (c.kr r) == k) :
    partitionedHashJoin mk c nparts part L batchesOf ~ join c.jt c.matches c.wl c.wr L R :=
  partitionedHashJoin_perm mk c nparts part hpart L R he batchesOf hR

/-- chunking is unobservable: any two chunkings of the same probe batches emit the same bag -/
theorem chunking_irrelevant (mk : MapKind) (c : Cfg) (L : List Row) (he : Eligible mk c L)
    (bs1 bs2 : List Batch) (h : bs1.flatMap (·.rows) = bs2.flatMap (·.rows)) :
    hashJoin mk c L bs1 ~ hashJoin mk c L bs2 :=
  (hashJoin_perm mk c L he bs1).trans (h ▸ (hashJoin_perm mk c L he bs2).symm)

/-- hash map and dense array map are interchangeable where the array map is eligible -/
theorem arrayMap_agrees_with_hashMap (h : List Val → Nat) (c : Cfg) (L : List Row)
    (he : Eligible .array c L) (batches : List Batch) :
    hashJoin .array c L batches ~ hashJoin (.hash h) c L batches := by
  have heh : Eligible (.hash h) c L := by
    intro l hl hk
    obtain ⟨v, hv⟩ := he.1 l hl
    rw [hv] at hk; cases hk
  exact (hashJoin_perm .array c L he batches).trans (hashJoin_perm (.hash h) c L heh batches).symm

/-! ### nested loop join, memory-limited fallback (left side processed in chunks) -/

/-- **Chunked nested loop join refines the spec**: for ANY partition of the left input into chunks
    (any memory budget), emitting per chunk the matched pairs and THAT chunk's left-side rows from a
    fresh per-chunk bitmap, and emitting the right-side rows ONCE at the end from the bitmaps OR-ed
    over all chunks, gives the join — all ten join types. -/
theorem nlj_chunked_refines (c : Cfg) (chunks : List (List Row)) (R : List Row) :
    nljChunked c chunks R ~ join c.jt c.matches c.wl c.wr chunks.flatten R :=
  nljChunked_perm c chunks R

/-- chunk boundaries are unobservable -/
theorem nlj_chunking_irrelevant (c : Cfg) (chunks chunks' : List (List Row)) (R : List Row)
    (h : chunks.flatten = chunks'.flatten) : nljChunked c chunks R ~ nljChunked c chunks' R :=
  (nljChunked_perm c chunks R).trans (h ▸ (nljChunked_perm c chunks' R).symm)

/-- the repaired code (`nljMemLimited true`, /repo fix c1e5d66) is the proved operator -/
theorem nlj_memlimited_repaired_refines (c : Cfg) (chunks : List (List Row)) (R : List Row) :
    nljMemLimited true c chunks R ~ join c.jt c.matches c.wl c.wr chunks.flatten R :=
  nljChunked_perm c chunks R

/-- **Defect witness (pinned upstream code; repaired by /repo fix c1e5d66, notes/C05.md).**  When the
    left batch that trips the memory limit was the last one, `handle_buffering_left_memory_limited`
    went from `BufferingLeft` straight to `Done` and the global right-side emission never happened.  On the replay input
    (Right join on column 0, left chunk of 4 rows, 4 right rows) the result is not the join. -/
theorem nlj_memlimit_skips_global_right_witness :
    let c : Cfg := { jt := .right, nullEq := false, kl := fun l => [l.headD none],
                     kr := fun r => [r.headD none], flt := fun _ _ => true, wl := 2, wr := 2 }
    let L : List Row := [[some 1, some 10], [some 2, some 20], [some 3, some 30], [some 4, some 40]]
    let R : List Row := [[some 5, some 500], [some 7, some 700], [some 1, some 100], [some 3, some 300]]
    nljChunkedSkippingGlobalRight c [L] R = [[some 1, some 10, some 1, some 100], [some 3, some 30, some 3, some 300]] ∧
    ¬ (nljChunkedSkippingGlobalRight c [L] R ~ join c.jt c.matches c.wl c.wr L R) := by
  refine ⟨by decide, ?_⟩
  intro h
  have := h.length_eq
  revert this
  decide

/-- …and the part that still holds for the defective code: the join types without a right-side final
    stage (Inner, Left, LeftSemi, LeftAnti, LeftMark) are unaffected. -/
theorem nlj_memlimit_skips_global_right_partial (c : Cfg) (h : c.jt.needRightFinal = false)
    (chunks : List (List Row)) (R : List Row) :
    nljChunkedSkippingGlobalRight c chunks R ~ join c.jt c.matches c.wl c.wr chunks.flatten R := by
  have : nljChunkedSkippingGlobalRight c chunks R = nljChunked c chunks R := by
    unfold nljChunked nljChunkedSkippingGlobalRight
    have hr : (fun r => rightEmit c (globalRightMatched c chunks r) r) = fun _ => [] := by
      funext r
      cases hjt : c.jt <;> simp_all [rightEmit, JoinType.needRightFinal]
    rw [hr, flatMap_nil', append_nil]
  rw [this]
  exact nljChunked_perm c chunks R

/-! ### the `JoinType` decision tables the operators consult are exactly right -/

/-- `empty_build_side_produces_empty_result` holds for exactly the join types whose spec is empty
    for an empty left input, whatever the right input. -/
theorem emptyBuildEmpty_exact (jt : JoinType) :
    jt.emptyBuildEmpty = true ↔ ∀ (m : Row → Row → Bool) (wl wr : Nat) (R : List Row),
      join jt m wl wr [] R = [] := by
  constructor
  · intro h m wl wr R
    cases jt <;> simp_all [JoinType.emptyBuildEmpty, join, innerPart, leftPart]
  · intro h
    cases jt <;> first
      | rfl
      | (have := h (fun _ _ => true) 0 0 [[]]
         simp [join, innerPart, unmatchedRight, leftPart] at this)

/-- `empty_map_produces_empty_result` holds for exactly the join types whose spec is empty whenever
    no pair of rows matches. -/
theorem emptyMapEmpty_exact (jt : JoinType) :
    jt.emptyMapEmpty = true ↔ ∀ (wl wr : Nat) (L R : List Row),
      join jt (fun _ _ => false) wl wr L R = [] := by
  constructor
  · intro h wl wr L R
    cases jt <;> simp_all [JoinType.emptyMapEmpty, join, innerPart, flatMap_nil']
  · intro h
    cases jt <;> first
      | rfl
      | (have := h 0 0 [[]] [[]]
         simp [join, innerPart, unmatchedRight, leftPart] at this)

theorem swap_involutive (jt : JoinType) : jt.swap.swap = jt := by cases jt <;> rfl

/-- swapping the inputs of the one-sided join types (`JoinType::swap`) gives the same rows -/
theorem swap_one_sided (jt : JoinType) (m : Row → Row → Bool) (wl wr : Nat) (L R : List Row)
    (h : jt = .leftSemi ∨ jt = .rightSemi ∨ jt = .leftAnti ∨ jt = .rightAnti ∨
         jt = .leftMark ∨ jt = .rightMark) :
    join jt.swap (fun r l => m l r) wr wl R L = join jt m wl wr L R := by
  rcases h with h | h | h | h | h | h <;> subst h <;> rfl

/-- `on_lr_is_preserved`: a side is "preserved" iff filtering that side's input by a predicate
    on its rows commutes with… — the semantic content is proved where it is used (C31); here the
    table is pinned against `swap`: swapping the inputs swaps the pair. -/
theorem onLrIsPreserved_swap (jt : JoinType) :
    jt.swap.onLrIsPreserved = (jt.onLrIsPreserved.2, jt.onLrIsPreserved.1) := by
  cases jt <;> rfl

/-! ### a defect found by the correspondence: `SymmetricHashJoinExec` under NULL = NULL
  (pinned upstream code; repaired in /repo by `fix:` commit b4ab834, which zeroes the buffer for every
  batch — the model below documents the upstream behaviour)

  `OneSideHashJoiner::update_internal_state` calls `hashes_buffer.resize(n, 0)` WITHOUT clearing
  the buffer and `create_hashes` leaves the slots of NULL keys untouched (C12: a NULL row keeps the
  incoming hash).  So the hash under which a NULL-key build row is inserted is whatever the previous
  batch left at that position, while `lookup_join_hashmap` hashes probe rows into a zeroed buffer.
  Model of exactly that buffer discipline for one key column: -/

/-- hashes under which the rows of successive batches are inserted (`buf` = buffer left behind) -/
def shjInsertHashes (h : Int → Nat) : List Nat → List (List Val) → List (List Nat)
  | _, [] => []
  | buf, b :: bs =>
    let buf' := (buf ++ List.replicate (b.length - buf.length) 0).take b.length
    let hs := List.zipWith (fun old v => match v with | some x => h x | none => old) buf' b
    hs :: shjInsertHashes h hs bs

/-- hash with which a probe row is looked up (fresh zeroed buffer) -/
def shjLookupHash (h : Int → Nat) : Val → Nat
  | some x => h x
  | none => 0

/-- **Witness.** The NULL key of the second batch is inserted under hash `h 5` but looked up
    under hash 0, although `NULL = NULL` is a match under `NullEqualsNull`; with the same rows in
    one batch the hashes agree.  Hence the operator's result depends on the input batching — the
    property was FALSE for the upstream `SymmetricHashJoinExec` (reproduced on the real code before
    b4ab834, notes/C05.md).
    `hashJoin_refines` above is the part of the property that is proved (`HashJoinExec`). -/
theorem symmetricHashJoin_null_equal_batching_witness :
    let h : Int → Nat := fun _ => 7
    keysEq true [none] [none] = true ∧
    shjInsertHashes h [] [[some 5], [none]] = [[7], [7]] ∧ shjLookupHash h none = 0 ∧
    shjInsertHashes h [] [[some 5, none]] = [[7, 0]] := by decide

/-! ### non-vacuity: concrete instances (tests, evaluated by the kernel) -/

/-- key = column 0, filter `l.1 < r.1` (NULL ⇒ not true) -/
def exCfg (jt : JoinType) (nullEq : Bool) : Cfg where
  jt := jt
  nullEq := nullEq
  kl := fun l => [l.headD none]
  kr := fun r => [r.headD none]
  flt := fun l r => match l.getD 1 none, r.getD 1 none with
    | some a, some b => decide (a < b)
    | _, _ => false
  wl := 2
  wr := 2

def exL : List Row := [[some 1, some 5], [none, some 0], [some 1, some 9], [some 2, some 0]]
def exR : List Row := [[some 1, some 7], [none, some 3], [some 3, some 1], [some 1, some 6]]

/-- `need_produce_result_in_final` is false only for join types that owe no build-side remainder
    after the probe phase, and true only for types that can owe one. -/
theorem needFinal_exact (jt : JoinType) :
    (jt.needFinal = false → ∀ c L R, c.jt = jt → leftFinal c L R = []) ∧
    (jt.needFinal = true → ∃ c L R, c.jt = jt ∧ leftFinal c L R ≠ []) := by
  constructor
  · intro h c L R hc
    subst hc
    cases hjt : c.jt <;> simp_all [JoinType.needFinal, leftFinal]
  · intro h
    cases jt <;> first
      | exact absurd h (by decide)
      | exact ⟨exCfg _ true, [[some 1, some 1]], [], rfl, by decide⟩
      | exact ⟨exCfg _ true, [[some 1, some 1]], [[some 1, some 2]], rfl, by decide⟩

/-- all hashes collide; one batch cut into chunks of 1,1 and the rest: still the spec (Full join,
    NULL = NULL). Output differs from the spec only in order. -/
example :
    hashJoin (.hash fun _ => 0) (exCfg .full true) exL [{ rows := exR, cuts := [1, 1] }]
      = [[some 1, some 5, some 1, some 7], [none, some 0, none, some 3],
         [some 1, some 5, some 1, some 6], [none, none, some 3, some 1],
         [some 1, some 9, none, none], [some 2, some 0, none, none]] := by decide

example : Eligible (.hash fun _ => 0) (exCfg .full true) exL := by
  intro l _; simp [exCfg]

example :
    join .full (exCfg .full true).matches 2 2 exL exR
      = [[some 1, some 5, some 1, some 7], [some 1, some 5, some 1, some 6],
         [none, some 0, none, some 3], [some 1, some 9, none, none], [some 2, some 0, none, none],
         [none, none, some 3, some 1]] := by decide

/-- the visited bitmap in that run: build rows 0 and 1 -/
example : visitedAll (.hash fun _ => 0) (exCfg .full true) exL [{ rows := exR, cuts := [1, 1] }]
    = [0, 1, 0] := by decide

/-- NULL keys do not match under `NullEqualsNothing` (RightMark, array map, two batches) -/
example :
    hashJoin .array (exCfg .rightMark false) exL
        [{ rows := exR.take 2, cuts := [] }, { rows := exR.drop 2, cuts := [0] }]
      = [[some 1, some 7, some 1], [none, some 3, some 0], [some 3, some 1, some 0],
         [some 1, some 6, some 1]] := by decide

end DfModel.Props.C05
