/-
  C15 — exchange channels lose nothing, keep order, close correctly, never deadlock.

  All theorems are about the COARSE model `Sm.Chan` of `distributor_channels.rs` (each poll /
  clone / drop is one atomic step, see the header of `Sm/Chan.lean`) and quantify over ALL
  operation histories `ops : List Op` from `channels(n)`, any `n ≤ usize::MAX`, any waiter ids,
  any values.  The invariant `Inv` (gate counter exact, gate closed iff counter 0, every blocked
  and not woken waiter still registered and justified) is proved by induction over histories.
  The model is tied to the real code by the correspondence run of `harness/hplan/src/c15.rs`.

  Not covered here: interleavings *inside* a poll (lock regions / atomics of different threads) —
  see notes/C15.md ("fine model") for what is known about them.
-/
import DfModel.Sm.Chan
import DfModel.Proofs.C15d
namespace DfModel.Props.C15
open DfModel.Sm.Chan DfModel.Proofs.C15

/-- state reached from `channels(n)` by the history `ops` -/
abbrev after (n : Nat) (ops : List Op) : St := (run (init n) ops).1
/-- what the history returned: every op with its result and the wake-ups it made -/
abbrev traceOf (n : Nat) (ops : List Op) : List (Op × Out) := (run (init n) ops).2

/-! ## the invariant, over all histories -/

theorem inv_init (n : Nat) (hn : n ≤ usizeMax) : Inv (init n) := Proofs.C15.inv_init n hn

/-- every operation, in every state satisfying the invariant, re-establishes it -/
theorem inv_step (s : St) (op : Op) (h : Inv s) : Inv (step s op).1 := Proofs.C15.inv_step s op h

theorem inv_all_histories (n : Nat) (hn : n ≤ usizeMax) (ops : List Op) : Inv (after n ops) :=
  inv_run _ ops (inv_init n hn)

/-- **gate counter.** After any history `empty_channels` is exactly the number of channels that are
    open at both ends and empty — in particular the wrapping `fetch_sub`/`fetch_add` never wrap. -/
theorem gate_counter_exact (n : Nat) (hn : n ≤ usizeMax) (ops : List Op) :
    (after n ops).empty = countOE (after n ops).chan (after n ops).n :=
  (inv_all_histories n hn ops).core.cnt

/-- **gate.** After any history the gate is closed (`send_wakers = Some`) exactly when there is a
    channel and no channel is open-and-empty. -/
theorem gate_closed_iff_all_open_nonempty (n : Nat) (hn : n ≤ usizeMax) (ops : List Op) :
    (after n ops).sendWakers ≠ none ↔
      (0 < (after n ops).n ∧ ∀ c, c < (after n ops).n → openEmpty ((after n ops).chan c) = false) := by
  have h := (inv_all_histories n hn ops).core
  generalize after n ops = s at *
  constructor
  · intro hs
    have he := h.gateClosed hs
    have hz : countOE s.chan s.n = 0 := by rw [← h.cnt]; exact he
    exact ⟨h.gateN hs, fun c hc => countOE_zero _ _ hz c hc⟩
  · intro ⟨hpos, hall⟩ hs
    have hz := countOE_zero_of s.chan s.n hall
    rcases h.gateOpen hs with h1 | h1
    · rw [h.cnt] at h1; omega
    · omega

-- non-vacuity: a history that closes the gate (both channels non-empty), and one that re-opens it
example : (after 2 [.send 0 0 7, .send 1 1 8]).sendWakers = some [] := by decide
example : (after 2 [.send 0 0 7, .send 1 1 8, .recv 0 5]).sendWakers = none := by decide

/-! ## nothing lost, nothing duplicated, order kept -/

/-- **FIFO / exactly-once.** For any history and any channel `c`: while the receiver of `c` is
    alive, the values delivered so far followed by the values still queued are exactly the values
    accepted so far, in order; once the receiver was dropped (which discards the queue) the values
    delivered are a prefix of the values accepted. -/
theorem fifo_exactly_once (n : Nat) (hn : n ≤ usizeMax) (ops : List Op) (c : Nat) :
    match ((after n ops).chan c).data with
    | some q => rcvd c (traceOf n ops) ++ q = sent c (traceOf n ops)
    | none => rcvd c (traceOf n ops) <+: sent c (traceOf n ops) := by
  have h := fifo_run (init n) (inv_init n hn) ops c
  have h0 : dataOf (init n) c = some [] := rfl
  rw [h0] at h
  simp only [dataOf] at h
  split
  · rename_i q hq; rw [hq] at h; simpa [FifoRun] using h
  · rename_i hq; rw [hq] at h; simpa [FifoRun] using h

example : rcvd 0 (traceOf 2 [.send 0 0 7, .send 0 0 8, .send 1 1 9, .send 0 0 10, .recv 0 5, .recv 0 5])
    = [7, 8] ∧ sent 0 (traceOf 2 [.send 0 0 7, .send 0 0 8, .send 1 1 9, .send 0 0 10, .recv 0 5, .recv 0 5])
    = [7, 8] := by decide

/-! ## close is reported correctly -/

/-- `recv` on a live receiver returns `None` exactly when no sender handle is left and the queue is
    drained, `Pending` exactly when the queue is empty and a handle is left, and otherwise the head
    of the queue. -/
theorem recv_result (s : St) (h : Inv s) (c t : Nat) (hc : c < s.n) (q : List Nat)
    (hd : (s.chan c).data = some q) :
    (step s (.recv c t)).2.res =
      match q with
      | v :: _ => .recvSome v
      | [] => if (s.chan c).nSenders = 0 then .recvNone else .recvPending := by
  obtain ⟨_, h2⟩ := step_recv_spec h.core c t q hc hd
  cases q with
  | nil => simp only at h2 ⊢; split <;> simp_all
  | cons v q => exact h2.1

/-- **end-of-stream only after all senders are gone and everything was delivered**: if, after any
    history, `recv c` answers `None`, then channel `c` has no sender handle left and every value
    ever accepted on `c` has been delivered (exactly once, in order). -/
theorem eos_only_after_all_senders_gone_and_drained (n : Nat) (hn : n ≤ usizeMax) (ops : List Op)
    (c t : Nat) (h : (step (after n ops) (.recv c t)).2.res = .recvNone) :
    ((after n ops).chan c).nSenders = 0 ∧ rcvd c (traceOf n ops) = sent c (traceOf n ops) := by
  have hI := inv_all_histories n hn ops
  have hf := fifo_exactly_once n hn ops c
  by_cases hc : c < (after n ops).n
  · cases hd : ((after n ops).chan c).data with
    | none =>
      have hi : step (after n ops) (.recv c t) = (after n ops, ⟨.invalid, []⟩) := by simp [step, hd]
      rw [hi] at h; cases h
    | some q =>
      have hr := recv_result _ hI c t hc q hd
      rw [hr] at h
      cases q with
      | cons v q => cases h
      | nil =>
        simp only at h
        split at h
        · rename_i h0
          rw [hd] at hf
          exact ⟨h0, by simpa using hf⟩
        · cases h
  · have hi : step (after n ops) (.recv c t) = (after n ops, ⟨.invalid, []⟩) := by simp [step, hc]
    rw [hi] at h; cases h

/-- once the last handle of `c` is gone no `send c` is possible any more (no handle to call it on)
    and the handle count stays 0: a reported end-of-stream is final -/
theorem senders_gone_forever (s : St) (h : Inv s) (c : Nat) (h0 : (s.chan c).nSenders = 0)
    (ops : List Op) :
    ((run s ops).1.chan c).nSenders = 0 ∧ sent c (run s ops).2 = [] := by
  induction ops generalizing s with
  | nil => exact ⟨h0, rfl⟩
  | cons op ops ih =>
    have hn' : ((step s op).1.chan c).nSenders = 0 ∧ sentOf c (op, (step s op).2) = [] := by
      cases op with
      | send c' t v =>
        by_cases hcc : c' = c
        · subst hcc
          have hi : step s (.send c' t v) = (s, ⟨.invalid, []⟩) := by simp [step, h0]
          rw [hi]; exact ⟨h0, by simp [sentOf]⟩
        · refine ⟨?_, by rw [sentOf_send]; simp [hcc]⟩
          simp only [step]
          split
          · rename_i hv
            have h0' : InvC (pollBegin s t) := h.core.of_core rfl rfl rfl rfl
            have key : ∀ (s' : St), (∀ i, i ≠ c' → s'.chan i = s.chan i) → (s'.chan c).nSenders = 0 := by
              intro s' hs'; rw [hs' c (fun e => hcc e.symm)]; exact h0
            simp only [setBlk_chan]
            cases hd : (s.chan c').data with
            | none => rw [pollSend_err h0' hv.1 t v hd]; exact h0
            | some q =>
              obtain ⟨ws, hw⟩ := rw_some_of_tx h.core hv.1 hv.2
              by_cases he : s.empty = 0
              · obtain ⟨l, hl⟩ := sw_some_of_zero h.core hv.1 he
                rw [pollSend_pending h0' hv.1 t v q hd l he hl]; exact h0
              · cases q with
                | nil =>
                  rw [pollSend_ok_empty h0' hv.1 t v hd ws hw]
                  exact key _ (fun i hi => by simp [setChan, hi])
                | cons a q =>
                  rw [pollSend_ok_nonempty h0' hv.1 t v a q hd (by show 0 < s.empty; omega)]
                  exact key _ (fun i hi => by simp [setChan, hi])
          · exact h0
      | recv c' t =>
        refine ⟨?_, sentOf_not_send _ _ _ (by intro _ _ _ e; cases e)⟩
        simp only [step]
        split
        · rename_i hv
          have h0' : InvC (pollBegin s t) := h.core.of_core rfl rfl rfl rfl
          simp only [setBlk_chan]
          have key : ∀ (X : Chan), X.nSenders = (s.chan c').nSenders →
              ((setChan (pollBegin s t) c' X).chan c).nSenders = 0 := by
            intro X hX
            simp only [setChan_chan, pollBegin_chan]
            split
            · rename_i e; subst e; rw [hX]; exact h0
            · exact h0
          cases hd : (s.chan c').data with
          | none => rw [hd] at hv; simp at hv
          | some q =>
            cases q with
            | nil =>
              cases hw : (s.chan c').recvWakers with
              | none => rw [pollRecv_eos h0' hv.1 t hd hw]; exact h0
              | some ws => rw [pollRecv_pending h0' hv.1 t hd ws hw]; exact key _ rfl
            | cons v q =>
              by_cases hq : q ≠ [] ∨ (s.chan c').recvWakers = none
              · rw [pollRecv_plain h0' hv.1 t v q hd hq]; exact key _ rfl
              · have hq1 : q = [] := by
                  false_or_by_contra; rename_i hne; exact hq (Or.inl hne)
                subst hq1
                cases hw : (s.chan c').recvWakers with
                | none => exact absurd (Or.inr hw) hq
                | some ws =>
                  by_cases he : s.empty = 0
                  · obtain ⟨l, hl⟩ := sw_some_of_zero h.core hv.1 he
                    rw [pollRecv_last_closed h0' hv.1 t v hd ws hw l he hl]; exact key _ rfl
                  · rw [pollRecv_last_open h0' hv.1 t v hd ws hw (by show 0 < s.empty; omega)]
                    exact key _ rfl
        · exact h0
      | clone c' =>
        refine ⟨?_, sentOf_not_send _ _ _ (by intro _ _ _ e; cases e)⟩
        simp only [step]
        split
        · rename_i hv
          simp only [setChan_chan]
          split
          · rename_i e; subst e; omega
          · exact h0
        · exact h0
      | dropTx c' =>
        refine ⟨?_, sentOf_not_send _ _ _ (by intro _ _ _ e; cases e)⟩
        simp only [step]
        split
        · rename_i hv
          have hcc : c ≠ c' := by intro e; subst e; omega
          obtain ⟨ws, hw⟩ := rw_some_of_tx h.core hv.1 hv.2
          by_cases h1 : 1 < (s.chan c').nSenders
          · rw [dropSender_notlast h.core hv.1 h1]; simp [setChan, hcc, h0]
          · have h1' : (s.chan c').nSenders = 1 := by omega
            by_cases hd : (s.chan c').data = some []
            · rw [dropSender_last_empty h.core hv.1 h1' hd ws hw]; simp [setChan, hcc, h0]
            · rw [dropSender_last_nonempty h.core hv.1 h1' hd ws hw]; simp [setChan, hcc, h0]
        · exact h0
      | dropRx c' =>
        refine ⟨?_, sentOf_not_send _ _ _ (by intro _ _ _ e; cases e)⟩
        simp only [step]
        split
        · rename_i hv
          split
          · rename_i q hd
            have key : ((setChan s c' { s.chan c' with data := none }).chan c).nSenders = 0 := by
              simp only [setChan_chan]; split
              · rename_i e; subst e; exact h0
              · exact h0
            by_cases h1 : q = [] ∧ 0 < (s.chan c').nSenders
            · obtain ⟨hq, hs⟩ := h1; subst hq
              rw [dropReceiver_open_empty h.core hv hs hd]; exact key
            · cases hsw : s.sendWakers with
              | none => rw [dropReceiver_other_open h.core hv q h1 hsw]; exact key
              | some l => rw [dropReceiver_other_closed h.core hv q h1 l hsw]; exact key
          · exact h0
        · exact h0
      | cancel t => exact ⟨h0, sentOf_not_send _ _ _ (by intro _ _ _ e; cases e)⟩
    have ih' := ih (step s op).1 (Proofs.C15.inv_step s op h) hn'.1
    rw [run_cons]
    exact ⟨ih'.1, by rw [sent_cons, hn'.2, ih'.2]; rfl⟩

example : (step (after 1 [.send 0 0 7, .dropTx 0, .recv 0 1]) (.recv 0 1)).2.res = .recvNone := by decide
example : (step (after 1 [.send 0 0 7, .dropTx 0]) (.recv 0 1)).2.res = .recvSome 7 := by decide

/-! ## a send fails only once the receiver is gone -/

/-- what a `send` on a live handle answers: `Err` iff the receiver was dropped; otherwise `Pending`
    iff the gate counter is 0, else `Ok` -/
theorem send_result (s : St) (h : Inv s) (c t v : Nat) (hc : c < s.n)
    (hs : 0 < (s.chan c).nSenders) :
    (step s (.send c t v)).2.res =
      match (s.chan c).data with
      | none => .sendErr
      | some _ => if s.empty = 0 then .sendPending else .sendOk := by
  obtain ⟨_, h2⟩ := step_send_spec h.core c t v ⟨hc, hs⟩
  simp only [dataOf] at h2
  split <;> rename_i hd <;> rw [hd] at h2 <;> simp only at h2
  · exact h2.1
  · split <;> rename_i he <;> simp only [he, if_true, if_false] at h2 <;> exact h2.1

/-- **send errs iff the receiver is gone** — state form -/
theorem send_err_iff_receiver_gone (s : St) (h : Inv s) (c t v : Nat) (hc : c < s.n)
    (hs : 0 < (s.chan c).nSenders) :
    (step s (.send c t v)).2.res = .sendErr ↔ (s.chan c).data = none := by
  rw [send_result s h c t v hc hs]
  cases (s.chan c).data with
  | none => simp
  | some q => simp only; split <;> simp

/-- … and the receiver is gone exactly when a `dropRx c` was executed in the history -/
theorem receiver_gone_iff_dropped (n : Nat) (hn : n ≤ usizeMax) (ops : List Op) (c : Nat) :
    ((after n ops).chan c).data = none ↔ rxDropped c (traceOf n ops) = true := by
  have := rx_gone_run (init n) (inv_init n hn) ops c
  simp only [dataOf] at this
  rw [this]
  constructor
  · rintro (h | h)
    · simp [init] at h
    · exact h
  · exact Or.inr

example : (step (after 2 [.dropRx 0]) (.send 0 0 7)).2.res = .sendErr := by decide
example : (step (after 2 [.dropRx 1]) (.send 0 0 7)).2.res = .sendOk := by decide

/-- **the gate blocks exactly when it should**: a send on a live channel is `Pending` iff every
    channel that is open at both ends is non-empty -/
theorem send_pending_iff_all_open_nonempty (s : St) (h : Inv s) (c t v : Nat) (hc : c < s.n)
    (hs : 0 < (s.chan c).nSenders) :
    (step s (.send c t v)).2.res = .sendPending ↔
      ((s.chan c).data ≠ none ∧ ∀ c', c' < s.n → openEmpty (s.chan c') = false) := by
  rw [send_result s h c t v hc hs]
  have hcnt := h.core.cnt
  cases hd : (s.chan c).data with
  | none => simp
  | some q =>
    simp only [ne_eq, reduceCtorEq, not_false_eq_true, true_and]
    constructor
    · intro h1
      have he : s.empty = 0 := by
        false_or_by_contra; rename_i hne; simp [hne] at h1
      exact fun c' hc' => countOE_zero _ _ (by rw [← hcnt]; exact he) c' hc'
    · intro h1
      have : s.empty = 0 := by rw [hcnt]; exact countOE_zero_of _ _ h1
      simp [this]

/-! ## the `expect(..)`s never fire -/

theorem no_panic (s : St) (h : Inv s) (op : Op) : (step s op).2.res ≠ .panic := by
  cases op with
  | send c t v =>
    by_cases hv : c < s.n ∧ 0 < (s.chan c).nSenders
    · rw [send_result s h c t v hv.1 hv.2]
      split
      · simp
      · split <;> simp
    · have hi : step s (.send c t v) = (s, ⟨.invalid, []⟩) := by simp [step, hv]
      rw [hi]; simp
  | recv c t =>
    by_cases hc : c < s.n
    · cases hd : (s.chan c).data with
      | none =>
        have hi : step s (.recv c t) = (s, ⟨.invalid, []⟩) := by simp [step, hd]
        rw [hi]; simp
      | some q =>
        rw [recv_result s h c t hc q hd]
        split
        · simp
        · split <;> simp
    · have hi : step s (.recv c t) = (s, ⟨.invalid, []⟩) := by simp [step, hc]
      rw [hi]; simp
  | clone c => rcases (step_clone_spec s c).2 with e | e <;> rw [e] <;> simp
  | dropTx c => rcases (step_dropTx_spec h.core c).2 with e | e <;> rw [e] <;> simp
  | dropRx c =>
    have := (step_dropRx_spec h.core c).2
    split at this <;> rw [this.1] <;> simp
  | cancel t => simp [step]

/-! ## no lost wake-up -/

/-- **no_lost_wakeup (sender).** In every state reachable by any history, a waiter whose last
    `send c` poll returned `Pending` and that has not been woken since is still registered in
    `send_wakers`, and is justified: the gate is closed — the counter is 0, i.e. *every* channel
    open at both ends is non-empty —, the receiver of `c` is alive, `c` has a live handle and a
    non-empty queue. -/
theorem no_lost_wakeup_sender (n : Nat) (hn : n ≤ usizeMax) (ops : List Op) (t c : Nat)
    (hb : BlockedSend (after n ops) t c) :
    (∃ l, (after n ops).sendWakers = some l ∧ (t, c) ∈ l) ∧
    (after n ops).empty = 0 ∧
    (∀ c', c' < (after n ops).n → openEmpty ((after n ops).chan c') = false) ∧
    c < (after n ops).n ∧ 0 < ((after n ops).chan c).nSenders ∧
    ∃ a q, ((after n ops).chan c).data = some (a :: q) := by
  have hI := inv_all_histories n hn ops
  obtain ⟨l, h1, h2, _⟩ := hI.waiters.bs t c hb.1 hb.2
  obtain ⟨he, hc, hq, hs⟩ := blockedSend_facts hI hb
  refine ⟨⟨l, h1, h2⟩, he, ?_, hc, hs, hq⟩
  exact fun c' hc' => countOE_zero _ _ (by rw [← hI.core.cnt]; exact he) c' hc'

/-- **no_lost_wakeup (receiver).** A waiter whose last `recv c` poll returned `Pending` and that has
    not been woken since is still registered in `recv_wakers` of `c`, and is justified: the queue
    of `c` is empty and some sender handle is alive. -/
theorem no_lost_wakeup_receiver (n : Nat) (hn : n ≤ usizeMax) (ops : List Op) (t c : Nat)
    (hb : BlockedRecv (after n ops) t c) :
    (∃ ws, ((after n ops).chan c).recvWakers = some ws ∧ t ∈ ws) ∧
    c < (after n ops).n ∧ ((after n ops).chan c).data = some [] ∧
    0 < ((after n ops).chan c).nSenders := by
  have hI := inv_all_histories n hn ops
  obtain ⟨ws, h1, h2, h3, h4⟩ := hI.waiters.br t c hb.1 hb.2
  refine ⟨⟨ws, h1, h2⟩, h3, h4, ?_⟩
  have := hI.core.tx c h3
  have : ¬ ((after n ops).chan c).nSenders = 0 := fun e => by rw [this.mp e] at h1; cases h1
  omega

-- non-vacuity: a blocked sender (gate closed by two non-empty channels) and a blocked receiver
example : BlockedSend (after 2 [.send 0 0 7, .send 1 1 8, .send 0 0 9]) 0 0 := ⟨by decide, by decide⟩
example : BlockedRecv (after 2 [.recv 1 5]) 5 1 := ⟨by decide, by decide⟩

/-! ## deadlock freedom -/

/-- a blocked sender and a blocked receiver never wait on the same channel: the sender waits for
    the receiver of its channel to drain it, and that receiver has something to take -/
theorem no_wait_cycle (s : St) (h : Inv s) (t t' c : Nat) :
    ¬ (BlockedSend s t c ∧ BlockedRecv s t' c) := by
  intro ⟨hs, hr⟩
  obtain ⟨_, _, ⟨a, q, hd⟩, _⟩ := blockedSend_facts h hs
  obtain ⟨_, _, _, _, h4⟩ := h.waiters.br t' c hr.1 hr.2
  simp only [dataOf] at hd
  rw [hd] at h4; cases h4

/-- ranking step for a blocked sender (see `Proofs.C15.sender_progress_step`): whatever happens
    next, either the sender is no longer blocked-and-unwoken, or the queue of its channel did not
    grow and — if the step was a `recv` on its channel — shrank. -/
theorem sender_progress (s : St) (h : Inv s) (t c : Nat) (hb : BlockedSend s t c) (op : Op) :
    ¬ BlockedSend (step s op).1 t c ∨
      (qlen (step s op).1 c ≤ qlen s c ∧
        (∀ t', op = .recv c t' → qlen (step s op).1 c < qlen s c)) :=
  sender_progress_step h hb op

/-- **deadlock freedom for senders.** From any reachable state in which `t` is blocked on
    `send c`: in *every* continuation `ops` (any interleaving of anything) that polls the receiver
    of `c` at least `qlen c` times, there is a point at which `t` is no longer blocked-and-unwoken
    (it was woken by the gate opening or by the receiver being dropped — or it moved on itself).
    "While receivers keep polling, no sender waits forever." -/
theorem deadlock_free_sender (n : Nat) (hn : n ≤ usizeMax) (hist : List Op) (t c : Nat)
    (_hb : BlockedSend (after n hist) t c) (ops : List Op)
    (hfair : qlen (after n hist) c ≤ recvCount c ops) :
    ∃ k, k ≤ ops.length ∧ ¬ BlockedSend (run (after n hist) (ops.take k)).1 t c := by
  false_or_by_contra
  rename_i hne
  have hall : ∀ k, k ≤ ops.length → BlockedSend (run (after n hist) (ops.take k)).1 t c := by
    intro k hk
    false_or_by_contra
    rename_i hk'
    exact hne ⟨k, hk, hk'⟩
  have hI := inv_all_histories n hn hist
  have hbound := drain_bound _ hI t c ops hall
  have hfin := hall ops.length (Nat.le_refl _)
  rw [List.take_length] at hfin
  obtain ⟨_, _, ⟨a, q, hd⟩, _⟩ := blockedSend_facts (inv_run _ ops hI) hfin
  have : 0 < qlen (run (after n hist) ops).1 c := by rw [qlen_eq, hd]; simp
  omega

/-- **progress for receivers.** If `t` is blocked on `recv c`, then *any* poll of a send on `c`
    succeeds immediately (the gate cannot be closed: `c` itself is open and empty) and wakes `t`;
    and dropping the last sender handle of `c` wakes `t` as well. A live sender therefore always
    unblocks the receiver with its next action. -/
theorem receiver_progress (s : St) (h : Inv s) (t c : Nat) (hb : BlockedRecv s t c) :
    (∀ t' v, (step s (.send c t' v)).2.res = .sendOk ∧ t ∈ (step s (.send c t' v)).2.wakes) ∧
    ((s.chan c).nSenders = 1 → t ∈ (step s (.dropTx c)).2.wakes) := by
  obtain ⟨ws, hw, ht, hc, hd⟩ := h.waiters.br t c hb.1 hb.2
  have htx := h.core.tx c hc
  have hs : 0 < (s.chan c).nSenders := by
    have : ¬ (s.chan c).nSenders = 0 := fun e => by rw [htx.mp e] at hw; cases hw
    omega
  constructor
  · intro t' v
    have h0 : InvC (pollBegin s t') := h.core.of_core rfl rfl rfl rfl
    have hc0 : c < (pollBegin s t').n := hc
    simp only [step, hc, hs, and_self, if_true]
    rw [pollSend_ok_empty h0 hc0 t' v hd ws hw]
    exact ⟨rfl, ht⟩
  · intro h1
    simp only [step, hc, hs, and_self, if_true]
    rw [dropSender_last_empty h.core hc h1 hd ws hw]
    exact ht

-- non-vacuity of `deadlock_free_sender`: the blocked sender above is woken by draining channel 0
example :
    let s := run (after 2 [.send 0 0 7, .send 1 1 8, .send 0 0 9]) [.recv 0 5]
    s.2.map (·.2) = [⟨.recvSome 7, [0]⟩] ∧ ¬ BlockedSend s.1 0 0 :=
  ⟨by decide, fun h => absurd h.2 (by decide)⟩

end DfModel.Props.C15
