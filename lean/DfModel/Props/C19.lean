/-
  C19 — dropping a query stream releases resources and stops background work.

  PARTIAL BY NATURE: what is proved is the ownership structure (dropping the root releases exactly the
  nodes all of whose owners are released — hence everything, if everything is owned) and the budget
  arithmetic of the cooperative wrapper (a task cannot go more than `budget` polls without returning
  `Pending`, so a cancellation / timeout gets its turn), plus the coverage of the `EnsureCooperative`
  rule.  That tokio really drops an aborted task's future "within bounded time", and that the OS
  deletes files, is runtime truth: it is sampled by the harness (notes/C19.md), not proved.
-/
import DfModel.Sm.Own
import DfModel.Proofs.C19
namespace DfModel.Props.C19
open DfModel.Sm.Own DfModel.Proofs.C19

/-- **drop releases exactly what it should.** For every (creation-ordered) ownership structure — including
    `Arc`-shared nodes — and every root `r`, the drop cascade releases node `k` iff every ownership path
    from `k` ends in `r` (`Released`): nothing reachable only through `r` stays alive (tasks keep
    running / reservations stay charged / spill files stay on disk), nothing else is touched. -/
theorem drop_root_releases_all (f : Forest) (hwf : wellFormed f = true) (r k : Nat) (hk : k < f.length) :
    (released f r).getD k false = true ↔ Released f r k := by
  have := releasedGo_spec r f hwf [] f [] (by simp) rfl (by intro k hk; simp at hk) k hk
  simpa [released] using this

/-- if every node except the root (the result stream, node 0) is owned by someone, dropping the root
    releases EVERYTHING: no task still running, no reservation, no spill file left -/
theorem drop_result_stream_releases_everything (f : Forest) (hwf : wellFormed f = true)
    (hroot : 0 < f.length) (howned : ∀ i os, 0 < i → f[i]? = some os → os ≠ []) :
    ∀ k, k < f.length → (released f 0).getD k false = true := by
  intro k
  induction k using Nat.strongRecOn with
  | _ k ih =>
    intro hk
    rw [drop_root_releases_all f hwf 0 k hk]
    cases k with
    | zero => exact Released.root hroot
    | succ n =>
      have hfi : f[n + 1]? = some (f[n + 1]'hk) := List.getElem?_eq_getElem hk
      refine Released.owned _ _ hfi (howned _ _ (by omega) hfi) ?_
      intro p hp
      have hlt : p < n + 1 := by
        have := hwf
        simp only [wellFormed, List.all_eq_true, List.mem_range, decide_eq_true_eq] at this
        have h2 := this (n + 1) hk
        have : f.getD (n + 1) [] = f[n + 1]'hk := by simp [List.getD_eq_getElem?_getD, hfi]
        rw [this] at h2
        exact h2 p hp
      exact (drop_root_releases_all f hwf 0 p (by omega)).mp (ih p hlt (by omega))

/-- a shared (`Arc`) node survives the drop of one of its owners while another owner is alive -/
theorem shared_survives_partial_drop :
    released [[], [], [0, 1], [2]] 0 = [true, false, false, false] ∧
    released [[], [0], [0, 1], [2]] 0 = [true, true, true, true] := by decide

/-! ### cooperative budget -/

/-- **coop yields.** Whatever the wrapped stream does (any sequence of Ready / Pending results), among
    any `budget + 1` consecutive polls of the cooperative wrapper at least one returns `Pending`
    (with a self-wake), so the task returns to the runtime and a cancellation / timeout is observed —
    even over an endless, always-ready input. Both budget implementations. -/
theorem coop_yields (v : Variant) (y : Nat) (b : Nat) (hb : b ≤ y) (ins : List Bool) (k : Nat)
    (hlen : k + (y + 1) ≤ ins.length) :
    ∃ j, j ≤ y ∧ (polls v y b ins)[k + j]? = some .pending := by
  obtain ⟨b', hb', hd⟩ := polls_drop v y b ins k
  obtain ⟨j, hj, hjp⟩ := pending_within v y b' (ins.drop k) (by simp only [List.length_drop]; have := hb' hb; omega)
  refine ⟨j, by have := hb' hb; omega, ?_⟩
  rw [← hd, List.getElem?_drop] at hjp
  exact hjp

/-- an always-ready (endless) input: exactly every (y+1)-th poll is `Pending` -/
example : polls .tokio 3 3 [true, true, true, true, true, true, true, true, true]
    = [.ready, .ready, .ready, .pending, .pending, .pending, .pending, .pending, .pending] := by decide
example : run .tokio 3 3 [some true, some true, some true, some true, none, some true, some false, some true]
    = [.ready, .ready, .ready, .pending, .ready, .pending, .ready] := by decide
example : polls .perStream 3 3 [true, true, true, true, true, true, true, true, true]
    = [.ready, .ready, .ready, .pending, .ready, .ready, .ready, .pending, .ready] := by decide

/-! ### `EnsureCooperative` -/

/-- **ensure_coop_covers.** After the rule, every leaf and every exchange (eager node) of the plan is
    cooperative or runs under a cooperative context, for every plan shape and every context. -/
theorem ensure_coop_covers (n : Node) (under : Bool) : covered under (ensure under n) = true := by
  induction n generalizing under with
  | leaf c => cases c <;> cases under <;> simp [ensure, wrap, covered, ctx]
  | unary c e ch ih =>
    have := ih (ctx c e under)
    cases c <;> cases e <;> cases under <;> simp_all [ensure, wrap, covered, ctx]
  | binary c e l r ihl ihr =>
    have h1 := ihl (ctx c e under)
    have h2 := ihr (ctx c e under)
    cases c <;> cases e <;> cases under <;> simp_all [ensure, wrap, covered, ctx]

-- a plan where the rule has to act: a non-cooperative exchange over a non-cooperative leaf
example : ensure false (.unary false true (.leaf false))
    = wrap (.unary false true (wrap (.leaf false))) := by rfl
example : covered false (.unary false true (.leaf false)) = false := by decide

end DfModel.Props.C19
