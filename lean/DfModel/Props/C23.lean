/-
  C23 — interval arithmetic and constraint propagation are sound (integer types).

  Model: `Mech/Interval.lean`, a branch-for-branch copy of
  `datafusion/expr-common/src/interval_arithmetic.rs` and of `propagate_arithmetic` /
  `propagate_comparison` (`physical-expr/src/intervals/cp_solver.rs`), parameterised by
  `Cfg` = which candidate repairs are present (`Cfg.pinned` = the code in /repo today).

  All theorems quantify over EVERY integer type satisfying `Ty.WF` (min ≤ 0 < max, unsigned ⇔
  min = 0: i8…i64, u8…u64 and any other width), every interval with optional endpoints of that
  type, and every pair of members.

  The code pinned upstream (`Cfg.pinned`) VIOLATES the property in `mul`, `div` and the
  propagation functions; each has a kernel-checked witness below (`*_unsound_pinned`,
  `propagate_*_unsound`).  `mul` and `div` have since been repaired in /repo (1280e04, 6b82196):
  `Cfg.current = ⟨true, true, false⟩`, and `op_sound` is proved in full for it.  The propagation
  defects are open: full statements kept as `*_statement`, what holds as `*_partial`.
-/
import DfModel.Mech.Interval
import DfModel.Proofs.C23
import DfModel.Proofs.C23Prop
import DfModel.Proofs.C23Mul
import DfModel.Proofs.C23Div
namespace DfModel.Props.C23
open DfModel.Mech.Interval DfModel.Proofs.C23

def i8 : Ty := Ty.ofBits false 8
def u8 : Ty := Ty.ofBits true 8
def i64 : Ty := Ty.ofBits false 64

theorem wf_i8 : i8.WF := ⟨by decide, by decide, by decide, by decide⟩
theorem wf_u8 : u8.WF := ⟨by decide, by decide, by decide, by decide⟩
theorem wf_i64 : i64.WF := ⟨by decide, by decide, by decide, by decide⟩

/-! ## arithmetic -/

/-- **add is sound**: `a ∈ I → b ∈ J → a + b representable → a + b ∈ I + J`, incl. every
    `handle_overflow` edge. -/
theorem add_sound {t : Ty} (hw : t.WF) {I J : Iv} (_hI : inTy t I) (hJ : inTy t J) {a b : Int}
    (ha : mem a I) (hb : mem b J) (hq : t.inRange (a + b)) : mem (a + b) (add t I J) := by
  apply mem_mk hw hq
  · apply addBounds_lb hq hJ.1
    intro x y hx hy
    have := ha.1 x hx; have := hb.1 y hy; omega
  · apply addBounds_ub hq hJ.2
    intro x y hx hy
    have := ha.2 x hx; have := hb.2 y hy; omega

/-- **sub is sound**. -/
theorem sub_sound {t : Ty} (hw : t.WF) {I J : Iv} {a b : Int}
    (ha : mem a I) (hb : mem b J) (hq : t.inRange (a - b)) : mem (a - b) (sub t I J) := by
  apply mem_mk hw hq
  · apply subBounds_lb hw hq
    intro x y hx hy
    have := ha.1 x hx; have := hb.2 y hy; omega
  · apply subBounds_ub hw hq
    intro x y hx hy
    have := ha.2 x hx; have := hb.1 y hy; omega

-- non-vacuity: an overflow edge (i8: [100,120] + [100,120] = [127, NULL]) and a plain case
example : add i8 ⟨some 100, some 120⟩ ⟨some 100, some 120⟩ = ⟨some 127, none⟩ := by decide
example : add i8 ⟨some (-3), some 4⟩ ⟨none, some 5⟩ = ⟨none, some 9⟩ := by decide
example : mem (-7 + 5) (add i8 ⟨some (-7), some 4⟩ ⟨none, some 5⟩) :=
  add_sound wf_i8 (by constructor <;> intro v h <;> cases h <;> decide)
    (by constructor <;> intro v h <;> cases h <;> decide)
    (by constructor <;> intro v h <;> cases h <;> decide)
    (by constructor <;> intro v h <;> cases h <;> decide) (by decide)

/-- the case split of `Interval::mul` never loses a product when the two-zero helper is not
    involved — for every type, every endpoint combination, every overflow edge -/
theorem mul_sound_no_multi_zero {c : Cfg} {t : Ty} (hw : t.WF) {I J : Iv}
    (hI : inTy t I) (hJ : inTy t J) {a b : Int} (ha : mem a I) (hb : mem b J)
    (hra : t.inRange a) (hrb : t.inRange b) (hq : t.inRange (a * b))
    (hz : ¬ (containsValue I 0 = true ∧ containsValue J 0 = true ∧ t.uns = false)) :
    mem (a * b) (mul c t I J) := by
  unfold mul
  cases hi : containsValue I 0 <;> cases hj : containsValue J 0 <;> cases hu : t.uns <;>
    simp only
  · exact mulZeroExclusive_sound hw hI hJ ha hb hra hrb hq (Or.inr hi) (Or.inr hj)
  · exact mulZeroExclusive_sound hw hI hJ ha hb hra hrb hq (Or.inl hu) (Or.inl hu)
  · rw [Int.mul_comm]
    exact mulSingleZero_sound hw hI hb ha hra (by rw [Int.mul_comm]; exact hq) hj hi
  · exact mulZeroExclusive_sound hw hI hJ ha hb hra hrb hq (Or.inl hu) (Or.inl hu)
  · exact mulSingleZero_sound hw hJ ha hb hrb hq hi hj
  · exact mulZeroExclusive_sound hw hI hJ ha hb hra hrb hq (Or.inl hu) (Or.inl hu)
  · exact absurd ⟨hi, hj, hu⟩ hz
  · exact mulZeroExclusive_sound hw hI hJ ha hb hra hrb hq (Or.inl hu) (Or.inl hu)

/-- two-zero helper, repaired combination (`nullOr`): sound -/
theorem mulMultiZero_fixed_sound {t : Ty} (hw : t.WF) {I J : Iv} {a b : Int}
    (ha : mem a I) (hb : mem b J) (hq : t.inRange (a * b))
    (hi : containsValue I 0 = true) (hj : containsValue J 0 = true) :
    mem (a * b) (mulMultiZero true t I J) := by
  obtain ⟨il0, ih0⟩ := contains0_facts hi
  obtain ⟨jl0, jh0⟩ := contains0_facts hj
  unfold mulMultiZero
  split
  · exact mem_unbounded hw hq
  · rename_i hn
    simp only [Bool.or_eq_true, not_or, Bool.not_eq_true, Option.isNone_eq_false_iff,
      Option.isSome_iff_exists] at hn
    obtain ⟨⟨⟨⟨l1, hl1⟩, ⟨h1, hh1⟩⟩, ⟨l2, hl2⟩⟩, ⟨h2, hh2⟩⟩ := hn
    have e1 := ha.1 l1 hl1; have e2 := ha.2 h1 hh1
    have e3 := hb.1 l2 hl2; have e4 := hb.2 h2 hh2
    have z1 := il0 l1 hl1; have z2 := ih0 h1 hh1
    have z3 := jl0 l2 hl2; have z4 := jh0 h2 hh2
    simp only [hl1, hh1, hl2, hh2, if_true]
    apply mem_mk hw hq
    · intro v hv
      unfold nullOr at hv
      split at hv
      · cases hv
      · rename_i hs
        simp only [Bool.or_eq_true, not_or, Bool.not_eq_true, Option.isNone_eq_false_iff,
          Option.isSome_iff_exists] at hs
        obtain ⟨⟨v1, hv1⟩, ⟨v2, hv2⟩⟩ := hs
        have p1 : l1 * h2 ≤ 0 := by nlinarith
        have p2 : l2 * h1 ≤ 0 := by nlinarith
        have w1 := mulBounds_lo_some p1 hv1
        have w2 := mulBounds_lo_some p2 hv2
        rw [hv1, hv2] at hv
        have hmin : v = v1 ∨ v = v2 := by
          rcases minOfBounds_cases (some v1) (some v2) with h | h <;> rw [h] at hv <;>
            simp only [Option.some.injEq] at hv <;> omega
        have hle : v ≤ v1 ∧ v ≤ v2 := by
          unfold minOfBounds at hv
          split at hv
          · rename_i hc
            simp only [Option.isNone_some, Bool.not_false, Bool.false_or, Bool.true_and, ole,
              decide_eq_true_eq] at hc
            simp only [Option.some.injEq] at hv
            omega
          · rename_i hc
            simp only [Option.isNone_some, Bool.not_false, Bool.false_or, Bool.true_and, ole,
              decide_eq_true_eq] at hc
            simp only [Option.some.injEq] at hv
            omega
        subst w1 w2
        rcases le_total 0 a with sa | sa <;> rcases le_total 0 b with sb | sb
        · have : 0 ≤ a * b := Int.mul_nonneg sa sb
          omega
        · have : h1 * l2 ≤ a * b := by nlinarith
          have : l2 * h1 = h1 * l2 := Int.mul_comm _ _
          omega
        · have : l1 * h2 ≤ a * b := by nlinarith
          omega
        · have : 0 ≤ a * b := by nlinarith
          omega
    · intro v hv
      unfold nullOr at hv
      split at hv
      · cases hv
      · rename_i hs
        simp only [Bool.or_eq_true, not_or, Bool.not_eq_true, Option.isNone_eq_false_iff,
          Option.isSome_iff_exists] at hs
        obtain ⟨⟨v1, hv1⟩, ⟨v2, hv2⟩⟩ := hs
        have p1 : 0 ≤ h1 * h2 := Int.mul_nonneg z2 z4
        have p2 : 0 ≤ l1 * l2 := by nlinarith
        have w1 := mulBounds_hi_some hw p1 hv1
        have w2 := mulBounds_hi_some hw p2 hv2
        rw [hv1, hv2] at hv
        have hge : v1 ≤ v ∧ v2 ≤ v := by
          unfold maxOfBounds at hv
          split at hv
          · rename_i hc
            simp only [Option.isNone_some, Bool.not_false, Bool.false_or, Bool.true_and, ole,
              decide_eq_true_eq] at hc
            simp only [Option.some.injEq] at hv
            omega
          · rename_i hc
            simp only [Option.isNone_some, Bool.not_false, Bool.false_or, Bool.true_and, ole,
              decide_eq_true_eq] at hc
            simp only [Option.some.injEq] at hv
            omega
        subst w1 w2
        rcases le_total 0 a with sa | sa <;> rcases le_total 0 b with sb | sb
        · have : a * b ≤ h1 * h2 := by nlinarith
          omega
        · have : a * b ≤ 0 := by nlinarith
          omega
        · have : a * b ≤ 0 := by nlinarith
          omega
        · have : a * b ≤ l1 * l2 := by nlinarith
          omega

/-- **mul is sound once `mul_helper_multi_zero_inclusive` is repaired** (notes/C23_fix_mul.patch):
    all nine sign cases, unbounded endpoints, overflow edges. -/
theorem mul_sound {c : Cfg} (hfix : c.fixMul = true) {t : Ty} (hw : t.WF) {I J : Iv}
    (hI : inTy t I) (hJ : inTy t J) {a b : Int} (ha : mem a I) (hb : mem b J)
    (hra : t.inRange a) (hrb : t.inRange b) (hq : t.inRange (a * b)) :
    mem (a * b) (mul c t I J) := by
  by_cases hz : containsValue I 0 = true ∧ containsValue J 0 = true ∧ t.uns = false
  · obtain ⟨hi, hj, hu⟩ := hz
    unfold mul
    simp only [hi, hj, hu, hfix]
    exact mulMultiZero_fixed_sound hw ha hb hq hi hj
  · exact mul_sound_no_multi_zero hw hI hJ ha hb hra hrb hq hz

/-- the full property for `mul`, as a statement about a configuration of the code -/
def mul_sound_statement (c : Cfg) : Prop :=
  ∀ (t : Ty), t.WF → ∀ (I J : Iv), inTy t I → inTy t J → ∀ (a b : Int), mem a I → mem b J →
    t.inRange a → t.inRange b → t.inRange (a * b) → mem (a * b) (mul c t I J)

theorem mul_sound_repaired : mul_sound_statement Cfg.repaired :=
  fun _ hw _ _ hI hJ _ _ ha hb hra hrb hq => mul_sound rfl hw hI hJ ha hb hra hrb hq

/-- **DEFECT (pinned code).** Int8 `[-100, 1] * [-1, 100]` evaluates to `[-1, 100]`, yet
    `-100 ∈ [-100,1]`, `1 ∈ [-1,100]` and `-100 * 1 = -100` is representable.
    (Same shape on Int64: `[MIN, 1] * [0, 2] = [0, 2]`.)  Reproduced on the real code. -/
theorem mul_unsound_pinned : ¬ mul_sound_statement Cfg.pinned := by
  intro h
  have := h i8 wf_i8 ⟨some (-100), some 1⟩ ⟨some (-1), some 100⟩
    (by constructor <;> intro v h <;> cases h <;> decide)
    (by constructor <;> intro v h <;> cases h <;> decide) (-100) 1
    (by constructor <;> intro v h <;> cases h <;> decide)
    (by constructor <;> intro v h <;> cases h <;> decide) (by decide) (by decide) (by decide)
  have e : mul Cfg.pinned i8 ⟨some (-100), some 1⟩ ⟨some (-1), some 100⟩ = ⟨some (-1), some 100⟩ := by
    decide
  rw [e] at this
  have := this.1 (-1) rfl
  omega

example : mul Cfg.pinned i64 ⟨some (-9223372036854775808), some 1⟩ ⟨some 0, some 2⟩
    = ⟨some 0, some 2⟩ := by decide
/-- the same defect on plain non-negative ranges: Int64 `[0, 2^32] * [0, 2^32] = [0, 0]`
    (the overflowed upper candidate `2^64` is NULL and loses against `0 * 0`) -/
example : mul Cfg.pinned i64 ⟨some 0, some 4294967296⟩ ⟨some 0, some 4294967296⟩
    = ⟨some 0, some 0⟩ := by decide
example : mul Cfg.repaired i64 ⟨some 0, some 4294967296⟩ ⟨some 0, some 4294967296⟩
    = ⟨some 0, none⟩ := by decide
example : mul Cfg.repaired i64 ⟨some (-9223372036854775808), some 1⟩ ⟨some 0, some 2⟩
    = ⟨none, some 2⟩ := by decide

/-- what holds of the pinned code: sound whenever the two-zero helper is not reached
    (at most one operand contains 0, or the type is unsigned).  Missing for the full statement:
    both operands contain 0 — false today, see `mul_unsound_pinned`. -/
theorem mul_sound_partial {t : Ty} (hw : t.WF) {I J : Iv}
    (hI : inTy t I) (hJ : inTy t J) {a b : Int} (ha : mem a I) (hb : mem b J)
    (hra : t.inRange a) (hrb : t.inRange b) (hq : t.inRange (a * b))
    (hz : ¬ (containsValue I 0 = true ∧ containsValue J 0 = true ∧ t.uns = false)) :
    mem (a * b) (mul Cfg.pinned t I J) :=
  mul_sound_no_multi_zero hw hI hJ ha hb hra hrb hq hz

-- non-vacuity: zero-spanning × negative, overflow edge (i8: [-3, 100] * [-2, -1] = [NULL, 6])
example : mul Cfg.pinned i8 ⟨some (-3), some 100⟩ ⟨some (-2), some (-1)⟩ = ⟨none, some 6⟩ := by decide

/-! ### division -/

/-- the full property for `div` (truncating integer division; `b = 0` and `MIN / -1` have no
    representable result) -/
def div_sound_statement (c : Cfg) : Prop :=
  ∀ (t : Ty), t.WF → ∀ (I J : Iv), inTy t I → inTy t J → ∀ (a b : Int), mem a I → mem b J →
    t.inRange a → t.inRange b → b ≠ 0 → t.inRange (a.tdiv b) → mem (a.tdiv b) (div c t I J)

/-- **DEFECT (pinned code).** Int8 `[2, 10] / [-5, 0]` evaluates to `[NULL, -2]`, yet
    `2 / -5 = 0`.  The divisor's upper endpoint 0 is classified "positive" because the sign test
    is `upper <= zero_point.lower` (= −1).  Reproduced on the real code (also Int64). -/
theorem div_unsound_pinned : ¬ div_sound_statement Cfg.pinned := by
  intro h
  have := h i8 wf_i8 ⟨some 2, some 10⟩ ⟨some (-5), some 0⟩
    (by constructor <;> intro v h <;> cases h <;> decide)
    (by constructor <;> intro v h <;> cases h <;> decide) 2 (-5)
    (by constructor <;> intro v h <;> cases h <;> decide)
    (by constructor <;> intro v h <;> cases h <;> decide) (by decide) (by decide) (by decide)
    (by decide)
  have e : div Cfg.pinned i8 ⟨some 2, some 10⟩ ⟨some (-5), some 0⟩ = ⟨none, some (-2)⟩ := by decide
  rw [e] at this
  have h2 := this.2 (-2) rfl
  have : (2 : Int).tdiv (-5) = 0 := by decide
  omega

/-- further reproduced instances of the same defect: an inverted result, `[0,0]` for a divisor
    `(-∞, 0]`, and a dividend with upper endpoint 0 -/
example : div Cfg.pinned i8 ⟨some (-10), some 10⟩ ⟨some (-5), some 0⟩ = ⟨some 2, some (-2)⟩ := by decide
example : div Cfg.pinned i8 ⟨some (-10), some 10⟩ ⟨none, some 0⟩ = ⟨some 0, some 0⟩ := by decide
example : div Cfg.pinned i8 ⟨some (-10), some 0⟩ ⟨some 2, some 5⟩ = ⟨some (-2), some 0⟩ := by decide
/-- … and what the candidate repair (notes/C23_fix_div.patch) computes for them -/
example : div Cfg.repaired i8 ⟨some 2, some 10⟩ ⟨some (-5), some 0⟩ = ⟨none, some 0⟩ := by decide
example : div Cfg.repaired i8 ⟨some (-10), some 10⟩ ⟨some (-5), some 0⟩ = ⟨none, none⟩ := by decide
example : div Cfg.repaired i8 ⟨some (-10), some 10⟩ ⟨none, some 0⟩ = ⟨none, none⟩ := by decide
example : div Cfg.repaired i8 ⟨some (-10), some 0⟩ ⟨some 2, some 5⟩ = ⟨some (-5), some 0⟩ := by decide

/-- the unbounded branch: a divisor interval strictly containing zero (⊇ [-1, 1]) gives the
    unbounded interval, for either configuration -/
theorem div_sound_partial {c : Cfg} {t : Ty} (hw : t.WF) {I J : Iv} {a b : Int}
    (hs : t.uns = false) (hz : contains J (zeroPoint t) = .TRUE)
    (hq : t.inRange (a.tdiv b)) : mem (a.tdiv b) (div c t I J) := by
  unfold div
  simp only [hz, hs, beq_self_eq_true, Bool.not_false, Bool.and_self, if_true]
  exact mem_unbounded hw hq

example : contains ⟨some (-3), none⟩ (zeroPoint i8) = .TRUE := by decide

/-- **div is sound once the operand signs are classified against zero** (/repo 6b82196,
    `fixDiv`): the unbounded branch, the two sign cases of `div_helper_lhs_zero_inclusive` and the
    four of `div_helper_zero_exclusive` for signed types, the unsigned path, NULL endpoints,
    endpoints equal to 0, and the `MIN / -1` overflow edge — by monotonicity of truncating division
    on fixed-sign ranges (`Proofs/C23Div.lean`). -/
theorem div_sound {c : Cfg} (hfix : c.fixDiv = true) {t : Ty} (hw : t.WF) {I J : Iv}
    (hI : inTy t I) (hJ : inTy t J) {a b : Int} (ha : mem a I) (hb : mem b J)
    (hra : t.inRange a) (hrb : t.inRange b) (hb0 : b ≠ 0) (hq : t.inRange (a.tdiv b)) :
    mem (a.tdiv b) (div c t I J) := by
  unfold div
  simp only [hfix, if_true]
  cases hu : t.uns with
  | true =>
    simp only [Bool.not_true, Bool.and_false, Bool.false_eq_true, if_false]
    exact divZeroExclusive_sound hw hI hJ ha hb hra hrb hb0 hq (Or.inl hu) (Or.inl hu)
  | false =>
    simp only [Bool.not_false, Bool.and_true]
    by_cases hcJ : contains J (zeroPoint t) = .TRUE
    · simp only [hcJ, beq_self_eq_true, if_true]
      exact mem_unbounded hw hq
    · have e1 : (contains J (zeroPoint t) == BIv.TRUE) = false := by simpa using hcJ
      simp only [e1, Bool.false_eq_true, if_false]
      by_cases hcI : contains I (zeroPoint t) = .TRUE
      · simp only [hcI, beq_self_eq_true, if_true]
        exact divLhsZeroInclusive_sound hw hu hJ ha hb hrb hb0 hq hcI hcJ
      · have e2 : (contains I (zeroPoint t) == BIv.TRUE) = false := by simpa using hcI
        simp only [e2, Bool.false_eq_true, if_false]
        exact divZeroExclusive_sound hw hI hJ ha hb hra hrb hb0 hq (Or.inr hcI) (Or.inr hcJ)

theorem div_sound_current : div_sound_statement Cfg.current :=
  fun _ hw _ _ hI hJ _ _ ha hb hra hrb hb0 hq => div_sound rfl hw hI hJ ha hb hra hrb hb0 hq

-- non-vacuity: endpoint 0 in the divisor, zero-spanning dividend, overflow edge MIN / -1
example : div Cfg.current i8 ⟨some (-10), some 10⟩ ⟨some (-5), some 0⟩ = ⟨none, none⟩ := by decide
example : div Cfg.current i8 ⟨some (-10), some 10⟩ ⟨some 2, some 5⟩ = ⟨some (-5), some 5⟩ := by decide
example : div Cfg.current i8 ⟨some (-128), some (-100)⟩ ⟨some (-2), some (-1)⟩ = ⟨some 50, none⟩ := by decide

/-- **`op_sound`** for a configuration `c`: `+` and `-` always, `*` when the mul repair is in or
    the two-zero helper is not reached, `/` when the div repair is in. -/
theorem op_sound_partial {c : Cfg} {t : Ty} (hw : t.WF) {I J : Iv}
    (hI : inTy t I) (hJ : inTy t J) {a b : Int} (ha : mem a I) (hb : mem b J)
    (hra : t.inRange a) (hrb : t.inRange b) (op : AOp) {v : Int} (hv : op.exact a b = some v)
    (hq : t.inRange v)
    (hop : op = .add ∨ op = .sub ∨ (op = .mul ∧ (c.fixMul = true ∨
      ¬ (containsValue I 0 = true ∧ containsValue J 0 = true ∧ t.uns = false))) ∨
      (op = .div ∧ c.fixDiv = true)) :
    mem v (applyArith c t op I J) := by
  rcases hop with h | h | ⟨h, hm⟩ | ⟨h, hd⟩
  · subst h; simp only [AOp.exact, Option.some.injEq] at hv; subst hv
    exact add_sound hw hI hJ ha hb hq
  · subst h; simp only [AOp.exact, Option.some.injEq] at hv; subst hv
    exact sub_sound hw ha hb hq
  · subst h; simp only [AOp.exact, Option.some.injEq] at hv; subst hv
    rcases hm with hm | hm
    · exact mul_sound hm hw hI hJ ha hb hra hrb hq
    · exact mul_sound_no_multi_zero hw hI hJ ha hb hra hrb hq hm
  · subst h
    simp only [AOp.exact] at hv
    split at hv
    · cases hv
    · rename_i hb0
      simp only [Option.some.injEq] at hv; subst hv
      exact div_sound hd hw hI hJ ha hb hra hrb hb0 hq

/-- the full `op_sound` -/
def op_sound_statement (c : Cfg) : Prop :=
  ∀ (t : Ty), t.WF → ∀ (I J : Iv), inTy t I → inTy t J → ∀ (a b : Int), mem a I → mem b J →
    t.inRange a → t.inRange b → ∀ (op : AOp) (v : Int), op.exact a b = some v → t.inRange v →
    mem v (applyArith c t op I J)

theorem op_unsound_pinned : ¬ op_sound_statement Cfg.pinned := by
  intro h
  apply mul_unsound_pinned
  intro t hw I J hI hJ a b ha hb hra hrb hq
  exact h t hw I J hI hJ a b ha hb hra hrb .mul (a * b) rfl hq

/-- **`op_sound` holds in full for the code /repo contains now** (`Cfg.current`: mul repair
    1280e04 and div repair 6b82196): for every integer type, every operator `+ - * /`, all
    intervals and all members, a representable result is in the computed interval. -/
theorem op_sound : op_sound_statement Cfg.current := by
  intro t hw I J hI hJ a b ha hb hra hrb op v hv hq
  apply op_sound_partial hw hI hJ ha hb hra hrb op hv hq
  cases op
  · exact Or.inl rfl
  · exact Or.inr (Or.inl rfl)
  · exact Or.inr (Or.inr (Or.inl ⟨rfl, Or.inl rfl⟩))
  · exact Or.inr (Or.inr (Or.inr ⟨rfl, rfl⟩))

/-! ## comparisons and boolean connectives -/

/-- **`cmp_sound`**: the boolean interval returned by `= > >= < <=` contains the actual truth value -/
theorem cmp_sound (op : COp) {I J : Iv} {a b : Int} (ha : mem a I) (hb : mem b J) :
    bmem (op.holds a b) (applyCmp op I J) := by
  cases op <;> simp only [COp.holds, applyCmp, lt, ltEq]
  · exact equal_sound ha hb
  · exact gt_sound ha hb
  · exact gtEq_sound ha hb
  · have := gt_sound hb ha
    simpa [GT.gt] using this
  · have := gtEq_sound hb ha
    simpa [GE.ge] using this

example : applyCmp .gt ⟨some 5, none⟩ ⟨none, some 4⟩ = .TRUE := by decide
example : applyCmp .eq ⟨some 5, some 5⟩ ⟨some 5, some 5⟩ = .TRUE := by decide
example : applyCmp .ltEq ⟨some 5, some 9⟩ ⟨some 7, some 8⟩ = .TF := by decide

theorem and_sound {A B : BIv} {x y : Bool} (hx : bmem x A) (hy : bmem y B) :
    bmem (x && y) (band A B) := band_sound hx hy
theorem or_sound {A B : BIv} {x y : Bool} (hx : bmem x A) (hy : bmem y B) :
    bmem (x || y) (bor A B) := bor_sound hx hy
theorem not_sound {A : BIv} {x : Bool} (hx : bmem x A) : bmem (!x) (bnot A) := bnot_sound hx

/-! ## intersect / union / contains -/

/-- a common member is never lost; in particular `None` is returned only for disjoint intervals -/
theorem intersect_keeps_common {I J : Iv} {v : Int} (hi : mem v I) (hj : mem v J) :
    ∃ K, intersect I J = some K ∧ mem v K := intersect_sound hi hj

theorem union_contains_both {I J : Iv} {v : Int} (h : mem v I ∨ mem v J) : mem v (union I J) :=
  h.elim union_sound_left union_sound_right

/-- `contains = TRUE` really means superset, `FALSE` really means disjoint -/
theorem contains_sound {I J : Iv} {v : Int} :
    (contains I J = .TRUE → mem v J → mem v I) ∧
    (contains I J = .FALSE → mem v I → mem v J → False) :=
  ⟨contains_true_sound, contains_false_sound⟩

example : contains ⟨some 1, none⟩ ⟨some 3, some 9⟩ = .TRUE := by decide
example : contains ⟨some 1, some 2⟩ ⟨some 3, some 9⟩ = .FALSE := by decide

/-! ## constraint propagation -/

/-- **`satisfy_greater` keeps every solution** of `left > right` (strict) / `left ≥ right`,
    including `next_value`/`prev_value` at MIN/MAX and unbounded endpoints; it answers
    "infeasible" only if there is none. -/
theorem satisfy_greater_keeps_solutions {t : Ty} (hw : t.WF) {l r : Iv} {a b : Int} (strict : Bool)
    (ha : mem a l) (hb : mem b r) (hra : t.inRange a) (hrb : t.inRange b)
    (hc : if strict then b < a else b ≤ a) :
    ∃ l' r', satisfyGreater t l r strict = some (l', r') ∧ mem a l' ∧ mem b r' :=
  satisfy_greater_sound hw strict ha hb hra hrb hc

example : satisfyGreater i8 ⟨some 0, some 10⟩ ⟨some 5, some 127⟩ true
    = some (⟨some 6, some 10⟩, ⟨some 5, some 9⟩) := by decide

/-- `propagate_comparison` keeps every assignment consistent with a definite parent value.
    `ok c parent` says for which parents this configuration of the code is sound. -/
theorem propagate_comparison_keeps_solutions {c : Cfg} {t : Ty} (hw : t.WF) (op : COp)
    {parent : BIv} {l r : Iv} {a b : Int}
    (ha : mem a l) (hb : mem b r) (hra : t.inRange a) (hrb : t.inRange b)
    (hp : (parent = .TRUE ∧ op.holds a b = true) ∨
          (parent = .FALSE ∧ op.holds a b = false ∧ op ≠ .eq ∧ c.fixPc = true)) :
    ∃ l' r', propagateComparison c t op parent l r = some (l', r') ∧ mem a l' ∧ mem b r' := by
  rcases hp with ⟨hp, hh⟩ | ⟨hp, hh, hne, hfix⟩
  · subst hp
    unfold propagateComparison
    simp only [beq_self_eq_true, if_true]
    cases op <;> simp only [COp.holds, decide_eq_true_eq] at hh <;> simp only
    · subst hh
      obtain ⟨k, hk, hm⟩ := intersect_sound ha hb
      exact ⟨k, k, by simp [hk], hm, hm⟩
    · exact satisfy_greater_sound hw true ha hb hra hrb (by simpa using hh)
    · exact satisfy_greater_sound hw false ha hb hra hrb (by simpa using hh)
    · obtain ⟨r', l', h1, h2, h3⟩ := satisfy_greater_sound hw true hb ha hrb hra (by simpa using hh)
      exact ⟨l', r', by simp [h1, swapPair], h3, h2⟩
    · obtain ⟨r', l', h1, h2, h3⟩ := satisfy_greater_sound hw false hb ha hrb hra (by simpa using hh)
      exact ⟨l', r', by simp [h1, swapPair], h3, h2⟩
  · subst hp
    unfold propagateComparison
    have e1 : (BIv.FALSE == BIv.TRUE) = false := by decide
    simp only [e1, beq_self_eq_true, if_true, Bool.false_eq_true, if_false, hfix]
    cases op <;> simp only [COp.holds, decide_eq_false_iff_not] at hh <;> simp only
    · exact absurd rfl hne
    · obtain ⟨r', l', h1, h2, h3⟩ :=
        satisfy_greater_sound hw false hb ha hrb hra (by simp only [Bool.false_eq_true, if_false]; omega)
      exact ⟨l', r', by simp [h1, swapPair], h3, h2⟩
    · obtain ⟨r', l', h1, h2, h3⟩ :=
        satisfy_greater_sound hw true hb ha hrb hra (by simp only [if_true]; omega)
      exact ⟨l', r', by simp [h1, swapPair], h3, h2⟩
    · obtain ⟨l', r', h1, h2, h3⟩ :=
        satisfy_greater_sound hw false ha hb hra hrb (by simp only [Bool.false_eq_true, if_false]; omega)
      exact ⟨l', r', by simp [h1], h2, h3⟩
    · obtain ⟨l', r', h1, h2, h3⟩ :=
        satisfy_greater_sound hw true ha hb hra hrb (by simp only [if_true]; omega)
      exact ⟨l', r', by simp [h1], h2, h3⟩

/-- **DEFECT (pinned code).** `propagate_comparison(Gt, parent = FALSE, [-64,126], [9,9])`
    (i.e. NOT(left > right)) returns `left = [9,9], right = [-64,9]`: the refined children come
    back swapped, so the satisfying assignment `left = -64, right = 9` is removed. -/
theorem propagate_comparison_false_parent_swapped :
    propagateComparison Cfg.pinned i8 .gt .FALSE ⟨some (-64), some 126⟩ ⟨some 9, some 9⟩
      = some (⟨some 9, some 9⟩, ⟨some (-64), some 9⟩)
    ∧ ¬ mem (-64) ⟨some 9, some 9⟩ := by
  refine ⟨by decide, ?_⟩
  intro h
  have := h.1 9 rfl
  omega

example : propagateComparison Cfg.repaired i8 .gt .FALSE ⟨some (-64), some 126⟩ ⟨some 9, some 9⟩
    = some (⟨some (-64), some 9⟩, ⟨some 9, some 9⟩) := by decide

/-- `propagate_arithmetic` for `+` and `-` keeps every assignment `x op y = p` with `p` in the
    parent range. -/
theorem propagate_arithmetic_keeps_solutions_addsub {c : Cfg} {t : Ty} (hw : t.WF) (op : AOp)
    (hop : op = .add ∨ op = .sub) {P L R : Iv} (hP : inTy t P) (hL : inTy t L) (hR : inTy t R)
    {x y p : Int} (hx : mem x L) (hy : mem y R) (hpm : mem p P)
    (hrx : t.inRange x) (hry : t.inRange y) (he : op.exact x y = some p) :
    ∃ L' R', propagateArithmetic c t op P L R = some (L', R') ∧ mem x L' ∧ mem y R' := by
  rcases hop with h | h <;> subst h <;> simp only [AOp.exact, Option.some.injEq] at he <;> subst he
  · -- x = p - y ; y = p - x
    have h1 : mem x (sub t P R) := by
      have := sub_sound hw hpm hy (a := x + y) (b := y) (by simpa using hrx)
      simpa using this
    obtain ⟨v, hv, hxv⟩ := intersect_sound h1 hx
    have h2 : mem y (sub t P v) := by
      have := sub_sound hw hpm hxv (a := x + y) (b := x) (by
        have : x + y - x = y := by omega
        rw [this]; exact hry)
      have e : x + y - x = y := by omega
      rwa [e] at this
    obtain ⟨w, hw', hyw⟩ := intersect_sound h2 hy
    refine ⟨v, w, ?_, hxv, hyw⟩
    simp [propagateArithmetic, AOp.inverse, applyArith, hv, propagateRight, hw']
  · -- x = p + y ; y = x - p
    have h1 : mem x (add t P R) := by
      have := add_sound hw hP hR hpm hy (a := x - y) (b := y) (by
        have : x - y + y = x := by omega
        rw [this]; exact hrx)
      have e : x - y + y = x := by omega
      rwa [e] at this
    obtain ⟨v, hv, hxv⟩ := intersect_sound h1 hx
    have h2 : mem y (sub t v P) := by
      have := sub_sound hw hxv hpm (a := x) (b := x - y) (by
        have : x - (x - y) = y := by omega
        rw [this]; exact hry)
      have e : x - (x - y) = y := by omega
      rwa [e] at this
    obtain ⟨w, hw', hyw⟩ := intersect_sound h2 hy
    refine ⟨v, w, ?_, hxv, hyw⟩
    simp [propagateArithmetic, AOp.inverse, applyArith, hv, propagateRight, hw']

example : propagateArithmetic Cfg.pinned i8 .add ⟨some 10, some 20⟩ ⟨some 0, some 100⟩ ⟨some 5, some 8⟩
    = some (⟨some 2, some 15⟩, ⟨some 5, some 8⟩) := by decide

/-- **DEFECT (every configuration).** Integer `x / y = p` is inverted as `x ∈ y * p`, which
    ignores truncation: `x = 7, y = 2, p = 3` satisfies the constraint but is declared infeasible. -/
theorem propagate_arithmetic_int_div_unsound (c : Cfg) :
    (7 : Int).tdiv 2 = 3 ∧
    propagateArithmetic c i8 .div ⟨some 3, some 3⟩ ⟨some 7, some 7⟩ ⟨some 2, some 2⟩ = none := by
  rcases c with ⟨_ | _, _ | _, _ | _⟩ <;> decide

/-- **DEFECT (every configuration).** `x * y = p` is inverted as `x ∈ p / y`; when `y` may be 0
    and `p` may be 0 every `x` is a solution, but UInt8 `p = [0,0], x = [0,254], y = [0,254]`
    narrows `x` to `[0,0]` (1 * 0 = 0 is lost). -/
theorem propagate_arithmetic_mul_zero_factor_unsound (c : Cfg) :
    propagateArithmetic c u8 .mul ⟨some 0, some 0⟩ ⟨some 0, some 254⟩ ⟨some 0, some 254⟩
      = some (⟨some 0, some 0⟩, ⟨some 0, some 254⟩)
    ∧ ¬ mem 1 ⟨some 0, some 0⟩ := by
  refine ⟨by rcases c with ⟨_ | _, _ | _, _ | _⟩ <;> decide, ?_⟩
  intro h
  have := h.2 0 rfl
  omega

/-- the full `propagate_keeps_solutions` for arithmetic nodes; false for `*` and `/` (witnesses
    above), proved for `+`/`-` (`propagate_arithmetic_keeps_solutions_addsub`) -/
def propagate_keeps_solutions_statement (c : Cfg) : Prop :=
  ∀ (t : Ty), t.WF → ∀ (op : AOp) (P L R : Iv), inTy t P → inTy t L → inTy t R →
    ∀ (x y p : Int), mem x L → mem y R → mem p P → t.inRange x → t.inRange y → t.inRange p →
      op.exact x y = some p →
      ∃ L' R', propagateArithmetic c t op P L R = some (L', R') ∧ mem x L' ∧ mem y R'

theorem propagate_keeps_solutions_false (c : Cfg) : ¬ propagate_keeps_solutions_statement c := by
  intro h
  obtain ⟨_, hnone⟩ := propagate_arithmetic_int_div_unsound c
  obtain ⟨L', R', he, _⟩ := h i8 wf_i8 .div ⟨some 3, some 3⟩ ⟨some 7, some 7⟩ ⟨some 2, some 2⟩
    (by constructor <;> intro v h <;> cases h <;> decide)
    (by constructor <;> intro v h <;> cases h <;> decide)
    (by constructor <;> intro v h <;> cases h <;> decide) 7 2 3
    (by constructor <;> intro v h <;> cases h <;> decide)
    (by constructor <;> intro v h <;> cases h <;> decide)
    (by constructor <;> intro v h <;> cases h <;> decide) (by decide) (by decide) (by decide)
    (by decide)
  rw [hnone] at he
  cases he

/-- **`propagate_keeps_solutions`** (the part that holds): comparison nodes with a definite
    parent (`propagate_comparison_keeps_solutions`) and `+`/`-` nodes. -/
theorem propagate_keeps_solutions_partial {c : Cfg} {t : Ty} (hw : t.WF) (op : AOp)
    (hop : op = .add ∨ op = .sub) {P L R : Iv} (hP : inTy t P) (hL : inTy t L) (hR : inTy t R)
    {x y p : Int} (hx : mem x L) (hy : mem y R) (hpm : mem p P)
    (hrx : t.inRange x) (hry : t.inRange y) (he : op.exact x y = some p) :
    ∃ L' R', propagateArithmetic c t op P L R = some (L', R') ∧ mem x L' ∧ mem y R' :=
  propagate_arithmetic_keeps_solutions_addsub hw op hop hP hL hR hx hy hpm hrx hry he

end DfModel.Props.C23
