/-
  C52 — qualified names round-trip through their quoted text form.

  Model: `DfModel.Text.Ident` (needs_quotes / quote_identifier / to_quoted_string /
  quoted_flat_name, the sqlparser tokenizer fragment + parse_multipart_identifier,
  parse_identifiers_normalized, from_vec / from_idents with their fall-backs).

  RESULT.  The round trip holds for every reference / column whose identifiers are all
  non-empty — over arbitrary Unicode characters, any letter case (`parse_quote_roundtrip_partial`,
  `column_roundtrip_partial`).  It is FALSE in the current code when a multi-part name contains
  an EMPTY identifier: `needs_quotes("")` is `false`, so `TableReference::partial("", "t")` renders
  as `.t`, which `parse_multipart_identifier` rejects, and `parse_str` falls back to
  `Bare { table: ".t" }` (`parse_quote_roundtrip_fails_on_empty_part`, three kernel-checked witnesses;
  reproduced on the real code, see notes/C52.md).
-/
import DfModel.Text.Ident
import DfModel.Proofs.C52
namespace DfModel.Props.C52
open DfModel.Text.Ident DfModel.Proofs.C52

theorem toQuotedString_eq_render (r : TableRef) : r.toQuotedString = renderParts r.parts := by
  cases r <;> simp [TableRef.toQuotedString, TableRef.parts, renderParts, renderTail, dot]

theorem quotedFlatName_eq_render (c : Column) : c.quotedFlatName = renderParts c.parts := by
  obtain ⟨rel, name⟩ := c
  cases rel with
  | none => simp [Column.quotedFlatName, Column.parts, renderParts, renderTail]
  | some r =>
    cases r <;>
      simp [Column.quotedFlatName, Column.parts, TableRef.toQuotedString, TableRef.parts,
        renderParts, renderTail, dot]

/-- **Identifier lists.** For any number n ≥ 1 of non-empty identifiers over arbitrary characters,
    quoting each as `quote_identifier` does, joining with `.` and running
    `parse_identifiers_normalized` (either case mode) gives the identifiers back. -/
theorem idents_roundtrip (ic : Bool) (p : List Char) (ps : List (List Char)) (hp : p ≠ [])
    (hne : ∀ q ∈ ps, q ≠ []) :
    parseIdentifiersNormalized (renderParts (p :: ps)) ic = some (p :: ps) :=
  parse_renderParts ic p ps hp hne

/-- The property as stated: every reference survives `parse_str ∘ to_quoted_string`. -/
def parse_quote_roundtrip_statement : Prop :=
  ∀ r : TableRef, parseStr r.toQuotedString = some r

/-- **C52 (table references), proved part.** For all 1–3-part references whose identifiers are
    non-empty — any characters (dots, quotes, blanks, upper case, non-ASCII, keywords) —
    `parse_str(to_quoted_string(r)) = r`; also with `ignore_case = true`.
    Missing for the full statement: references containing an empty identifier, for which the
    statement is false (next theorem). -/
theorem parse_quote_roundtrip_partial (r : TableRef) (h : ∀ p ∈ r.parts, p ≠ []) (ic : Bool := false) :
    parseStrNormalized r.toQuotedString ic = some r := by
  rw [parseStrNormalized, toQuotedString_eq_render]
  cases r with
  | bare t =>
    rw [show (TableRef.bare t).parts = t :: [] from rfl,
      parse_renderParts ic t [] (h t (by simp [TableRef.parts])) (by simp)]
    rfl
  | part s t =>
    rw [show (TableRef.part s t).parts = s :: [t] from rfl,
      parse_renderParts ic s [t] (h s (by simp [TableRef.parts]))
        (by intro q hq; exact h q (by simp [TableRef.parts] at hq ⊢; exact Or.inr hq))]
    rfl
  | full c s t =>
    rw [show (TableRef.full c s t).parts = c :: [s, t] from rfl,
      parse_renderParts ic c [s, t] (h c (by simp [TableRef.parts]))
        (by intro q hq; exact h q (by simp [TableRef.parts] at hq ⊢; exact Or.inr hq))]
    rfl

/-- the 1-part reference with the empty name also survives (through the `unwrap_or_else` fall-back) -/
theorem parse_quote_roundtrip_bare_empty : parseStr (TableRef.bare []).toQuotedString = some (.bare []) := by
  simp [parseStr, parseStrNormalized, TableRef.toQuotedString, quoteIdentifier, needsQuotes,
    parseIdentifiersNormalized, lex, dropWs, parseMultipart, fromVec]

/-- what the current code does with an empty identifier in a multi-part name, for the three
    positions (leading / middle / trailing): the text is `.t`, `a..c`, `a.` and parses back to a
    *bare* reference whose table name is that whole text. -/
theorem empty_part_witnesses :
    parseStr (TableRef.part [] ['t']).toQuotedString = some (.bare ['.', 't'])
    ∧ parseStr (TableRef.full ['a'] [] ['c']).toQuotedString = some (.bare ['a', '.', '.', 'c'])
    ∧ parseStr (TableRef.part ['a'] []).toQuotedString = some (.bare ['a', '.']) := by
  refine ⟨?_, ?_, ?_⟩ <;>
    simp [parseStr, parseStrNormalized, TableRef.toQuotedString, quoteIdentifier, needsQuotes,
      parseIdentifiersNormalized, lex, dropWs, parseMultipart, parseTail, fromVec, dot, LexRes.cons,
      isWs, identStart, identPart, bareStart, barePart, List.takeWhile, List.dropWhile]

/-- **The full statement is false for the code as it is** (empty identifiers are not quoted). -/
theorem parse_quote_roundtrip_fails_on_empty_part : ¬ parse_quote_roundtrip_statement := by
  intro h
  have := h (.part [] ['t'])
  rw [empty_part_witnesses.1] at this
  cases this

/-- quoting is injective on the round-trip domain: two references (non-empty identifiers) with
    the same quoted text are the same reference — generated SQL cannot alias two tables. -/
theorem quote_injective (r₁ r₂ : TableRef) (h₁ : ∀ p ∈ r₁.parts, p ≠ []) (h₂ : ∀ p ∈ r₂.parts, p ≠ [])
    (h : r₁.toQuotedString = r₂.toQuotedString) : r₁ = r₂ := by
  have a := parse_quote_roundtrip_partial r₁ h₁
  have b := parse_quote_roundtrip_partial r₂ h₂
  rw [h, b] at a
  exact (Option.some.inj a).symm

def column_roundtrip_statement : Prop :=
  ∀ c : Column, fromQualifiedName c.quotedFlatName = some c

/-- **C52 (columns), proved part.** `from_qualified_name(quoted_flat_name(c)) = c` for every column
    with 0–3 qualifier parts, all identifiers non-empty, arbitrary characters; both case modes.
    Missing: columns with an empty identifier (false, see `column_roundtrip_fails_on_empty_part`). -/
theorem column_roundtrip_partial (c : Column) (h : ∀ p ∈ c.parts, p ≠ []) (ic : Bool := false) :
    fromQualifiedName c.quotedFlatName ic = some c := by
  rw [fromQualifiedName, quotedFlatName_eq_render]
  obtain ⟨rel, name⟩ := c
  cases rel with
  | none =>
    rw [show (Column.mk none name).parts = name :: [] from rfl,
      parse_renderParts ic name [] (h name (by simp [Column.parts])) (by simp)]
    rfl
  | some r =>
    cases r with
    | bare t =>
      rw [show (Column.mk (some (.bare t)) name).parts = t :: [name] from rfl,
        parse_renderParts ic t [name] (h t (by simp [Column.parts, TableRef.parts]))
          (by intro q hq; exact h q (by simp [Column.parts, TableRef.parts] at hq ⊢; exact Or.inr hq))]
      rfl
    | part s t =>
      rw [show (Column.mk (some (.part s t)) name).parts = s :: [t, name] from rfl,
        parse_renderParts ic s [t, name] (h s (by simp [Column.parts, TableRef.parts]))
          (by intro q hq; exact h q (by simp [Column.parts, TableRef.parts] at hq ⊢; exact Or.inr hq))]
      rfl
    | full k s t =>
      rw [show (Column.mk (some (.full k s t)) name).parts = k :: [s, t, name] from rfl,
        parse_renderParts ic k [s, t, name] (h k (by simp [Column.parts, TableRef.parts]))
          (by intro q hq; exact h q (by simp [Column.parts, TableRef.parts] at hq ⊢; exact Or.inr hq))]
      rfl

theorem column_roundtrip_fails_on_empty_part : ¬ column_roundtrip_statement := by
  intro h
  have := h ⟨some (.bare []), ['x']⟩
  simp [fromQualifiedName, Column.quotedFlatName, TableRef.toQuotedString, quoteIdentifier,
    needsQuotes, parseIdentifiersNormalized, lex, dropWs, parseMultipart, fromIdents, dot,
    LexRes.cons, isWs, identStart, identPart, bareStart, barePart, List.takeWhile,
    List.dropWhile] at this

/-- when no identifier needs quotes, `flat_name` *is* `quoted_flat_name`, hence round-trips too -/
theorem flat_name_roundtrip_of_bare (c : Column) (h : ∀ p ∈ c.parts, p ≠ [] ∧ needsQuotes p = false) :
    fromQualifiedName c.flatName = some c := by
  have hq : c.flatName = c.quotedFlatName := by
    obtain ⟨rel, name⟩ := c
    cases rel with
    | none =>
      have := (h name (by simp [Column.parts])).2
      simp [Column.flatName, Column.quotedFlatName, quoteIdentifier, this]
    | some r =>
      cases r <;>
        simp_all [Column.flatName, Column.quotedFlatName, Column.parts, TableRef.parts,
          TableRef.display, TableRef.toQuotedString, quoteIdentifier]
  rw [hq]
  exact column_roundtrip_partial c (fun p hp => (h p hp).1)

/-! ### non-vacuity: concrete instances with dots, quotes, blanks, upper case, non-ASCII, keywords -/

example : (TableRef.part "A.b".toList "x\"y z".toList).toQuotedString = "\"A.b\".\"x\"\"y z\"".toList := by
  decide
example : parseStr (TableRef.part "A.b".toList "x\"y z".toList).toQuotedString
    = some (.part "A.b".toList "x\"y z".toList) :=
  parse_quote_roundtrip_partial _ (by decide)
example : parseStr (TableRef.full "select".toList "é".toList "_b9".toList).toQuotedString
    = some (.full "select".toList "é".toList "_b9".toList) :=
  parse_quote_roundtrip_partial _ (by decide)
example : (TableRef.full "select".toList "é".toList "_b9".toList).toQuotedString
    = "select.\"é\"._b9".toList := by decide
example : fromQualifiedName (Column.mk (some (.part "S".toList "t".toList)) "Na.me".toList).quotedFlatName
    = some ⟨some (.part "S".toList "t".toList), "Na.me".toList⟩ :=
  column_roundtrip_partial _ (by decide)
-- an unquoted upper-case name is normalised (so quoting is necessary, and the theorem is not trivial)
example : parseStr "Ab.C".toList = some (.part "ab".toList "c".toList) := by
  simp [parseStr, parseStrNormalized, parseIdentifiersNormalized, lex, dropWs, parseMultipart,
    parseTail, fromVec, LexRes.cons, isWs, identStart, identPart, List.takeWhile, List.dropWhile, lower]

end DfModel.Props.C52
