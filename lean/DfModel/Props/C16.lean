/-
  C16 — spill channels deliver every spilled batch exactly once and terminate.

  Model: `DfModel.Sm.SpillPool` — the lock regions of `SpillPoolSink::push_batch`,
  `Drop for SpillPoolSink`, `new_sink`/`clone`, `SpillPoolReader::poll_next` and
  `SpillPoolFile::poll_next` as atomic micro-steps of any number of writer threads and the reader.
  A *schedule* is any `List Act`: each entry picks a thread and the environment's choice for that
  region (does `create_in_progress_file` / `append_batch`+`flush` / the rotation `finish` fail; the
  rotation threshold `max` and the batch sizes are arbitrary parameters).  Entries that are not
  enabled are skipped, so the theorems below quantify over ALL interleavings, ALL fault sequences
  and ALL rotation thresholds:   `reach max acts = run true (init max) acts`.

  `run true`  = the code in /repo (after commit afaa1b3);
  `run false` = the pinned upstream error paths, for which the last sentence of the property is
                FALSE (`upstream_strands_reader`).
-/
import DfModel.Sm.SpillPool
import DfModel.Sm.SpillPoolSplit
import DfModel.Proofs.C16h
namespace DfModel.Props.C16
open DfModel.Sm.SpillPool DfModel.Proofs.C16

/-- the state after running schedule `acts` of the repaired code on a fresh channel -/
def reach (max : Nat) (acts : List Act) : St := run true (init max) acts

/-- batches accepted by a push (append + flush succeeded), in acceptance order -/
def accepted (s : St) : List Nat := s.log.map (·.1)
/-- batches whose push returned `Ok` -/
def pushedOk (s : St) : List Nat := (s.log.filter (·.2)).map (·.1)
/-- everything written, in file order -/
def allWritten (s : St) : List Nat := catW s.written s.nfiles

/-! ## ownership — the invariant the old error path broke -/

/-- **Every unfinished file has a responsible party**: it is in `open_write_files`, or held by a
    writer in the middle of `push_batch`, or in the list taken by the last sink's `Drop`. -/
theorem unfinished_file_is_owned (max : Nat) (acts : List Act) (f : Nat) :
    let s := reach max acts
    f < s.nfiles → s.finished f = false →
      f ∈ s.open_ ∨ ∃ w, w < s.nw ∧ f ∈ own (s.wpc w) :=
  (inv_reach max acts).own.unfin f

/-- … and exactly one: the open queue and the writers' files are duplicate-free and pairwise
    disjoint, and every file in them is unfinished and still has its IPC writer (so the branch
    `file_shared.writer == None` of `push_batch`, which would drop a batch silently, is dead). -/
theorem owner_is_unique (max : Nat) (acts : List Act) :
    let s := reach max acts
    s.open_.Nodup ∧
    (∀ w, w < s.nw → ∀ f, f ∈ own (s.wpc w) → f ∉ s.open_) ∧
    (∀ w w', w < s.nw → w' < s.nw → w ≠ w' → ∀ f, f ∈ own (s.wpc w) → f ∉ own (s.wpc w')) ∧
    (∀ f, f ∈ s.open_ → Live s f) ∧ (∀ w, w < s.nw → ∀ f, f ∈ own (s.wpc w) → Live s f) :=
  let h := (inv_reach max acts).own
  ⟨h.open_nodup, h.own_open, h.own_own, h.open_live, h.own_live⟩

/-- `remaining_writer_count` is the number of sinks whose `Drop` has not run, and the decrement in
    `Drop` never underflows. -/
theorem count_is_live_sinks (max : Nat) (acts : List Act) :
    let s := reach max acts
    s.count = cntAlive s.wpc s.nw ∧ s.bad = false :=
  let h := (inv_reach max acts).cnt
  ⟨h.count_eq, h.not_bad⟩

/-! ## delivery -/

/-- **What has been delivered is exactly what was written before the reader's position**: the
    batch lists of the popped files in file order, then the first `batches_read` batches of the
    current file.  Hence every written occurrence is delivered at most once and in per-file order,
    and `delivered` is a prefix of the concatenation of all files. -/
theorem delivered_is_prefix_of_written (max : Nat) (acts : List Act) :
    let s := reach max acts
    s.delivered = catW s.written s.popped ++
        (match s.cur with | some f => (s.written f).take s.rread | none => []) ∧
    s.delivered <+: allWritten s := by
  have h : Rd (reach max acts) := (inv_reach max acts).rd
  dsimp only
  generalize reach max acts = s at *
  cases hc : s.cur with
  | none =>
    have hd := h.del_none hc
    refine ⟨by simpa using hd, ?_⟩
    rw [hd]; exact catW_prefix _ _ _ h.popped_le
  | some f =>
    have hd := h.del_some f hc
    have hf := h.cur_eq f hc
    refine ⟨hd, ?_⟩
    rw [hd]
    have h1 : catW s.written s.popped ++ (s.written f).take s.rread <+: catW s.written (s.popped + 1) := by
      simp only [catW]
      rw [← hf.1]
      exact (List.prefix_append_right_inj _).mpr (List.take_prefix _ _)
    exact h1.trans (catW_prefix _ _ _ (by omega))

/-- every accepted batch is in exactly one file: the files' contents are a permutation of the
    accepted pushes (all writers, all interleavings) -/
theorem written_is_perm_of_accepted (max : Nat) (acts : List Act) :
    (allWritten (reach max acts)).Perm (accepted (reach max acts)) :=
  (inv_reach max acts).logp

/-- no batch twice: if the pushed batches are pairwise different, so are the delivered ones -/
theorem delivered_nodup (max : Nat) (acts : List Act) (h : (accepted (reach max acts)).Nodup) :
    (reach max acts).delivered.Nodup := by
  have hp := written_is_perm_of_accepted max acts
  have hn : (allWritten (reach max acts)).Nodup := hp.nodup_iff.mpr h
  obtain ⟨t, ht⟩ := (delivered_is_prefix_of_written max acts).2
  rw [← ht] at hn
  exact (List.nodup_append.mp hn).1

/-- a push is reported `Err` after its batch was accepted only when the rotation `finish` fails -/
def finishFails : Act → Bool
  | .append _ _ false => true
  | _ => false

theorem accepted_eq_pushedOk_of_no_finish_failure (max : Nat) (acts : List Act)
    (hf : ∀ a, a ∈ acts → finishFails a = false) :
    accepted (reach max acts) = pushedOk (reach max acts) := by
  have key : ∀ (s : St) (as : List Act), (∀ e, e ∈ s.log → e.2 = true) →
      (∀ a, a ∈ as → finishFails a = false) → ∀ e, e ∈ (run true s as).log → e.2 = true := by
    intro s as
    induction as generalizing s with
    | nil => intro h _; exact h
    | cons a as ih =>
      intro h hfa
      refine ih _ ?_ (fun a' ha' => hfa a' (List.mem_cons_of_mem _ ha'))
      have ha := hfa a List.mem_cons_self
      cases a with
      | append w aok fok =>
        cases fok with
        | false => simp [finishFails] at ha
        | true =>
          simp only [step]; split
          · split
            · unfold stepAppend
              simp only [↓reduceIte]
              (repeat' split) <;>
                simp only [finishFile_log, List.mem_append, List.mem_singleton] <;>
                (intro e he; first | exact h e he | (rcases he with he | he; exact h e he; rw [he]))
            all_goals exact h
          · exact h
      | reader => simpa [step] using h
      | push w b sz =>
        simp only [step]; (repeat' split) <;> first | exact h | (unfold stepPush; split <;> exact h)
      | create w ok =>
        simp only [step]; (repeat' split) <;> first | exact h | (unfold stepCreate; split <;> simpa using h)
      | giveBack w => simp only [step]; (repeat' split) <;> exact h
      | clone w => simp only [step]; (repeat' split) <;> exact h
      | drop w =>
        simp only [step]; (repeat' split) <;>
          first | exact h | (unfold stepDrop; (repeat' split) <;> simpa using h)
      | finalize w =>
        simp only [step]; (repeat' split) <;>
          first | exact h | (unfold stepFinalize; (repeat' split) <;> simpa using h)
  have hall := key (init max) acts (by simp [init]) hf
  unfold accepted pushedOk reach
  congr 1
  exact (List.filter_eq_self.mpr (fun e he => hall e he)).symm

/-- **spsc_fifo** — single writer (no `clone`/`new_sink` anywhere in the schedule): the files are
    filled strictly one after the other, so what the reader has delivered is a prefix of the
    accepted pushes *in push order*; the pushes that returned `Ok` are a subsequence of it, and the
    whole of it unless a rotation `finish` failed. -/
theorem spsc_fifo (max : Nat) (acts : List Act) (h1 : ∀ a, a ∈ acts → Act.isClone a = false) :
    let s := reach max acts
    allWritten s = accepted s ∧ s.delivered <+: accepted s ∧ (pushedOk s).Sublist (accepted s) := by
  dsimp only
  have key : ∀ (t : St) (as : List Act), Inv t → Spsc t → (∀ a, a ∈ as → Act.isClone a = false) →
      Spsc (run true t as) := by
    intro t as
    induction as generalizing t with
    | nil => intro _ h _; exact h
    | cons a as ih =>
      intro hi hs hc
      exact ih _ (inv_step t a hi) (spsc_step t a (hc a List.mem_cons_self) hi.own hs)
        (fun a' ha' => hc a' (List.mem_cons_of_mem _ ha'))
  have hs : Spsc (reach max acts) := key (init max) acts (inv_init max) (spsc_init max) h1
  have hord : allWritten (reach max acts) = accepted (reach max acts) := hs.order
  refine ⟨hord, ?_, ?_⟩
  · have := (delivered_is_prefix_of_written max acts).2
    rw [hord] at this
    exact this
  · exact (List.filter_sublist).map _

/-- **mpsc_multiset** — any number of writers: when the reader reports end of stream it has
    delivered a permutation of the accepted pushes (each exactly once), i.e. of the `Ok` pushes
    when no rotation `finish` failed. -/
theorem mpsc_multiset (max : Nat) (acts : List Act) (hd : (reach max acts).done = true) :
    (reach max acts).delivered.Perm (accepted (reach max acts)) := by
  have hi : Inv (reach max acts) := inv_reach max acts
  obtain ⟨_, hp, hc⟩ := hi.donei hd
  have := hi.rd.del_none hc
  rw [this, hp]
  exact hi.logp

/-- **eos_only_after_last_writer_and_all_read** — `Ready(None)` is reported only when
    `remaining_writer_count = 0`, no sink is alive, and everything written has been delivered. -/
theorem eos_only_after_last_writer_and_all_read (max : Nat) (acts : List Act)
    (hd : (reach max acts).done = true) :
    let s := reach max acts
    s.count = 0 ∧ (∀ w, w < s.nw → alive (s.wpc w) = false) ∧ s.delivered = allWritten s := by
  have hi : Inv (reach max acts) := inv_reach max acts
  dsimp only
  obtain ⟨h0, hp, hc⟩ := hi.donei hd
  refine ⟨h0, cntAlive_zero _ _ (by rw [← hi.cnt.count_eq]; exact h0), ?_⟩
  have := hi.rd.del_none hc
  unfold allWritten
  rw [this, hp]

/-! ## wake-ups -/

/-- **reader_wakeup / no lost wake-up** — in every reachable state in which the reader's last poll
    returned Pending and its waker has not been woken since, it is waiting either on its current
    file `F` with nothing unread, `F` unfinished and `F`'s waker registered, or on the pool with
    no file queued, a live sink and the pool waker registered.  (By `unfinished_file_is_owned`
    and `count_is_live_sinks` the party that will call `wake` exists; every region that appends
    to / finishes `F`, pushes a file, or drops the last sink calls the matching `wake`.) -/
theorem reader_wakeup (max : Nat) (acts : List Act) :
    let s := reach max acts
    s.rpc = .idle → s.parked = true → s.woken = false → WaitFile s ∨ WaitPool s :=
  (inv_reach max acts).wk.idle

/-- the same, read the other way: whenever data or end-of-stream is available to a parked reader,
    its waker has been woken -/
theorem no_lost_wakeup (max : Nat) (acts : List Act) :
    let s := reach max acts
    s.rpc = .idle → s.parked = true →
    ((∃ f, s.cur = some f ∧ (s.rread < (s.written f).length ∨ s.finished f = true)) ∨
     (s.cur = none ∧ (s.popped < s.nfiles ∨ s.count = 0))) →
    s.woken = true := by
  have hinv : Inv (reach max acts) := inv_reach max acts
  dsimp only
  generalize reach max acts = s at *
  intro hi hp hav
  cases hw : s.woken with
  | true => rfl
  | false =>
    exfalso
    rcases hinv.wk.idle hi hp hw with ⟨f, hc, hr, hf, _⟩ | ⟨hc, hpn, hcnt, _⟩
    · rcases hav with ⟨g, hg, hav⟩ | ⟨hn, _⟩
      · rw [hc] at hg; cases hg
        rcases hav with h | h
        · omega
        · rw [hf] at h; cases h
      · rw [hc] at hn; cases hn
    · rcases hav with ⟨g, hg, _⟩ | ⟨_, h | h⟩
      · rw [hc] at hg; cases hg
      · omega
      · omega

/-- **The party a parked reader waits for really wakes it** (this is where the repair acts).  If the
    reader waits on file `F` (`WaitFile`), then `F` is owned (`unfinished_file_is_owned`) and the
    owner's next region on `F` sets the wake flag — the append region of the writer holding `F`,
    *whether the append succeeds or fails*, and the finalize region of the last sink's `Drop`.
    If the reader waits on the pool (`WaitPool`), publishing a new file and the `Drop` of the last
    sink set it. -/
theorem next_relevant_event_wakes (max : Nat) (acts : List Act) (w : Nat) :
    let s := reach max acts
    w < s.nw →
    (∀ F b sz aok fok, s.cur = some F → s.fwaker F = true → s.wpc w = .holding F b sz →
        (step true s (.append w aok fok)).woken = true) ∧
    (∀ F r, s.cur = some F → s.fwaker F = true → s.wpc w = .finalizing (F :: r) →
        (step true s (.finalize w)).woken = true) ∧
    (∀ b sz, WaitPool s → s.wpc w = .creating b sz → (step true s (.create w true)).woken = true) ∧
    (WaitPool s → s.wpc w = .idle → s.count = 1 → (step true s (.drop w)).woken = true) := by
  have hi : Inv (reach max acts) := inv_reach max acts
  dsimp only
  generalize reach max acts = s at *
  intro hw
  refine ⟨?_, ?_, ?_, ?_⟩
  · intro F b sz aok fok _ hfw hpc
    have hl := hi.own.own_live w hw F (by simp [hpc, own])
    simp only [step, hw, hpc, ↓reduceIte, stepAppend, hl.2.2, finishFile, wakeFile, hfw, upd_same,
      Bool.false_eq_true]
    (repeat' split) <;> rfl
  · intro F r _ hfw hpc
    simp only [step, hw, hpc, ↓reduceIte, stepFinalize, finishFile, wakeFile, hfw]
  · intro b sz hp hpc
    simp only [step, hw, hpc, ↓reduceIte, stepCreate]
    exact wakePool_woken_of_waker _ hp.2.2.2
  · intro hp hpc hc
    have hopen : s.open_ = [] := by
      cases hop : s.open_ with
      | nil => rfl
      | cons f fs =>
        have hl := hi.own.open_live f (by rw [hop]; simp)
        have := hi.rd.popped_fin f (by rw [hp.2.1]; exact hl.1)
        rw [hl.2.1] at this; cases this
    simp only [step, hw, hpc, ↓reduceIte, stepDrop, hc, hopen]
    exact wakePool_woken_of_waker _ hp.2.2.2

/-- … whereas on the pinned upstream error path the failing append region left a waiting reader
    un-woken and the file un-finished and un-owned (test on a concrete state) -/
example :
    let s := run false (init 1000) [.push 0 0 10, .create 0 true, .reader, .reader, .reader, .reader]
    let s' := step false s (.append 0 false true)
    s.parked = true ∧ s.cur = some 0 ∧ s.fwaker 0 = true ∧ s.wpc 0 = .holding 0 0 10 ∧
    s'.woken = false ∧ s'.finished 0 = false ∧ s'.open_ = [] ∧ s'.wpc 0 = .idle ∧
    (step true s (.append 0 false true)).woken = true := by decide

/-! ## termination: a failed push never strands the reader -/

/-- **push_failure_never_strands_reader** — whatever happened before (any interleaving, any push
    failing at create / append / flush / rotation finish): once every sink has been dropped,
    (1) nothing but the reader can move, no live sink is counted and every file is finished;
    (2) a poll that starts now never returns Pending, nor does any later one;
    (3) a poll that was already in flight and returns Pending has been woken (so it is re-polled);
    (4) after at most `mu s` more reader regions (`mu s = 1 + 5·queued files + 2·undelivered
        batches + pc rank`, strictly decreasing, `mu_decreases`) the reader has reported end of
        stream, having delivered every accepted batch — in particular those pushed successfully by
        other writers after the failure. -/
theorem push_failure_never_strands_reader (max : Nat) (acts : List Act)
    (hg : AllGone (reach max acts)) :
    let s := reach max acts
    (∀ a, a ≠ .reader → step true s a = s) ∧
    Quiet s ∧
    (s.rpc = .idle → ∀ n, (readerIter (n + 1) s).parked = false ∧
        (readerIter (n + 1) s).last ≠ some .pending) ∧
    (s.rpc = .idle → s.parked = true → s.woken = true) ∧
    (∀ n, mu s ≤ n → (readerIter n s).done = true ∧
        (readerIter n s).delivered.Perm (accepted s)) := by
  have hi : Inv (reach max acts) := inv_reach max acts
  dsimp only
  have hs : ∃ s, s = reach max acts := ⟨_, rfl⟩
  obtain ⟨s, hs⟩ := hs
  rw [← hs] at hi hg ⊢
  have hq := quiet_of_allGone s hi hg
  refine ⟨?_, hq, ?_, ?_, ?_⟩
  · intro a ha
    have hdead : ∀ w, w < s.nw → alive (s.wpc w) = false := fun w hw => by rw [hg w hw]; rfl
    rcases step_dead true s a hdead with ⟨w, fs, hw, hpc, _⟩ | h | h
    · rw [hg w hw] at hpc; cases hpc
    · exact absurd h ha
    · exact h
  · intro hidle n
    have := nopend_readerIter n s hi.rd hq (Or.inr hidle)
    exact ⟨this.1, this.2.2⟩
  · intro hidle hp
    cases hw : s.woken with
    | true => rfl
    | false =>
      exfalso
      rcases hi.wk.idle hidle hp hw with ⟨f, hc, _, hf, _⟩ | ⟨_, _, hcnt, _⟩
      · have := hq.2 f (hi.rd.cur_eq f hc).2
        rw [hf] at this; cases this
      · have := hq.1; omega
  · intro n hn
    have hdone := reader_reaches_eos n s hi.rd hq hn
    refine ⟨hdone, ?_⟩
    -- the state after the extra reader regions is itself reachable
    have hrun : readerIter n s = reach max (acts ++ List.replicate n .reader) := by
      rw [hs]; unfold reach; rw [run_append, ← readerIter_eq_run]
    have hperm := mpsc_multiset max (acts ++ List.replicate n .reader) (by rw [← hrun]; exact hdone)
    rw [← hrun] at hperm
    -- the reader does not touch the log
    have hlog : ∀ k (t : St), (readerIter k t).log = t.log := by
      intro k
      induction k with
      | zero => intro t; rfl
      | succ k ih => intro t; simp only [readerIter]; rw [ih]; simp
    unfold accepted at *
    rw [hlog] at hperm
    exact hperm

/-- the measure of `push_failure_never_strands_reader` strictly decreases with every reader region
    until end of stream is reported -/
theorem mu_strictly_decreases (max : Nat) (acts : List Act) (hg : AllGone (reach max acts))
    (hd : (reach max acts).done = false) :
    mu (stepReader (reach max acts)) < mu (reach max acts) :=
  mu_decreases _ (inv_reach max acts).rd (quiet_of_allGone _ (inv_reach max acts) hg) hd

/-! ## the defect of the pinned upstream code (`fixed = false`), kept as a kernel-checked witness -/

/-- a reader whose current file is exhausted, unfinished and never touched again is stuck forever -/
theorem stuck_forever (s : St) (f : Nat) (hc : s.cur = some f)
    (hpc : s.rpc = .idle ∨ s.rpc = .atFile ∨ s.rpc = .pendPool)
    (hr : (s.written f).length ≤ s.rread) (hf : s.finished f = false) (hd : s.done = false) (n : Nat) :
    (readerIter n s).done = false ∧ (readerIter n s).delivered = s.delivered := by
  induction n generalizing s with
  | zero => exact ⟨hd, rfl⟩
  | succ n ih =>
    simp only [readerIter]
    have hstep : (stepReader s).cur = some f ∧
        ((stepReader s).rpc = .idle ∨ (stepReader s).rpc = .atFile ∨ (stepReader s).rpc = .pendPool) ∧
        (stepReader s).written = s.written ∧ (stepReader s).rread = s.rread ∧
        (stepReader s).finished = s.finished ∧ (stepReader s).done = false ∧
        (stepReader s).delivered = s.delivered := by
      rcases hpc with h | h | h
      · simp [stepReader, h, hc, hd]
      · have : ¬ s.rread < (s.written f).length := by omega
        simp [stepReader, h, hc, hd, this, hf]
      · simp [stepReader, h, hc, hd]
    obtain ⟨h1, h2, h3, h4, h5, h6, h7⟩ := hstep
    have := ih (stepReader s) h1 h2 (by rw [h3, h4]; exact hr) (by rw [h5]; exact hf) h6
    rw [h7] at this
    exact this

/-- the failing history of DESIGN §7.1, region by region: writer 0 pushes batch 0 (new file 0);
    writer 0 pushes batch 1, whose append fails; clone; writer 1 pushes batch 2 (it has to create
    file 1, because file 0 was never returned to the open queue); both sinks are dropped (the last
    Drop finalizes only file 1); the reader polls three times. -/
def upstreamHistory : List Act :=
  [.push 0 0 10, .create 0 true, .append 0 true true, .giveBack 0,
   .push 0 1 10, .append 0 false true,
   .clone 0,
   .push 1 2 10, .create 1 true, .append 1 true true, .giveBack 1,
   .drop 0, .drop 1, .finalize 1, .finalize 1,
   .reader, .reader, .reader,            -- poll 1: delivers batch 0
   .reader, .reader, .reader]            -- poll 2: Pending on file 0

/-- **upstream_strands_reader** — on the pinned upstream error path (`fixed = false`) the property's
    last sentence is false: after `upstreamHistory` every sink is gone, batch 2 was pushed
    successfully (`Ok`), the reader is parked un-woken on file 0 — which no one will ever finish —
    and no number of further polls delivers batch 2 or reports end of stream. -/
theorem upstream_strands_reader :
    let s := run false (init 1000000) upstreamHistory
    AllGone s ∧ s.log = [(0, true), (2, true)] ∧ s.delivered = [0] ∧
    s.parked = true ∧ s.woken = false ∧
    (∀ n, (readerIter n s).done = false ∧ (readerIter n s).delivered = [0]) := by
  intro s
  have h1 : s.nw = 2 ∧ s.wpc 0 = .gone ∧ s.wpc 1 = .gone := by decide
  have h2 : s.log = [(0, true), (2, true)] ∧ s.delivered = [0] ∧ s.parked = true ∧ s.woken = false := by
    decide
  have h3 : s.cur = some 0 ∧ s.rpc = .idle ∧ s.written 0 = [0] ∧ s.rread = 1 ∧
      s.finished 0 = false ∧ s.done = false := by decide
  refine ⟨?_, h2.1, h2.2.1, h2.2.2.1, h2.2.2.2, ?_⟩
  · intro w hw
    rw [h1.1] at hw
    have : w = 0 ∨ w = 1 := by omega
    rcases this with rfl | rfl
    · exact h1.2.1
    · exact h1.2.2
  · intro n
    have := stuck_forever s 0 h3.1 (Or.inl h3.2.1) (by rw [h3.2.2.1, h3.2.2.2.1]; decide)
      h3.2.2.2.2.1 h3.2.2.2.2.2 n
    rw [h2.2.1] at this
    exact this

/-- … while the repaired code, on the same schedule, has finished file 0 on the error path: the
    reader is not parked, and 8 more reader regions (≤ mu = 14) deliver batch 2 and report end of stream. -/
theorem fixed_handles_upstream_history :
    let s := reach 1000000 upstreamHistory
    AllGone s ∧ s.delivered = [0] ∧ s.parked = false ∧ s.finished 0 = true ∧ mu s = 14 ∧
    (readerIter 8 s).done = true ∧ (readerIter 8 s).delivered = [0, 2] := by
  intro s
  have h1 : s.nw = 2 ∧ s.wpc 0 = .gone ∧ s.wpc 1 = .gone := by decide
  refine ⟨?_, by decide, by decide, by decide, by decide, by decide, by decide⟩
  intro w hw
  rw [h1.1] at hw
  have : w = 0 ∨ w = 1 := by omega
  rcases this with rfl | rfl
  · exact h1.2.1
  · exact h1.2.2

/-! ## why the reader's check-then-register regions must be atomic

`reader_wakeup` / `no_lost_wakeup` hold because the reader's "caught up with the writer" check and
the storing of its waker happen under ONE acquisition of the file lock (and "nothing queued, a sink
is alive" + registration under one acquisition of the pool lock): each is one region of the model.
`Sm.SpillPoolSplit` is the variant in which the lock is released between check and registration.
There a push and the last `Drop` can land in the gap and wake nobody; the two witnesses below are
kernel-evaluated.  (The harness forces exactly these schedules on the real code through a hooked
`Waker::clone`, oracle `lost-wakeup-gap`.) -/

/-- with every sink gone nothing but the reader can move (no invariant needed) -/
theorem only_reader_moves (s : St) (hg : AllGone s) (a : Act) (ha : a ≠ .reader) : step true s a = s := by
  have hdead : ∀ w, w < s.nw → alive (s.wpc w) = false := fun w hw => by rw [hg w hw]; rfl
  rcases step_dead true s a hdead with ⟨w, fs, hw, hpc, _⟩ | h | h
  · rw [hg w hw] at hpc; cases hpc
  · exact absurd h ha
  · exact h

/-- file level: batch 0 is pushed and read; the reader's second poll finds itself caught up on file 0
    and releases the file lock; batch 1 is pushed (`Ok`) and the last sink is dropped — both `wake`
    calls find no waker —; only then does the reader register its wakers and return Pending. -/
def splitFileHistory : List Act :=
  [.push 0 0 10, .create 0 true, .append 0 true true, .giveBack 0,
   .reader, .reader, .reader,
   .reader, .reader,
   .push 0 1 10, .append 0 true true, .giveBack 0,
   .drop 0, .finalize 0, .finalize 0,
   .reader, .reader]

/-- pool level: the reader's first poll finds nothing queued and a live sink, and releases the pool
    lock; batch 0 is pushed and the sink dropped; then the reader registers and returns Pending. -/
def splitPoolHistory : List Act :=
  [.reader, .reader,
   .push 0 0 10, .create 0 true, .append 0 true true, .giveBack 0, .drop 0, .finalize 0, .finalize 0,
   .reader]

/-- **split_register_loses_wakeup** — if check and registration are two regions, a wake-up is lost:
    after `splitFileHistory` every sink is gone (so nothing but the reader can ever move), the
    reader has returned Pending and was never woken, although batch 1 — pushed `Ok` — is waiting
    in its current file and the file is finished.  The conclusions of `no_lost_wakeup` and of
    `push_failure_never_strands_reader` (clause 4) are false in this state. -/
theorem split_register_loses_wakeup :
    let t := Sm.SpillPoolSplit.run (Sm.SpillPoolSplit.init 1000) splitFileHistory
    AllGone t.s ∧ (∀ a, a ≠ .reader → step true t.s a = t.s) ∧
    t.gap = none ∧ t.s.rpc = .idle ∧ t.s.parked = true ∧ t.s.woken = false ∧
    t.s.cur = some 0 ∧ t.s.rread < (t.s.written 0).length ∧ t.s.finished 0 = true ∧
    t.s.log = [(0, true), (1, true)] ∧ t.s.delivered = [0] := by
  intro t
  have h1 : t.s.nw = 1 ∧ t.s.wpc 0 = .gone := by decide
  have hg : AllGone t.s := by
    intro w hw
    rw [h1.1] at hw
    have : w = 0 := by omega
    subst this; exact h1.2
  exact ⟨hg, only_reader_moves t.s hg, by decide, by decide, by decide, by decide, by decide,
    by decide, by decide, by decide, by decide⟩

/-- the same at pool level: parked un-woken with a file queued and no sink alive -/
theorem split_register_loses_wakeup_pool :
    let t := Sm.SpillPoolSplit.run (Sm.SpillPoolSplit.init 1000) splitPoolHistory
    AllGone t.s ∧ (∀ a, a ≠ .reader → step true t.s a = t.s) ∧
    t.gap = none ∧ t.s.rpc = .idle ∧ t.s.parked = true ∧ t.s.woken = false ∧
    t.s.cur = none ∧ t.s.popped < t.s.nfiles ∧ t.s.count = 0 ∧
    t.s.log = [(0, true)] ∧ t.s.delivered = [] := by
  intro t
  have h1 : t.s.nw = 1 ∧ t.s.wpc 0 = .gone := by decide
  have hg : AllGone t.s := by
    intro w hw
    rw [h1.1] at hw
    have : w = 0 := by omega
    subst this; exact h1.2
  exact ⟨hg, only_reader_moves t.s hg, by decide, by decide, by decide, by decide, by decide,
    by decide, by decide, by decide, by decide⟩

/-- the atomic regions of the real code keep the writer out of the gap: on the same two schedules
    (without the trailing reader region, which in the atomic model would already start the next
    poll) the registration precedes the writer's regions and the wake finds it -/
theorem atomic_register_keeps_wakeup :
    let s1 := reach 1000 splitFileHistory.dropLast
    let s2 := reach 1000 splitPoolHistory.dropLast
    s1.rpc = .idle ∧ s1.parked = true ∧ s1.woken = true ∧
    s2.rpc = .idle ∧ s2.parked = true ∧ s2.woken = true := by
  decide

/-! ## non-vacuity: concrete instances of the hypotheses above (tests, not theorems) -/

/-- a schedule with two writers, a rotation, a failing append, a failing create and a failing
    rotation finish, reader regions interleaved mid-push -/
def demo : List Act :=
  [.push 0 0 10, .reader, .create 0 true, .reader, .reader, .append 0 true true, .clone 0,
   .reader, .reader, .push 1 1 10, .create 1 false, .push 1 2 10, .create 1 true, .giveBack 0,
   .append 1 false true, .push 0 3 100, .append 0 true false, .push 1 4 10, .create 1 true,
   .append 1 true true, .giveBack 1, .drop 0, .reader, .reader, .reader, .drop 1, .finalize 1,
   .finalize 1]

-- `reader_wakeup` (pool case): the reader is parked un-woken on the pool while writer 0 is between
-- the two pool-lock regions of its first push …
example : let s := reach 5 [.push 0 0 10, .reader, .reader]
    s.rpc = .idle ∧ s.parked = true ∧ s.woken = false ∧ s.cur = none ∧ s.poolWaker = true ∧
    s.count = 1 ∧ s.wpc 0 = .creating 0 10 := by decide
-- … and is woken by the `files.push_back` region; `unfinished_file_is_owned`: the new file is
-- unfinished and owned by the writer that is in the middle of `push_batch`
example : let s := reach 5 [.push 0 0 10, .reader, .reader, .create 0 true]
    s.woken = true ∧ s.finished 0 = false ∧ s.open_ = [] ∧ s.wpc 0 = .holding 0 0 10 := by decide
-- `reader_wakeup` (file case): parked un-woken on file 0, woken by the append region
example : let s := reach 5 [.push 0 0 10, .create 0 true, .reader, .reader, .reader, .reader]
    s.rpc = .idle ∧ s.parked = true ∧ s.woken = false ∧ s.cur = some 0 ∧ s.fwaker 0 = true ∧
    s.finished 0 = false ∧ (reach 5 [.push 0 0 10, .create 0 true, .reader, .reader, .reader, .reader,
      .append 0 true true]).woken = true := by decide
-- `AllGone` after `demo`; the failed pushes (batch 1: create, batch 2: append, batch 3: rotation
-- finish after the append) did not strand anything: batch 3 is delivered although its push
-- returned Err, batch 4 (pushed after the failures) is delivered, then EOS
example : let s := reach 50 demo
    s.nw = 2 ∧ s.wpc 0 = .gone ∧ s.wpc 1 = .gone ∧ s.log = [(0, true), (3, false), (4, true)] ∧
    (readerIter (mu s) s).done = true ∧ (readerIter (mu s) s).delivered = [0, 3, 4] ∧ mu s = 22 := by
  decide
-- `spsc_fifo`: a clone-free schedule with two rotations
example : let s := reach 15 [.push 0 7 10, .create 0 true, .append 0 true true, .giveBack 0, .reader,
      .reader, .reader, .push 0 8 10, .append 0 true true, .push 0 9 10, .create 0 true,
      .append 0 true true, .reader, .reader, .reader]
    s.delivered = [7, 8] ∧ accepted s = [7, 8, 9] ∧ s.nfiles = 2 := by decide
-- `eos_only_after_last_writer_and_all_read` / `mpsc_multiset`: `done` is reachable
example : (reach 5 [.drop 0, .reader, .reader]).done = true := by decide

end DfModel.Props.C16
