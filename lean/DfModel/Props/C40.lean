/-
  C40 — file caches honour their validity rules and stay within budget.

  Model: `Sm/Lru.lean` (`DefaultCacheState` + `LruQueue`, branch for branch, after /repo commit 82a9f7c).
  Everything below is quantified over *all* operation histories (`List Op`), all keys, sizes,
  limits, TTLs and clock advances.  `refines_finite_map` — a `get` hit returns the value of the last
  `put` under that key, within its TTL; a zero-size or oversize `put` behaves as a `remove`
  (`rejected_put_is_remove`) — holds in full for the current code.  The pinned upstream `put`
  ignored a zero-size value without removing the entry already cached under the key:
  `zero_size_put_serves_stale` / `refines_finite_map_fails_upstream` are the kernel-checked witnesses
  (repaired by 82a9f7c).
-/
import DfModel.Sm.Lru
import DfModel.Proofs.C40
namespace DfModel.Props.C40
open DfModel.Sm.Lru DfModel.Proofs.C40

/-! ### the invariant holds after every operation of every history -/

theorem inv_step (s : St) (op : Op) (h : CacheInv s) : CacheInv (step s op).1 := by
  unfold CacheInv at *
  cases op with
  | put k v =>
    obtain ⟨a, _, c, _, _⟩ := putSt_spec k v h
    simp only [step, stepCore]; rw [c]; exact ⟨a.nodup, a.used_eq, a.le_limit, a.ok, a.sorted, a.fresh⟩
  | get k =>
    obtain ⟨a, _, c, _, _⟩ := getSt_spec k h
    simp only [step, stepCore]; rw [c]; exact ⟨a.nodup, a.used_eq, a.le_limit, a.ok, a.sorted, a.fresh⟩
  | contains k =>
    obtain ⟨a, _, c, _, _⟩ := containsSt_spec k h
    simp only [step, stepCore]; rw [c]; exact ⟨a.nodup, a.used_eq, a.le_limit, a.ok, a.sorted, a.fresh⟩
  | remove k =>
    obtain ⟨a, _, _, c, _, _, _⟩ := removeSt_spec k h
    simp only [step, stepCore]; rw [c]
    exact ⟨a.nodup, a.used_eq, a.le_limit, a.ok, a.sorted, fun e he => Nat.lt_succ_of_lt (a.fresh e he)⟩
  | clear =>
    simp only [step, stepCore]
    refine ⟨?_, ?_, ?_, h.ok, ?_, ?_⟩ <;> simp [keys]
  | setLimit n =>
    obtain ⟨a, _, c, _, _, _⟩ := evictSt_spec (s := { s with limit := n }) (T := s.tick) h.nodup h.used_eq h.ok h.sorted h.fresh
    simp only [step, stepCore]; rw [c]
    exact ⟨a.nodup, a.used_eq, a.le_limit, a.ok, a.sorted, fun e he => Nat.lt_succ_of_lt (a.fresh e he)⟩
  | setTtl t =>
    simp only [step, stepCore]
    exact ⟨h.nodup, h.used_eq, h.le_limit, h.ok, h.sorted, fun e he => Nat.lt_succ_of_lt (h.fresh e he)⟩
  | advance d =>
    simp only [step, stepCore]
    exact ⟨h.nodup, h.used_eq, h.le_limit, h.ok, h.sorted, fun e he => Nat.lt_succ_of_lt (h.fresh e he)⟩
  | dropTable t =>
    obtain ⟨a, _, _, c, _, _⟩ := dropKeys_spec ((keys s.q).filter (fun k => decide (k.table = some t))) h
    simp only [step, stepCore]; rw [c]
    exact ⟨a.nodup, a.used_eq, a.le_limit, a.ok, a.sorted, fun e he => Nat.lt_succ_of_lt (a.fresh e he)⟩

theorem run_fst_cons (s : St) (op : Op) (ops : List Op) :
    (run s (op :: ops)).1 = (run (step s op).1 ops).1 := rfl

theorem inv_run (s : St) (ops : List Op) (h : CacheInv s) : CacheInv (run s ops).1 := by
  induction ops generalizing s with
  | nil => exact h
  | cons op ops ih => rw [run_fst_cons]; exact ih _ (inv_step s op h)

/-- **accounting is exact**: after any history, `memory_used` = Σ (key size + value size) of the
    entries in the cache. -/
theorem used_eq_sum_sizes (limit : Nat) (ttl : Option Nat) (ops : List Op) :
    (run (init limit ttl) ops).1.used = sumSizes (run (init limit ttl) ops).1.q :=
  (inv_run _ ops (inv_init limit ttl)).used_eq

/-- **budget**: after every operation of any history `memory_used ≤ memory_limit` (the limit in
    force at that moment, i.e. after `update_cache_limit` too). -/
theorem used_le_limit (limit : Nat) (ttl : Option Nat) (ops : List Op) :
    (run (init limit ttl) ops).1.used ≤ (run (init limit ttl) ops).1.limit :=
  (inv_run _ ops (inv_init limit ttl)).le_limit

/-- keys are unique in the queue (it is a map) -/
theorem keys_unique (limit : Nat) (ttl : Option Nat) (ops : List Op) :
    (keys (run (init limit ttl) ops).1.q).Nodup :=
  (inv_run _ ops (inv_init limit ttl)).nodup

/-- none of the `memory_used -= …` statements ever underflows and the "cannot happen" branch of
    `evict_entries` is never taken. -/
theorem never_panics (limit : Nat) (ttl : Option Nat) (ops : List Op) :
    (run (init limit ttl) ops).1.panicked = false :=
  (inv_run _ ops (inv_init limit ttl)).ok

/-- the queue is ordered by the (ghost) index of the operation that last `put`/`get` each entry:
    the head is the least recently used entry. -/
theorem queue_sorted_by_last_use (limit : Nat) (ttl : Option Nat) (ops : List Op) :
    (run (init limit ttl) ops).1.q.Pairwise (fun a b => a.stamp < b.stamp) :=
  (inv_run _ ops (inv_init limit ttl)).sorted

/-! ### LRU eviction order -/

/-- an accepted `put` keeps the shortest most-recently-used suffix of the other entries that fits
    together with the new entry, and the new entry itself (at the most-recently-used end). -/
theorem put_evicts_lru_prefix (s : St) (h : CacheInv s) (k : Key) (v : Val)
    (hz : v.size ≠ 0) (hfit : k.size + v.size ≤ s.limit) :
    ∃ n, n ≤ (removeKey s.q k).length ∧
      (step s (.put k v)).1.q = (removeKey s.q k).drop n ++ [newEnt s k v] ∧
      (∀ m, m < n → s.limit < sumSizes ((removeKey s.q k).drop m) + (k.size + v.size)) := by
  obtain ⟨n, a, b, c⟩ := putSt_accept_q (k := k) (v := v) h hz (by omega)
  exact ⟨n, a, by simp only [step, stepCore]; exact b, c⟩

/-- `update_cache_limit` drops the shortest least-recently-used prefix that brings the sum within the
    new limit. -/
theorem setLimit_evicts_lru_prefix (s : St) (h : CacheInv s) (n : Nat) :
    ∃ d, (step s (.setLimit n)).1.q = s.q.drop d ∧ (∀ m, m < d → n < sumSizes (s.q.drop m)) := by
  obtain ⟨_, _, _, _, _, d, hq, hmin⟩ :=
    evictSt_spec (s := { s with limit := n }) (T := s.tick) h.nodup h.used_eq h.ok h.sorted h.fresh
  exact ⟨d, by simp only [step, stepCore]; exact hq, hmin⟩

/-- **LRU**: whenever an operation evicts an entry `e` (it was in the cache, is not the key being
    written, and is gone afterwards) while another untouched entry `e'` survives, `e` was used
    (`put`/`get`) strictly earlier than `e'`. Only `put` and `update_cache_limit` evict. -/
theorem lru_eviction_order (s : St) (h : CacheInv s) (op : Op) (e e' : Ent)
    (hop : (∃ k v, op = .put k v ∧ e.key ≠ k ∧ e'.key ≠ k) ∨ (∃ n, op = .setLimit n))
    (he : e ∈ s.q) (he' : e' ∈ s.q)
    (hgone : e.key ∉ keys (step s op).1.q) (hstay : e'.key ∈ keys (step s op).1.q) :
    e.stamp < e'.stamp := by
  have uniq : ∀ x ∈ s.q, x.key = e'.key → x = e' := by
    intro x hx hk
    exact nodup_keys_unique h.nodup hx he' hk
  rcases hop with ⟨k, v, rfl, hek, hek'⟩ | ⟨n, rfl⟩
  · by_cases hz : v.size = 0
    · exfalso; apply hgone
      simp only [step, stepCore, putSt, hz, if_true]
      rw [(removeSt_spec k h).2.1]
      simp only [keys, List.mem_map]
      exact ⟨e, mem_removeKey.mpr ⟨he, hek⟩, rfl⟩
    · by_cases hbig : k.size + v.size > s.limit
      · exfalso; apply hgone
        simp only [step, stepCore, putSt, hz, hbig, if_true, if_false]
        rw [(removeSt_spec k h).2.1]
        simp only [keys, List.mem_map]
        exact ⟨e, mem_removeKey.mpr ⟨he, hek⟩, rfl⟩
      · obtain ⟨n, hn, hq, _⟩ := put_evicts_lru_prefix s h k v hz (by omega)
        rw [hq] at hgone hstay
        have hs := List.Pairwise.sublist (removeKey_sublist s.q k) h.sorted
        have her : e ∈ removeKey s.q k := mem_removeKey.mpr ⟨he, hek⟩
        have he1 : e ∈ (removeKey s.q k).take n := by
          rw [← List.take_append_drop n (removeKey s.q k)] at her
          rcases List.mem_append.mp her with h1 | h1
          · exact h1
          · exfalso; apply hgone
            simp only [keys, List.map_append, List.mem_append, List.mem_map]
            exact Or.inl ⟨e, h1, rfl⟩
        have he2 : e' ∈ (removeKey s.q k).drop n := by
          simp only [keys, List.map_append, List.mem_append, List.mem_map, List.map_cons,
            List.map_nil, List.mem_singleton] at hstay
          rcases hstay with ⟨x, hx, hxk⟩ | hxk
          · have := uniq x (mem_removeKey.mp (List.mem_of_mem_drop hx)).1 hxk
            rw [← this]; exact hx
          · exact absurd hxk hek'
        exact pairwise_take_drop hs n he1 he2
  · obtain ⟨d, hq, _⟩ := setLimit_evicts_lru_prefix s h n
    rw [hq] at hgone hstay
    have he1 : e ∈ s.q.take d := by
      have her := he
      rw [← List.take_append_drop d s.q] at her
      rcases List.mem_append.mp her with h1 | h1
      · exact h1
      · exfalso; apply hgone; simp only [keys, List.mem_map]; exact ⟨e, h1, rfl⟩
    have he2 : e' ∈ s.q.drop d := by
      simp only [keys, List.mem_map] at hstay
      obtain ⟨x, hx, hxk⟩ := hstay
      have := uniq x (List.mem_of_mem_drop hx) hxk
      rw [← this]; exact hx
    exact pairwise_take_drop h.sorted d he1 he2

/-- a `get` hit makes the entry the most recently used one (`LruQueue::get` promotes) … -/
theorem get_hit_promotes (s : St) (k : Key) (v : Val) (hit : (step s (.get k)).2 = .some v) :
    ∃ e, (step s (.get k)).1.q = removeKey s.q k ++ [e] ∧ e.key = k ∧ e.val = v ∧ e.stamp = s.tick := by
  simp only [step, stepCore] at hit ⊢
  cases hg : (getSt s k).2 with
  | none => rw [hg] at hit; cases hit
  | some w =>
    rw [hg] at hit
    obtain ⟨e, hf, hv, hx⟩ := getSt_hit hg
    refine ⟨{ e with stamp := s.tick }, ?_, (findEnt_some hf).2, ?_, rfl⟩
    · simp only [getSt, hf, hx]; rfl
    · simp only at hit ⊢; rw [hv]; injection hit

/-- … whereas a successful `contains_key` (`peek`) leaves the recency order untouched. -/
theorem contains_true_no_reorder (s : St) (k : Key) (h : (step s (.contains k)).2 = .bool true) :
    (step s (.contains k)).1.q = s.q := by
  simp only [step, stepCore, containsSt] at h ⊢
  cases hf : findEnt s.q k with
  | none => rfl
  | some e =>
    rw [hf] at h
    simp only at h ⊢
    split
    · rename_i hx; simp [hx] at h
    · rfl

/-! ### TTL -/

/-- a `get` hit (and a `contains_key` answering true) is served from an entry that has not expired -/
theorem get_hit_not_expired (s : St) (k : Key) (v : Val) (hit : (step s (.get k)).2 = .some v) :
    ∃ e ∈ s.q, e.key = k ∧ e.val = v ∧ ∀ exp, e.expires = some exp → s.now ≤ exp := by
  simp only [step, stepCore] at hit
  cases hg : (getSt s k).2 with
  | none => rw [hg] at hit; cases hit
  | some w =>
    rw [hg] at hit
    obtain ⟨e, hf, hv, hx⟩ := getSt_hit hg
    refine ⟨e, (findEnt_some hf).1, (findEnt_some hf).2, ?_, ?_⟩
    · simp only at hit; rw [hv]; injection hit
    · intro exp hexp
      rw [hexp] at hx
      simp only [expired, decide_eq_false_iff_not] at hx
      omega

theorem contains_true_not_expired (s : St) (k : Key) (h : (step s (.contains k)).2 = .bool true) :
    ∃ e ∈ s.q, e.key = k ∧ ∀ exp, e.expires = some exp → s.now ≤ exp := by
  simp only [step, stepCore, containsSt] at h
  cases hf : findEnt s.q k with
  | none => rw [hf] at h; simp at h
  | some e =>
    rw [hf] at h
    simp only at h
    refine ⟨e, (findEnt_some hf).1, (findEnt_some hf).2, ?_⟩
    intro exp hexp
    rw [hexp] at h
    split at h
    · simp at h
    · rename_i hx
      simp only [expired, decide_eq_true_eq] at hx
      omega

/-! ### the cache as a finite map -/

/-- every cached entry is the last (non-zero-size) value `put` under its key, with the expiry stamp
    (`now + ttl` of that `put`) it was given then -/
def Agree (s : St) (m : Spec) : Prop := ∀ e ∈ s.q, m e.key = some (e.val, e.expires)

theorem agree_step (s : St) (m : Spec) (op : Op) (h : CacheInv s) (ha : Agree s m) :
    Agree (step s op).1 (specStep s m op) := by
  unfold CacheInv at h
  intro e' he'
  cases op with
  | put k v =>
    simp only [step, stepCore] at he'
    rcases putSt_q_mem h he' with ⟨hm, hk⟩ | ⟨_, hnew⟩
    · simp only [specStep, hk, if_false]; exact ha e' hm
    · subst hnew; simp [specStep, newEnt]
  | get k =>
    simp only [step, stepCore] at he'
    obtain ⟨e, hm, hc⟩ := getSt_q_mem h he'
    simp only [core, Prod.mk.injEq] at hc
    obtain ⟨c1, c2, c3⟩ := hc
    simp only [specStep]; rw [← c1, ← c2, ← c3]; exact ha e hm
  | contains k =>
    simp only [step, stepCore] at he'
    exact ha e' (containsSt_q_mem h he')
  | remove k =>
    simp only [step, stepCore] at he'
    rw [(removeSt_spec k h).2.1] at he'
    exact ha e' (mem_removeKey.mp he').1
  | clear => simp [step, stepCore] at he'
  | setLimit n =>
    obtain ⟨_, _, _, _, _, d, hq, _⟩ :=
      evictSt_spec (s := { s with limit := n }) (T := s.tick) h.nodup h.used_eq h.ok h.sorted h.fresh
    simp only [step, stepCore] at he'
    rw [hq] at he'
    exact ha e' (List.mem_of_mem_drop he')
  | setTtl t => exact ha e' he'
  | advance d => exact ha e' he'
  | dropTable t =>
    simp only [step, stepCore] at he'
    rw [(dropKeys_spec _ h).2.1] at he'
    exact ha e' (List.mem_filter.mp he').1

theorem runSpec_fst (s : St) (m : Spec) (ops : List Op) :
    (runSpec s m ops).1 = (run s ops).1 := by
  induction ops generalizing s m with
  | nil => rfl
  | cons op ops ih => simp only [runSpec, run]; exact ih _ _

theorem agree_run (s : St) (m : Spec) (ops : List Op) (h : CacheInv s) (ha : Agree s m) :
    Agree (runSpec s m ops).1 (runSpec s m ops).2 := by
  induction ops generalizing s m with
  | nil => exact ha
  | cons op ops ih => exact ih _ _ (inv_step s op h) (agree_step s m op h ha)

/-- **the cache behaves as a map** (current code, every history, no hypothesis): a `get` hit returns
    the value of the LAST `put` under that key — whatever the sizes of the values put in between —
    and it is served within the TTL that was in force at that put (`exp = now_at_put + ttl_at_put`). -/
theorem refines_finite_map (limit : Nat) (ttl : Option Nat) (ops : List Op) (k : Key) (v : Val)
    (hit : (step (run (init limit ttl) ops).1 (.get k)).2 = .some v) :
    ∃ exp, (runSpec (init limit ttl) (fun _ => none) ops).2 k = some (v, exp) ∧
      ∀ x, exp = some x → (run (init limit ttl) ops).1.now ≤ x := by
  have hag := agree_run (init limit ttl) (fun _ => none) ops (inv_init limit ttl) (by intro e he; cases he)
  rw [runSpec_fst] at hag
  obtain ⟨e, hm, hk, hv, hexp⟩ := get_hit_not_expired _ k v hit
  refine ⟨e.expires, ?_, hexp⟩
  have := hag e hm
  rw [hk, hv] at this
  exact this

/-- a `put` that cannot be cached (zero-size value, or key + value larger than the limit) behaves
    exactly as `remove(key)`: same state, same returned previous value -/
theorem rejected_put_is_remove (s : St) (k : Key) (v : Val)
    (h : v.size = 0 ∨ k.size + v.size > s.limit) : step s (.put k v) = step s (.remove k) := by
  simp only [step, stepCore, putSt]
  rcases h with h | h
  · simp [h]
  · by_cases hz : v.size = 0
    · simp [hz]
    · simp [hz, h]

/-- … hence right after it the key is absent -/
theorem rejected_put_then_miss (s : St) (hs : CacheInv s) (k : Key) (v : Val)
    (h : v.size = 0 ∨ k.size + v.size > s.limit) :
    (step (step s (.put k v)).1 (.get k)).2 = .none := by
  rw [rejected_put_is_remove s k v h]
  apply step_get_miss
  simp only [step, stepCore]
  rw [(removeSt_spec k hs).2.1]
  exact not_mem_keys_removeKey _ _

/-! #### the pinned upstream `put` (before 82a9f7c) violated the map statement -/

def refines_finite_map_upstream_statement : Prop :=
  ∀ (limit : Nat) (ttl : Option Nat) (ops : List Op) (k : Key) (v : Val),
    (stepUpstream (runUpstream (init limit ttl) ops).1 (.get k)).2 = .some v →
    ∃ exp, (runSpecUpstream (init limit ttl) (fun _ => none) ops).2 k = some (v, exp)

def kA : Key := { id := 1, size := 2, table := none }
def vOld : Val := { id := 10, size := 5, fsize := 0, mtime := 0, fp := 0 }
def vZero : Val := { id := 11, size := 0, fsize := 0, mtime := 0, fp := 0 }

/-- **witness** (upstream code): `put(k, vOld)`; `put(k, vZero)` with `vZero.size() == 0` was ignored
    and did *not* remove the previous entry; `get(k)` then served the stale `vOld` although the last
    value put under `k` is `vZero`. -/
theorem zero_size_put_serves_stale :
    (stepUpstream (runUpstream (init 100 none) [.put kA vOld, .put kA vZero]).1 (.get kA)).2 = .some vOld ∧
    (runSpecUpstream (init 100 none) (fun _ => none) [.put kA vOld, .put kA vZero]).2 kA = some (vZero, none) := by
  decide

theorem refines_finite_map_fails_upstream : ¬ refines_finite_map_upstream_statement := by
  intro h
  obtain ⟨exp, he⟩ := h 100 none [.put kA vOld, .put kA vZero] kA vOld zero_size_put_serves_stale.1
  rw [zero_size_put_serves_stale.2] at he
  cases he

/-- the same history on the current code: the zero-size `put` removes the entry, `get` misses -/
example : (step (run (init 100 none) [.put kA vOld, .put kA vZero]).1 (.get kA)).2 = .none := by decide

/-! ### drop_table_entries -/

/-- dropping a table removes exactly the entries whose key belongs to that table; the others keep
    their recency order (and by `inv_step` the accounting stays exact). -/
theorem drop_table_removes_exactly_that_table (s : St) (h : CacheInv s) (t : Nat) :
    (step s (.dropTable t)).1.q = s.q.filter (fun e => decide (e.key.table ≠ some t)) := by
  simp only [step, stepCore]
  rw [(dropKeys_spec _ h).2.1, dropTable_q]

/-- …hence a listing cached for a dropped table is never served afterwards -/
theorem dropped_table_not_served (s : St) (h : CacheInv s) (t : Nat) (k : Key) (hk : k.table = some t) :
    (step (step s (.dropTable t)).1 (.get k)).2 = .none := by
  have hq := drop_table_removes_exactly_that_table s h t
  have : k ∉ keys (step s (.dropTable t)).1.q := by
    rw [hq]
    simp only [keys, List.mem_map, List.mem_filter, not_exists, not_and]
    intro e he hek
    rw [hek] at he
    simp [hk] at he
  exact step_get_miss _ k this

/-! ### the usage pattern: get → is_valid_for → else recompute + put -/

/-- a cached value is *used* only if its recorded file size and modification time (and, for the
    statistics cache, the schema fingerprint) equal those of the current file; otherwise the value
    computed from the current file is returned. -/
theorem stale_never_used (s : St) (k : Key) (cur : Val) (withFp : Bool) :
    (∀ c, (stepX s (.use k cur withFp)).2 = .cached c →
        c.fsize = cur.fsize ∧ c.mtime = cur.mtime ∧ (withFp = true → c.fp = cur.fp)) ∧
    (∀ v, (stepX s (.use k cur withFp)).2 = .computed v → v = cur) := by
  simp only [stepX]
  constructor
  · intro c hc
    split at hc
    · split at hc
      · rename_i hv
        injection hc with hc; subst hc
        simp only [validFor, Bool.and_eq_true, beq_iff_eq, Bool.or_eq_true, Bool.not_eq_true'] at hv
        refine ⟨hv.1.1, hv.1.2, ?_⟩
        intro hfp
        rcases hv.2 with h | h
        · rw [hfp] at h; cases h
        · exact h
      · cases hc
    · cases hc
  · intro v hv
    split at hv
    · split at hv
      · cases hv
      · injection hv with hv; exact hv.symm
    · injection hv with hv; exact hv.symm

/-- the usage pattern only performs `get` and `put`, so every invariant above survives it -/
theorem inv_stepX (s : St) (op : XOp) (h : CacheInv s) : CacheInv (stepX s op).1 := by
  cases op with
  | basic op => exact inv_step s op h
  | use k fresh withFp =>
    simp only [stepX]
    split
    · split
      · exact inv_step s _ h
      · exact inv_step _ _ (inv_step s _ h)
    · exact inv_step _ _ (inv_step s _ h)

theorem inv_runX (s : St) (ops : List XOp) (h : CacheInv s) : CacheInv (runX s ops).1 := by
  induction ops generalizing s with
  | nil => exact h
  | cons op ops ih => simp only [runX]; exact ih _ (inv_stepX s op h)

/-! ### non-vacuity -/

def k1 : Key := { id := 1, size := 2, table := some 0 }
def k2 : Key := { id := 2, size := 2, table := some 1 }
def k3 : Key := { id := 3, size := 2, table := none }
def v (i sz : Nat) : Val := { id := i, size := sz, fsize := 7, mtime := 3, fp := 0 }

-- a history exercising every op kind: accepted / zero-size / oversize puts, overwrite, LRU
-- eviction (k2 is evicted, k1 was promoted by the get), TTL expiry on get and on contains,
-- limit shrink, drop table.
example :
    (run (init 20 (some 10)) [.put k1 (v 1 5), .put k2 (v 2 5), .get k1, .put k3 (v 3 5), .get k2,
        .put k1 (v 4 0), .put k1 (v 5 100), .put k2 (v 6 3), .contains k2, .advance 11, .get k3,
        .contains k2, .setTtl none, .put k1 (v 7 4), .put k2 (v 8 4), .setLimit 6, .get k1,
        .dropTable 1, .get k2, .remove k1, .clear]).2
      = [.none, .none, .some (v 1 5), .none, .none,
         .some (v 1 5), .none, .none, .bool true, .unit, .none,
         .bool false, .unit, .none, .none, .unit, .none,
         .unit, .none, .none, .unit] := by decide

-- lru_eviction_order's hypotheses are satisfiable: k2 (stamp 1) evicted, k1 (stamp 2, promoted) kept
example :
    let s := (run (init 20 none) [.put k1 (v 1 5), .put k2 (v 2 5), .get k1]).1
    (keys s.q = [k2, k1]) ∧ keys (step s (.put k3 (v 3 5))).1.q = [k1, k3] := by decide

-- stale_never_used: both outcomes occur
example : (stepX (run (init 50 none) [.put k1 (v 1 5)]).1 (.use k1 (v 9 5) true)).2 = .cached (v 1 5) := by decide
example : (stepX (run (init 50 none) [.put k1 (v 1 5)]).1
    (.use k1 { v 9 5 with mtime := 4 } false)).2 = .computed { v 9 5 with mtime := 4 } := by decide

end DfModel.Props.C40
