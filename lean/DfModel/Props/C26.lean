/-
  C26 — parallel byte-range scans read every record exactly once.

  Model: `DfModel.Sm.Boundary` (`AlignedBoundaryStream`, datafusion/datasource/src/boundary_stream.rs),
  hand-written, tied to the real stream by the correspondence harness (harness/hplan/src/c26.rs).
  All theorems are for EVERY file over EVERY alphabet, EVERY terminator, EVERY lookahead > 0, EVERY
  object store that answers a bounded GET with the requested bytes in ANY chunking (`StoreOk`; chunk
  lists may differ from GET to GET and may contain empty chunks), EVERY `(raw_start, raw_end)`.
-/
import DfModel.Sm.Boundary
import DfModel.Sm.FileSplit
import DfModel.Proofs.C26
namespace DfModel.Props.C26
open DfModel.Sm.Boundary DfModel.Sm.FileSplit DfModel.Proofs.C26

set_option linter.unusedSectionVars false
variable {α : Type} [DecidableEq α]

/-- **The stream yields exactly the aligned slice — for every chunking.**
    Draining `AlignedBoundaryStream::new(store, raw_start = s, raw_end = e, file_size, t)` yields
    `aligned t f s e` (= `f[alignStart s, alignEnd e)`, empty if `s ≥ e` or `s ≥ size`), it never hits
    an arithmetic underflow, and the overflow-GET loop terminates (at most `size` refetches). -/
theorem stream_eq_aligned_slice {cfg : Cfg α} {f : List α} (ok : StoreOk cfg f) (s e fuel : Nat)
    (hfuel : f.length ≤ fuel) :
    bytes (run cfg fuel s e) = aligned cfg.term f s e ∧ bad (run cfg fuel s e) = false :=
  run_spec ok fuel s e hfuel

/-- the bytes produced do not depend on the store's chunking, nor on the lookahead -/
theorem stream_chunking_independent {c1 c2 : Cfg α} {f : List α} (ok1 : StoreOk c1 f) (ok2 : StoreOk c2 f)
    (ht : c1.term = c2.term) (s e : Nat) :
    bytes (run c1 f.length s e) = bytes (run c2 f.length s e) := by
  rw [(run_spec ok1 _ s e (Nat.le_refl _)).1, (run_spec ok2 _ s e (Nat.le_refl _)).1, ht]

/-- **What the aligned slice is**: `f[A s, A e)` where `A x = alignPos` is the FIRST RECORD START at or
    after `x` (`aligned_start_is_first_record_start`): range `[s,e)` owns the records that start in it. -/
theorem aligned_eq_slice (t : α) (f : List α) {s e : Nat} (hse : s ≤ e) (he : e ≤ f.length) :
    aligned t f s e = slice f (alignPos t f s) (alignPos t f e) :=
  aligned_eq_slice_alignPos t f hse he

/-- `alignPos x` is a record start (0, just after a terminator, or EOF), is `≥ x`, and is the least such. -/
theorem aligned_start_is_first_record_start (t : α) (f : List α) {x : Nat} (hx : x ≤ f.length) :
    IsRecStart t f (alignPos t f x) ∧ x ≤ alignPos t f x ∧
      ∀ y, IsRecStart t f y → x ≤ y → alignPos t f x ≤ y :=
  ⟨alignPos_isRecStart t f x, le_alignPos t f hx, fun _ hy hxy => alignPos_least t f hy hxy⟩

/-- **Tiling (specification level)**: for every split `0 = b₀ < b₁ < … < bₙ = size` the aligned slices of the
    consecutive ranges concatenate to the file: every byte — hence every record — exactly once, in order. -/
theorem ranges_tile_file (t : α) (f : List α) (bs : List Nat) (hinc : Incr 0 bs)
    (hlast : lastB 0 bs = f.length) : (rangesOut t f 0 bs).flatten = f := by
  rw [rangesOut_flatten t f bs 0 (incr_mono bs 0 hinc) (by omega), hlast, alignPos_zero, alignPos_length,
    slice_zero_length]

/-- the same for weakly increasing boundaries (empty ranges such as `[0,0)`, which
    `FileGroupPartitioner::repartition_preserving_order` produces for tiny files, are harmless) -/
theorem ranges_tile_file_mono (t : α) (f : List α) (bs : List Nat) (hm : Mono 0 bs)
    (hlast : lastB 0 bs = f.length) : (rangesOut t f 0 bs).flatten = f := by
  rw [rangesOut_flatten t f bs 0 hm (by omega), hlast, alignPos_zero, alignPos_length, slice_zero_length]

/-- scanning consecutive ranges with the STREAM, each range with its own store/chunking/lookahead -/
def scanAll (cfgOf : Nat → Nat → Cfg α) (fuel : Nat) : Nat → List Nat → List (List α)
  | _, [] => []
  | b, b' :: bs => bytes (run (cfgOf b b') fuel b b') :: scanAll cfgOf fuel b' bs

theorem scanAll_eq_rangesOut {t : α} {f : List α} (cfgOf : Nat → Nat → Cfg α)
    (ok : ∀ s e, StoreOk (cfgOf s e) f ∧ (cfgOf s e).term = t) :
    ∀ (bs : List Nat) (b : Nat), scanAll cfgOf f.length b bs = rangesOut t f b bs := by
  intro bs
  induction bs with
  | nil => intro b; rfl
  | cons b' bs ih =>
    intro b
    simp only [scanAll, rangesOut, ih b']
    rw [(run_spec (ok b b').1 _ b b' (Nat.le_refl _)).1, (ok b b').2]

/-- **Tiling (stream level)** — the headline: for EVERY boundary placement, EVERY chunking of every GET
    of every range (independently), EVERY lookahead: the streams' outputs concatenate to the file. -/
theorem scans_tile_file {t : α} {f : List α} (cfgOf : Nat → Nat → Cfg α)
    (ok : ∀ s e, StoreOk (cfgOf s e) f ∧ (cfgOf s e).term = t)
    (bs : List Nat) (hm : Mono 0 bs) (hlast : lastB 0 bs = f.length) :
    (scanAll cfgOf f.length 0 bs).flatten = f := by
  rw [scanAll_eq_rangesOut cfgOf ok, ranges_tile_file_mono t f bs hm hlast]

/-- **Each record exactly once, in order**: splitting each range's output into records and concatenating
    gives exactly the file's records (so no record is cut in two, duplicated, dropped or reordered). -/
theorem records_tile (t : α) (f : List α) (bs : List Nat) (hm : Mono 0 bs)
    (hlast : lastB 0 bs = f.length) :
    ((rangesOut t f 0 bs).map (records t)).flatten = records t f := by
  rw [records_tile_aux t f bs 0 hm hlast, alignPos_zero, slice_zero_length]

theorem scanned_records_tile {t : α} {f : List α} (cfgOf : Nat → Nat → Cfg α)
    (ok : ∀ s e, StoreOk (cfgOf s e) f ∧ (cfgOf s e).term = t)
    (bs : List Nat) (hm : Mono 0 bs) (hlast : lastB 0 bs = f.length) :
    ((scanAll cfgOf f.length 0 bs).map (records t)).flatten = records t f := by
  rw [scanAll_eq_rangesOut cfgOf ok, records_tile t f bs hm hlast]

/-- **`FileGroupPartitioner::repartition_evenly_by_size` hands out a tiling**: whatever partition state
    `(idx, cur < target)` the loop is in when it reaches a whole file of `size` bytes, the loop terminates
    without underflow, and the byte ranges it produces for that file, scanned as aligned ranges,
    concatenate to the file. -/
theorem partitioner_ranges_tile_file (t : α) (f : List α) (target file idx cur : Nat) (ht : 0 < target)
    (hc : cur < target) :
    ∃ ps i c, splitFile target file f.length idx cur 0 f.length = some (ps, i, c) ∧ c < target ∧
      (ps.map (fun p => aligned t f p.start p.stop)).flatten = f := by
  obtain ⟨ps, i, c, h1, h2, h3, h4, h5, _⟩ :=
    splitFile_chain target file ht f.length idx cur 0 f.length hc (Nat.zero_le _) (by omega)
  refine ⟨ps, i, c, h1, h2, ?_⟩
  have hmap : ps.map (fun p => aligned t f p.start p.stop)
      = (ps.map (fun p => (p.start, p.stop))).map (fun se => aligned t f se.1 se.2) := by
    rw [List.map_map]; rfl
  rw [hmap, h3, ← rangesOut_eq_pairs]
  exact ranges_tile_file t f _ h4 h5

/-! ### Non-vacuity: the hypotheses are satisfiable for every file, and concrete instances -/

/-- the store that serves one byte per chunk satisfies `StoreOk` for every file and lookahead > 0 -/
def byteStore (t : α) (f : List α) (l : Nat) : Cfg α :=
  { term := t, size := f.length, lookahead := l + 1, store := fun lo hi => (slice f lo hi).map (fun x => [x]) }

theorem byteStore_ok (t : α) (f : List α) (l : Nat) : StoreOk (byteStore t f l) f where
  size_eq := rfl
  look_pos := Nat.succ_pos l
  serve := by
    intro lo hi _ _
    simp only [byteStore]
    generalize slice f lo hi = xs
    induction xs with
    | nil => rfl
    | cons x xs ih => simp [ih]

/-- the store that serves each GET as one chunk -/
def wholeStore (t : α) (f : List α) (l : Nat) : Cfg α :=
  { term := t, size := f.length, lookahead := l + 1, store := fun lo hi => [slice f lo hi] }

theorem wholeStore_ok (t : α) (f : List α) (l : Nat) : StoreOk (wholeStore t f l) f where
  size_eq := rfl
  look_pos := Nat.succ_pos l
  serve := by intro lo hi _ _; simp [wholeStore]

/-- file "aa\nbbb\nc\n" (0 = newline), lookahead 2: ranges [0,2) [2,5) [5,9), 1-byte chunks.
    (`decide` on literals: a test of the definitions, not a proof of the property.) -/
example : scanAll (fun _ _ => byteStore 0 [1,1,0,2,2,2,0,3,0] 1) 9 0 [2, 5, 9]
    = [[1,1,0], [2,2,2,0], [3,0]] := by decide +kernel
/-- a range in the middle of a long record yields nothing; the refetch loop (lookahead 1) finds the far terminator -/
example : scanAll (fun _ _ => wholeStore 0 [1,1,1,1,1,1,0,3] 0) 8 0 [1, 3, 8]
    = [[1,1,1,1,1,1,0], [], [3]] := by decide +kernel
example : gets (run (wholeStore 0 [1,1,1,1,1,1,0,3] 0) 8 0 1) = [(0,2),(2,3),(3,4),(4,5),(5,6),(6,7)] := by decide +kernel
example : Incr 0 [2, 5, 9] ∧ lastB 0 [2, 5, 9] = 9 := by simp [Incr, lastB]
example : records 0 [1,1,0,2,2,2,0,3] = [[1,1,0],[2,2,2,0],[3]] := by decide
example : alignPos 0 [1,1,0,2,2,2,0,3,0] 4 = 7 := by decide
/-- three files of 10, 3, 7 bytes over 3 partitions (target 7): the repo's own unit-test shape -/
example : (repartition 3 0 [10, 3, 7]).map (·.map (·.map (fun p => (p.part, p.file, p.start, p.stop))))
    = some (some [(0,0,0,7), (1,0,7,10), (1,1,0,3), (1,2,0,1), (2,2,1,7)]) := by decide

end DfModel.Props.C26
