/-
  C36 — physical plans survive protobuf serialisation.

  The per-operator encoders/decoders are not modelled as a whole (translation validation by the
  harness: structure walked field by field, results compared).  What is proved here is the part
  that is small enough to be modelled branch for branch and where the property is decided by
  arithmetic: the OPTION CODECS (fetch / skip / limit) and the enum tables, plus the protobuf wire
  layer of C35 on which every message rests.

  The pinned code VIOLATES the property for large options: `GlobalLimitExec.skip`,
  `LocalLimitExec.fetch`, `CoalescePartitionsExec.fetch`, `CoalesceBatchesExec.fetch`,
  `FilterExec.fetch` and `FileScanConfig.limit` are written with `as u32`, so every value ≥ 2^32
  comes back reduced modulo 2^32 (`LIMIT 4294967296` decodes as `fetch = 0`, `OFFSET 4294967296`
  as `skip = 0`), and a `usize` fetch ≥ 2^63 of SortExec / SortPreservingMergeExec /
  GlobalLimitExec decodes as "no limit".  The full statement is kept as
  `options_preserved_statement`; `options_not_preserved` is its kernel-checked refutation with
  concrete witnesses, `options_preserved_partial` the part that holds.
-/
import DfModel.Base.PhysCodec
import DfModel.Proofs.C35Wire
namespace DfModel.Props.C36
open DfModel DfModel.PhysCodec DfModel.Wire

/-! ## `int64` fetch (SortExec, SortPreservingMergeExec, GlobalLimitExec.fetch) -/

theorem fetch_i64_none : rtFetchI64 none = none := by decide

theorem fetch_i64_roundtrip (n : Nat) (h : n < 2 ^ 63) : rtFetchI64 (some n) = some n := by
  unfold rtFetchI64 encFetchI64 decFetchI64 asI64 toSigned
  simp only [Nat.reducePow, Nat.reduceSub] at *
  split <;> split <;> first | omega | (simp <;> omega)

/-- exactly the fetches below 2^63 survive; the others decode as "no limit" -/
theorem fetch_i64_roundtrip_iff (n : Nat) (h64 : n < 2 ^ 64) : rtFetchI64 (some n) = some n ↔ n < 2 ^ 63 := by
  constructor
  · intro h
    unfold rtFetchI64 encFetchI64 decFetchI64 asI64 toSigned at h
    simp only [Nat.reducePow, Nat.reduceSub] at *
    split at h <;> split at h <;> first | omega | (simp at h <;> omega)
  · exact fetch_i64_roundtrip n

theorem fetch_i64_large_is_dropped (n : Nat) (h63 : 2 ^ 63 ≤ n) (h64 : n < 2 ^ 64) : rtFetchI64 (some n) = none := by
  unfold rtFetchI64 encFetchI64 decFetchI64 asI64 toSigned
  simp only [Nat.reducePow, Nat.reduceSub] at *
  split <;> split <;> first | omega | rfl

/-! ## `uint32` fetch / skip -/

theorem fetch_u32_none : rtFetchU32 none = none := rfl

theorem fetch_u32_roundtrip_iff (n : Nat) : rtFetchU32 (some n) = some n ↔ n < 2 ^ 32 := by
  unfold rtFetchU32 asU32
  simp only [Option.map, Nat.reducePow, Option.some.injEq]
  omega

theorem skip_u32_roundtrip_iff (n : Nat) : asU32 n = n ↔ n < 2 ^ 32 := by
  unfold asU32
  simp only [Nat.reducePow]
  omega

/-! ## the property on the modelled options -/

/-- "decoding gives a plan with the same options": every `usize` skip / fetch survives -/
def options_preserved_statement : Prop :=
  (∀ skip fetch, skip < 2 ^ 64 → (∀ f, fetch = some f → f < 2 ^ 64) → rtGlobalLimit skip fetch = (skip, fetch))
  ∧ (∀ fetch, (∀ f, fetch = some f → f < 2 ^ 64) → rtFetchU32 fetch = fetch)

/-- what does hold: skips / `u32` fetches below 2^32 and `i64` fetches below 2^63 -/
theorem options_preserved_partial :
    (∀ skip fetch, skip < 2 ^ 32 → (∀ f, fetch = some f → f < 2 ^ 63) → rtGlobalLimit skip fetch = (skip, fetch))
    ∧ (∀ fetch, (∀ f, fetch = some f → f < 2 ^ 32) → rtFetchU32 fetch = fetch) := by
  constructor
  · intro skip fetch hs hf
    unfold rtGlobalLimit
    rw [(skip_u32_roundtrip_iff skip).2 hs]
    cases fetch with
    | none => rw [fetch_i64_none]
    | some f => rw [fetch_i64_roundtrip f (hf f rfl)]
  · intro fetch hf
    cases fetch with
    | none => rfl
    | some f => exact (fetch_u32_roundtrip_iff f).2 (hf f rfl)

/-- THE CURRENT CODE VIOLATES THE PROPERTY: `OFFSET 4294967296` decodes as `OFFSET 0`, and a
    `LocalLimitExec` / `FilterExec` / `CoalescePartitionsExec` fetch of 4294967296 as `fetch = 0` -/
theorem options_not_preserved : ¬ options_preserved_statement := by
  intro h
  have := h.2 (some 4294967296) (by intro f hf; cases hf; decide)
  revert this
  decide

example : rtGlobalLimit 4294967296 (some 5) = (0, some 5) := by decide
example : rtFetchU32 (some 4294967297) = some 1 := by decide
example : rtFetchI64 (some (2 ^ 64 - 1)) = none := by decide
example : rtFetchI64 (some 0) = some 0 := by decide

/-! ## enum tables (whole domain) -/

theorem join_type_roundtrip (j : JoinType) : joinTypeOf (joinTypeNum j) = some j := by
  cases j <;> rfl

theorem join_type_injective (a b : JoinType) (h : joinTypeNum a = joinTypeNum b) : a = b := by
  cases a <;> cases b <;> first | rfl | (simp [joinTypeNum] at h)

theorem join_type_decode_sound (n : Nat) (j : JoinType) (h : joinTypeOf n = some j) : joinTypeNum j = n := by
  unfold joinTypeOf at h
  split at h <;> simp at h <;> subst h <;> rfl

/-! ## the wire layer (C35) every PhysicalPlanNode message is written with -/

theorem varint64_roundtrip (n : Nat) (h : n < 2 ^ 64) (rest : List Nat) :
    decodeVarint64 (encodeVarint n ++ rest) = some (n, rest) :=
  Proofs.C35Wire.varint64_roundtrip n (by unfold two64; omega) rest

/-- an `int64` fetch field: `-1` ("no limit") and every fetch below 2^63 survive the wire -/
theorem fetch_field_wire (v : Int) (lo : -(2 ^ 63 : Int) ≤ v) (hi : v < (2 ^ 63 : Int)) :
    (decodeVarint64 (encodeInt v)).map (fun r => toSigned 64 r.1) = some v := by
  unfold encodeInt
  have := Proofs.C35Wire.varint64_roundtrip _ (Proofs.C35Wire.toU64_lt v) []
  simp only [List.append_nil] at this
  rw [this]
  simp [Proofs.C35Wire.toSigned_toU64 64 (by simp) v (by simpa using lo) (by simpa using hi)]

end DfModel.Props.C36
