/-
  C53 — reported row-count metrics equal the rows actually produced (counting model).

  The Lean side is the arithmetic of counting points; that each real operator places its
  counting points so that `exactlyOnce` holds is what the implementation-level oracle of the
  harness checks on real plans (notes/C53.md) — partial by design (DESIGN.md §5 C53).
-/
import DfModel.Mech.Counting
namespace DfModel.Props.C53
open DfModel.Mech.Counting

/-! ## one stream -/

theorem recordAll_rows (ps : List Poll) : ∀ m : Metrics,
    (recordAll m ps).outputRows = m.outputRows + emitted ps ∧
    (recordAll m ps).outputBatches = m.outputBatches + batches ps := by
  induction ps with
  | nil => intro m; simp [recordAll, emitted, batches]
  | cons p ps ih =>
    intro m
    have := ih (recordPoll m p)
    simp only [recordAll, List.foldl_cons] at this ⊢
    cases p <;> simp only [recordPoll, emitted, batches] at this ⊢ <;> omega

/-- **counter_eq_emitted.** Whatever the sequence of `poll_next` results — any interleaving of
    `Pending`, batches of any sizes (including empty ones), an error, end of stream, even polls
    after the end — the counter equals the number of rows handed to the consumer, and the batch
    counter the number of batches. -/
theorem counter_eq_emitted (ps : List Poll) :
    (recordAll Metrics.zero ps).outputRows = emitted ps ∧
    (recordAll Metrics.zero ps).outputBatches = batches ps := by
  have := recordAll_rows ps Metrics.zero
  simpa [Metrics.zero] using this

example : (recordAll Metrics.zero [.pending, .batch 3, .pending, .batch 0, .batch 5, .done, .done]).outputRows = 8 := by
  decide

/-- the end time is recorded as soon as the stream ends or fails -/
theorem ended_iff (ps : List Poll) :
    (recordAll Metrics.zero ps).ended = true ↔ (Poll.done ∈ ps ∨ Poll.error ∈ ps) := by
  have key : ∀ m : Metrics, (recordAll m ps).ended = true ↔
      (m.ended = true ∨ Poll.done ∈ ps ∨ Poll.error ∈ ps) := by
    induction ps with
    | nil => intro m; simp [recordAll]
    | cons p ps ih =>
      intro m
      have := ih (recordPoll m p)
      simp only [recordAll, List.foldl_cons] at this ⊢
      rw [this]
      cases p <;> simp [recordPoll]
  simpa [Metrics.zero] using key Metrics.zero

/-! ## compositions inside one operator -/

mutual
theorem uncounted_reports_nothing : (w : Wrap) → uncounted w = true → reported w = 0
  | .source _, _ => rfl
  | .counted _, h => by simp [uncounted] at h
  | .merge ws, h => by
      simp only [reported]; exact uncountedL_reports_nothing ws (by simpa [uncounted] using h)
  | .rebatch w, h => by
      simp only [reported]; exact uncounted_reports_nothing w (by simpa [uncounted] using h)
  | .limit _ w, h => by
      simp only [reported]; exact uncounted_reports_nothing w (by simpa [uncounted] using h)
theorem uncountedL_reports_nothing : (ws : List Wrap) → uncountedL ws = true → reportedL ws = 0
  | [], _ => rfl
  | w :: ws, h => by
      simp only [uncountedL, Bool.and_eq_true] at h
      simp [reportedL, uncounted_reports_nothing w h.1, uncountedL_reports_nothing ws h.2]
end

mutual
/-- **no_double_count.** If every row leaving the operator has passed exactly one counting point
    of that operator (and nothing is cut off above a counting point), the operator reports exactly
    the rows it emitted — for every nesting of merges / re-batching, any number of inputs and any
    batch sizes. -/
theorem no_double_count : (w : Wrap) → exactlyOnce w = true → reported w = rows w
  | .source _, h => by simp [exactlyOnce] at h
  | .counted w, h => by
      simp only [exactlyOnce] at h
      simp [reported, rows, uncounted_reports_nothing w h]
  | .merge ws, h => by
      simp only [reported, rows]; exact no_double_countL ws (by simpa [exactlyOnce] using h)
  | .rebatch w, h => by
      simp only [reported, rows]; exact no_double_count w (by simpa [exactlyOnce] using h)
  | .limit _ _, h => by simp [exactlyOnce] at h
theorem no_double_countL : (ws : List Wrap) → exactlyOnceL ws = true → reportedL ws = rowsL ws
  | [], _ => rfl
  | w :: ws, h => by
      simp only [exactlyOnceL, Bool.and_eq_true] at h
      simp [reportedL, rowsL, no_double_count w h.1, no_double_countL ws h.2]
end

theorem rowsL_sources (inputs : List (List Nat)) :
    rowsL (inputs.map fun bs => Wrap.source bs) = inputs.flatten.sum := by
  induction inputs with
  | nil => rfl
  | cons bs rest ih => simp [rowsL, rows, ih, List.sum_append]

theorem rowsL_counted_sources (inputs : List (List Nat)) :
    rowsL (inputs.map fun bs => Wrap.counted (.source bs)) = inputs.flatten.sum ∧
    reportedL (inputs.map fun bs => Wrap.counted (.source bs)) = inputs.flatten.sum := by
  induction inputs with
  | nil => exact ⟨rfl, rfl⟩
  | cons bs rest ih => simp [rowsL, reportedL, rows, reported, ih.1, ih.2, List.sum_append]

theorem reportedL_sources (inputs : List (List Nat)) :
    reportedL (inputs.map fun bs => Wrap.source bs) = 0 := by
  induction inputs with
  | nil => rfl
  | cons bs rest ih => simp [reportedL, reported, ih]

/-- `RepartitionExec` as coded (inner `PerPartitionStream`s get `None` in order-preserving mode)
    reports every row once, in both modes, for any number of inputs and any batch sizes -/
theorem repartition_counts_once (po : Bool) (inputs : List (List Nat)) :
    reported (repartitionOut po false inputs) = inputs.flatten.sum ∧
    rows (repartitionOut po false inputs) = inputs.flatten.sum := by
  cases po
  · simp [repartitionOut, reported, rows]
  · simp [repartitionOut, reported, rows, rowsL_sources, reportedL_sources]

/-- … whereas giving the inner streams the operator's metrics as well (the situation the comment
    in `RepartitionExec::execute` warns about) reports every row TWICE — the model sees the bug -/
theorem repartition_inner_counted_doubles (inputs : List (List Nat)) :
    reported (repartitionOut true true inputs) = 2 * rows (repartitionOut true true inputs) := by
  have h := rowsL_counted_sources inputs
  simp only [repartitionOut, if_true, reported, rows, h.1, h.2]
  omega

example : reported (repartitionOut true true [[3, 4], [], [5]]) = 24 ∧
          rows (repartitionOut true true [[3, 4], [], [5]]) = 12 := by decide
example : exactlyOnce (repartitionOut true false [[3, 4], [], [5]]) = true := by decide
example : exactlyOnce (.rebatch (.merge [.counted (.rebatch (.source [1, 2])), .merge [.counted (.source [7])]])) = true := by
  decide

/-- a counting point placed BELOW a fetch may over-report (so operators with `fetch` must count
    above it) -/
example : reported (.limit 2 (.counted (.source [5, 5]))) = 10 ∧ rows (.limit 2 (.counted (.source [5, 5]))) = 2 := by
  decide

/-! ## spill counters -/

theorem spill_inv_step (s : Spill) (op : SpillOp) (h : s.spilledRows = s.fileRows.sum) :
    (spillStep s op).1.spilledRows = (spillStep s op).1.fileRows.sum := by
  cases op with
  | append n io =>
    simp only [spillStep]
    split
    · exact h
    · cases io <;> by_cases ho : s.opened = true <;> simp [ho, h, List.sum_append]
  | finish =>
    simp only [spillStep]
    split
    · exact h
    · split <;> exact h

/-- **spilled_rows_eq_written.** After any sequence of `append_batch` (succeeding or failing in
    the write) and `finish` calls, `spilled_rows` equals the rows of the batches that are in the
    file; nothing is counted for a failed or rejected append. -/
theorem spilled_rows_eq_written (ops : List SpillOp) :
    (spillRun Spill.init ops).spilledRows = (spillRun Spill.init ops).fileRows.sum := by
  have key : ∀ s : Spill, s.spilledRows = s.fileRows.sum →
      (spillRun s ops).spilledRows = (spillRun s ops).fileRows.sum := by
    induction ops with
    | nil => intro s h; exact h
    | cons op ops ih => intro s h; exact ih _ (spill_inv_step s op h)
  exact key _ rfl

/-- one in-progress file is counted at most once -/
theorem spill_file_count_le_one (ops : List SpillOp) : (spillRun Spill.init ops).spillFiles ≤ 1 := by
  have key : ∀ s : Spill, (s.spillFiles = if s.opened then 1 else 0) →
      ((spillRun s ops).spillFiles = if (spillRun s ops).opened then 1 else 0) := by
    induction ops with
    | nil => intro s h; exact h
    | cons op ops ih =>
      intro s h
      apply ih
      cases op with
      | append n io =>
        simp only [spillStep]
        split
        · exact h
        · cases io <;> by_cases ho : s.opened = true <;> simp_all
      | finish =>
        simp only [spillStep]
        split
        · exact h
        · split <;> simp_all
  have := key Spill.init rfl
  rw [this]; split <;> omega

example : (spillRun Spill.init [.finish, .append 3 .ok, .append 4 .fail, .append 0 .ok, .append 5 .ok, .finish,
    .append 9 .ok, .finish]) = ⟨true, [3, 0, 5], 8, 1, true⟩ := by decide

end DfModel.Props.C53
