/-
  C13 — group key interning numbers distinct keys densely and consistently.

  `Spec` is the contract of `GroupValues` (the store = the list of distinct live keys in first-seen
  order, a key's id = its index). The `spec_*` theorems are the property's clauses, for every key
  type, every store reachable by ANY history of intern / emit(All) / emit(First n) / clear.
  `primitive_refines_spec` transfers them to the concrete model of `GroupValuesPrimitive`
  (hash table of `(group index, hash)` entries, `null_group`, `values` with a placeholder in the
  NULL slot, the `First(n)` renumbering, `clear_shrink` resetting `null_group`), for every hash
  function (collisions included) — this is the code as it stands after /repo commit f8726ff.
  The pinned upstream `clear_shrink` did NOT reset `null_group`: `primitive_clear_keeps_null_group`
  is the kernel-checked witness that there a history `intern [NULL]; clear_shrink; intern [NULL]`
  handed out group id 0 while `len() = 0` (and `bytes_clear_keeps_num_groups` the analogous one for
  `GroupValuesBytes*::num_groups`); both repaired by f8726ff.
-/
import DfModel.Sm.Gv
import DfModel.Proofs.C13
namespace DfModel.Props.C13
open DfModel.Sm.Gv DfModel.Proofs.C13

section SpecTheorems
variable {K : Type} [DecidableEq K]

/-- a store is reachable if some history produces it from the empty store -/
def Reachable (g : List K) : Prop := ∃ ops : List (Op K), (Spec.run [] ops).1 = g

/-- reachable stores hold distinct keys: `len` = number of distinct live keys -/
theorem spec_len_eq_distinct_live (g : List K) (h : Reachable g) : g.Nodup := by
  obtain ⟨ops, rfl⟩ := h
  exact spec_run_nodup ops List.nodup_nil

/-- which keys are live after each operation -/
theorem spec_live_keys (g : List K) (op : Op K) (k : K) :
    k ∈ (Spec.step g op).1 ↔
      match op with
      | .intern ks => k ∈ g ∨ k ∈ ks
      | .emit .all => False
      | .emit (.first n) => if n ≤ g.length then k ∈ g.drop n else k ∈ g
      | .clear => False := by
  cases op with
  | intern ks =>
    simp only [Spec.step, internAll_fst, List.mem_append, List.mem_filter, mem_firstSeen,
      decide_eq_true_eq]
    by_cases h : k ∈ g <;> simp [h]
  | emit e =>
    cases e with
    | all => simp [Spec.step]
    | first n => simp only [Spec.step]; split <;> simp
  | clear => simp [Spec.step]

/-- **ids are dense and consistent**: after interning a batch into a reachable store, every row's
    id is below the new group count and is the index of that row's key … -/
theorem spec_id_is_key (g : List K) (ks : List K) (i : Nat) (hi : i < ks.length) :
    ∃ id, (Spec.internAll g ks).2[i]? = some id ∧ id < (Spec.internAll g ks).1.length ∧
      (Spec.internAll g ks).1[id]? = some ks[i] := by
  obtain ⟨id, h1, h2⟩ := internAll_get g ks i hi
  refine ⟨id, h1, ?_, h2⟩
  rcases Nat.lt_or_ge id (Spec.internAll g ks).1.length with h | h
  · exact h
  · rw [List.getElem?_eq_none h] at h2; cases h2

theorem spec_ids_dense (g : List K) (ks : List K) :
    ∀ id ∈ (Spec.internAll g ks).2, id < (Spec.internAll g ks).1.length := by
  intro id hid
  obtain ⟨i, hi⟩ := List.mem_iff_getElem?.mp hid
  have hil : i < ks.length := by
    rw [← internAll_length g ks]
    rcases Nat.lt_or_ge i (Spec.internAll g ks).2.length with h | h
    · exact h
    · rw [List.getElem?_eq_none h] at hi; cases hi
  obtain ⟨id', h1, h2, _⟩ := spec_id_is_key g ks i hil
  rw [hi] at h1; injection h1 with h1; subst h1; exact h2

/-- … equal keys get the same id and distinct keys distinct ids (within the batch, and relative to
    every key already in the store because existing ids never change: `spec_ids_stable`). -/
theorem spec_equal_same_id (g : List K) (hg : g.Nodup) (ks : List K) (i j : Nat)
    (hi : i < ks.length) (hj : j < ks.length) :
    (Spec.internAll g ks).2[i]? = (Spec.internAll g ks).2[j]? ↔ ks[i] = ks[j] := by
  obtain ⟨a, ha, ha'⟩ := internAll_get g ks i hi
  obtain ⟨b, hb, hb'⟩ := internAll_get g ks j hj
  rw [ha, hb]
  constructor
  · intro h
    injection h with h; subst h
    rw [ha'] at hb'; injection hb'
  · intro h
    rw [h] at ha'
    rw [nodup_getElem?_inj (internAll_nodup ks hg) ha' hb']

theorem spec_distinct_distinct (g : List K) (hg : g.Nodup) (ks : List K) (i j : Nat)
    (hi : i < ks.length) (hj : j < ks.length) (hne : ks[i] ≠ ks[j]) :
    (Spec.internAll g ks).2[i]? ≠ (Spec.internAll g ks).2[j]? :=
  fun h => hne ((spec_equal_same_id g hg ks i j hi hj).mp h)

/-- ids already handed out keep their key when more keys are interned -/
theorem spec_ids_stable (g : List K) (ks : List K) (id : Nat) (k : K) (h : g[id]? = some k) :
    (Spec.internAll g ks).1[id]? = some k :=
  prefix_getElem? (internAll_prefix g ks) h

/-- **new keys receive exactly the ids from the current group count upward**, in first-seen order:
    the store after the batch is the old store followed by the batch's not-yet-present keys,
    de-duplicated, in order of first appearance. -/
theorem spec_new_ids_from_len (g : List K) (ks : List K) :
    (Spec.internAll g ks).1 = g ++ (firstSeen ks).filter (fun x => decide (x ∉ g)) :=
  internAll_fst g ks

/-- **emit**: `First(n)` returns the keys of ids `0..n` in id order and renumbers every remaining
    group down by `n`; `All` returns every key in id order and empties the store. -/
theorem spec_emit_renumbers (g : List K) (n : Nat) (hn : n ≤ g.length) :
    (Spec.step g (.emit (.first n))).2 = .keys (g.take n) ∧
    (∀ i, i < n → (g.take n)[i]? = g[i]?) ∧
    (Spec.step g (.emit (.first n))).1.length = g.length - n ∧
    (∀ id, (Spec.step g (.emit (.first n))).1[id]? = g[n + id]?) := by
  simp only [Spec.step, hn, if_true, List.length_drop, List.getElem?_drop, implies_true, and_true,
    true_and]
  intro i hi
  simp [hi]

theorem spec_emit_all (g : List K) :
    Spec.step g (.emit .all) = ([], .keys g) := rfl

end SpecTheorems

/-! ### the primitive implementation refines the specification -/

/-- **refinement**: from the initial store, over ANY history, for ANY hash function, the concrete
    model of `GroupValuesPrimitive` (the current code, `fixClear = true`) returns exactly what
    the specification returns — group ids of every `intern`, the emitted keys of every `emit` — and
    its `len()` is the specification's group count. -/
theorem primitive_refines_spec (hash : Nat → Nat) (ops : List (Op (Option Nat))) :
    (Prim.run hash true Prim.init ops).2 = (Spec.run [] ops).2 ∧
    Prim.abs (Prim.run hash true Prim.init ops).1 = (Spec.run [] ops).1 ∧
    Prim.len (Prim.run hash true Prim.init ops).1 = (Spec.run [] ops).1.length := by
  have gen : ∀ (s : Prim.St), PrimR.Wf hash s →
      (Prim.run hash true s ops).2 = (Spec.run (Prim.abs s) ops).2 ∧
      Prim.abs (Prim.run hash true s ops).1 = (Spec.run (Prim.abs s) ops).1 := by
    induction ops with
    | nil => intro s _; exact ⟨rfl, rfl⟩
    | cons op ops ih =>
      intro s hw
      obtain ⟨a, b, c⟩ := PrimR.step_refines hw op
      obtain ⟨d, e⟩ := ih _ a
      simp only [Prim.run, Spec.run]
      rw [← b, c]
      exact ⟨by rw [d], e⟩
  obtain ⟨a, b⟩ := gen Prim.init (PrimR.wf_init hash)
  have habs : Prim.abs Prim.init = [] := rfl
  rw [habs] at a b
  refine ⟨a, b, ?_⟩
  rw [← b, PrimR.abs_length]; rfl

/-- the `EmitTo::First(n)` renumbering loop of the primitive store, on any well-formed state -/
theorem primitive_emit_first_renumbers (hash : Nat → Nat) (s : Prim.St) (h : PrimR.Wf hash s)
    (fix : Bool) (n : Nat) (hn : n ≤ Prim.len s) :
    PrimR.Wf hash (Prim.step hash fix s (.emit (.first n))).1 ∧
    Prim.abs (Prim.step hash fix s (.emit (.first n))).1 = (Prim.abs s).drop n ∧
    (Prim.step hash fix s (.emit (.first n))).2 = .keys ((Prim.abs s).take n) :=
  PrimR.emitFirst_refines h fix n hn

/-- the refinement for the pinned upstream `clear_shrink` (`fixClear = false`; FALSE, see below) -/
def primitive_refines_spec_upstream_statement : Prop :=
  ∀ (hash : Nat → Nat) (ops : List (Op (Option Nat))),
    (Prim.run hash false Prim.init ops).2 = (Spec.run [] ops).2

/-- every `clear` of the history is executed while no NULL group is live — in particular when it
    directly follows an `emit(All)`, which is how the engine uses it
    (`GroupedHashAggregateStream::spill`: `emit(EmitTo::All)` then `clear_shrink`) -/
def ClearsSafe (hash : Nat → Nat) : Prim.St → List (Op (Option Nat)) → Prop
  | _, [] => True
  | s, op :: ops => (op = .clear → s.nullGroup = none) ∧ ClearsSafe hash (Prim.step hash false s op).1 ops

theorem prim_step_fix_irrelevant (hash : Nat → Nat) (s : Prim.St) (op : Op (Option Nat))
    (h : op = .clear → s.nullGroup = none) : Prim.step hash false s op = Prim.step hash true s op := by
  cases op with
  | clear => simp [Prim.step, h rfl]
  | intern ks => rfl
  | emit e => cases e <;> rfl

theorem prim_run_fix_irrelevant (hash : Nat → Nat) (ops : List (Op (Option Nat))) (s : Prim.St)
    (hs : ClearsSafe hash s ops) : Prim.run hash false s ops = Prim.run hash true s ops := by
  induction ops generalizing s with
  | nil => rfl
  | cons op ops ih =>
    simp only [Prim.run]
    rw [← prim_step_fix_irrelevant hash s op hs.1, ih _ hs.2]

/-- **what held upstream**: on every history whose `clear`s are safe in the above sense the upstream
    primitive store already returned what the specification returns. -/
theorem primitive_refines_spec_upstream_partial (hash : Nat → Nat) (ops : List (Op (Option Nat)))
    (h : ClearsSafe hash Prim.init ops) :
    (Prim.run hash false Prim.init ops).2 = (Spec.run [] ops).2 := by
  rw [prim_run_fix_irrelevant hash ops _ h]
  exact (primitive_refines_spec hash ops).1

/-- `emit(All)` leaves no NULL group, so `emit(All); clear_shrink` is always safe -/
theorem clear_after_emit_all_safe (hash : Nat → Nat) (s : Prim.St) :
    (Prim.step hash false s (.emit .all)).1.nullGroup = none := rfl

example : ClearsSafe (fun x => x) Prim.init [.intern [none, some 1], .emit .all, .clear, .intern [none]] := by
  simp [ClearsSafe, Prim.step, Prim.init]

/-- **witness** (pinned upstream code, before f8726ff): `intern [NULL]`, `clear_shrink`, `intern [NULL]` returns
    group id 0 although the store is empty (`len() = 0`), and a following `emit(All)` panics
    (`values.len() - null_idx - 1` underflows in `build_primitive`). -/
theorem primitive_clear_keeps_null_group :
    let r := Prim.run (fun x => x) false Prim.init [.intern [none], .clear, .intern [none], .emit .all]
    r.2 = [.ids [0], .unit, .ids [0], .panic] ∧
    Prim.len (Prim.run (fun x => x) false Prim.init [.intern [none], .clear, .intern [none]]).1 = 0 ∧
    (Spec.run ([] : List (Option Nat)) [.intern [none], .clear, .intern [none], .emit .all]).2
      = [.ids [0], .unit, .ids [0], .keys [none]] := by decide

theorem primitive_refines_spec_upstream_fails : ¬ primitive_refines_spec_upstream_statement := by
  intro h
  have := h (fun x => x) [.intern [none], .clear, .intern [none], .emit .all]
  revert this
  decide

/-- **witness** for the upstream `GroupValuesBytes` / `GroupValuesBytesView`: `clear_shrink` dropped the
    map but kept `num_groups`, so `intern ["a","b"]; clear_shrink; intern ["c"]` numbers the only live key 2
    and reports `len() = 3`. -/
theorem bytes_clear_keeps_num_groups :
    let r := Bytes.run false Bytes.init [.intern [some 1, some 2], .clear, .intern [some 3]]
    r.2 = [.ids [0, 1], .unit, .ids [2]] ∧ Bytes.len r.1 = 3 ∧
    (Spec.run ([] : List (Option Nat)) [.intern [some 1, some 2], .clear, .intern [some 3]]).2
      = [.ids [0, 1], .unit, .ids [0]] := by decide

/-- the bytes / boolean stores refine the specification too (statement; checked by correspondence
    on every run, not proved here) -/
def bytes_refines_spec_statement : Prop :=
  ∀ ops : List (Op (Option Nat)), (Bytes.run true Bytes.init ops).2 = (Spec.run [] ops).2

def boolean_refines_spec_statement : Prop :=
  ∀ ops : List (Op (Option Nat)),
    (∀ op ∈ ops, ∀ ks, op = .intern ks → ∀ k ∈ ks, k = none ∨ k = some 0 ∨ k = some 1) →
    (Bool3.run Bool3.init ops).2 = (Spec.run [] ops).2

/-! ### non-vacuity / tests -/

-- a history with duplicates, NULL, re-interning after a partial emit, emit all, clear
example :
    (Spec.run ([] : List (Option Nat))
      [.intern [some 5, none, some 5, some 7], .intern [some 7, some 9], .emit (.first 2),
       .intern [some 5, some 9, none], .emit .all, .intern [none], .clear, .intern [some 1]]).2
      = [.ids [0, 1, 0, 2], .ids [2, 3], .keys [some 5, none], .ids [2, 1, 3],
         .keys [some 7, some 9, some 5, none], .ids [0], .unit, .ids [0]] := by decide

-- the primitive model on the same history with a hash function that collides everything
example :
    (Prim.run (fun _ => 0) true Prim.init
      [.intern [some 5, none, some 5, some 7], .intern [some 7, some 9], .emit (.first 2),
       .intern [some 5, some 9, none], .emit .all, .intern [none], .clear, .intern [some 1]]).2
      = [.ids [0, 1, 0, 2], .ids [2, 3], .keys [some 5, none], .ids [2, 1, 3],
         .keys [some 7, some 9, some 5, none], .ids [0], .unit, .ids [0]] := by decide

-- NULL slot holds the default value 0 but is not confused with the key 0
example :
    (Prim.run (fun _ => 0) true Prim.init [.intern [none, some 0, none, some 0]]).2 = [.ids [0, 1, 0, 1]] := by
  decide

-- bytes / boolean models agree with the spec on a mixed history (test, not a proof)
example :
    (Bytes.run true Bytes.init [.intern [some 1, none, some 2], .emit (.first 1), .intern [some 1, none],
      .emit (.first 3), .intern [some 4]]).2
    = (Spec.run [] [.intern [some 1, none, some 2], .emit (.first 1), .intern [some 1, none],
      .emit (.first 3), .intern [some 4]]).2 := by decide
example :
    (Bool3.run Bool3.init [.intern [some 1, none, some 0], .emit (.first 1), .intern [some 1, none],
      .emit (.first 2), .intern [some 0], .emit .all]).2
    = (Spec.run [] [.intern [some 1, none, some 0], .emit (.first 1), .intern [some 1, none],
      .emit (.first 2), .intern [some 0], .emit .all]).2 := by decide

end DfModel.Props.C13
