/-
  C46 — benchmark result validation accepts exactly the persisted results.

  Model: `DfModel.Text.Bench` (`compare_results`, `format_record_batches` on Utf8 cells, `persist`
  = arrow-csv writer with '|' and header, `read_query_from_file` = CSV reader into Utf8 columns,
  `process_replacements`), on top of the CSV codec model of C51.
-/
import DfModel.Text.Bench
import DfModel.Proofs.C46
namespace DfModel.Props.C46
open DfModel.Text DfModel.Text.Bench DfModel.Proofs.C46

/-- **`compare_results` accepts exactly**: same number of rows, every row of the same width as
    its expected row, and on the first `column_count` columns every cell `cellOk` (equal, or
    expected `NULL` with actual empty, or expected `(empty)` with actual empty / `NULL`).
    Consequently ANY other difference in row count, column count or a compared cell is rejected. -/
theorem compare_iff (cc : Nat) (A E : List (List Str)) :
    compareResults cc A E = .ok () ↔ Spec cc A E :=
  Proofs.C46.compare_iff cc A E

/-- rejection, spelled out: a compared cell that is not equivalent makes validation fail -/
theorem compare_rejects_cell (cc : Nat) (A E : List (List Str)) (i j : Nat) (hi : i < A.length)
    (hi' : i < E.length) (hj : j < cc) (h1 : j < E[i].length) (h2 : j < A[i].length)
    (hbad : cellOk E[i][j] A[i][j] = false) : compareResults cc A E ≠ .ok () := by
  intro h
  have := ((compare_iff cc A E).mp h).2 i hi hi'
  have := this.2 j hj h1 h2
  rw [hbad] at this; cases this

theorem compare_rejects_row_count (cc : Nat) (A E : List (List Str)) (h : A.length ≠ E.length) :
    compareResults cc A E ≠ .ok () := fun hh => h ((compare_iff cc A E).mp hh).1

theorem compare_rejects_column_count (cc : Nat) (A E : List (List Str)) (i : Nat) (hi : i < A.length)
    (hi' : i < E.length) (h : A[i].length ≠ E[i].length) : compareResults cc A E ≠ .ok () :=
  fun hh => h (((compare_iff cc A E).mp hh).2 i hi hi').1

/-- cells beyond `column_count` are not compared (`take(query.column_count)`): this is what the
    code does; in `verify` after `persist` `column_count` is the file's width, so nothing is skipped -/
example : compareResults 1 [["a".toList, "x".toList]] [["a".toList, "y".toList]] = .ok () := by rfl
example : compareResults 2 [["a".toList, "x".toList]] [["a".toList, "y".toList]] = .error (.cell 1 2) := by rfl

/-- **`verify` accepts what `persist` wrote**, for every result set of Utf8 cells (NULL, empty
    string, the text `NULL`, separators `|`, quotes, CR/LF, any Unicode), every header, every
    `column_count`: the formatted actual rows compared with the formatted rows read back from the
    persisted file pass `compare_results`. -/
theorem accepts_persisted (cc : Nat) (header : List Str) (rows : List (List Cell)) (hh : header ≠ [])
    (hne : ∀ r ∈ rows, r ≠ []) :
    compareResults cc (formatRows rows) (expectedOf header rows) = .ok () := by
  rw [compare_iff]
  unfold expectedOf
  rw [readBack_persist header rows hh hne]
  unfold formatRows Spec
  refine ⟨by simp, ?_⟩
  intro i h1 h2
  simp only [List.getElem_map, List.map_map, Function.comp_def]
  exact rowSpec_persisted cc _

/-- what is read back: NULL and '' are both read back as NULL, everything else verbatim -/
theorem readBack_persist (header : List Str) (rows : List (List Cell)) (hh : header ≠ [])
    (hne : ∀ r ∈ rows, r ≠ []) :
    readBack (persist header rows) = rows.map (·.map fun c => readCell (Csv.cellText c)) :=
  Proofs.C46.readBack_persist header rows hh hne

/-! ### placeholders: explicit value > environment > default -/

/-- an explicit (map) value wins over the environment and the default -/
theorem replacement_precedence_map (map env : List (Str × Str)) (key v : Str) (d : Option Str)
    (h : lookupAssoc (key.map Char.toLower) map = some v) : resolveVar map env key d = some v := by
  simp [resolveVar, lookupValue, h]

/-- without an explicit value the environment wins over the default -/
theorem replacement_precedence_env (map env : List (Str × Str)) (key v : Str) (d : Option Str)
    (h0 : lookupAssoc (key.map Char.toLower) map = none)
    (h : lookupAssoc (key.map Char.toUpper) env = some v) : resolveVar map env key d = some v := by
  simp [resolveVar, lookupValue, h0, h]

/-- with neither, the default is used; without a default the placeholder is an error -/
theorem replacement_precedence_default (map env : List (Str × Str)) (key : Str) (d : Option Str)
    (h0 : lookupAssoc (key.map Char.toLower) map = none)
    (h1 : lookupAssoc (key.map Char.toUpper) env = none) : resolveVar map env key d = d := by
  simp [resolveVar, lookupValue, h0, h1]

/-- the same order decides the boolean branch -/
theorem branch_precedence (map env : List (Str × Str)) (key v t f : Str) (d : Option Str)
    (h : lookupAssoc (key.map Char.toLower) map = some v) :
    resolveBranch map env key d t f = some (if eqIgnoreCase v "true".toList then t else f) := by
  simp only [resolveBranch, lookupValue, h, Option.orElse]
  split <;> rfl

-- whole-function tests (nested defaults, boolean branches, map > env > default, second pass)
example : processReplacements [("a".toList, "M".toList)] [("A".toList, "E".toList)] "x${A:-d}y".toList
    = some "xMy".toList := by decide
example : processReplacements [] [("A".toList, "E".toList)] "x${a:-d}y".toList = some "xEy".toList := by decide
example : processReplacements [] [] "x${a:-d}y${b}".toList = none := by decide
example : processReplacements [("f".toList, "TRUE".toList), ("k".toList, "v".toList)] [] "${F|${k}|no}".toList
    = some "v".toList := by decide
example : processReplacements [] [] "${f:-false|yes|n|o}".toList = some "n|o".toList := by decide

/-! ### non-vacuity -/
example : expectedOf ["c0".toList, "c1".toList] [[none, some []], [some "NULL".toList, some "a|\"b\n".toList]]
    = [["NULL".toList, "NULL".toList], ["NULL".toList, "a|\"b\n".toList]] := by decide
example : compareResults 2 (formatRows [[none, some []], [some "NULL".toList, some "a|\"b\n".toList]])
    (expectedOf ["c0".toList, "c1".toList] [[none, some []], [some "NULL".toList, some "a|\"b\n".toList]]) = .ok () :=
  accepts_persisted 2 _ _ (by decide) (by decide)
-- a mutated cell is rejected
example : compareResults 2 [["NULL".toList, "x".toList]] (expectedOf ["c0".toList, "c1".toList] [[none, some []]])
    = .error (.cell 1 2) := by rfl

end DfModel.Props.C46
