/-
  C34 — scalar values, arrays and casts are mutually consistent.

  Theorems about the hand-written model `DfModel.ScalarModel` (tied to
  `datafusion/common/src/scalar/mod.rs` by the correspondence run of `./check C34`).
-/
import DfModel.Base.ScalarModel
import DfModel.Proofs.C34
namespace DfModel.Props.C34
open DfModel.ScalarModel DfModel.Proofs.C34

deriving instance DecidableEq for Except

/-! ## 1. scalar → array → scalar -/

/-- **Round trip.** For every scalar `s`, every length `n` and every position `i < n`: whenever
    `to_array_of_size(n)` succeeds, `try_from_array(.., i)` returns exactly `s` — same type
    parameters (precision, scale, time zone, width, dictionary key type) and same value/NULL. -/
theorem to_array_get (s : Scalar) (n i : Nat) (h : i < n) (a : Arr)
    (ha : toArrayOfSize s n = .ok a) : tryFromArray a i = .ok s := by
  cases s with
  | prim p =>
    simp only [toArrayOfSize] at ha
    cases hp : pToArray p n with
    | error e => rw [hp] at ha; cases ha
    | ok pa =>
      rw [hp] at ha
      simp only [Except.map, Except.ok.injEq] at ha
      subst ha
      simp [tryFromArray, pToArray_get p n i h pa hp, Except.map]
  | dict k p =>
    simp only [toArrayOfSize] at ha
    cases hp : pToArray p 1 with
    | error e => rw [hp] at ha; cases ha
    | ok vals =>
      rw [hp] at ha
      simp only [Except.map, Except.ok.injEq] at ha
      subst ha
      simp only [tryFromArray, getElem?_replicate_lt _ h]
      obtain ⟨hty, _, _⟩ := pToArray_ty p 1 vals hp
      cases hv : p.v with
      | none =>
        simp only [Option.isNone_none, ite_true]
        obtain ⟨ty, v⟩ := p
        simp only at hv hty
        subst hv
        rw [hty]
      | some x =>
        simp only [Option.isNone_some, Bool.false_eq_true, ite_false]
        rw [pToArray_get p 1 0 (by omega) vals hp]
        rfl
  | list e v =>
    simp only [toArrayOfSize, Except.ok.injEq] at ha
    subst ha
    simp [tryFromArray, getElem?_replicate_lt _ h]
  | struct fs v =>
    simp only [toArrayOfSize, Except.ok.injEq] at ha
    subst ha
    simp [tryFromArray, getElem?_replicate_lt _ h]

/-- the array has the requested length and the scalar's data type -/
theorem to_array_shape (s : Scalar) (n : Nat) (a : Arr) (ha : toArrayOfSize s n = .ok a) :
    a.len = n ∧ a.ty = s.ty := by
  cases s with
  | prim p =>
    simp only [toArrayOfSize] at ha
    cases hp : pToArray p n with
    | error e => rw [hp] at ha; cases ha
    | ok pa =>
      rw [hp] at ha
      simp only [Except.map, Except.ok.injEq] at ha
      subst ha
      obtain ⟨h1, h2, _⟩ := pToArray_ty p n pa hp
      simp [Arr.len, Arr.ty, Scalar.ty, h1, h2]
  | dict k p =>
    simp only [toArrayOfSize] at ha
    cases hp : pToArray p 1 with
    | error e => rw [hp] at ha; cases ha
    | ok vals =>
      rw [hp] at ha
      simp only [Except.map, Except.ok.injEq] at ha
      subst ha
      obtain ⟨h1, _, _⟩ := pToArray_ty p 1 vals hp
      simp [Arr.len, Arr.ty, Scalar.ty, h1]
  | list e v =>
    simp only [toArrayOfSize, Except.ok.injEq] at ha
    subst ha
    simp [Arr.len, Arr.ty, Scalar.ty]
  | struct fs v =>
    simp only [toArrayOfSize, Except.ok.injEq] at ha
    subst ha
    simp [Arr.len, Arr.ty, Scalar.ty]

/-- decimals carry a (precision, scale) arrow accepts — the only way `to_array_of_size` can fail -/
def Scalar.decWf : Scalar → Bool
  | .prim p => p.v.isNone || p.ty.decParamsOk
  | .dict _ p => p.v.isNone || p.ty.decParamsOk
  | _ => true

theorem to_array_total (s : Scalar) (n : Nat) (h : Scalar.decWf s = true) :
    ∃ a, toArrayOfSize s n = .ok a := by
  cases s with
  | prim p =>
    simp only [Scalar.decWf, Bool.or_eq_true] at h
    cases hv : p.v with
    | none => simp [toArrayOfSize, pToArray, hv, Except.map]
    | some x =>
      have : p.ty.decParamsOk = true := by simpa [hv] using h
      simp [toArrayOfSize, pToArray, hv, this, Except.map]
  | dict k p =>
    simp only [Scalar.decWf, Bool.or_eq_true] at h
    cases hv : p.v with
    | none => simp [toArrayOfSize, pToArray, hv, Except.map]
    | some x =>
      have : p.ty.decParamsOk = true := by simpa [hv] using h
      simp [toArrayOfSize, pToArray, hv, this, Except.map]
  | list e v => exact ⟨_, rfl⟩
  | struct fs v => exact ⟨_, rfl⟩

-- non-vacuity: a Decimal128(10,2), a zoned timestamp in a dictionary, a NULL list
example : (toArrayOfSize (.prim ⟨.dec 128 10 2, some (.i 12345)⟩) 3).bind (tryFromArray · 2)
    = .ok (.prim ⟨.dec 128 10 2, some (.i 12345)⟩) := by decide
example : (toArrayOfSize (.dict (.int true 8) ⟨.ts .ms (some "+07:00"), none⟩) 2).bind (tryFromArray · 1)
    = .ok (.dict (.int true 8) ⟨.ts .ms (some "+07:00"), none⟩) := by decide
-- a decimal with precision 0 is rejected by `with_precision_and_scale`
example : toArrayOfSize (.prim ⟨.dec 32 0 0, some (.i 1)⟩) 1 = .error .plain := by decide

/-! ## 2. scalars → array → scalars -/

/-- what `iter_to_array` followed by `try_from_array(i)` returns for PRIMITIVE input: the i-th
    value re-tagged with the FIRST element's type parameters (time zone, precision, scale, width). -/
theorem iter_to_array_get_retag (p0 : PScalar) (rest : List Scalar) (a : Arr)
    (ha : iterToArray (.prim p0 :: rest) = .ok a) (i : Nat) (hi : i < (Scalar.prim p0 :: rest).length) :
    ∃ p : PScalar, (Scalar.prim p0 :: rest)[i] = .prim p ∧ sameVariant p0.ty p.ty = true ∧
      tryFromArray a i = .ok (.prim ⟨p0.ty, p.v⟩) := by
  simp only [iterToArray] at ha
  split at ha
  · cases hc : collectP p0.ty (Scalar.prim p0 :: rest) with
    | error e => rw [hc] at ha; cases ha
    | ok pr =>
      obtain ⟨vs, ds⟩ := pr
      rw [hc] at ha
      simp only [Except.map, Except.ok.injEq] at ha
      subst ha
      obtain ⟨p, hp, hs, hg⟩ := collectP_get p0.ty _ vs ds hc i hi
      exact ⟨p, hp, hs, by simp [tryFromArray, hg, Except.map]⟩
  · cases ha

/-- **Building an array from scalars of one data type and reading it back yields those scalars.** -/
theorem iter_to_array_get (xs : List Scalar) (a : Arr) (ha : iterToArray xs = .ok a)
    (t : Ty) (hty : ∀ x ∈ xs, x.ty = t) (i : Nat) (hi : i < xs.length) :
    tryFromArray a i = .ok xs[i] := by
  cases xs with
  | nil => simp at hi
  | cons x0 rest =>
    have h0 : x0.ty = t := hty x0 (by simp)
    have hit : (x0 :: rest)[i].ty = t := hty _ (List.getElem_mem hi)
    cases x0 with
    | prim p0 =>
      obtain ⟨p, hp, _, hg⟩ := iter_to_array_get_retag p0 rest a ha i hi
      rw [hg, hp]
      rw [hp] at hit
      simp only [Scalar.ty] at h0 hit
      rw [← h0] at hit
      simp only [Ty.prim.injEq] at hit
      obtain ⟨ty, v⟩ := p
      simp only at hit
      subst hit
      rfl
    | dict k p0 =>
      simp only [iterToArray] at ha
      cases hd : collectDict k (Scalar.dict k p0 :: rest) with
      | error e => rw [hd] at ha; cases ha
      | ok inner =>
        rw [hd] at ha
        simp only at ha
        split at ha
        · cases hc : collectP p0.ty inner with
          | error e => rw [hc] at ha; cases ha
          | ok pr =>
            obtain ⟨vs, ds⟩ := pr
            rw [hc] at ha
            simp only [Except.map, Except.ok.injEq] at ha
            subst ha
            obtain ⟨hl, hg⟩ := collectDict_get k _ inner hd
            obtain ⟨q, hq, hiq⟩ := hg i hi
            have hi' : i < inner.length := by omega
            obtain ⟨q', hq', _, hpf⟩ := collectP_get p0.ty inner vs ds hc i hi'
            have : q' = q := by
              have h1 : inner[i]? = some (Scalar.prim q') := by
                rw [List.getElem?_eq_getElem hi', hq']
              rw [h1] at hiq
              simpa using hiq
            subst this
            obtain ⟨hvl, hdl⟩ := collectP_length p0.ty inner vs ds hc
            rw [hq] at hit ⊢
            simp only [Scalar.ty] at h0 hit
            rw [← h0] at hit
            simp only [Ty.dict.injEq, true_and] at hit
            have hiv : i < vs.length := by omega
            have hid : i < ds.length := by omega
            simp only [tryFromArray]
            have hk : ((List.range vs.length).zipWith (fun i ok => if ok then some i else none) vs)[i]?
                = some (if vs[i] then some i else none) := by
              simp [List.getElem?_zipWith, List.getElem?_eq_getElem hiv, hiv]
            rw [hk]
            simp only [pFromArray, List.getElem?_eq_getElem hiv, List.getElem?_eq_getElem hid] at hpf
            obtain ⟨qty, qv⟩ := q'
            simp only at hit
            subst hit
            cases hb : vs[i] with
            | false =>
              rw [hb] at hpf
              simp only [Except.ok.injEq, PScalar.mk.injEq, true_and] at hpf
              simp [hpf]
            | true =>
              rw [hb] at hpf
              simp only [Except.ok.injEq, PScalar.mk.injEq, true_and] at hpf
              subst hpf
              simp [pFromArray, List.getElem?_eq_getElem hiv, List.getElem?_eq_getElem hid, hb, Except.map]
        · cases ha
    | list e v0 =>
      simp only [iterToArray] at ha
      cases hr : collectRows (.list e) (Scalar.list e v0 :: rest) with
      | error e' => rw [hr] at ha; cases ha
      | ok rows =>
        rw [hr] at ha
        simp only [Except.map, Except.ok.injEq] at ha
        subst ha
        obtain ⟨_, hg⟩ := collectRows_get _ _ rows hr
        obtain ⟨hty', hcase⟩ := hg i hi
        rcases hcase with ⟨e', v, hx, hrow⟩ | ⟨fs, v, hx, hrow⟩
        · rw [hx] at hty' ⊢
          simp only [Scalar.ty, Ty.list.injEq] at hty'
          subst hty'
          simp [tryFromArray, hrow]
        · rw [hx] at hty'
          simp [Scalar.ty] at hty'
    | struct fs v0 =>
      simp only [iterToArray] at ha
      cases hr : collectRows (.struct fs) (Scalar.struct fs v0 :: rest) with
      | error e' => rw [hr] at ha; cases ha
      | ok rows =>
        rw [hr] at ha
        simp only [Except.map, Except.ok.injEq] at ha
        subst ha
        obtain ⟨_, hg⟩ := collectRows_get _ _ rows hr
        obtain ⟨hty', hcase⟩ := hg i hi
        rcases hcase with ⟨e', v, hx, hrow⟩ | ⟨fs', v, hx, hrow⟩
        · rw [hx] at hty'
          simp [Scalar.ty] at hty'
        · rw [hx] at hty' ⊢
          simp only [Scalar.ty, Ty.struct.injEq] at hty'
          subst hty'
          simp [tryFromArray, hrow]

-- non-vacuity / sharp edge: with mixed decimal parameters the FIRST element decides the type
example : (iterToArray [.prim ⟨.dec 128 10 2, some (.i 5)⟩, .prim ⟨.dec 128 12 4, some (.i 7)⟩]).bind
    (tryFromArray · 1) = .ok (.prim ⟨.dec 128 10 2, some (.i 7)⟩) := by decide
example : (iterToArray [.prim ⟨.int true 32, some (.i 5)⟩, .prim ⟨.int true 32, none⟩]).bind
    (tryFromArray · 1) = .ok (.prim ⟨.int true 32, none⟩) := by decide

/-! ## 3. equal scalars have equal hashes -/

theorem eqP_hash (a b : PScalar) (h : eqP a b = true) : hashP a = hashP b := by
  obtain ⟨ta, va⟩ := a
  obtain ⟨tb, vb⟩ := b
  simp only [eqP, Bool.and_eq_true, beq_iff_eq] at h
  obtain ⟨hp, hv⟩ := h
  subst hv
  cases ta <;> cases tb <;> simp_all [eqParams, hashP]

/-- **eq ⇒ hash eq**: whatever `PartialEq` ignores (time zone, FixedSizeBinary width, string
    encoding is NOT ignored by eq) is also not fed to the hasher. -/
theorem eq_hash (a b : Scalar) (h : beqScalar a b = true) : hashToks a = hashToks b := by
  cases a <;> cases b <;> simp only [beqScalar, Bool.and_eq_true, beq_iff_eq] at h <;>
    try (cases h; done)
  · exact eqP_hash _ _ h
  · obtain ⟨rfl, h⟩ := h
    simp [hashToks, eqP_hash _ _ h]
  · obtain ⟨rfl, rfl⟩ := h; rfl
  · obtain ⟨rfl, rfl⟩ := h; rfl

-- non-vacuity: two timestamps that differ only in the time zone are equal and hash equally
example : beqScalar (.prim ⟨.ts .s none, some (.i 7)⟩) (.prim ⟨.ts .s (some "+01:00"), some (.i 7)⟩) = true := by decide
-- but two decimals of different precision are NOT equal (although they compare `Equal`)
example : beqScalar (.prim ⟨.dec 128 10 2, some (.i 7)⟩) (.prim ⟨.dec 128 11 2, some (.i 7)⟩) = false := by decide
example : cmpScalar (.prim ⟨.dec 128 10 2, some (.i 7)⟩) (.prim ⟨.dec 128 11 2, some (.i 7)⟩) = some .eq := by decide

/-! ## 4. ordering -/

/-- `a ≤ b` for `partial_cmp` -/
def le (a b : PScalar) : Prop := cmpP a b = some .lt ∨ cmpP a b = some .eq

theorem cmpP_same_ty (a b : PScalar) (h : a.ty = b.ty) : cmpP a b = some (cmpOpt a.v b.v) := by
  simp [cmpP, h, comparable_refl]

/-- **`partial_cmp` is a total order on the values of one type** (primitive, string, binary,
    temporal, decimal): always defined, reflexive, antisymmetric (w.r.t. `==`), transitive, total;
    NULL sorts before every value; and it coincides with the engine's ascending NULLS-FIRST
    comparison `sortCmp` (`compare_rows` on one column). -/
theorem cmpScalar_total_order (a b c : PScalar) (hab : a.ty = b.ty) (hbc : b.ty = c.ty) :
    (∃ o, cmpScalar (.prim a) (.prim b) = some o)
    ∧ cmpP a a = some .eq
    ∧ cmpP b a = (cmpP a b).map Ordering.swap
    ∧ (cmpP a b = some .eq ↔ a = b)
    ∧ (cmpP a b = some .eq ↔ eqP a b = true)
    ∧ (le a b → le b c → le a c)
    ∧ (le a b ∨ le b a)
    ∧ (a.v = none → b.v ≠ none → cmpP a b = some .lt)
    ∧ cmpP a b = some (sortCmp a b) := by
  have hac : a.ty = c.ty := hab.trans hbc
  have e1 := cmpP_same_ty a b hab
  have e2 := cmpP_same_ty b c hbc
  have e3 := cmpP_same_ty a c hac
  have e4 := cmpP_same_ty b a hab.symm
  refine ⟨⟨_, e1⟩, ?_, ?_, ?_, ?_, ?_, ?_, ?_, ?_⟩
  · rw [cmpP_same_ty a a rfl]
    exact congrArg some ((cmpOpt_eq_iff _ _).2 rfl)
  · rw [e1, e4, cmpOpt_swap a.v b.v]; rfl
  · rw [e1]
    simp only [Option.some.injEq, cmpOpt_eq_iff]
    obtain ⟨ta, va⟩ := a
    obtain ⟨tb, vb⟩ := b
    simp only at hab
    subst hab
    simp
  · rw [e1]
    simp only [Option.some.injEq, cmpOpt_eq_iff, eqP, Bool.and_eq_true, beq_iff_eq]
    have : eqParams a.ty b.ty = true := by
      rw [hab]; cases b.ty <;> simp [eqParams]
    simp [this]
  · intro h1 h2
    unfold le at *
    rw [e1] at h1; rw [e2] at h2; rw [e3]
    have g1 : cmpOpt a.v b.v ≠ .gt := by rcases h1 with h | h <;> simp at h <;> simp [h]
    have g2 : cmpOpt b.v c.v ≠ .gt := by rcases h2 with h | h <;> simp at h <;> simp [h]
    have g3 := cmpOpt_le_trans _ _ _ g1 g2
    cases h : cmpOpt a.v c.v <;> simp_all
  · unfold le
    rw [e1, e4, cmpOpt_swap a.v b.v]
    cases cmpOpt a.v b.v <;> simp [Ordering.swap]
  · intro h1 h2
    rw [e1, h1]
    cases hb : b.v with
    | none => exact absurd hb h2
    | some y => rfl
  · rw [e1]
    cases ha : a.v <;> cases hb : b.v <;> simp [cmpOpt, sortCmp, ha, hb]

/-- values of different data types (including decimals of different scale) are incomparable, but
    precision, time zone and FixedSizeBinary width do not matter — the code's exact rule -/
theorem cmpP_none_iff (a b : PScalar) : cmpP a b = none ↔ comparable a.ty b.ty = false := by
  unfold cmpP; split <;> simp_all

-- non-vacuity
example : cmpScalar (.prim ⟨.int true 32, none⟩) (.prim ⟨.int true 32, some (.i (-5))⟩) = some .lt := by decide
example : cmpScalar (.prim ⟨.str .norm, some (.bytes [97])⟩) (.prim ⟨.str .norm, some (.bytes [97, 0])⟩) = some .lt := by decide
example : cmpScalar (.prim ⟨.int true 32, some (.i 1)⟩) (.prim ⟨.int true 64, some (.i 1)⟩) = none := by decide
example : cmpScalar (.prim ⟨.dec 128 10 2, some (.i 1)⟩) (.prim ⟨.dec 128 10 3, some (.i 1)⟩) = none := by decide

/-! ### the engine's ascending NULLS FIRST sort -/

def sortedBy : List PScalar → Prop
  | [] => True
  | [_] => True
  | x :: y :: r => sortCmp x y ≠ .gt ∧ sortedBy (y :: r)

theorem sortCmp_eq_cmpOpt (a b : PScalar) : sortCmp a b = cmpOpt a.v b.v := by
  cases ha : a.v <;> cases hb : b.v <;> simp [cmpOpt, sortCmp, ha, hb]

theorem sortCmp_total (a b : PScalar) (h : sortCmp a b = .gt) : sortCmp b a ≠ .gt := by
  rw [sortCmp_eq_cmpOpt] at *
  rw [cmpOpt_swap a.v b.v, h]; simp [Ordering.swap]

theorem insertSorted_sorted (x : PScalar) : ∀ (l : List PScalar), sortedBy l → sortedBy (insertSorted x l)
  | [], _ => trivial
  | [y], _ => by
    simp only [insertSorted]
    split
    · rename_i h
      exact ⟨sortCmp_total x y (by simpa using h), trivial⟩
    · rename_i h
      exact ⟨by simpa using h, trivial⟩
  | y :: z :: r, hs => by
    simp only [insertSorted]
    split
    · rename_i h
      have ih := insertSorted_sorted x (z :: r) hs.2
      simp only [insertSorted] at ih ⊢
      split
      · rename_i h2
        simp only [h2, ite_true] at ih
        exact ⟨hs.1, ih⟩
      · rename_i h2
        simp only [h2] at ih
        exact ⟨sortCmp_total x y (by simpa using h), ih⟩
    · rename_i h
      exact ⟨by simpa using h, hs⟩

theorem insertSorted_perm (x : PScalar) : ∀ (l : List PScalar), (insertSorted x l).Perm (x :: l)
  | [] => List.Perm.refl _
  | y :: r => by
    simp only [insertSorted]
    split
    · exact ((insertSorted_perm x r).cons y).trans (List.Perm.swap x y r)
    · exact List.Perm.refl _

/-- the model's ascending NULLS-FIRST sort returns a sorted permutation of its input -/
theorem sortAsc_sorted_perm (xs : List PScalar) : sortedBy (sortAsc xs) ∧ (sortAsc xs).Perm xs := by
  induction xs with
  | nil => exact ⟨trivial, List.Perm.refl _⟩
  | cons x r ih =>
    simp only [sortAsc, List.foldr_cons] at ih ⊢
    exact ⟨insertSorted_sorted x _ ih.1, (insertSorted_perm x _).trans (ih.2.cons x)⟩

example : sortAsc [⟨.int true 8, some (.i 3)⟩, ⟨.int true 8, none⟩, ⟨.int true 8, some (.i (-3))⟩]
    = [⟨.int true 8, none⟩, ⟨.int true 8, some (.i (-3))⟩, ⟨.int true 8, some (.i 3)⟩] := by decide

/-! ## 5. casting a scalar = casting a one-row array -/

/-- payload kind matches the type where the cast fast paths look at it -/
def payloadOk : Scalar → Bool
  | .prim ⟨.str _, some (.bytes _)⟩ => true
  | .prim ⟨.str _, some _⟩ => false
  | .prim ⟨.date32, some (.i _)⟩ | .prim ⟨.date64, some (.i _)⟩ | .prim ⟨.ts _ _, some (.i _)⟩ => true
  | .prim ⟨.date32, some _⟩ | .prim ⟨.date64, some _⟩ | .prim ⟨.ts _ _, some _⟩ => false
  | _ => true

def wf (s : Scalar) : Bool := Scalar.decWf s && payloadOk s

/-- the full statement of the last clause of the property (FALSE for the code as it is, see
    `cast_date64_overflow_differs`): for every well-formed scalar, target type and `safe` flag,
    `ScalarValue::cast_to_with_options` gives the same value, or the same failure, as the engine's
    array cast (`ColumnarValue::Array([s]).cast_to`) read back at row 0. -/
def cast_scalar_eq_cast_array_singleton_statement : Prop :=
  ∀ (safe : Bool) (s : Scalar) (t : Ty), wf s = true → castScalar safe s t = castViaArray safe s t

/-- the one modelled situation in which the two paths differ: a `safe` (TRY_CAST) cast of a
    `Date64` whose milliseconds overflow `i64` when scaled to micro- or nanoseconds: the scalar fast
    path answers NULL, the arrow kernel multiplies unchecked. -/
def date64UncheckedOverflow (safe : Bool) (s : Scalar) (t : Ty) : Bool :=
  safe && match s, t with
    | .prim ⟨.date64, some (.i x)⟩, .prim (.ts .us _) => !(inI64 (x * 1000))
    | .prim ⟨.date64, some (.i x)⟩, .prim (.ts .ns _) => !(inI64 (x * 1000000))
    | _, _ => false

/-- **Witness that the code violates the clause**: `TRY_CAST(Date64(9223372036854776 ms) AS
    Timestamp(µs))` is NULL for the scalar, while the one-row array goes into arrow's unchecked
    `x * 1000` (panic in checked builds, a wrapped garbage value in release builds). -/
theorem cast_date64_overflow_differs :
    castScalar true (.prim ⟨.date64, some (.i 9223372036854776)⟩) (.prim (.ts .us none))
      = .ok (.prim ⟨.ts .us none, none⟩)
    ∧ castViaArray true (.prim ⟨.date64, some (.i 9223372036854776)⟩) (.prim (.ts .us none))
      = .error .panic := by
  constructor <;> decide

theorem not_cast_scalar_eq_cast_array_singleton : ¬ cast_scalar_eq_cast_array_singleton_statement := by
  intro h
  have := h true (.prim ⟨.date64, some (.i 9223372036854776)⟩) (.prim (.ts .us none)) (by decide)
  rw [cast_date64_overflow_differs.1, cast_date64_overflow_differs.2] at this
  cases this

theorem toArray1_prim (p : PScalar) (h : (p.v.isNone || p.ty.decParamsOk) = true) :
    toArrayOfSize (.prim p) 1 =
      .ok (.prim ⟨p.ty, [p.v.isSome], [p.v.getD (defaultVal p.ty)]⟩) := by
  cases hv : p.v with
  | none => simp [toArrayOfSize, pToArray, hv, Except.map]
  | some x =>
    have : p.ty.decParamsOk = true := by simpa [hv] using h
    simp [toArrayOfSize, pToArray, hv, this, Except.map]

/-- fast path 1 (`source_type == target_type → Ok(self.clone())`) agrees with the array path -/
theorem cast_same_type (safe : Bool) (s : Scalar) (h : Scalar.decWf s = true) :
    castScalar safe s s.ty = .ok s ∧ castViaArray safe s s.ty = .ok s := by
  constructor
  · simp [castScalar]
  · obtain ⟨a, ha⟩ := to_array_total s 1 h
    have hty := (to_array_shape s 1 a ha).2
    simp [castViaArray, ha, castArrayEngine, hty, to_array_get s 1 0 (by omega) a ha]

/-- fast path 2 (string ↔ string re-wrap) agrees with the array path -/
theorem cast_string_rewrap (safe : Bool) (e1 e2 : Enc) (v : Option (List Nat)) :
    castScalar safe (.prim ⟨.str e1, v.map .bytes⟩) (.prim (.str e2))
      = castViaArray safe (.prim ⟨.str e1, v.map .bytes⟩) (.prim (.str e2)) := by
  by_cases he : e1 = e2
  · subst he
    exact (cast_same_type safe (.prim ⟨.str e1, v.map .bytes⟩) (by simp [Scalar.decWf, PTy.decParamsOk])).1.trans
      (cast_same_type safe (.prim ⟨.str e1, v.map .bytes⟩) (by simp [Scalar.decWf, PTy.decParamsOk])).2.symm
  · have hne : (Ty.prim (.str e1) = Ty.prim (.str e2)) = False := by simp [he]
    cases v with
    | none =>
      simp [castScalar, Scalar.ty, hne, isStrTy, rewrapStr, castViaArray, toArrayOfSize, pToArray, Except.map,
        castArrayEngine, Arr.ty, boundsMult, kernel, kernelP, he, kernelUnsup, kernelTypeErr, castElems, tryFromArray,
        pFromArray, defaultVal]
    | some bs =>
      simp [castScalar, Scalar.ty, hne, isStrTy, rewrapStr, castViaArray, toArrayOfSize, pToArray, Except.map,
        castArrayEngine, Arr.ty, boundsMult, kernel, kernelP, he, kernelUnsup, kernelTypeErr, castElems, tryFromArray,
        pFromArray, PTy.decParamsOk, convert]

/-- fast path 3 (the `ensure_timestamp_in_bounds` pre-check), Date32 source: agrees — arrow's
    Date32 → Timestamp multiplication is checked. -/
theorem cast_bounds_date32 (safe : Bool) (x : Int) (u : TU) (tz : Option String)
    (hov : inI64 (x * (86400 * tuMult u)) = false) :
    castScalar safe (.prim ⟨.date32, some (.i x)⟩) (.prim (.ts u tz))
      = castViaArray safe (.prim ⟨.date32, some (.i x)⟩) (.prim (.ts u tz)) := by
  have hm : ¬ (86400 * tuMult u ≤ 1) := by cases u <;> simp [tuMult]
  cases safe <;>
  simp [castScalar, Scalar.ty, isStrTy, boundsMult, temporalI64, inBounds, hm, hov, nullOf, castViaArray,
    toArrayOfSize, pToArray, PTy.decParamsOk, Except.map, castArrayEngine, Arr.ty, arrTemporalI64, kernel,
    kernelP, kernelUnsup, kernelTypeErr, castElems, convert, tryFromArray, pFromArray, defaultVal]

/-- fast path 3, Timestamp → finer Timestamp: agrees — arrow's multiplication is checked. -/
theorem cast_bounds_ts (safe : Bool) (x : Int) (u1 u2 : TU) (tz1 tz2 : Option String)
    (hlt : tuMult u1 < tuMult u2) (hov : inI64 (x * tdiv (tuMult u2) (tuMult u1)) = false) :
    castScalar safe (.prim ⟨.ts u1 tz1, some (.i x)⟩) (.prim (.ts u2 tz2))
      = castViaArray safe (.prim ⟨.ts u1 tz1, some (.i x)⟩) (.prim (.ts u2 tz2)) := by
  have hu : u1 ≠ u2 := by intro h; subst h; omega
  have hm : ¬ (tdiv (tuMult u2) (tuMult u1) ≤ 1) := by
    cases u1 <;> cases u2 <;> simp [tuMult, tdiv] at hlt ⊢ <;> decide
  have hgt : ¬ (tuMult u1 > tuMult u2) := by omega
  have hne : (tuMult u1 == tuMult u2) = false := by simp; omega
  cases safe <;>
  simp [castScalar, Scalar.ty, isStrTy, hu, boundsMult, hlt, temporalI64, inBounds, hm, hov, nullOf, castViaArray,
    toArrayOfSize, pToArray, PTy.decParamsOk, Except.map, castArrayEngine, Arr.ty, arrTemporalI64, kernel,
    kernelP, kernelUnsup, kernelTypeErr, castElems, convert, hgt, hne, tryFromArray, pFromArray, defaultVal]

/-- fast path 3, Date64 → Timestamp(µs|ns) WITHOUT `safe`: both paths fail (the engine's array
    path has the same pre-check in `cast_array_by_name`). -/
theorem cast_bounds_date64_unsafe (x : Int) (u : TU) (tz : Option String) (m : Int)
    (hm : boundsMult (.prim .date64) (.prim (.ts u tz)) = some m) (hov : inBounds x m = false) :
    castScalar false (.prim ⟨.date64, some (.i x)⟩) (.prim (.ts u tz)) = .error .plain
    ∧ castViaArray false (.prim ⟨.date64, some (.i x)⟩) (.prim (.ts u tz)) = .error .plain := by
  constructor
  · simp [castScalar, Scalar.ty, isStrTy, hm, temporalI64, hov]
  · simp [castViaArray, toArrayOfSize, pToArray, PTy.decParamsOk, Except.map, castArrayEngine, Arr.ty, hm,
      arrTemporalI64, hov]

/-- when no fast path applies, the scalar cast IS `to_array()` → arrow kernel → `try_from_array(0)` -/
theorem cast_general_path (safe : Bool) (s : Scalar) (t : Ty) (h1 : s.ty ≠ t)
    (h2 : (isStrTy s.ty && isStrTy t) = false)
    (h3 : boundsMult s.ty t = none ∨ temporalI64 s = none) :
    castScalar safe s t = viaKernel safe s t := by
  unfold castScalar
  rw [if_neg h1, h2]
  simp only [Bool.false_eq_true, ite_false]
  rcases h3 with h | h <;> rw [h] <;> try rfl
  cases boundsMult s.ty t <;> rfl

/-- … and so is the engine's array cast of a one-row array whenever its own pre-check does not
    fire (no multiplier, or `safe`, or in bounds). -/
theorem castViaArray_general_path (safe : Bool) (s : Scalar) (t : Ty) (h1 : s.ty ≠ t)
    (h3 : boundsMult s.ty t = none) :
    castViaArray safe s t = viaKernel safe s t := by
  unfold castViaArray viaKernel
  cases ha : toArrayOfSize s 1 with
  | error e => rfl
  | ok a =>
    have hty := (to_array_shape s 1 a ha).2
    simp only [castArrayEngine, hty, if_neg h1, h3]

/-- **The proved part of the cast clause** (everything except the Date64 witness above is covered
    by the lemmas `cast_same_type`, `cast_string_rewrap`, `cast_bounds_date32`, `cast_bounds_ts`,
    `cast_bounds_date64_unsafe`; this theorem assembles the case where NO temporal multiplier
    applies): scalar cast = array cast, value for value and failure for failure. -/
theorem cast_scalar_eq_cast_array_singleton_partial (safe : Bool) (s : Scalar) (t : Ty)
    (hwf : Scalar.decWf s = true) (hstr : (isStrTy s.ty && isStrTy t) = false ∨ s.ty = t)
    (hb : boundsMult s.ty t = none) :
    castScalar safe s t = castViaArray safe s t := by
  by_cases h1 : s.ty = t
  · subst h1
    exact (cast_same_type safe s hwf).1.trans (cast_same_type safe s hwf).2.symm
  · have h2 : (isStrTy s.ty && isStrTy t) = false := by
      rcases hstr with h | h
      · exact h
      · exact absurd h h1
    rw [cast_general_path safe s t h1 h2 (Or.inl hb), castViaArray_general_path safe s t h1 hb]

/-! ### decimal rescale exactness (arrow kernel as modelled in `rescale`) -/

/-- increasing the scale multiplies by `10^Δ` exactly (the decimal's numeric value is preserved) and
    the result respects the target precision whenever the fallible path produced it. -/
theorem rescale_up_exact (w1 p1 : Nat) (s1 x : Int) (w2 p2 : Nat) (s2 : Int) (y : Int)
    (hs : s1 ≤ s2) (hne : ¬ (w1 = w2 ∧ s1 = s2 ∧ p1 ≤ p2))
    (h : rescale w1 p1 s1 x w2 p2 s2 = .ok (.i y)) :
    y = x * pow10 (s2 - s1).toNat := by
  unfold rescale at h
  split at h
  · cases h
  · split at h
    · rename_i hc
      simp only [Bool.and_eq_true, beq_iff_eq, decide_eq_true_eq] at hc
      exact absurd ⟨hc.1.1, hc.1.2, hc.2⟩ hne
    · dsimp only at h
      split at h
      · cases h; rfl
      · split at h
        · cases h; rfl
        · cases h

/-- overflow condition of the fallible up-scaling path: it yields a value only within the target
    precision -/
theorem rescale_up_within_precision (w1 p1 : Nat) (s1 x : Int) (w2 p2 : Nat) (s2 : Int) (y : Int)
    (hs : s1 ≤ s2) (hne : ¬ (w1 = w2 ∧ s1 = s2 ∧ p1 ≤ p2)) (hfall : ¬ (p1 + (s2 - s1).toNat ≤ p2))
    (h : rescale w1 p1 s1 x w2 p2 s2 = .ok (.i y)) : validPrec y p2 = true := by
  unfold rescale at h
  split at h
  · cases h
  · split at h
    · rename_i hc
      simp only [Bool.and_eq_true, beq_iff_eq, decide_eq_true_eq] at hc
      exact absurd ⟨hc.1.1, hc.1.2, hc.2⟩ hne
    · dsimp only at h
      rw [if_neg hfall] at h
      split at h
      · rename_i hc
        cases h
        simp only [Bool.and_eq_true] at hc
        exact hc.2
      · cases h

-- tests (labelled as such): rounding half away from zero when the scale shrinks, overflow → bad
example : rescale 128 10 2 1005 128 10 1 = .ok (.i 101) := by decide
example : rescale 128 10 2 (-1005) 128 10 1 = .ok (.i (-101)) := by decide
example : rescale 128 10 2 1004 128 10 1 = .ok (.i 100) := by decide
example : rescale 128 5 0 99999 128 5 2 = .bad := by decide
example : castScalar false (.prim ⟨.int true 32, some (.i 300)⟩) (.prim (.int true 8)) = .error .plain := by decide
example : castScalar true (.prim ⟨.int true 32, some (.i 300)⟩) (.prim (.int true 8)) = .ok (.prim ⟨.int true 8, none⟩) := by decide
example : castScalar false (.prim ⟨.str .norm, some (.bytes [32, 49, 50])⟩) (.prim (.int true 8)) = .ok (.prim ⟨.int true 8, some (.i 12)⟩) := by decide

end DfModel.Props.C34
