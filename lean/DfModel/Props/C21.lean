/-
  C21 — disk usage accounting stays exact (accounting half of the property; the data
  round-trip half is an implementation-level oracle in the harness, see notes/C21.md).

  `step true`  = the code after the repair ("fix: roll back used_disk_space when a spill write
                 fails"), which is what /repo contains now;
  `step false` = the pinned upstream code, for which the property is FALSE (witness below).
-/
import DfModel.Sm.Disk
import DfModel.Proofs.C21
namespace DfModel.Props.C21
open DfModel.Sm.Disk DfModel.Proofs.C21

/-- the accounting invariant: ids unique, and the global counter equals the bytes held by live files -/
def Inv (s : St) : Prop := Wf s ∧ s.used = sumUsage s.files

theorem inv_init (limit : Nat) : Inv (init limit) := by
  refine ⟨⟨?_, ?_⟩, rfl⟩ <;> simp [init]

/-- one step of the repaired code preserves the invariant — for every operation, every fault choice -/
theorem inv_step (s : St) (op : Op) (h : Inv s) : Inv (step true s op).1 := by
  obtain ⟨⟨hnd, hlt⟩, hu⟩ := h
  cases op with
  | create =>
    refine ⟨⟨?_, ?_⟩, ?_⟩
    · simp only [step, List.map_append, List.map_cons, List.map_nil]
      rw [List.nodup_append]
      refine ⟨hnd, by simp, ?_⟩
      intro a ha b hb
      simp only [List.mem_singleton] at hb
      simp only [List.mem_map] at ha
      obtain ⟨x, hx, rfl⟩ := ha
      have := hlt x hx
      omega
    · intro x hx
      simp only [step, List.mem_append, List.mem_singleton] at hx
      rcases hx with hx | rfl
      · have := hlt x hx; simp only [step]; omega
      · simp [step]
    · simp only [step, sumUsage, List.map_append, List.sum_append, List.map_cons, List.map_nil,
        List.sum_cons, List.sum_nil] at *
      omega
  | clone f =>
    simp only [step]
    split
    · refine ⟨⟨?_, ?_⟩, ?_⟩
      · simp only; rw [ids_upd _ _ _ (by intro _; rfl)]; exact hnd
      · intro x hx
        simp only [updFile, List.mem_map] at hx
        obtain ⟨y, hy, rfl⟩ := hx
        have := hlt y hy
        split <;> simpa using this
      · simp only; rw [sum_upd_same_usage _ _ _ (by intro _; rfl)]; exact hu
    · exact ⟨⟨hnd, hlt⟩, hu⟩
  | drop f =>
    simp only [step]
    split
    · split
      · refine ⟨⟨ids_filter_nodup _ _ hnd, ?_⟩, ?_⟩
        · intro x hx
          simp only [List.mem_filter] at hx
          exact hlt x hx.1
        · have := sum_filter s.files f hnd
          simp only
          omega
      · refine ⟨⟨?_, ?_⟩, ?_⟩
        · simp only; rw [ids_upd _ _ _ (by intro _; rfl)]; exact hnd
        · intro x hx
          simp only [updFile, List.mem_map] at hx
          obtain ⟨y, hy, rfl⟩ := hx
          have := hlt y hy
          split <;> simpa using this
        · simp only; rw [sum_upd_same_usage _ _ _ (by intro _; rfl)]; exact hu
    · exact ⟨⟨hnd, hlt⟩, hu⟩
  | write f len io =>
    simp only [step]
    split
    · rename_i hf
      split
      · exact ⟨⟨hnd, hlt⟩, hu⟩
      · split
        · exact ⟨⟨hnd, hlt⟩, hu⟩
        · cases io with
          | fail => exact ⟨⟨hnd, hlt⟩, hu⟩
          | ok =>
            refine ⟨⟨?_, ?_⟩, ?_⟩
            · simp only; rw [ids_upd _ _ _ (by intro _; rfl)]; exact hnd
            · intro x hx
              simp only [updFile, List.mem_map] at hx
              obtain ⟨y, hy, rfl⟩ := hx
              have := hlt y hy
              split <;> simpa using this
            · simp only
              rw [sum_upd_add _ _ _ hnd ((hasFile_iff _ _).mp hf)]
              omega
    · exact ⟨⟨hnd, hlt⟩, hu⟩
  | setLimit n => exact ⟨⟨hnd, hlt⟩, hu⟩

theorem run_fst_cons (rb : Bool) (s : St) (op : Op) (ops : List Op) :
    (run rb s (op :: ops)).1 = (run rb (step rb s op).1 ops).1 := by
  simp [run]

/-- **C21 (accounting).** After *any* history of create / clone / drop / write (succeeding,
    rejected by the limit, or failing with an I/O error at any write call) / limit change, the
    reported usage equals the bytes held by live spill files. -/
theorem used_eq_sum_live_usage (limit : Nat) (ops : List Op) :
    (run true (init limit) ops).1.used = sumUsage (run true (init limit) ops).1.files := by
  have : ∀ (s : St), Inv s → Inv (run true s ops).1 := by
    induction ops with
    | nil => intro s h; exact h
    | cons op ops ih =>
      intro s h
      rw [run_fst_cons]
      exact ih _ (inv_step s op h)
  exact (this _ (inv_init limit)).2

/-- usage returns to zero when every spill file has been released — including after failed and
    rejected writes. -/
theorem zero_after_release (limit : Nat) (ops : List Op)
    (h : (run true (init limit) ops).1.files = []) : (run true (init limit) ops).1.used = 0 := by
  rw [used_eq_sum_live_usage, h]; rfl

/-- a write is admitted only if the usage after it is within the limit in force at that moment -/
theorem never_admits_beyond_limit (rb : Bool) (s : St) (f len n : Nat) (io : Io)
    (h : (step rb s (.write f len io)).2 = .wrote n) (hn : n ≠ 0) :
    (step rb s (.write f len io)).1.used ≤ s.limit ∧ n = len := by
  by_cases hf : hasFile s.files f = true
  · by_cases hlen : len = 0
    · simp [step, hf, hlen] at h; exact absurd h.symm hn
    · by_cases hle : s.used + len > s.limit
      · simp [step, hf, hlen, hle] at h
      · cases io with
        | fail => cases rb <;> simp [step, hf, hlen, hle] at h
        | ok =>
          simp [step, hf, hlen, hle] at h ⊢
          exact ⟨by omega, h.symm⟩
  · simp [step, hf] at h

/-- a failed or rejected write, or a write of zero bytes, changes nothing (repaired code) -/
theorem failed_write_noop (s : St) (f len : Nat) (io : Io)
    (h : ∀ n, n ≠ 0 → (step true s (.write f len io)).2 ≠ .wrote n) :
    (step true s (.write f len io)).1 = s := by
  simp only [step] at h ⊢
  split
  · split
    · rfl
    · split
      · rfl
      · cases io with
        | fail => rfl
        | ok =>
          rename_i hf hlen hle
          exfalso
          have := h len hlen
          simp [hf, hlen, hle] at this
  · rfl

/-! ### The defect in the pinned upstream code (`rollback = false`), kept as a witness.
    create; write 1000 bytes that fails in `write_all`; drop the file ⇒ 1000 bytes stay charged. -/
theorem upstream_leaks_on_io_error :
    let s := (run false (init 100000) [.create, .write 0 1000 .fail, .drop 0]).1
    s.files = [] ∧ s.used = 1000 := by decide

/-- …and the same history on the repaired code returns to zero. -/
example : (run true (init 100000) [.create, .write 0 1000 .fail, .drop 0]).1.used = 0 := by decide

-- non-vacuity: a history exercising every op kind and every write outcome
example :
    (run true (init 50) [.create, .create, .write 0 30 .ok, .clone 0, .write 1 30 .ok,
        .write 1 10 .fail, .write 1 20 .ok, .drop 0, .setLimit 10, .write 1 1 .ok, .drop 0, .drop 1]).2
      = [.created 0, .created 1, .wrote 30, .done, .rejected, .ioError, .wrote 20, .done, .done,
         .rejected, .done, .done] := by decide

end DfModel.Props.C21
