/-
  C28 — declared orderings, equivalences and partitionings hold on the data.

  This property is judged at the implementation level: the harness executes every node of the
  plans it builds, exports the produced rows (every declared expression evaluated by the engine
  on the produced batches) and the node's `properties()`, and the executable judges of
  `Mech/OrderProps.lean` decide `rows ∈ γ(declared)`.  The theorems here show that the judges
  mean what the property needs:

  * `sort_elimination_sound` — if the judge accepts an ordering on a partition, sorting that
    partition by the ordering (stable) returns it unchanged: removing the `SortExec` is safe;
  * `sortedJudge_iff` — the judge is exactly "every earlier row ≤ every later row";
  * `constJudge_sound`, `eqClassJudge_sound`, `colocJudge_sound` — the other three judges are
    exactly their defining statements (so hash-repartition elimination is safe: equal keys never
    sit in two partitions).
-/
import DfModel.Mech.OrderProps
namespace DfModel.Props.C28
open DfModel.Mech.OrderProps

theorem allLe_iff (os : List SortOpt) (x : Key) (ys : List Key) :
    allLe os x ys = true ↔ ∀ y ∈ ys, le os x y = true := by
  induction ys with
  | nil => simp [allLe]
  | cons y ys ih => simp [allLe, ih]

/-- the ordering judge accepts exactly the lists in which every earlier row is ≤ every later one -/
theorem sortedJudge_iff (os : List SortOpt) (rows : List Key) :
    sortedJudge os rows = true ↔ rows.Pairwise (fun a b => le os a b = true) := by
  induction rows with
  | nil => simp [sortedJudge]
  | cons x xs ih => simp [sortedJudge, ih, allLe_iff]

theorem insertKey_of_allLe (os : List SortOpt) (x : Key) (ys : List Key)
    (h : allLe os x ys = true) : insertKey os x ys = x :: ys := by
  cases ys with
  | nil => rfl
  | cons y ys =>
    simp only [allLe, Bool.and_eq_true] at h
    simp [insertKey, h.1]

/-- **`sort_elimination_sound`**: data accepted by the ordering judge is a fixed point of the
    (stable) sort by that ordering — for every ordering (any mix of ASC/DESC, NULLS FIRST/LAST,
    any number of keys) and every list of rows. -/
theorem sort_elimination_sound (os : List SortOpt) (rows : List Key)
    (h : sortedJudge os rows = true) : sortBy os rows = rows := by
  induction rows with
  | nil => rfl
  | cons x xs ih =>
    simp only [sortedJudge, Bool.and_eq_true] at h
    simp only [sortBy, ih h.2]
    exact insertKey_of_allLe os x xs h.1

/-- … and the judge rejects anything the sort would change at its head: a row greater than a
    later row is reported (the judge is not vacuous). -/
theorem sortedJudge_false_of_gt (os : List SortOpt) (x y : Key) (pre mid post : List Key)
    (h : cmpKeys os x y = .gt) : sortedJudge os (pre ++ x :: mid ++ y :: post) = false := by
  rw [Bool.eq_false_iff]
  intro hs
  rw [sortedJudge_iff] at hs
  have hp : (x :: (mid ++ y :: post)).Pairwise (fun a b => le os a b = true) := by
    have := List.pairwise_append.mp (by simpa [List.append_assoc] using hs)
    exact this.2.1
  have := (List.pairwise_cons.mp hp).1 y (by simp)
  simp [le, h] at this

theorem constJudge_sound (vs : List (Option Int)) :
    constJudge vs = true ↔ ∀ a ∈ vs, ∀ b ∈ vs, a = b := by
  cases vs with
  | nil => simp [constJudge]
  | cons x xs =>
    simp only [constJudge, List.all_eq_true, beq_iff_eq, List.mem_cons]
    constructor
    · intro h a ha b hb
      rcases ha with rfl | ha <;> rcases hb with rfl | hb
      · rfl
      · exact (h b hb).symm
      · exact h a ha
      · rw [h a ha, h b hb]
    · intro h y hy
      exact h y (Or.inr hy) x (Or.inl rfl)

theorem eqClassJudge_sound (rows : List Key) :
    eqClassJudge rows = true ↔ ∀ r ∈ rows, ∀ a ∈ r, ∀ b ∈ r, a = b := by
  simp [eqClassJudge, List.all_eq_true, constJudge_sound]

/-- **hash co-location**: the judge accepts iff no key value occurs in two different partitions
    (stated on positions: partitions at indices `i < j` share no key). -/
theorem colocJudge_sound (parts : List (List Key)) :
    colocJudge parts = true ↔
      parts.Pairwise (fun p q => ∀ k ∈ p, k ∉ q) := by
  induction parts with
  | nil => simp [colocJudge]
  | cons p ps ih =>
    simp only [colocJudge, Bool.and_eq_true, List.all_eq_true, ih, List.pairwise_cons,
      Bool.not_eq_true', List.contains_eq_mem, decide_eq_false_iff_not]
    constructor
    · rintro ⟨h1, h2⟩
      exact ⟨fun q hq k hk => h1 k hk q hq, h2⟩
    · rintro ⟨h1, h2⟩
      exact ⟨fun k hk q hq => h1 q hq k hk, h2⟩

-- non-vacuity / tests on literals
example : sortedJudge [⟨false, false⟩, ⟨true, true⟩]
    [[some 1, some 5], [some 1, none], [some 1, some 7]] = false := by decide
example : sortedJudge [⟨false, false⟩, ⟨true, true⟩]
    [[some 1, none], [some 1, some 7], [some 1, some 5], [some 2, some 9], [none, some 0]] = true := by
  decide
example : sortBy [⟨true, false⟩] [[some 1], [none], [some 3]] = [[some 3], [some 1], [none]] := by decide
example : colocJudge [[[some 1], [some 2]], [[some 3]], [[some 2]]] = false := by decide
example : eqClassJudge [[some 1, some 1], [none, none]] = true := by decide

end DfModel.Props.C28
