/-
  C48 — DataFrame operations compute what the equivalent SQL computes.

  Most DataFrame methods (`filter`, `select`, `aggregate`, `sort`, `limit`, `distinct`, `union`,
  `intersect`, `except`, `join_on`) call the same `LogicalPlanBuilder` functions as the SQL planner
  and therefore give the SAME plan; that is checked on the real code by the correspondence harness
  with the proved-sound judge of C35 (`judge_sound`, re-stated below).  The by-name / by-position
  builders that have NO direct SQL counterpart are modelled in Sql/Builder.lean and related here to
  the L2 operators their SQL rendering denotes:

    `rename_eq_project`                 with_column_renamed   = the same rows (only a name changes)
    `drop_eq_project`                   drop_columns          = projection on the kept positions
    `with_column_appends`               with_column (new name)= every row extended by the value
    `union_by_name_eq_reordered_union`  union_by_name         = UNION ALL with the right input's
                                                                columns re-ordered by name
    `distinct_on_spec`                  distinct_on           = exactly one row per key: the first
                                                                in the sort order

  "For all operation chains" is SAMPLED by the harness (translation validation).
-/
import DfModel.Sql.Builder
import DfModel.Sql.Judge
import DfModel.Proofs.C48
import DfModel.Proofs.C35Beq
import DfModel.Proofs.C35Plan
namespace DfModel.Props.C48
open DfModel DfModel.Builder DfModel.Judge DfModel.Proofs.C48

/-- the judge used for BEFORE (DataFrame plan) / AFTER (SQL plan) is sound (C35) -/
theorem judge_sound (p q : Plan) (h : same p q = true) (db : Db) (env : Env) :
    evalPlan p db env = evalPlan q db env := by
  have hn : normPlan p = normPlan q := Proofs.C35Beq.beqPlan_sound _ _ h
  rw [← Proofs.C35Plan.normPlan_eval db p env, ← Proofs.C35Plan.normPlan_eval db q env, hn]

/-- the plan's rows have one cell per column name -/
def Rel.Wf (r : Rel) (db : Db) (env : Env) : Prop :=
  ∀ rows, evalPlan r.plan db env = .ok rows → WfRows r.names.length rows

theorem project_idCols_plan (r : Rel) (db : Db) (env : Env) (hwf : Rel.Wf r db env) :
    evalPlan (.project (idCols r.names.length) r.plan) db env = evalPlan r.plan db env := by
  simp only [evalPlan]
  cases h : evalPlan r.plan db env with
  | error e => rfl
  | ok rows => exact evalProject_idCols _ env rows (hwf rows h)

/-- `with_column_renamed` returns the same rows (and the same number of columns); it only renames -/
theorem rename_eq_project (r : Rel) (old new : String) (db : Db) (env : Env) (hwf : Rel.Wf r db env) :
    evalPlan (withColumnRenamed r old new).plan db env = evalPlan r.plan db env
    ∧ (withColumnRenamed r old new).names.length = r.names.length := by
  unfold withColumnRenamed
  split
  · exact ⟨project_idCols_plan r db env hwf, by simp⟩
  · exact ⟨rfl, rfl⟩

/-- `drop_columns` = the projection on the positions whose name is not listed, in order -/
theorem drop_eq_project (r : Rel) (cols : List String) (db : Db) (env : Env) (hwf : Rel.Wf r db env) :
    evalPlan (dropColumns r cols).plan db env
      = (evalPlan r.plan db env).map
          (fun rows => rows.map (fun row => (keptFrom 0 cols r.names).map (fun i => row[i]?.getD .null))) := by
  unfold dropColumns
  simp only [evalPlan]
  cases h : evalPlan r.plan db env with
  | error e => rfl
  | ok rows =>
    have := evalProject_cols (keptFrom 0 cols r.names) r.names.length env rows (hwf rows h)
      (fun i hi => by have := keptFrom_lt cols r.names 0 i hi; omega)
    simpa [Except.map, bind, Except.bind] using this

/-- `with_column` under a new name extends every row by the expression's value -/
theorem with_column_appends (r : Rel) (name : String) (e : Expr) (db : Db) (env : Env) (hwf : Rel.Wf r db env)
    (hnew : r.names.contains name = false) :
    evalPlan (withColumn r name e).plan db env
      = (do let rows ← evalPlan r.plan db env
            rows.mapM (fun row => do pure (row ++ [← eval e row env]))) := by
  unfold withColumn
  simp only [hnew, Bool.false_eq_true, if_false, evalPlan]
  cases h : evalPlan r.plan db env with
  | error e => rfl
  | ok rows =>
    simp only [bind, Except.bind, evalProject]
    apply mapM_congr'
    intro row hrow
    have hlen := hwf rows h row hrow
    unfold evalExprs
    rw [List.mapM_append]
    have := evalExprs_idCols row env
    unfold evalExprs at this
    rw [← hlen, this]
    simp only [List.mapM_cons, List.mapM_nil, bind, Except.bind, pure, Except.pure]
    cases eval e row env <;> rfl

/-- `union_by_name` over inputs with the same column set = UNION ALL of the left input and the right
    input re-ordered (by name) to the left input's column order -/
theorem union_by_name_eq_reordered_union (a b : Rel) (db : Db) (env : Env) (hwf : Rel.Wf a db env)
    (hnodup : a.names.Nodup) (hsame : unionNames a.names b.names = a.names) :
    (unionByName a b).names = a.names
    ∧ evalPlan (unionByName a b).plan db env
        = evalPlan (.setop .union true a.plan (.project (pickByName b.names a.names) b.plan)) db env := by
  unfold unionByName
  simp only [hsame, Bool.false_eq_true, if_false, true_and, pickByName_self a.names hnodup]
  rw [evalPlan, project_idCols_plan a db env hwf, ← evalPlan]

/-- DISTINCT ON keeps exactly one row per key — the keys are the distinct keys in order of first
    appearance — and the row kept for a key is the FIRST row with that key in the (sorted) input -/
theorem distinct_on_spec (keyed : List (Row × Row)) :
    (firstByKey keyed).map (·.1) = dedup (keyed.map (·.1))
    ∧ ∀ k r, (k, r) ∈ firstByKey keyed →
        ∃ pre post, keyed = pre ++ (k, r) :: post ∧ ∀ kr ∈ pre, (kr.1 == k) = false :=
  ⟨firstByKey_keys keyed, firstByKey_first keyed⟩

section nonvacuity
private def ta : Rel := { names := ["a", "b"], plan := .values 2 [[.int 32 true 1, .null], [.int 32 true 2, .bool true]] }
private def tb : Rel := { names := ["b", "a"], plan := .values 2 [[.bool false, .int 32 true 7]] }
example : unionNames ta.names tb.names = ta.names := by decide
example : ta.names.Nodup := by decide
/-- the right input's columns are swapped into place by name -/
example : pickByName tb.names ta.names = [.col 1, .col 0] := by simp [pickByName, indexOf?, ta, tb]
example : (dropColumns ta ["a"]).names = ["b"] ∧ keptFrom 0 ["a"] ta.names = [1] := by decide
example : (withColumnRenamed ta "b" "z").names = ["a", "z"] := by decide
/-- a missing column is filled with NULL -/
example : pickByName ["a"] ["a", "c"] = [.col 0, .lit .null] := by simp [pickByName, indexOf?]
/-- DISTINCT ON really drops the later rows of a key -/
example : firstByKey [([.null], [.int 32 true 1]), ([.null], [.int 32 true 2]), ([.bool true], [.null])]
    = [([.null], [.int 32 true 1]), ([.bool true], [.null])] := by decide
end nonvacuity

end DfModel.Props.C48
