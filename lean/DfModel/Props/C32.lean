/-
  C32 — scalar function results do not depend on argument representation.

  The specification of `invoke_with_args` is `liftReps`: the row function applied to the LOGICAL
  rows.  The theorems say what every correct implementation must satisfy (and what the harness
  therefore checks on the real functions): invariance under re-encoding, one value per row,
  batch splitting, and the exact condition under which the dictionary "values only" fast path is
  sound.  Plus sanity laws of the reference definitions used in the differential comparison.
-/
import DfModel.Base.ScalarFns
namespace DfModel.Props.C32
open DfModel.ScalarFns

deriving instance DecidableEq for Except

/-! ## lifting laws -/

/-- **Representation invariance.** Two argument lists whose columns are logically equal give the
    same result — per row the same value, and the same failure. -/
theorem lift_representation_invariant (f : List Val → R) (n : Nat) (args args' : List Rep)
    (hlen : args.length = args'.length)
    (h : ∀ (i : Nat) (h1 : i < args.length) (h2 : i < args'.length),
      (args[i]).logical n = (args'[i]).logical n) :
    liftReps f n args = liftReps f n args' := by
  unfold liftReps
  congr 2
  apply List.ext_getElem
  · simp [hlen]
  · intro i h1 h2
    simp only [List.length_map] at h1 h2
    simp [h i h1 h2]

/-- a constant argument is the array that repeats it -/
theorem scalar_logical (n : Nat) (v : Val) :
    (Rep.scalar v).logical n = (Rep.arr (List.replicate n v)).logical n := by
  simp [Rep.logical]

/-- a window of a larger buffer is the array of its visible elements -/
theorem sliced_logical (n : Nat) (buf : List Val) (off : Nat) :
    (Rep.sliced buf off).logical n = (Rep.arr ((buf.drop off).take n)).logical n := by
  simp [Rep.logical, List.take_take]

/-- a dictionary-encoded column is the array of its decoded values -/
theorem dict_logical (n : Nat) (keys : List (Option Nat)) (values : List Val) :
    (Rep.dict keys values).logical n =
      (Rep.arr (keys.map fun k => match k with | none => Val.null | some j => values.getD j .null)).logical n := by
  simp only [Rep.logical, List.map_take]
  rfl

theorem liftRows_length (f : List Val → R) : ∀ (rows : List (List Val)) (vs : List Val),
    liftRows f rows = .ok vs → vs.length = rows.length
  | [], vs, h => by simp [liftRows] at h; subst h; rfl
  | r :: rs, vs, h => by
    simp only [liftRows] at h
    cases hf : f r with
    | error e => rw [hf] at h; simp at h
    | ok v =>
      cases hr : liftRows f rs with
      | error e => rw [hf, hr] at h; simp at h
      | ok ws =>
        rw [hf, hr] at h
        simp only [Except.ok.injEq] at h
        subst h
        simp [liftRows_length f rs ws hr]

/-- **One value per row**: a successful evaluation returns exactly `n` values. -/
theorem lift_length (f : List Val → R) (n : Nat) (args : List Rep) (vs : List Val)
    (h : liftReps f n args = .ok vs) : vs.length = n := by
  have := liftRows_length f _ vs h
  simpa [rowsOf] using this

/-- **Batch splitting**: evaluating a batch is evaluating its two halves and concatenating. -/
theorem lift_batch_split (f : List Val → R) (xs ys : List (List Val)) :
    liftRows f (xs ++ ys) =
      match liftRows f xs, liftRows f ys with
      | .ok a, .ok b => .ok (a ++ b)
      | .error e, _ => .error e
      | _, .error e => .error e := by
  induction xs with
  | nil =>
    simp only [List.nil_append, liftRows]
    cases liftRows f ys <;> rfl
  | cons r rs ih =>
    simp only [List.cons_append, liftRows, ih]
    cases f r <;> cases liftRows f rs <;> cases liftRows f ys <;> rfl

/-- **A batch whose rows each evaluate successfully on their own evaluates successfully with the
    same per-row values.** -/
theorem lift_rows_succeed (f : List Val → R) : ∀ (rows : List (List Val)),
    (∀ r ∈ rows, ∃ v, f r = .ok v) →
    ∃ vs, liftRows f rows = .ok vs ∧ vs.length = rows.length ∧
      ∀ (i : Nat) (h : i < rows.length), ∃ v, f rows[i] = .ok v ∧ vs[i]? = some v
  | [], _ => ⟨[], rfl, rfl, fun i h => by simp at h⟩
  | r :: rs, h => by
    obtain ⟨v, hv⟩ := h r (by simp)
    obtain ⟨vs, hvs, hl, hg⟩ := lift_rows_succeed f rs (fun r' hr' => h r' (by simp [hr']))
    refine ⟨v :: vs, by simp [liftRows, hv, hvs], by simp [hl], ?_⟩
    intro i hi
    cases i with
    | zero => exact ⟨v, hv, rfl⟩
    | succ j =>
      obtain ⟨w, hw1, hw2⟩ := hg j (by simpa using hi)
      exact ⟨w, by simpa using hw1, by simpa using hw2⟩

/-- and conversely a batch fails only if one of its rows fails on its own -/
theorem lift_rows_fail (f : List Val → R) : ∀ (rows : List (List Val)) (e : FErr),
    liftRows f rows = .error e → ∃ r ∈ rows, f r = .error e
  | [], e, h => by simp [liftRows] at h
  | r :: rs, e, h => by
    simp only [liftRows] at h
    cases hf : f r with
    | error e' =>
      rw [hf] at h
      simp only [Except.error.injEq] at h
      exact ⟨r, by simp, by rw [hf, h]⟩
    | ok v =>
      cases hr : liftRows f rs with
      | error e' =>
        rw [hf, hr] at h
        simp only [Except.error.injEq] at h
        obtain ⟨r', hm, hr'⟩ := lift_rows_fail f rs e' hr
        exact ⟨r', by simp [hm], by rw [hr', h]⟩
      | ok ws => rw [hf, hr] at h; simp at h

/-! ## the dictionary "values only" fast path -/

theorem liftRows_total (g : List Val → R) : ∀ (rows : List (List Val)),
    (∀ r ∈ rows, ∃ o, g r = .ok o) →
    ∃ outs, liftRows g rows = .ok outs ∧ outs.length = rows.length ∧
      ∀ (j : Nat) (hj : j < rows.length), g rows[j] = .ok (outs.getD j .null) := by
  intro rows h
  obtain ⟨vs, h1, h2, h3⟩ := lift_rows_succeed g rows h
  refine ⟨vs, h1, h2, ?_⟩
  intro j hj
  obtain ⟨v, hv1, hv2⟩ := h3 j hj
  rw [hv1]
  simp [List.getD, hv2]

/-- evaluating a unary function on the dictionary VALUES and gathering through the keys equals
    row-by-row evaluation of the decoded column, PROVIDED the function succeeds on every dictionary
    value (referenced or not) and on NULL, and all keys are in range. -/
theorem dict_values_only_eq (f : Val → R) (keys : List (Option Nat)) (values : List Val)
    (htot : ∀ v ∈ values, ∃ o, f v = .ok o) (nullOut : Val) (hnull : f .null = .ok nullOut)
    (hrange : ∀ k ∈ keys, ∀ j, k = some j → j < values.length) :
    dictValuesOnly f keys values =
      liftRows (fun r => f (r.headD .null))
        (keys.map fun k => [match k with | none => Val.null | some j => values.getD j .null]) := by
  unfold dictValuesOnly
  obtain ⟨outs, ho, hl, hg⟩ := liftRows_total (fun r => f (r.headD .null)) (values.map fun v => [v])
    (by
      intro r hr
      simp only [List.mem_map] at hr
      obtain ⟨v, hv, rfl⟩ := hr
      simpa using htot v hv)
  rw [ho]
  simp only [hnull]
  clear ho
  induction keys with
  | nil => rfl
  | cons k ks ih =>
    have ih' := ih (fun k' hk' => hrange k' (by simp [hk']))
    simp only [List.map_cons, liftRows]
    rw [← ih']
    cases k with
    | none => simp [hnull]
    | some j =>
      have hj : j < values.length := hrange (some j) (by simp) j rfl
      have := hg j (by simpa using hj)
      simp only [List.getElem_map, List.headD_cons] at this
      simp only [List.getD_eq_getElem?_getD] at this ⊢
      simp [List.getElem?_eq_getElem hj, this]

/-- the side condition is necessary: an UNREFERENCED dictionary value on which the function fails
    makes the values-only path fail although every row evaluates (model-level caveat; the harness
    builds dictionaries with unreferenced values for exactly this reason). -/
theorem dict_values_only_needs_total :
    dictValuesOnly (fun v => applyFn .chr [v]) [some 0] [.int 65, .int (-1)] = .error .exec
    ∧ liftRows (fun r => applyFn .chr [r.headD .null]) [[.int 65]] = .ok [.str [65]] := by
  constructor <;> decide

-- non-vacuity of the lifting laws: lpad with a constant length / sliced / dictionary-encoded string
example : liftReps (applyFn .lpad) 2 [.arr [.str [104, 105], .null], .scalar (.int 4), .scalar (.str [120, 121])]
    = .ok [.str [120, 121, 104, 105], .null] := by decide
example : liftReps (applyFn .lpad) 2 [.sliced [.int 9, .str [104, 105], .null] 1, .arr [.int 4, .int 4],
      .dict [some 1, some 1] [.str [], .str [120, 121]]]
    = .ok [.str [120, 121, 104, 105], .null] := by decide

/-! ## strictness and sanity laws of the reference definitions -/

/-- a NULL argument of a strict function gives NULL before any error can fire -/
theorem strict_null (f : Fn) (args : List Val) (hf : f ≠ .concat) (hn : f ≠ .nullif)
    (har : arityOk f args.length = true) (h : Val.null ∈ args) : applyFn f args = .ok .null := by
  have hany : args.any (· == Val.null) = true := by
    simp only [List.any_eq_true]
    exact ⟨.null, h, by simp⟩
  cases f <;> first | exact absurd rfl hf | exact absurd rfl hn | simp [applyFn, har, hany]

theorem concat_never_null (args : List Val) (v : Val) (h : concatFn args = .ok v) : v ≠ .null := by
  unfold concatFn at h
  split at h
  · cases h
  · split at h
    · cases h; simp
    · cases h

theorem cycleTake_length (fill : List Nat) (n : Nat) (h : fill ≠ []) : (cycleTake fill n).length = n := by
  simp [cycleTake, h]

/-- `lpad`/`rpad` return exactly `n` characters whenever `n > 0` and the fill string is not empty -/
theorem lpad_length (s fill : List Nat) (n : Int) (r : List Nat) (hn : 0 < n) (hf : fill ≠ [])
    (h : lpadFn s n fill = .ok r) : (r.length : Int) = n := by
  unfold lpadFn at h
  split at h
  · cases h
  · rw [if_neg (by omega)] at h
    simp only at h
    split at h
    · cases h
      rename_i hk
      simp only [List.length_take]
      omega
    · rw [if_neg (by simpa using hf)] at h
      cases h
      rename_i hk
      simp only [List.length_append, cycleTake_length _ _ hf]
      omega

theorem rpad_length (s fill : List Nat) (n : Int) (r : List Nat) (hn : 0 < n) (hf : fill ≠ [])
    (h : rpadFn s n fill = .ok r) : (r.length : Int) = n := by
  unfold rpadFn at h
  split at h
  · cases h
  · rw [if_neg (by omega)] at h
    simp only at h
    split at h
    · cases h
      rename_i hk
      simp only [List.length_take]
      omega
    · rw [if_neg (by simpa using hf)] at h
      cases h
      rename_i hk
      simp only [List.length_append, cycleTake_length _ _ hf]
      omega

/-- `left(s, n)` and `right(s, -n)` split the string at position `n` -/
theorem left_right_partition (s : List Nat) (n : Int) (hn : 0 < n) : leftFn s n ++ rightFn s (-n) = s := by
  unfold leftFn rightFn
  rw [if_pos (by omega), if_neg (by omega)]
  have : (-n).natAbs = n.toNat := by omega
  rw [this]
  exact List.take_append_drop _ _

theorem left_length_le (s : List Nat) (n : Int) : (leftFn s n).length ≤ s.length := by
  unfold leftFn; split <;> simp [List.length_take] <;> omega

theorem gcd_comm (x y : Int) : gcdFn x y = gcdFn y x := by
  unfold gcdFn; rw [Nat.gcd_comm]

/-- the result of `gcd` is non-negative and divides both arguments -/
theorem gcd_spec (x y : Int) (g : Int) (h : gcdFn x y = .ok (.int g)) :
    0 ≤ g ∧ g ∣ x ∧ g ∣ y := by
  unfold gcdFn at h
  simp only at h
  split at h
  · cases h
  · cases h
    refine ⟨by omega, ?_, ?_⟩
    · exact Int.ofNat_dvd_left.mpr (Nat.gcd_dvd_left _ _)
    · exact Int.ofNat_dvd_left.mpr (Nat.gcd_dvd_right _ _)

/-- the only inputs on which `gcd` fails are those whose gcd is 2^63 -/
theorem gcd_fails_iff (x y : Int) : gcdFn x y = .error .exec ↔ (Nat.gcd x.natAbs y.natAbs : Int) > i64Max := by
  unfold gcdFn
  simp only
  split <;> simp_all

theorem reverse_involutive (s : List Nat) :
    (applyFn .reverse [.str s]).bind (fun v => applyFn .reverse [v]) = .ok (.str s) := by
  simp [applyFn, arityOk, strictFn, Except.bind]

-- tests (labelled as such) of sharp edges, each checked against the real functions by the harness
example : applyFn .substr [.str [97, 98, 99], .int (-1), .int 3] = .ok (.str [97]) := by decide
example : applyFn .substr [.str [97], .int 1, .int (-1)] = .error .exec := by decide
example : applyFn .left [.str [97, 98, 99], .int (-1)] = .ok (.str [97, 98]) := by decide
example : applyFn .right [.str [97, 98, 99], .int (-1)] = .ok (.str [98, 99]) := by decide
example : applyFn .lpad [.str [97, 98, 99], .int (-1)] = .ok (.str []) := by decide
example : applyFn .gcd [.int i64Min, .int 0] = .error .exec := by decide
example : applyFn .gcd [.int i64Min, .int 6] = .ok (.int 2) := by decide
example : applyFn .lcm [.int i64Min, .int 0] = .ok (.int 0) := by decide
example : applyFn .factorial [.int 21] = .error .exec := by decide
example : applyFn .splitPart [.str [97, 44, 98], .str [44], .int (-1)] = .ok (.str [98]) := by decide
example : applyFn .strpos [.str [], .str []] = .ok (.int 1) := by decide
example : applyFn .concat [.null, .str [97], .null] = .ok (.str [97]) := by decide
example : applyFn .toHex [.int (-1)] = .ok (.str (List.replicate 16 102)) := by decide

end DfModel.Props.C32
